package main

import (
	"fmt"
	"os"
	"strings"

	"otelcheck/internal/core"
)

// dumpSSA prints the SSA (as built by the checker) of every repo function whose
// name contains substr. Development aid: otelcheck ssa <module> <substr> [repo]
func dumpSSA(args []string) int {
	if len(args) < 2 {
		fmt.Fprintln(os.Stderr, "usage: otelcheck ssa <root|cbp|obf> <substring> [repo]")
		return 2
	}
	repo := "/repo"
	if len(args) > 2 {
		repo = args[2]
	}
	p, err := core.Load(repo, args[0], "", nil)
	if err != nil {
		fmt.Fprintln(os.Stderr, err)
		return 2
	}
	for _, fn := range p.FuncsIn(core.InRepo) {
		if strings.Contains(fn.String(), args[1]) {
			fn.WriteTo(os.Stdout)
		}
	}
	return 0
}
