package main

import (
	"fmt"
	"go/token"
	"sort"
	"strings"

	"golang.org/x/tools/go/ssa"

	"otelcheck/internal/core"
)

// listEnums: development aid — prints every switch-like set of equality tests over a pdata enum.
func listEnums(args []string) int {
	p, err := core.Load("/repo", core.ModRoot, "", nil)
	if err != nil {
		fmt.Println(err)
		return 2
	}
	for _, fn := range p.FuncsIn(func(pp string) bool { return strings.HasPrefix(pp, core.RepoPath+"/pkg/otel") && !strings.Contains(pp, "assert") && !strings.Contains(pp, "benchmark") }) {
		by := map[ssa.Value][]int64{}
		core.EachInstr(fn, func(i ssa.Instruction) {
			b, ok := i.(*ssa.BinOp)
			if !ok || b.Op != token.EQL {
				return
			}
			tn := core.TypeName(b.X.Type())
			if !strings.HasSuffix(tn, "Type") || !strings.HasPrefix(core.TypePkgPath(b.X.Type()), core.PdataPath) {
				return
			}
			if k, ok := core.ConstInt(b.Y); ok {
				by[b.X] = append(by[b.X], k)
			}
		})
		for x, ks := range by {
			sort.Slice(ks, func(i, j int) bool { return ks[i] < ks[j] })
			fmt.Printf("%-40s %-90s %v\n", core.TypeName(x.Type()), core.FuncName(fn), ks)
		}
	}
	return 0
}
