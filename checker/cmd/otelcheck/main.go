// otelcheck decides structural necessary conditions of the properties in
// /verif/properties.jsonl from the type-checked source of /repo (static
// analysis only; nothing from /repo is executed).
package main

import (
	"encoding/json"
	"flag"
	"fmt"
	"os"
	"strconv"

	"otelcheck/internal/core"
	"otelcheck/internal/rules"
)

func main() {
	if len(os.Args) > 1 && os.Args[1] == "replay" {
		os.Exit(replay(os.Args[2:]))
	}
	if len(os.Args) > 1 && os.Args[1] == "enums" {
		os.Exit(listEnums(os.Args[2:]))
	}
	if len(os.Args) > 1 && os.Args[1] == "ssa" {
		os.Exit(dumpSSA(os.Args[2:]))
	}
	property := flag.String("property", "", "property id (C01..C18)")
	tier := flag.String("tier", "", "quick or thorough (default: $VERIF_TIER or quick)")
	repo := flag.String("repo", "/repo", "repository root to analyse")
	verif := flag.String("verif", "/verif", "verification directory (evidence, known findings)")
	list := flag.Bool("list", false, "list properties and rules")
	flag.Parse()
	if *list {
		for _, p := range rules.Properties() {
			for _, r := range rules.For(p) {
				fmt.Printf("%s %s floor=%d thorough-only=%v canary=%v  %s\n", p, r.ID, r.Floor, r.Thorough, r.Canary != "", r.Title)
			}
		}
		return
	}
	if *tier == "" {
		*tier = os.Getenv("VERIF_TIER")
	}
	if *tier != "thorough" {
		*tier = "quick"
	}
	seed := 0
	if s := os.Getenv("VERIF_SEED"); s != "" {
		seed, _ = strconv.Atoi(s)
	}
	rs := rules.For(*property)
	if len(rs) == 0 {
		fmt.Fprintf(os.Stderr, "otelcheck: no rules for property %q\n", *property)
		os.Exit(2)
	}
	c := core.NewCtx(*property, *tier, *repo, *verif, seed, rs)
	os.Exit(c.Run())
}

func replay(args []string) int {
	if len(args) < 1 {
		fmt.Fprintln(os.Stderr, "usage: otelcheck replay <replay.json> [-repo dir]")
		return 2
	}
	b, err := os.ReadFile(args[0])
	if err != nil {
		fmt.Fprintln(os.Stderr, err)
		return 2
	}
	var r struct{ Property, Rule, Key, Tier string }
	if err := json.Unmarshal(b, &r); err != nil {
		fmt.Fprintln(os.Stderr, err)
		return 2
	}
	repo := "/repo"
	if len(args) >= 3 && args[1] == "-repo" {
		repo = args[2]
	}
	var rs []*core.Rule
	for _, x := range rules.For(r.Property) {
		if x.ID == r.Rule {
			x.Thorough = false
			rs = append(rs, x)
		}
	}
	if len(rs) == 0 {
		fmt.Fprintf(os.Stderr, "otelcheck: unknown rule %s\n", r.Rule)
		return 2
	}
	tmp, _ := os.MkdirTemp("", "otelcheck-replay")
	defer os.RemoveAll(tmp)
	if kf, err := os.ReadFile("/verif/KNOWN_FINDINGS.txt"); err == nil {
		os.WriteFile(tmp+"/KNOWN_FINDINGS.txt", kf, 0o644)
	}
	c := core.NewCtx(r.Property, "quick", repo, tmp, 0, rs)
	c.Run()
	for _, o := range c.Obs {
		if o.Key == r.Key {
			fmt.Printf("replay: %s %s: %s: %s\n", o.Pos, o.Rule, o.St, o.Msg)
			if o.Status == core.Violated || o.Status == core.Undecided {
				fmt.Printf("VIOLATION property=%s replay=%s\n", r.Property, args[0])
				return 1
			}
			return 0
		}
	}
	fmt.Printf("replay: obligation %s no longer exists in the analysed tree\n", r.Key)
	return 0
}
