package core

import (
	"bufio"
	"crypto/sha1"
	"encoding/hex"
	"encoding/json"
	"fmt"
	"os"
	"path/filepath"
	"runtime/debug"
	"sort"
	"strings"
	"time"
)

// Status of an obligation.
type Status int

const (
	Discharged Status = iota
	Violated
	Undecided
	Info // listed in evidence only; never affects the verdict
)

func (s Status) String() string {
	return [...]string{"discharged", "violated", "undecided", "info"}[s]
}

// Obligation is one rule instance bound to a construct of the program.
type Obligation struct {
	Rule   string `json:"rule"`
	Key    string `json:"key"`
	Pos    string `json:"pos"`
	Fn     string `json:"fn,omitempty"`
	Status Status `json:"-"`
	St     string `json:"status"`
	Msg    string `json:"msg"`
	Canary bool   `json:"canary,omitempty"`
	// Covers: the number of uses this one construct stands for (a construct inside a helper
	// with k call sites covers the k uses the hand-confirmed floor counted); 0 means 1.
	Covers int `json:"covers,omitempty"`
}

// Rule is a registered rule of one property.
type Rule struct {
	ID       string // "C18.1"
	Title    string
	Mod      string         // module the rule analyses
	Floor    int            // minimum number of non-canary instances (discharged+violated+undecided)
	FloorBy  map[string]int // per-property floor (signal-scoped rules); overrides Floor
	Thorough bool           // runs only in the thorough tier
	Canary   string         // canary source ("" = anchor-specific rule, the real code is its instance)
	Run      func(c *Ctx, p *Prog)
}

// Ctx is the state of one otelcheck run for one property.
type Ctx struct {
	Property string
	Tier     string
	Repo     string
	Verif    string
	Seed     int
	Rules    []*Rule
	Obs      []*Obligation
	progs    map[string]*Prog
	cur      *Rule
	start    time.Time
	Notes    []string // free-text facts recorded for evidence
	Stats    map[string]int
	loadErr  []string
	tags     string // build tags of the current pass (thorough runs a second pass under -tags=assert)
}

func NewCtx(property, tier, repo, verif string, seed int, rules []*Rule) *Ctx {
	return &Ctx{Property: property, Tier: tier, Repo: repo, Verif: verif, Seed: seed, Rules: rules,
		progs: map[string]*Prog{}, start: time.Now(), Stats: map[string]int{}}
}

// CanaryName is the overlay directory of a rule's canary.
func CanaryName(ruleID string) string {
	return strings.ToLower(strings.NewReplacer(".", "_", "-", "_").Replace(ruleID))
}

func (c *Ctx) activeRules() []*Rule {
	var out []*Rule
	for _, r := range c.Rules {
		if r.Thorough && c.Tier != "thorough" {
			continue
		}
		out = append(out, r)
	}
	return out
}

func (c *Ctx) prog(mod string) (*Prog, error) {
	if p, ok := c.progs[mod]; ok {
		if p == nil {
			return nil, fmt.Errorf("module %s failed to load", mod)
		}
		return p, nil
	}
	var cans []Canary
	for _, r := range c.activeRules() {
		if r.Mod == mod && r.Canary != "" {
			cans = append(cans, Canary{Name: CanaryName(r.ID), Src: []byte(r.Canary)})
		}
	}
	tags := os.Getenv("OTELCHECK_TAGS")
	if c.tags != "" {
		tags = c.tags
	}
	p, err := Load(c.Repo, mod, tags, cans)
	if err != nil {
		c.progs[mod] = nil
		c.loadErr = append(c.loadErr, err.Error())
		return nil, err
	}
	c.progs[mod] = p
	return p, nil
}

// InScope tells a rule whether a package path belongs to its analysis scope:
// the repository's production packages plus the rule's own canary.
func (c *Ctx) InScope(path string) bool {
	if IsCanaryPath(path) {
		return c.cur != nil && strings.HasSuffix(path, "/internal/zzverifcanary/"+CanaryName(c.cur.ID))
	}
	return InRepo(path)
}

func (c *Ctx) add(st Status, key, pos, fn, msg string) *Obligation {
	rule := c.cur.ID
	o := &Obligation{Rule: rule, Key: rule + "|" + key, Pos: pos, Fn: fn, Status: st, St: st.String(), Msg: msg}
	if strings.Contains(key, "zzverifcanary") || strings.HasPrefix(pos, "canary:") || strings.Contains(fn, "zzverifcanary") {
		o.Canary = true
	}
	if !o.Canary && Scope != nil && !Scope(c.Property, pos, fn) {
		// the construct belongs to another signal's encoder/decoder: not evidence for (or against) this property
		c.Stats["out_of_scope_constructs_skipped"]++
		return o
	}
	c.Obs = append(c.Obs, o)
	return o
}

// Scope, when set, tells whether a construct at pos / in function fn is relevant to the property.
var Scope func(property, pos, fn string) bool

// RuleID is the id of the rule being evaluated.
func (c *Ctx) RuleID() string {
	if c.cur == nil {
		return ""
	}
	return c.cur.ID
}

// OK records a discharged obligation.
func (c *Ctx) OK(key, pos, fn, msg string) { c.add(Discharged, key, pos, fn, msg) }

// Viol records a violated obligation.
func (c *Ctx) Viol(key, pos, fn, msg string) { c.add(Violated, key, pos, fn, msg) }

// Undecided records an obligation the rule could not decide (fails the check).
func (c *Ctx) Undecided(key, pos, fn, msg string) { c.add(Undecided, key, pos, fn, msg) }

// InfoOb records an informational fact (evidence only).
func (c *Ctx) InfoOb(key, pos, fn, msg string) { c.add(Info, key, pos, fn, msg) }

// LastCovers marks the obligation recorded last as standing for k uses (see Obligation.Covers).
func (c *Ctx) LastCovers(k int) {
	if len(c.Obs) > 0 && k > 1 {
		c.Obs[len(c.Obs)-1].Covers = k
	}
}

// Check records Discharged when ok, Violated otherwise.
func (c *Ctx) Check(ok bool, key, pos, fn, okMsg, badMsg string) {
	if ok {
		c.OK(key, pos, fn, okMsg)
	} else {
		c.Viol(key, pos, fn, badMsg)
	}
}

func (c *Ctx) Note(format string, a ...any) { c.Notes = append(c.Notes, fmt.Sprintf(format, a...)) }

type knownEntry struct {
	kind, property, key, text string
}

func loadKnown(path string) ([]knownEntry, error) {
	f, err := os.Open(path)
	if err != nil {
		if os.IsNotExist(err) {
			return nil, nil
		}
		return nil, err
	}
	defer f.Close()
	var out []knownEntry
	sc := bufio.NewScanner(f)
	sc.Buffer(make([]byte, 1<<20), 1<<20)
	for sc.Scan() {
		line := strings.TrimSpace(sc.Text())
		if line == "" || strings.HasPrefix(line, "#") {
			continue
		}
		var e knownEntry
		switch {
		case strings.HasPrefix(line, "known:"):
			e.kind = "known"
			line = strings.TrimSpace(line[len("known:"):])
		case strings.HasPrefix(line, "fixed:"):
			e.kind = "fixed"
			line = strings.TrimSpace(line[len("fixed:"):])
		default:
			return nil, fmt.Errorf("KNOWN_FINDINGS: bad line %q", line)
		}
		fields := strings.Fields(line)
		rest := line
		for _, f := range fields {
			if strings.HasPrefix(f, "property=") {
				e.property = f[len("property="):]
				rest = strings.TrimSpace(strings.Replace(rest, f, "", 1))
			} else if strings.HasPrefix(f, "key=") && e.kind == "known" {
				e.key = f[len("key="):]
				rest = strings.TrimSpace(strings.Replace(rest, f, "", 1))
			}
		}
		e.text = rest
		out = append(out, e)
	}
	return out, sc.Err()
}

func keyHash(k string) string {
	h := sha1.Sum([]byte(k))
	return hex.EncodeToString(h[:])[:16]
}

// Run executes all active rules, prints the report, writes evidence and replay
// files and returns the process exit code.
func (c *Ctx) Run() int {
	canaryBad := []string{}
	ruleCount := map[string]int{}
	for _, r := range c.activeRules() {
		c.cur = r
		func() {
			defer func() {
				if e := recover(); e != nil {
					if os.Getenv("OTELCHECK_DEBUG") != "" {
						fmt.Fprintf(os.Stderr, "panic in %s: %v\n%s\n", r.ID, e, debug.Stack())
					}
					c.Undecided("internal", "?", "", fmt.Sprintf("checker panic in rule %s: %v", r.ID, e))
				}
			}()
			p, err := c.prog(r.Mod)
			if err != nil {
				c.Undecided("load", "?", "", "cannot analyse: "+err.Error())
				return
			}
			r.Run(c, p)
		}()
	}
	// thorough: second pass over the other build configuration the repository has (-tags=assert);
	// an obligation whose verdict differs under the tag is kept as an additional obligation
	if c.Tier == "thorough" && os.Getenv("OTELCHECK_TAGS") == "" {
		first := map[string]Status{}
		for _, o := range c.Obs {
			first[o.Key] = o.Status
		}
		nFirst := len(c.Obs)
		firstProgs := c.progs
		c.tags = "assert"
		c.progs = map[string]*Prog{}
		for _, r := range c.activeRules() {
			c.cur = r
			func() {
				defer func() {
					if e := recover(); e != nil {
						c.Undecided("internal|tags=assert", "?", "", fmt.Sprintf("checker panic in rule %s under -tags=assert: %v", r.ID, e))
					}
				}()
				p, err := c.prog(r.Mod)
				if err != nil {
					c.Undecided("load|tags=assert", "?", "", "cannot analyse under -tags=assert: "+err.Error())
					return
				}
				r.Run(c, p)
			}()
		}
		second := c.Obs[nFirst:]
		c.Obs = c.Obs[:nFirst]
		same, differ := 0, 0
		for _, o := range second {
			if st, ok := first[o.Key]; ok && st == o.Status {
				same++
				continue
			}
			differ++
			o.Key += "|tags=assert"
			o.Msg = "[under -tags=assert] " + o.Msg
			c.Obs = append(c.Obs, o)
		}
		c.Stats["tags=assert pass: obligations with the same verdict"] = same
		c.Stats["tags=assert pass: obligations that differ"] = differ
		c.Notes = append(c.Notes, "thorough tier: every rule was evaluated a second time on the module loaded with -tags=assert (the only build tag the repository defines)")
		c.tags = ""
		c.progs = firstProgs
	}
	c.cur = nil
	// Floors and canaries.
	for _, r := range c.activeRules() {
		n, cb, cg := 0, 0, 0
		cbOK, cgOK := true, true
		for _, o := range c.Obs {
			if o.Rule != r.ID || o.Status == Info {
				continue
			}
			if o.Canary {
				if strings.Contains(o.Fn, "Bad") || strings.Contains(o.Key, "Bad") {
					cb++
					if o.Status != Violated {
						cbOK = false
					}
				} else if strings.Contains(o.Fn, "Good") || strings.Contains(o.Key, "Good") {
					cg++
					if o.Status != Discharged {
						cgOK = false
					}
				}
				continue
			}
			n++
			if o.Covers > 1 {
				n += o.Covers - 1
			}
		}
		ruleCount[r.ID] = n
		floor := r.Floor
		if f, ok := r.FloorBy[c.Property]; ok {
			floor = f
		}
		if n < floor {
			c.cur = r
			c.Undecided("floor", "?", "", fmt.Sprintf("rule %s matched %d instances, fewer than the %d confirmed by hand: an anchor no longer resolves", r.ID, n, floor))
			c.cur = nil
		}
		if r.Canary != "" {
			if cb == 0 || cg == 0 || !cbOK || !cgOK {
				canaryBad = append(canaryBad, fmt.Sprintf("%s(bad=%d ok=%v good=%d ok=%v)", r.ID, cb, cbOK, cg, cgOK))
				c.cur = r
				c.Undecided("canary", "?", "", fmt.Sprintf("rule %s: canary verdicts wrong (violating instances %d all-violated=%v, conforming instances %d all-discharged=%v): the rule is not working", r.ID, cb, cbOK, cg, cgOK))
				c.cur = nil
			}
		}
	}
	known, kerr := loadKnown(filepath.Join(c.Verif, "KNOWN_FINDINGS.txt"))
	if kerr != nil {
		fmt.Println("otelcheck:", kerr)
		return 2
	}
	knownKeys := map[string]knownEntry{}
	for _, k := range known {
		if k.kind == "known" && k.property == c.Property {
			knownKeys[k.key] = k
		}
	}
	// Report.
	sort.SliceStable(c.Obs, func(i, j int) bool {
		if c.Obs[i].Rule != c.Obs[j].Rule {
			return c.Obs[i].Rule < c.Obs[j].Rule
		}
		return c.Obs[i].Key < c.Obs[j].Key
	})
	replayDir := filepath.Join(c.Verif, "evidence", "replay", c.Property)
	os.RemoveAll(replayDir)
	nViol, nKnown, nUnd, nDis, nTotal, nInfo := 0, 0, 0, 0, 0, 0
	distinct := map[string]bool{}
	seenKnown := map[string]bool{}
	exit := 0
	for _, o := range c.Obs {
		if o.Canary {
			continue
		}
		if o.Status == Info {
			nInfo++
			continue
		}
		nTotal++
		distinct[o.Key] = true
		switch o.Status {
		case Discharged:
			nDis++
		case Violated, Undecided:
			if k, ok := knownKeys[o.Key]; ok && o.Status == Violated {
				nKnown++
				if !seenKnown[o.Key] {
					fmt.Printf("KNOWN-FINDING: property=%s %s: %s [%s]\n", c.Property, o.Pos, k.text, o.Key)
					seenKnown[o.Key] = true
				}
				continue
			}
			if o.Status == Violated {
				nViol++
			} else {
				nUnd++
			}
			os.MkdirAll(replayDir, 0o755)
			rp := filepath.Join(replayDir, keyHash(o.Key)+".json")
			b, _ := json.MarshalIndent(map[string]any{"property": c.Property, "rule": o.Rule, "key": o.Key, "pos": o.Pos, "fn": o.Fn, "status": o.St, "msg": o.Msg, "tier": c.Tier}, "", " ")
			os.WriteFile(rp, b, 0o644)
			tag := o.Rule
			if o.Status == Undecided {
				tag += " (undecided)"
			}
			fmt.Printf("%s: %s: %s\n  key: %s\n", o.Pos, tag, o.Msg, o.Key)
			fmt.Printf("VIOLATION property=%s replay=%s\n", c.Property, rp)
			exit = 1
		}
	}
	for k := range knownKeys {
		if !seenKnown[k] {
			fmt.Printf("note: known finding no longer reported (key=%s); consider recording it as fixed\n", k)
		}
	}
	// Evidence.
	type ruleEv struct {
		Rule       string `json:"rule"`
		Title      string `json:"title"`
		Instances  int    `json:"instances"`
		Floor      int    `json:"floor"`
		Discharged int    `json:"discharged"`
		Violated   int    `json:"violated"`
		Undecided  int    `json:"undecided"`
		Info       int    `json:"info"`
		Canary     string `json:"canary"`
	}
	var revs []ruleEv
	for _, r := range c.activeRules() {
		fl := r.Floor
		if f, ok := r.FloorBy[c.Property]; ok {
			fl = f
		}
		ev := ruleEv{Rule: r.ID, Title: r.Title, Floor: fl, Instances: ruleCount[r.ID], Canary: "none (anchor-specific rule; the anchored code is the instance)"}
		cb, cg := 0, 0
		for _, o := range c.Obs {
			if o.Rule != r.ID {
				continue
			}
			if o.Canary {
				if o.Status == Violated {
					cb++
				} else if o.Status == Discharged {
					cg++
				}
				continue
			}
			switch o.Status {
			case Discharged:
				ev.Discharged++
			case Violated:
				ev.Violated++
			case Undecided:
				ev.Undecided++
			case Info:
				ev.Info++
			}
		}
		if r.Canary != "" {
			ev.Canary = fmt.Sprintf("violating instances flagged=%d, conforming instances passed=%d", cb, cg)
		}
		revs = append(revs, ev)
	}
	var samples []any
	perRule := map[string]int{}
	for _, o := range c.Obs {
		if o.Canary {
			continue
		}
		lim := 3
		if o.Status == Violated || o.Status == Undecided {
			lim = 50
		}
		if perRule[o.Rule+o.St] >= lim {
			continue
		}
		perRule[o.Rule+o.St]++
		samples = append(samples, o)
	}
	mods, fns, pkgs := []string{}, 0, 0
	for name, p := range c.progs {
		if p == nil {
			continue
		}
		mods = append(mods, fmt.Sprintf("%s(%d packages loaded, %.1fs)", name, len(p.ByPath), p.LoadS))
		for pth := range p.ByPath {
			if InRepo(pth) && !IsCanaryPath(pth) {
				pkgs++
			}
		}
		for fn := range p.AllFns {
			if fn.Blocks != nil && InRepo(FnPkgPath(fn)) {
				fns++
			}
		}
	}
	sort.Strings(mods)
	expl := propertyExplanations[c.Property]
	ev := map[string]any{
		"property_id": c.Property,
		"tier":        c.Tier,
		"seed":        c.Seed,
		"level":       "other",
		"wall_s":      time.Since(c.start).Seconds(),
		"violations":  nViol + nUnd,
		"assumptions": propertyAssumptions[c.Property],
		"coverage": map[string]any{
			"explanation":             expl,
			"obligations":             nTotal,
			"discharged":              nDis,
			"violated_unlisted":       nViol,
			"known_findings_matched":  nKnown,
			"undecided":               nUnd,
			"informational":           nInfo,
			"evaluations":             nTotal,
			"distinct_nontrivial":     len(distinct),
			"rule":                    "one obligation per (rule, program construct) discovered in /repo's type-checked source on this run; distinct = distinct obligation keys; every obligation is non-trivial in that it binds a rule to a construct that exists in the code (canary instances are not counted)",
			"rules":                   revs,
			"samples":                 samples,
			"modules":                 mods,
			"repo_packages_analysed":  pkgs,
			"repo_functions_analysed": fns,
			"notes":                   c.Notes,
			"stats":                   c.Stats,
			"canary_failures":         canaryBad,
			"anchor_file_audit":       c.audit(),
			"exhaustive":              false,
			"checker_cmd":             fmt.Sprintf("/verif/bin/otelcheck -property %s -tier %s", c.Property, c.Tier),
			"trusted_base":            []string{"go/types, go/ssa and go/packages of golang.org/x/tools v0.29.0", "the rule implementations under /verif/checker", "documented behaviour of arrow-go, pdata and collector APIs named in the rules"},
		},
	}
	os.MkdirAll(filepath.Join(c.Verif, "evidence"), 0o755)
	b, _ := json.MarshalIndent(ev, "", " ")
	if err := os.WriteFile(filepath.Join(c.Verif, "evidence", c.Property+".json"), b, 0o644); err != nil {
		fmt.Println("otelcheck: cannot write evidence:", err)
		return 2
	}
	fmt.Printf("otelcheck %s tier=%s: %d obligations, %d discharged, %d violated, %d known, %d undecided, %d info (%.1fs)\n",
		c.Property, c.Tier, nTotal, nDis, nViol, nKnown, nUnd, nInfo, time.Since(c.start).Seconds())
	return exit
}

var propertyExplanations = map[string]string{}
var propertyAssumptions = map[string][]string{}

// Describe registers the evidence explanation and assumptions of a property.
func Describe(property, explanation string, assumptions ...string) {
	propertyExplanations[property] = explanation
	propertyAssumptions[property] = assumptions
}

// audit reports, for the files the property names as anchors, how many of the
// repository functions declared there host at least one obligation of this run
// (position inside the function's extent, or named as the obligation's
// function). Functions that host none are listed: they are not evidence of a
// violation, they are what the rules of this property did not look at.
func (c *Ctx) audit() map[string]any {
	out := map[string]any{}
	if dump := os.Getenv("OTELCHECK_DUMP_OBS"); dump != "" {
		// development aid: every obligation of the run and every repository function with its extent
		if f, err := os.OpenFile(dump, os.O_APPEND|os.O_CREATE|os.O_WRONLY, 0o644); err == nil {
			enc := json.NewEncoder(f)
			for _, o := range c.Obs {
				if !o.Canary {
					enc.Encode(map[string]any{"prop": c.Property, "rule": o.Rule, "key": o.Key, "pos": o.Pos, "fn": o.Fn, "st": o.Status.String()})
				}
			}
			for _, p := range c.progs {
				if p == nil {
					continue
				}
				for fn := range p.AllFns {
					if fn.Blocks == nil || fn.Synthetic != "" || fn.Parent() != nil || fn.Syntax() == nil || !InRepo(FnPkgPath(fn)) || IsCanaryPath(FnPkgPath(fn)) {
						continue
					}
					a := p.Fset.Position(fn.Syntax().Pos())
					b := p.Fset.Position(fn.Syntax().End())
					enc.Encode(map[string]any{"prop": c.Property, "func": FuncName(fn), "file": strings.TrimPrefix(a.Filename, c.Repo+"/"), "from": a.Line, "to": b.Line})
				}
			}
			f.Close()
		}
	}
	data, err := os.ReadFile(filepath.Join(c.Verif, "properties.jsonl"))
	if err != nil {
		data, err = os.ReadFile("/verif/properties.jsonl")
	}
	if err != nil {
		out["error"] = "properties.jsonl not readable"
		return out
	}
	files := map[string]bool{}
	for _, line := range strings.Split(string(data), "\n") {
		var rec struct {
			ID      string `json:"id"`
			Anchors struct {
				Files []string `json:"files"`
			} `json:"anchors"`
		}
		if json.Unmarshal([]byte(line), &rec) == nil && rec.ID == c.Property {
			for _, f := range rec.Anchors.Files {
				files[f] = true
			}
		}
	}
	type ext struct {
		name     string
		file     string
		from, to int
	}
	var fns []ext
	for _, p := range c.progs {
		if p == nil {
			continue
		}
		for fn := range p.AllFns {
			if fn.Blocks == nil || fn.Synthetic != "" || fn.Parent() != nil || fn.Syntax() == nil || !InRepo(FnPkgPath(fn)) || IsCanaryPath(FnPkgPath(fn)) {
				continue
			}
			a := p.Fset.Position(fn.Syntax().Pos())
			b := p.Fset.Position(fn.Syntax().End())
			rel := strings.TrimPrefix(a.Filename, c.Repo+"/")
			if !files[rel] {
				continue
			}
			fns = append(fns, ext{FuncName(fn), rel, a.Line, b.Line})
		}
	}
	sort.Slice(fns, func(i, j int) bool { return fns[i].file+fns[i].name < fns[j].file+fns[j].name })
	touched := 0
	var untouched []string
	for _, f := range fns {
		hit := false
		for _, o := range c.Obs {
			if o.Canary {
				continue
			}
			if strings.Contains(o.Fn, f.name) || strings.Contains(o.Key, f.name) {
				hit = true
				break
			}
			if i := strings.LastIndex(o.Pos, ":"); i > 0 && o.Pos[:i] == f.file {
				var ln int
				fmt.Sscan(o.Pos[i+1:], &ln)
				if ln >= f.from && ln <= f.to {
					hit = true
					break
				}
			}
		}
		if hit {
			touched++
		} else {
			untouched = append(untouched, f.file+": "+f.name)
		}
	}
	out["anchor_files"] = len(files)
	out["functions_declared_in_anchor_files"] = len(fns)
	out["functions_hosting_an_obligation"] = touched
	if len(untouched) > 60 {
		untouched = append(untouched[:60], fmt.Sprintf("… %d more", len(untouched)-60))
	}
	out["functions_hosting_none"] = untouched
	out["note"] = "a function hosts an obligation when an obligation's position lies inside it or names it; call-graph rules (reachability, effect analysis, error liveness) cover many functions through one obligation per call site, so 'hosting none' overstates what was not analysed"
	return out
}
