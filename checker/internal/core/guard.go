package core

import (
	"fmt"
	"go/ast"
	"go/constant"
	"go/token"
	"go/types"

	"golang.org/x/tools/go/ast/astutil"
	"golang.org/x/tools/go/packages"
)

// Engine G (DESIGN 2.7): the syntactic path condition of a statement is
// collected from the enclosing if/for statements and preceding early exits, and
// evaluated as a boolean formula over a small finite domain of its terms. Terms
// are identified by the types.Object they denote (role table supplied by the
// rule), never by spelling.

// Cond is one conjunct of a path condition.
type Cond struct {
	Expr ast.Expr
	Neg  bool
	// FromExit: the conjunct comes from an earlier `if c { return }` of an enclosing block, not from a
	// condition enclosing the statement. Rules may drop such a conjunct when it speaks about terms they
	// do not model (it restricts the paths considered, it does not change the guard being checked).
	FromExit bool
}

// PathCond computes the path condition of the innermost statement containing
// pos inside function body fn. complex=true when control flow that the
// collector does not model (goto, labelled break/continue out of the region,
// switch/select arms) lies on the way — the caller must then answer undecided.
func PathCond(file *ast.File, body *ast.BlockStmt, pos token.Pos) (conds []Cond, complex bool) {
	conds, complex = pathCond(file, body, pos)
	var out []Cond
	for _, c := range conds {
		out = append(out, splitCond(c)...)
	}
	return out, complex
}

// splitCond flattens top-level conjunctions: a&&b → a, b ; ¬(a||b) → ¬a, ¬b.
func splitCond(c Cond) []Cond {
	e := c.Expr
	for {
		p, ok := e.(*ast.ParenExpr)
		if !ok {
			break
		}
		e = p.X
	}
	if u, ok := e.(*ast.UnaryExpr); ok && u.Op == token.NOT {
		return splitCond(Cond{Expr: u.X, Neg: !c.Neg, FromExit: c.FromExit})
	}
	if b, ok := e.(*ast.BinaryExpr); ok {
		if (b.Op == token.LAND && !c.Neg) || (b.Op == token.LOR && c.Neg) {
			return append(splitCond(Cond{Expr: b.X, Neg: c.Neg, FromExit: c.FromExit}), splitCond(Cond{Expr: b.Y, Neg: c.Neg, FromExit: c.FromExit})...)
		}
	}
	return []Cond{{Expr: e, Neg: c.Neg, FromExit: c.FromExit}}
}

func pathCond(file *ast.File, body *ast.BlockStmt, pos token.Pos) (conds []Cond, complex bool) {
	path, _ := astutil.PathEnclosingInterval(file, pos, pos)
	return pathCondFrom(path, nil, body)
}

// condKey: a textual key of a conjunct (expression text and polarity).
func condKey(c Cond) string {
	e := c.Expr
	for {
		p, ok := e.(*ast.ParenExpr)
		if !ok {
			break
		}
		e = p.X
	}
	neg := c.Neg
	if u, ok := e.(*ast.UnaryExpr); ok && u.Op == token.NOT {
		e, neg = u.X, !neg
	}
	k := types.ExprString(e)
	if neg {
		return "!" + k
	}
	return k
}

// pathCondFrom walks the enclosing nodes path (innermost first); first is the node below path[0].
func pathCondFrom(path []ast.Node, first ast.Node, body *ast.BlockStmt) (conds []Cond, complex bool) {
	// path[0] is innermost.
	for i, n := range path {
		var child ast.Node
		if i > 0 {
			child = path[i-1]
		} else {
			child = first
		}
		switch s := n.(type) {
		case *ast.BlockStmt:
			if child != nil {
				c2, cx := precedingExits(s.List, child)
				conds = append(conds, c2...)
				complex = complex || cx
			}
			if s == body {
				return conds, complex
			}
		case *ast.IfStmt:
			if child == ast.Node(s.Body) {
				conds = append(conds, Cond{Expr: s.Cond})
			} else if s.Else != nil && child == ast.Node(s.Else) {
				conds = append(conds, Cond{Expr: s.Cond, Neg: true})
			}
		case *ast.ForStmt:
			if child == ast.Node(s.Body) && s.Cond != nil {
				conds = append(conds, Cond{Expr: s.Cond})
			}
			// do-while: `if !C { return }; for { S; if !C { break } }`. What was established before the loop holds in
			// the first iteration only; in the later ones holds what the latch (the break test that ends the body)
			// lets through. Of the conditions gathered outside the loop only those the latch re-establishes are kept.
			if child == ast.Node(s.Body) && s.Cond == nil && s.Body != nil && len(s.Body.List) > 0 {
				if latch, ok := s.Body.List[len(s.Body.List)-1].(*ast.IfStmt); ok && latch.Else == nil && latch.Init == nil && terminates(latch.Body) {
					keep := map[string]bool{}
					for _, lc := range splitCond(Cond{Expr: latch.Cond, Neg: true}) {
						keep[condKey(lc)] = true
					}
					inner := len(conds)
					outer, cx := pathCondFrom(path[i+1:], n, body)
					complex = complex || cx
					conds = conds[:inner]
					for _, oc := range outer {
						for _, part := range splitCond(oc) {
							if keep[condKey(part)] {
								conds = append(conds, part)
							}
						}
					}
					return conds, complex
				}
			}
		case *ast.CommClause:
			if child != nil && child != ast.Node(s.Comm) {
				c2, cx := precedingExits(s.Body, child)
				conds = append(conds, c2...)
				complex = complex || cx
			}
		case *ast.CaseClause:
			complex = true
		case *ast.FuncLit, *ast.FuncDecl:
			// reached a function boundary that is not `body`
			return conds, true
		}
	}
	return conds, true
}

// precedingExits adds ¬c for every `if c { …terminates… }` statement that
// precedes `upto` in block.
func precedingExits(list []ast.Stmt, upto ast.Node) (conds []Cond, complex bool) {
	for _, st := range list {
		if st == upto || (st.Pos() <= upto.Pos() && upto.End() <= st.End()) {
			break
		}
		switch s := st.(type) {
		case *ast.IfStmt:
			if terminates(s.Body) && s.Else == nil {
				conds = append(conds, Cond{Expr: s.Cond, Neg: true, FromExit: true})
				continue
			}
			// nested form: `if a { if b { return } }` leaves exactly when a ∧ b
			if e, ok := nestedExitCond(s); ok {
				conds = append(conds, Cond{Expr: e, Neg: true, FromExit: true})
				continue
			}
			if containsJump(s) {
				complex = true
			}
		case *ast.ForStmt, *ast.RangeStmt, *ast.SwitchStmt, *ast.TypeSwitchStmt, *ast.SelectStmt, *ast.BlockStmt, *ast.LabeledStmt:
			if containsJump(s) {
				complex = true
			}
		case *ast.ReturnStmt, *ast.BranchStmt:
			complex = true // unreachable tail?
		}
	}
	return
}

// nestedExitCond: for `if a { S… }` without else whose body consists of statements that do not jump and of
// if-statements of the same exit shape, the condition under which the statement leaves: a ∧ (b1 ∨ b2 ∨ …).
func nestedExitCond(s *ast.IfStmt) (ast.Expr, bool) {
	if s.Else != nil || s.Init != nil || s.Body == nil {
		return nil, false
	}
	var inner ast.Expr
	for _, st := range s.Body.List {
		ifs, isIf := st.(*ast.IfStmt)
		if !isIf {
			if containsJump(st) {
				return nil, false
			}
			continue
		}
		var e ast.Expr
		switch {
		case ifs.Else == nil && ifs.Init == nil && terminates(ifs.Body):
			e = ifs.Cond
		default:
			ne, ok := nestedExitCond(ifs)
			if !ok {
				if containsJump(ifs) {
					return nil, false
				}
				continue
			}
			e = ne
		}
		if inner == nil {
			inner = e
		} else {
			inner = &ast.BinaryExpr{X: &ast.ParenExpr{X: inner}, Op: token.LOR, Y: &ast.ParenExpr{X: e}}
		}
	}
	if inner == nil {
		return nil, false
	}
	return &ast.BinaryExpr{X: &ast.ParenExpr{X: s.Cond}, Op: token.LAND, Y: &ast.ParenExpr{X: inner}}, true
}

func terminates(b *ast.BlockStmt) bool {
	if b == nil || len(b.List) == 0 {
		return false
	}
	switch s := b.List[len(b.List)-1].(type) {
	case *ast.ReturnStmt:
		return true
	case *ast.BranchStmt:
		return s.Tok == token.CONTINUE || s.Tok == token.BREAK || s.Tok == token.GOTO
	case *ast.ExprStmt:
		if c, ok := s.X.(*ast.CallExpr); ok {
			if id, ok := c.Fun.(*ast.Ident); ok && id.Name == "panic" {
				return true
			}
		}
	}
	return false
}

func containsJump(n ast.Node) bool {
	found := false
	ast.Inspect(n, func(x ast.Node) bool {
		switch s := x.(type) {
		case *ast.FuncLit:
			return false
		case *ast.ReturnStmt:
			found = true
		case *ast.BranchStmt:
			if s.Tok == token.GOTO || s.Label != nil {
				found = true
			}
			// unlabelled break/continue inside a nested loop stay inside it;
			// inside an `if` directly in our block they leave the block.
			if _, isLoop := n.(*ast.ForStmt); !isLoop {
				if _, isRange := n.(*ast.RangeStmt); !isRange {
					found = true
				}
			}
		}
		return !found
	})
	return found
}

// GuardEval evaluates guard expressions.
type GuardEval struct {
	Pkg   *packages.Package
	Roles func(obj types.Object, e ast.Expr) (string, bool) // role of a term
	// Inline resolves a call of a same-package niladic function/method to its
	// single returned expression (nil = cannot inline).
	Inline     func(fn *types.Func) ast.Expr
	subst      map[types.Object]ast.Expr // parameters of an inlined one-line function → argument expressions
	aliasDepth int
}

// Terms collects the role names used by the expressions.
func (g *GuardEval) Terms(conds []Cond) (roles []string, err error) {
	seen := map[string]bool{}
	env := termCollector{seen: seen}
	for _, c := range conds {
		if _, e := g.eval(c.Expr, nil, &env); e != nil {
			return nil, e
		}
	}
	for r := range seen {
		roles = append(roles, r)
	}
	return roles, nil
}

type termCollector struct{ seen map[string]bool }

// Eval evaluates the conjunction of conds under env (role → value; booleans 0/1).
func (g *GuardEval) Eval(conds []Cond, env map[string]int64) (bool, error) {
	for _, c := range conds {
		v, err := g.eval(c.Expr, env, nil)
		if err != nil {
			return false, err
		}
		b := v != 0
		if c.Neg {
			b = !b
		}
		if !b {
			return false, nil
		}
	}
	return true, nil
}

func b2i(b bool) int64 {
	if b {
		return 1
	}
	return 0
}

func (g *GuardEval) objOf(e ast.Expr) types.Object {
	info := g.Pkg.TypesInfo
	switch x := e.(type) {
	case *ast.Ident:
		return info.Uses[x]
	case *ast.SelectorExpr:
		if s := info.Selections[x]; s != nil {
			return s.Obj()
		}
		return info.Uses[x.Sel]
	case *ast.CallExpr:
		return g.objOf(x.Fun)
	case *ast.ParenExpr:
		return g.objOf(x.X)
	}
	return nil
}

// localDef returns the defining expression of a local variable that is defined by one `x := e` (or `var x = e`)
// and never assigned again; nil otherwise.
func (g *GuardEval) localDef(obj types.Object) ast.Expr {
	v, ok := obj.(*types.Var)
	if !ok || v.IsField() || v.Pkg() == nil || v.Parent() == nil || v.Parent() == v.Pkg().Scope() {
		return nil
	}
	var def ast.Expr
	writes := 0
	for _, f := range g.Pkg.Syntax {
		if f.Pos() > v.Pos() || v.Pos() > f.End() {
			continue
		}
		ast.Inspect(f, func(n ast.Node) bool {
			switch s := n.(type) {
			case *ast.AssignStmt:
				for k, lhs := range s.Lhs {
					id, ok := lhs.(*ast.Ident)
					if !ok {
						continue
					}
					if g.Pkg.TypesInfo.Defs[id] == obj || g.Pkg.TypesInfo.Uses[id] == obj {
						writes++
						if g.Pkg.TypesInfo.Defs[id] == obj && len(s.Lhs) == len(s.Rhs) {
							def = s.Rhs[k]
						}
					}
				}
			case *ast.ValueSpec:
				for k, id := range s.Names {
					if g.Pkg.TypesInfo.Defs[id] == obj {
						writes++
						if k < len(s.Values) {
							def = s.Values[k]
						}
					}
				}
			case *ast.IncDecStmt:
				if id, ok := s.X.(*ast.Ident); ok && g.Pkg.TypesInfo.Uses[id] == obj {
					writes++
				}
			case *ast.UnaryExpr:
				if s.Op == token.AND {
					if id, ok := s.X.(*ast.Ident); ok && g.Pkg.TypesInfo.Uses[id] == obj {
						writes++ // address taken
					}
				}
			}
			return true
		})
	}
	if writes != 1 {
		return nil
	}
	return def
}

func (g *GuardEval) eval(e ast.Expr, env map[string]int64, tc *termCollector) (int64, error) {
	info := g.Pkg.TypesInfo
	if tv, ok := info.Types[e]; ok && tv.Value != nil {
		switch tv.Value.Kind() {
		case constant.Int:
			n, _ := constant.Int64Val(tv.Value)
			return n, nil
		case constant.Bool:
			return b2i(constant.BoolVal(tv.Value)), nil
		}
	}
	term := func(obj types.Object, e ast.Expr) (int64, bool, error) {
		if g.Roles == nil {
			return 0, false, nil
		}
		r, ok := g.Roles(obj, e)
		if !ok {
			return 0, false, nil
		}
		if tc != nil {
			tc.seen[r] = true
			return 0, true, nil
		}
		v, ok := env[r]
		if !ok {
			return 0, true, fmt.Errorf("no value for term %s", r)
		}
		return v, true, nil
	}
	switch x := e.(type) {
	case *ast.ParenExpr:
		return g.eval(x.X, env, tc)
	case *ast.StarExpr:
		// `*p` for a pointer that stands for a role-bearing variable (a counter passed by reference)
		return g.eval(x.X, env, tc)
	case *ast.UnaryExpr:
		v, err := g.eval(x.X, env, tc)
		if err != nil {
			return 0, err
		}
		switch x.Op {
		case token.NOT:
			return b2i(v == 0), nil
		case token.SUB:
			return -v, nil
		case token.ADD:
			return v, nil
		}
	case *ast.BinaryExpr:
		// nil comparisons: `x != nil` is the boolean term "role(x) set"
		if isNilExpr(info, x.Y) || isNilExpr(info, x.X) {
			other := x.X
			if isNilExpr(info, x.X) {
				other = x.Y
			}
			v, err := g.eval(other, env, tc)
			if err != nil {
				return 0, err
			}
			if x.Op == token.NEQ {
				return b2i(v != 0), nil
			}
			if x.Op == token.EQL {
				return b2i(v == 0), nil
			}
		}
		l, err := g.eval(x.X, env, tc)
		if err != nil {
			return 0, err
		}
		if tc == nil {
			if x.Op == token.LAND && l == 0 {
				return 0, nil
			}
			if x.Op == token.LOR && l != 0 {
				return 1, nil
			}
		}
		r, err := g.eval(x.Y, env, tc)
		if err != nil {
			return 0, err
		}
		switch x.Op {
		case token.LAND:
			return b2i(l != 0 && r != 0), nil
		case token.LOR:
			return b2i(l != 0 || r != 0), nil
		case token.EQL:
			return b2i(l == r), nil
		case token.NEQ:
			return b2i(l != r), nil
		case token.LSS:
			return b2i(l < r), nil
		case token.LEQ:
			return b2i(l <= r), nil
		case token.GTR:
			return b2i(l > r), nil
		case token.GEQ:
			return b2i(l >= r), nil
		case token.ADD:
			return l + r, nil
		case token.SUB:
			return l - r, nil
		}
	case *ast.CallExpr:
		// conversion T(x)
		if tv, ok := info.Types[x.Fun]; ok && tv.IsType() && len(x.Args) == 1 {
			return g.eval(x.Args[0], env, tc)
		}
		if id, ok := x.Fun.(*ast.Ident); ok && id.Name == "len" && len(x.Args) == 1 {
			if _, isB := info.Uses[id].(*types.Builtin); isB {
				obj := g.objOf(x.Args[0])
				if obj != nil && g.Roles != nil {
					if r, ok := g.Roles(obj, x.Args[0]); ok {
						rr := "len(" + r + ")"
						if tc != nil {
							tc.seen[rr] = true
							return 0, nil
						}
						if v, ok := env[rr]; ok {
							return v, nil
						}
						return 0, fmt.Errorf("no value for term %s", rr)
					}
				}
			}
		}
		obj := g.objOf(x)
		if v, ok, err := term(obj, x); ok {
			return v, err
		}
		if fn, ok := obj.(*types.Func); ok && len(x.Args) == 0 && g.Inline != nil {
			if body := g.Inline(fn); body != nil {
				return g.eval(body, env, tc)
			}
		}
		// a one-line function of its arguments (`hasTimer(b.timer)` with `func hasTimer(t *time.Timer) bool {
		// return t != nil }`): evaluate the body with the parameters standing for the argument expressions
		if fn, ok := obj.(*types.Func); ok && len(x.Args) > 0 && g.Inline != nil {
			sig, _ := fn.Type().(*types.Signature)
			if body := g.Inline(fn); body != nil && sig != nil && sig.Params().Len() == len(x.Args) && !sig.Variadic() {
				saved := g.subst
				ns := map[types.Object]ast.Expr{}
				for k, v := range saved {
					ns[k] = v
				}
				for k := 0; k < sig.Params().Len(); k++ {
					ns[sig.Params().At(k)] = x.Args[k]
				}
				g.subst = ns
				v, err := g.eval(body, env, tc)
				g.subst = saved
				return v, err
			}
		}
	case *ast.Ident, *ast.SelectorExpr:
		if id, isId := x.(*ast.Ident); isId && g.subst != nil {
			if arg, ok := g.subst[info.Uses[id]]; ok {
				saved := g.subst
				g.subst = nil // the argument is an expression of the caller
				v, err := g.eval(arg, env, tc)
				g.subst = saved
				return v, err
			}
		}
		obj := g.objOf(x)
		if v, ok, err := term(obj, x); ok {
			return v, err
		}
		// a local alias defined once (`earlyReturn := b.processor.earlyReturn`): the expression it stands for
		if id, isId := x.(*ast.Ident); isId {
			if def := g.localDef(info.Uses[id]); def != nil && g.aliasDepth < 3 {
				g.aliasDepth++
				v, err := g.eval(def, env, tc)
				g.aliasDepth--
				if err == nil {
					return v, nil
				}
			}
			// a boolean taken from a multi-result call of a same-package predicate helper
			// (`err, exceeded := l.exceedsLimit(change)`): the condition under which the helper returns true there
			if call, k := g.multiDef(info.Uses[id]); call != nil && g.aliasDepth < 3 {
				if fn, ok := g.objOf(call).(*types.Func); ok && fn.Pkg() == g.Pkg.Types {
					if cond := g.boolResultCond(fn, k); cond != nil {
						sig, _ := fn.Type().(*types.Signature)
						if sig != nil && sig.Params().Len() == len(call.Args) && !sig.Variadic() {
							saved := g.subst
							ns := map[types.Object]ast.Expr{}
							for kk, vv := range saved {
								ns[kk] = vv
							}
							for i := 0; i < sig.Params().Len(); i++ {
								ns[sig.Params().At(i)] = call.Args[i]
							}
							g.subst = ns
							g.aliasDepth++
							v, err := g.eval(cond, env, tc)
							g.aliasDepth--
							g.subst = saved
							if err == nil {
								return v, nil
							}
						}
					}
				}
			}
		}
	}
	return 0, fmt.Errorf("guard term not recognised: %s", types.ExprString(e))
}

// multiDef: obj is a local defined once by `a, b := f(args)` (and never assigned again); the call and obj's position.
func (g *GuardEval) multiDef(obj types.Object) (*ast.CallExpr, int) {
	v, ok := obj.(*types.Var)
	if !ok || v.IsField() || v.Pkg() == nil {
		return nil, 0
	}
	var call *ast.CallExpr
	idx, writes := 0, 0
	for _, f := range g.Pkg.Syntax {
		if f.Pos() > v.Pos() || v.Pos() > f.End() {
			continue
		}
		ast.Inspect(f, func(n ast.Node) bool {
			if s, ok := n.(*ast.AssignStmt); ok {
				for k, lhs := range s.Lhs {
					id, ok := lhs.(*ast.Ident)
					if !ok {
						continue
					}
					if g.Pkg.TypesInfo.Defs[id] == obj || g.Pkg.TypesInfo.Uses[id] == obj {
						writes++
						if g.Pkg.TypesInfo.Defs[id] == obj && len(s.Lhs) > 1 && len(s.Rhs) == 1 {
							if c, ok := s.Rhs[0].(*ast.CallExpr); ok {
								call, idx = c, k
							}
						}
					}
				}
			}
			return true
		})
	}
	if writes != 1 {
		return nil, 0
	}
	return call, idx
}

// boolResultCond: for a function whose body is a sequence of `if C { return …, <bool const>, … }` statements
// followed by one `return …, <bool const>, …`, the condition (over the function's own parameters and receiver)
// under which result k is true. nil when the body has another shape.
func (g *GuardEval) boolResultCond(fn *types.Func, k int) ast.Expr {
	for _, f := range g.Pkg.Syntax {
		for _, d := range f.Decls {
			fd, ok := d.(*ast.FuncDecl)
			if !ok || g.Pkg.TypesInfo.Defs[fd.Name] != types.Object(fn) || fd.Body == nil {
				continue
			}
			constAt := func(r *ast.ReturnStmt) (bool, bool) {
				if k >= len(r.Results) {
					return false, false
				}
				tv, ok := g.Pkg.TypesInfo.Types[r.Results[k]]
				if !ok || tv.Value == nil || tv.Value.Kind() != constant.Bool {
					return false, false
				}
				return constant.BoolVal(tv.Value), true
			}
			var result ast.Expr     // disjunction of the paths that return true
			var notEarlier ast.Expr // conjunction of the negated earlier conditions
			and := func(a, b ast.Expr) ast.Expr {
				if a == nil {
					return b
				}
				return &ast.BinaryExpr{X: &ast.ParenExpr{X: a}, Op: token.LAND, Y: &ast.ParenExpr{X: b}}
			}
			or := func(a, b ast.Expr) ast.Expr {
				if a == nil {
					return b
				}
				return &ast.BinaryExpr{X: &ast.ParenExpr{X: a}, Op: token.LOR, Y: &ast.ParenExpr{X: b}}
			}
			for i, st := range fd.Body.List {
				switch x := st.(type) {
				case *ast.IfStmt:
					if x.Init != nil || x.Else != nil || len(x.Body.List) != 1 {
						return nil
					}
					r, ok := x.Body.List[0].(*ast.ReturnStmt)
					if !ok {
						return nil
					}
					b, ok := constAt(r)
					if !ok {
						return nil
					}
					if b {
						result = or(result, and(notEarlier, x.Cond))
					}
					notEarlier = and(notEarlier, &ast.UnaryExpr{Op: token.NOT, X: &ast.ParenExpr{X: x.Cond}})
				case *ast.ReturnStmt:
					if i != len(fd.Body.List)-1 {
						return nil
					}
					b, ok := constAt(x)
					if !ok {
						return nil
					}
					if b {
						if notEarlier == nil {
							return x.Results[k]
						}
						result = or(result, notEarlier)
					}
					if result == nil {
						return x.Results[k] // constant false
					}
					return result
				default:
					return nil
				}
			}
		}
	}
	return nil
}

func isNilExpr(info *types.Info, e ast.Expr) bool {
	if tv, ok := info.Types[e]; ok {
		return tv.IsNil()
	}
	return false
}

// EnumEnvs enumerates all assignments of values from dom (bools: {0,1} when the
// role name starts with "?") to the roles and calls f; stops when f returns false.
func EnumEnvs(roles []string, dom []int64, f func(env map[string]int64) bool) int {
	env := map[string]int64{}
	n := 0
	var rec func(i int) bool
	rec = func(i int) bool {
		if i == len(roles) {
			n++
			return f(env)
		}
		d := dom
		if len(roles[i]) > 0 && roles[i][0] == '?' {
			d = []int64{0, 1}
		}
		for _, v := range d {
			env[roles[i]] = v
			if !rec(i + 1) {
				return false
			}
		}
		return true
	}
	rec(0)
	return n
}

// SingleReturnExpr returns the expression of a function whose body is a single
// `return e`, for inlining pure one-line helpers into guards.
func SingleReturnExpr(pk *packages.Package, fn *types.Func) ast.Expr {
	for _, f := range pk.Syntax {
		for _, d := range f.Decls {
			fd, ok := d.(*ast.FuncDecl)
			if !ok || pk.TypesInfo.Defs[fd.Name] != types.Object(fn) || fd.Body == nil || len(fd.Body.List) != 1 {
				continue
			}
			if r, ok := fd.Body.List[0].(*ast.ReturnStmt); ok && len(r.Results) == 1 {
				return r.Results[0]
			}
		}
	}
	return guardClauseExpr(pk, fn)
}

// guardClauseExpr: the value of a boolean predicate written as guard clauses —
// `if C1 { return E1 }; if C2 { return E2 }; return E3` is (C1 ∧ E1) ∨ (¬C1 ∧ ((C2 ∧ E2) ∨ (¬C2 ∧ E3))).
// nil unless every statement but the last is an if without else and without init whose body is one return.
func guardClauseExpr(pk *packages.Package, fn *types.Func) ast.Expr {
	sig, _ := fn.Type().(*types.Signature)
	if sig == nil || sig.Results().Len() != 1 {
		return nil
	}
	if b, ok := sig.Results().At(0).Type().Underlying().(*types.Basic); !ok || b.Kind() != types.Bool {
		return nil
	}
	for _, f := range pk.Syntax {
		for _, d := range f.Decls {
			fd, ok := d.(*ast.FuncDecl)
			if !ok || pk.TypesInfo.Defs[fd.Name] != types.Object(fn) || fd.Body == nil || len(fd.Body.List) < 2 || len(fd.Body.List) > 6 {
				continue
			}
			n := len(fd.Body.List)
			last, ok := fd.Body.List[n-1].(*ast.ReturnStmt)
			if !ok || len(last.Results) != 1 {
				return nil
			}
			var expr ast.Expr = &ast.ParenExpr{X: last.Results[0]}
			for k := n - 2; k >= 0; k-- {
				is, ok := fd.Body.List[k].(*ast.IfStmt)
				if !ok || is.Init != nil || is.Else != nil || len(is.Body.List) != 1 {
					return nil
				}
				r, ok := is.Body.List[0].(*ast.ReturnStmt)
				if !ok || len(r.Results) != 1 {
					return nil
				}
				c := &ast.ParenExpr{X: is.Cond}
				expr = &ast.ParenExpr{X: &ast.BinaryExpr{
					X:  &ast.ParenExpr{X: &ast.BinaryExpr{X: c, Op: token.LAND, Y: &ast.ParenExpr{X: r.Results[0]}}},
					Op: token.LOR,
					Y:  &ast.ParenExpr{X: &ast.BinaryExpr{X: &ast.UnaryExpr{Op: token.NOT, X: c}, Op: token.LAND, Y: expr}},
				}}
			}
			return expr
		}
	}
	return nil
}

// CallExprAt finds the call expression whose Lparen (SSA call position) is pos.
func CallExprAt(file *ast.File, pos token.Pos) *ast.CallExpr {
	var res *ast.CallExpr
	ast.Inspect(file, func(n ast.Node) bool {
		if c, ok := n.(*ast.CallExpr); ok && c.Lparen == pos {
			res = c
		}
		return res == nil
	})
	return res
}

// FuncBodyAt returns the innermost function body (decl or literal) containing pos.
func FuncBodyAt(file *ast.File, pos token.Pos) *ast.BlockStmt {
	path, _ := astutil.PathEnclosingInterval(file, pos, pos)
	for _, n := range path {
		switch f := n.(type) {
		case *ast.FuncLit:
			return f.Body
		case *ast.FuncDecl:
			return f.Body
		}
	}
	return nil
}

// ExpandConds inlines, in each conjunct, a top-level call of a same-package niladic one-line helper
// (`if !b.batchReady() { return }` with `batchReady() bool { return count > 0 && (…) }`) and splits the
// result into conjuncts again, so that the helper's conjuncts are judged one by one like those of a
// condition written in place.
func (g *GuardEval) ExpandConds(conds []Cond) []Cond {
	if g == nil || g.Inline == nil || g.Pkg == nil {
		return conds
	}
	out := conds
	for round := 0; round < 3; round++ {
		changed := false
		var next []Cond
		for _, c := range out {
			e := c.Expr
			for {
				p, ok := e.(*ast.ParenExpr)
				if !ok {
					break
				}
				e = p.X
			}
			call, ok := e.(*ast.CallExpr)
			if ok && len(call.Args) == 0 {
				var obj types.Object
				switch f := call.Fun.(type) {
				case *ast.SelectorExpr:
					obj = g.Pkg.TypesInfo.Uses[f.Sel]
				case *ast.Ident:
					obj = g.Pkg.TypesInfo.Uses[f]
				}
				if fn, isFn := obj.(*types.Func); isFn {
					if body := g.Inline(fn); body != nil {
						next = append(next, splitCond(Cond{Expr: body, Neg: c.Neg, FromExit: c.FromExit})...)
						changed = true
						continue
					}
				}
			}
			next = append(next, c)
		}
		out = next
		if !changed {
			break
		}
	}
	return out
}
