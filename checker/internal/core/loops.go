package core

import (
	"go/token"
	"go/types"

	"golang.org/x/tools/go/ssa"
)

// Induction describes a canonical counting loop recognised on SSA:
//
//	phi = φ(init const, phi+1, …); if (phi + A) < len(Base) − Sub { body }
//
// The body executes for phi ∈ [Init, len(Base) − Sub − A).
type Induction struct {
	Phi     *ssa.Phi
	Init    int64
	Cond    *ssa.If
	BodyArm bool      // which arm of Cond enters the body
	A       int64     // the compared value is phi + A
	Base    ssa.Value // nil when the bound is not a length
	Sub     int64     // bound = len(Base) − Sub
	BoundV  ssa.Value // the raw bound value
}

// AffineIn expresses v as phi + c for an induction phi (c via +/- constants).
func AffineIn(v ssa.Value) (*ssa.Phi, int64, bool) {
	var c int64
	for i := 0; i < 8; i++ {
		v = StripConv(v)
		switch x := v.(type) {
		case *ssa.Phi:
			return x, c, true
		case *ssa.BinOp:
			if x.Op == token.ADD || x.Op == token.SUB {
				if k, ok := ConstInt(x.Y); ok {
					if x.Op == token.ADD {
						c += k
					} else {
						c -= k
					}
					v = x.X
					continue
				}
				if k, ok := ConstInt(x.X); ok && x.Op == token.ADD {
					c += k
					v = x.Y
					continue
				}
			}
			return nil, 0, false
		default:
			return nil, 0, false
		}
	}
	return nil, 0, false
}

// SliceBase peels constant-low slicings: v = base[L:] (high bound absent).
// ok=false when a slicing has a non-constant low bound or any high bound.
func SliceBase(v ssa.Value) (base ssa.Value, low int64, ok bool) {
	for {
		v = Strip(v)
		s, isS := v.(*ssa.Slice)
		if !isS {
			return v, low, true
		}
		if s.High != nil || s.Max != nil {
			return v, low, false
		}
		if s.Low != nil {
			k, c := ConstInt(s.Low)
			if !c {
				return v, low, false
			}
			low += k
		}
		v = s.X
	}
}

// LenOf recognises v = len(base[L:]) − k and returns (base, L+k).
func LenOf(v ssa.Value) (ssa.Value, int64, bool) {
	var sub int64
	for i := 0; i < 4; i++ {
		v = StripConv(v)
		switch x := v.(type) {
		case *ssa.BinOp:
			if k, ok := ConstInt(x.Y); ok && (x.Op == token.SUB || x.Op == token.ADD) {
				if x.Op == token.SUB {
					sub += k
				} else {
					sub -= k
				}
				v = x.X
				continue
			}
			return nil, 0, false
		case *ssa.Call:
			if b, ok := x.Call.Value.(*ssa.Builtin); ok && b.Name() == "len" && len(x.Call.Args) == 1 {
				base, low, ok := SliceBase(x.Call.Args[0])
				if !ok {
					return nil, 0, false
				}
				return base, low + sub, true
			}
			return nil, 0, false
		default:
			return nil, 0, false
		}
	}
	return nil, 0, false
}

// InductionOf recognises phi as a canonical induction variable.
func InductionOf(phi *ssa.Phi) (*Induction, bool) {
	ind := &Induction{Phi: phi}
	haveInit, haveStep := false, false
	for _, e := range phi.Edges {
		if k, ok := ConstInt(e); ok {
			if _, isC := StripConv(e).(*ssa.Const); isC {
				if haveInit && ind.Init != k {
					return nil, false
				}
				ind.Init, haveInit = k, true
				continue
			}
		}
		p, c, ok := AffineIn(e)
		if !ok || p != phi || c != 1 {
			return nil, false
		}
		haveStep = true
	}
	if !haveInit || !haveStep {
		return nil, false
	}
	// the loop condition: an If in the phi's block or dominated chain whose
	// condition compares phi+A with a bound.
	b := phi.Block()
	iff := IfOf(b)
	usesPhi := func(i *ssa.If) bool {
		if i == nil {
			return false
		}
		c, ok := i.Cond.(*ssa.BinOp)
		if !ok {
			return false
		}
		if p, _, ok := AffineIn(c.X); ok && p == phi {
			return true
		}
		if p, _, ok := AffineIn(c.Y); ok && p == phi {
			return true
		}
		return false
	}
	if !usesPhi(iff) {
		// rotated loop with a body of several blocks (`for i := range n { if … }`): the test sits at the end of the
		// latch, the block that computes the value fed back into the φ
		for _, e := range phi.Edges {
			if step, ok := e.(*ssa.BinOp); ok {
				if l := IfOf(step.Block()); usesPhi(l) {
					iff = l
				}
			}
		}
	}
	if iff == nil {
		return nil, false
	}
	cmp, ok := iff.Cond.(*ssa.BinOp)
	if !ok {
		return nil, false
	}
	x, y, op := cmp.X, cmp.Y, cmp.Op
	if p, _, ok := AffineIn(y); ok && p == phi {
		// bound OP phi  →  phi OP' bound
		x, y = y, x
		switch op {
		case token.GTR:
			op = token.LSS
		case token.LSS:
			op = token.GTR
		case token.GEQ:
			op = token.LEQ
		case token.LEQ:
			op = token.GEQ
		}
	}
	p, a, ok := AffineIn(x)
	if !ok || p != phi {
		return nil, false
	}
	ind.A = a
	// bottom-tested (rotated) loop, the form of `for i := range n`: the test at the end of the body compares the
	// *next* value (the very value fed back into the φ) with the bound, so the body runs for φ itself up to
	// bound-1 — the same range as a top-tested `φ < bound`
	if a == 1 {
		rotated := false
		for _, sc := range iff.Block().Succs {
			if sc == phi.Block() {
				rotated = true // the test is the source of the back edge (rangeindex loops test before the body)
			}
		}
		for _, e := range phi.Edges {
			if e == x && rotated {
				ind.A = 0
			}
		}
	}
	ind.Cond = iff
	ind.BoundV = y
	switch op {
	case token.LSS, token.NEQ:
		ind.BodyArm = true
	case token.LEQ:
		ind.BodyArm = true
		ind.A-- // phi+a <= n  ≡  phi+a-1 < n
	case token.GEQ, token.EQL:
		ind.BodyArm = false // if phi >= n { exit } else { body }
	default:
		return nil, false
	}
	if base, sub, ok := LenOf(y); ok {
		ind.Base, ind.Sub = base, sub
	}
	return ind, true
}

// ElemAccess describes an element access base[phi + Off] in terms of the
// un-sliced base.
type ElemAccess struct {
	Base  ssa.Value
	Phi   *ssa.Phi // nil when the index is constant
	Off   int64    // index in base coordinates = phi + Off (or = Off when Phi==nil)
	Instr ssa.Value
}

// ElemAccessOf recognises v as &S[i] / S[i] with S = base[L:].
func ElemAccessOf(v ssa.Value) (*ElemAccess, bool) {
	var s, idx ssa.Value
	switch x := v.(type) {
	case *ssa.IndexAddr:
		s, idx = x.X, x.Index
	case *ssa.Index:
		s, idx = x.X, x.Index
	default:
		return nil, false
	}
	base, low, ok := SliceBase(s)
	if !ok {
		return nil, false
	}
	if k, ok := ConstInt(idx); ok {
		if _, isC := StripConv(idx).(*ssa.Const); isC {
			return &ElemAccess{Base: base, Off: k + low, Instr: v}, true
		}
	}
	p, c, ok := AffineIn(idx)
	if !ok {
		return nil, false
	}
	return &ElemAccess{Base: base, Phi: p, Off: c + low, Instr: v}, true
}

// Coverage returns the interval of base indices [lo, len(base)+hiOff) that the
// access visits over the whole loop, when the loop bound is a length of the
// same base. ok=false otherwise.
func (ind *Induction) Coverage(acc *ElemAccess) (lo, hiOff int64, ok bool) {
	if acc.Phi != ind.Phi || ind.Base == nil || !SameValue(ind.Base, acc.Base) {
		return 0, 0, false
	}
	lo = ind.Init + acc.Off
	hiOff = -ind.Sub - ind.A + acc.Off
	return lo, hiOff, true
}

// SameValue reports whether two SSA values are the same value: identical, or
// loads of the same local/free variable with no intervening store possible
// (the variable has at most one store), or the same parameter.
func SameValue(a, b ssa.Value) bool {
	a, b = Strip(a), Strip(b)
	if a == b {
		return true
	}
	// two computations of the same element address (go/ssa does no CSE): &arr[i] twice with the same base and index
	if ia, ok := a.(*ssa.IndexAddr); ok {
		if ib, ok := b.(*ssa.IndexAddr); ok && ia.Index == ib.Index && (ia.X == ib.X || SameValue(ia.X, ib.X)) {
			return true
		}
	}
	la, ok1 := a.(*ssa.UnOp)
	lb, ok2 := b.(*ssa.UnOp)
	if ok1 && ok2 && la.Op == token.MUL && lb.Op == token.MUL {
		if la.X == lb.X {
			switch la.X.(type) {
			case *ssa.FreeVar, *ssa.Alloc, *ssa.Parameter:
				return true
			}
		}
		fa, ok1 := la.X.(*ssa.FieldAddr)
		fb, ok2 := lb.X.(*ssa.FieldAddr)
		if ok1 && ok2 && fa.Field == fb.Field && types.Identical(fa.X.Type(), fb.X.Type()) && SameValue(fa.X, fb.X) {
			return true
		}
	}
	return false
}

// Canon resolves a value through loads of single-assignment locals and of
// closure free variables bound to such locals: `x := f(); go func(){ use(x) }()`
// makes x a heap cell with one store; every load of it denotes f()'s result.
func Canon(v ssa.Value) ssa.Value {
	for i := 0; i < 10; i++ {
		v = Strip(v)
		u, ok := v.(*ssa.UnOp)
		if !ok || u.Op != token.MUL {
			return v
		}
		cell := u.X
		if fv, ok := cell.(*ssa.FreeVar); ok {
			cell = freeVarBinding(fv)
			if cell == nil {
				return v
			}
		}
		al, ok := cell.(*ssa.Alloc)
		if !ok {
			return v
		}
		var stored ssa.Value
		n := 0
		for _, r := range Referrers(al) {
			if st, ok := r.(*ssa.Store); ok && st.Addr == ssa.Value(al) {
				stored = st.Val
				n++
			}
		}
		// stores through free variables in nested closures
		n += storesViaClosures(al)
		if n != 1 || stored == nil {
			return v
		}
		v = stored
	}
	return v
}

// freeVarBinding returns the value bound to fv at the (unique) MakeClosure.
func freeVarBinding(fv *ssa.FreeVar) ssa.Value {
	fn := fv.Parent()
	if fn == nil || fn.Parent() == nil {
		return nil
	}
	idx := -1
	for i, f := range fn.FreeVars {
		if f == fv {
			idx = i
		}
	}
	var res ssa.Value
	cnt := 0
	EachInstr(fn.Parent(), func(i ssa.Instruction) {
		if mc, ok := i.(*ssa.MakeClosure); ok && mc.Fn == ssa.Value(fn) && idx >= 0 && idx < len(mc.Bindings) {
			res = mc.Bindings[idx]
			cnt++
		}
	})
	if cnt != 1 {
		return nil
	}
	if inner, ok := res.(*ssa.FreeVar); ok {
		return freeVarBinding(inner)
	}
	return res
}

// storesViaClosures counts stores to the cell al performed inside closures that
// captured it.
func storesViaClosures(al *ssa.Alloc) int {
	n := 0
	for _, r := range Referrers(al) {
		mc, ok := r.(*ssa.MakeClosure)
		if !ok {
			continue
		}
		fn, _ := mc.Fn.(*ssa.Function)
		if fn == nil {
			continue
		}
		for i, b := range mc.Bindings {
			if b == ssa.Value(al) && i < len(fn.FreeVars) {
				n += storesToFreeVar(fn, fn.FreeVars[i])
			}
		}
	}
	return n
}

func storesToFreeVar(fn *ssa.Function, fv *ssa.FreeVar) int {
	n := 0
	for _, r := range Referrers(fv) {
		switch x := r.(type) {
		case *ssa.Store:
			if x.Addr == ssa.Value(fv) {
				n++
			}
		case *ssa.MakeClosure:
			inner, _ := x.Fn.(*ssa.Function)
			if inner == nil {
				continue
			}
			for i, b := range x.Bindings {
				if b == ssa.Value(fv) && i < len(inner.FreeVars) {
					n += storesToFreeVar(inner, inner.FreeVars[i])
				}
			}
		}
	}
	return n
}

// StructEq reports whether two values are structurally the same expression
// over identical leaves: same field/index addressing chains and loads rooted
// at the same SSA values (no intervening-store analysis; use for pure reads
// within one iteration).
func StructEq(a, b ssa.Value, depth int) bool {
	a, b = Strip(a), Strip(b)
	if a == b {
		return true
	}
	if depth > 8 {
		return false
	}
	switch x := a.(type) {
	case *ssa.IndexAddr:
		y, ok := b.(*ssa.IndexAddr)
		return ok && StructEq(x.X, y.X, depth+1) && StructEq(x.Index, y.Index, depth+1)
	case *ssa.FieldAddr:
		y, ok := b.(*ssa.FieldAddr)
		return ok && x.Field == y.Field && StructEq(x.X, y.X, depth+1)
	case *ssa.Field:
		y, ok := b.(*ssa.Field)
		return ok && x.Field == y.Field && StructEq(x.X, y.X, depth+1)
	case *ssa.UnOp:
		y, ok := b.(*ssa.UnOp)
		return ok && x.Op == y.Op && StructEq(x.X, y.X, depth+1)
	case *ssa.Const:
		y, ok := b.(*ssa.Const)
		return ok && x.Value != nil && y.Value != nil && x.Value.ExactString() == y.Value.ExactString() && types.Identical(x.Type(), y.Type())
	}
	return false
}
