package core

import (
	"strconv"
	"go/constant"
	"go/token"
	"go/types"
	"strings"

	"golang.org/x/tools/go/ssa"
)

// ---------- callee resolution (by type, never by text) ----------

// StaticCallee returns the statically known callee of a call or nil.
func StaticCallee(ci ssa.CallInstruction) *ssa.Function {
	if ci == nil {
		return nil
	}
	if f := ci.Common().StaticCallee(); f != nil {
		return f
	}
	// a function-valued parameter bound to the function its one call site passes (BindParam)
	return BoundCallee(ci)
}

// CalleeObj returns the *types.Func called: the static callee's object, or the
// interface method for invoke-mode calls, or nil for dynamic calls of values.
func CalleeObj(ci ssa.CallInstruction) *types.Func {
	cc := ci.Common()
	if cc.IsInvoke() {
		return cc.Method
	}
	f := cc.StaticCallee()
	if f == nil {
		f = BoundCallee(ci)
	}
	if f != nil {
		if f.Origin() != nil {
			f = f.Origin()
		}
		if o, ok := f.Object().(*types.Func); ok {
			return o
		}
	}
	return nil
}

// BoundCallee: for a call of a function-valued parameter that is bound to its
// argument (BindParam: the enclosing helper has one call site), the function
// that argument denotes.
func BoundCallee(ci ssa.CallInstruction) *ssa.Function {
	cc := ci.Common()
	if cc.IsInvoke() {
		return nil
	}
	prm, ok := Strip(cc.Value).(*ssa.Parameter)
	if !ok {
		return nil
	}
	v := Strip(ResolveParam(prm))
	switch x := v.(type) {
	case *ssa.Function:
		return x
	case *ssa.MakeClosure:
		f, _ := x.Fn.(*ssa.Function)
		return f
	}
	return nil
}

// RecvNamed returns the named receiver type of method f (through pointer), or nil.
func RecvNamed(f *types.Func) *types.Named {
	if f == nil {
		return nil
	}
	sig, ok := f.Type().(*types.Signature)
	if !ok || sig.Recv() == nil {
		return nil
	}
	return NamedOf(sig.Recv().Type())
}

// FlatStruct returns a view of struct type t (a named type, a pointer to one, or a struct) in
// which the fields of embedded repository structs appear next to the direct fields, the way
// selector expressions see them (promoted fields). The *types.Var objects are the original
// ones, so identity comparisons with FieldVar(...) keep working; the embedded field itself
// stays in the list. Embedded library types (sync.Mutex, ...) are not opened. nil if t is no struct.
func FlatStruct(t types.Type) *types.Struct {
	if pt, ok := types.Unalias(t).(*types.Pointer); ok {
		t = pt.Elem()
	}
	st, ok := t.Underlying().(*types.Struct)
	if !ok {
		return nil
	}
	var fields []*types.Var
	var tags []string
	seen := map[*types.Struct]bool{}
	var walk func(s *types.Struct)
	walk = func(s *types.Struct) {
		if seen[s] {
			return
		}
		seen[s] = true
		for i := 0; i < s.NumFields(); i++ {
			f := s.Field(i)
			fields = append(fields, f)
			tags = append(tags, s.Tag(i))
			if f.Embedded() {
				ft := f.Type()
				if pt, ok := types.Unalias(ft).(*types.Pointer); ok {
					ft = pt.Elem()
				}
				if n := NamedOf(ft); n != nil && n.Obj().Pkg() != nil && InRepo(n.Obj().Pkg().Path()) {
					if es, ok := n.Underlying().(*types.Struct); ok {
						walk(es)
					}
				}
			}
		}
	}
	walk(st)
	if len(fields) == st.NumFields() {
		return st
	}
	return types.NewStruct(fields, tags)
}

// NamedOf strips pointers and returns the named type or nil.
func NamedOf(t types.Type) *types.Named {
	for {
		switch x := t.(type) {
		case *types.Pointer:
			t = x.Elem()
			continue
		case *types.Named:
			return x
		case *types.Alias:
			t = types.Unalias(x)
			continue
		}
		return nil
	}
}

// TypePkgPath returns the package path of a (pointer to) named type, "" otherwise.
func TypePkgPath(t types.Type) string {
	if n := NamedOf(t); n != nil && n.Obj().Pkg() != nil {
		return n.Obj().Pkg().Path()
	}
	return ""
}

// TypeName returns the bare name of a (pointer to) named type.
func TypeName(t types.Type) string {
	if n := NamedOf(t); n != nil {
		return n.Obj().Name()
	}
	return ""
}

// IsMethodOf reports whether f is method `name` of a type whose package path
// has prefix pkgPrefix (typeName "" = any type).
func IsMethodOf(f *types.Func, pkgPrefix, typeName, name string) bool {
	if f == nil || f.Name() != name {
		return false
	}
	n := RecvNamed(f)
	if n == nil || n.Obj().Pkg() == nil {
		return false
	}
	if !strings.HasPrefix(n.Obj().Pkg().Path(), pkgPrefix) {
		return false
	}
	return typeName == "" || n.Obj().Name() == typeName
}

// IsPkgFunc reports whether f is package-level function pkg.name.
func IsPkgFunc(f *types.Func, pkg, name string) bool {
	if f == nil || f.Name() != name || f.Pkg() == nil || f.Pkg().Path() != pkg {
		return false
	}
	sig, ok := f.Type().(*types.Signature)
	return ok && sig.Recv() == nil
}

// CallArgs returns the call's arguments excluding the receiver.
func CallArgs(ci ssa.CallInstruction) []ssa.Value {
	cc := ci.Common()
	if cc.IsInvoke() {
		return cc.Args
	}
	if f := cc.StaticCallee(); f != nil && f.Signature.Recv() != nil && len(cc.Args) > 0 {
		return cc.Args[1:]
	}
	return cc.Args
}

// CallRecv returns the receiver value of a method call or nil.
func CallRecv(ci ssa.CallInstruction) ssa.Value {
	cc := ci.Common()
	if cc.IsInvoke() {
		return cc.Value
	}
	if f := cc.StaticCallee(); f != nil && f.Signature.Recv() != nil && len(cc.Args) > 0 {
		return cc.Args[0]
	}
	return nil
}

// ---------- instruction iteration ----------

// EachInstr calls f for every instruction of fn.
func EachInstr(fn *ssa.Function, f func(ssa.Instruction)) {
	for _, b := range fn.Blocks {
		for _, i := range b.Instrs {
			f(i)
		}
	}
}

// EachCall calls f for every call-like instruction (Call, Go, Defer) of fn.
func EachCall(fn *ssa.Function, f func(ssa.CallInstruction)) {
	EachInstr(fn, func(i ssa.Instruction) {
		if ci, ok := i.(ssa.CallInstruction); ok {
			f(ci)
		}
	})
}

// Closures returns the function literals syntactically nested in fn (transitively).
func Closures(fn *ssa.Function) []*ssa.Function {
	var out []*ssa.Function
	var walk func(f *ssa.Function)
	walk = func(f *ssa.Function) {
		for _, a := range f.AnonFuncs {
			out = append(out, a)
			walk(a)
		}
	}
	walk(fn)
	return out
}

// WithClosures returns fn followed by all its nested literals.
func WithClosures(fn *ssa.Function) []*ssa.Function {
	return append([]*ssa.Function{fn}, Closures(fn)...)
}

// InstrIndex returns the index of ins inside its block.
func InstrIndex(ins ssa.Instruction) int {
	for i, x := range ins.Block().Instrs {
		if x == ins {
			return i
		}
	}
	return -1
}

// Returns lists the return instructions of fn.
func Returns(fn *ssa.Function) []*ssa.Return {
	var out []*ssa.Return
	for _, b := range fn.Blocks {
		if len(b.Instrs) == 0 {
			continue
		}
		if r, ok := b.Instrs[len(b.Instrs)-1].(*ssa.Return); ok {
			out = append(out, r)
		}
	}
	return out
}

// ---------- path queries ----------

// Edge is a CFG edge.
type Edge struct{ From, To *ssa.BasicBlock }

// PathQuery describes a reachability question inside one function: is there a
// path from the point just after From (or from function entry if From is nil)
// to the point just before To (or to any function exit — Return or Panic — if
// To is nil) that executes no instruction satisfying Avoid and takes no edge in
// CutEdges?  Exits: set ExitReturnOnly to consider only Return instructions.
type PathQuery struct {
	Fn             *ssa.Function
	From           ssa.Instruction
	To             ssa.Instruction
	Avoid          func(ssa.Instruction) bool
	CutEdges       map[Edge]bool
	ExitReturnOnly bool
	// ExitFilter, when To is nil and non-nil itself, selects which exits count.
	ExitFilter func(ssa.Instruction) bool
}

// Exists answers the query; when a path exists it returns the blocks visited in
// order of discovery up to the target (a witness region, not a minimal path).
//
// The walk is sensitive to boolean flag variables: a φ-node whose incoming value
// on the traversed edge is a boolean constant (or another tracked flag) has a
// known value, and a branch on such a φ is followed only in the consistent
// direction (`sent := false; for … { …; sent = true }; if sent { … }`).
func (q PathQuery) Exists() (bool, []*ssa.BasicBlock) {
	fn := q.Fn
	if fn == nil || len(fn.Blocks) == 0 {
		return false, nil
	}
	avoid := q.Avoid
	if avoid == nil {
		avoid = func(ssa.Instruction) bool { return false }
	}
	isTarget := func(ins ssa.Instruction) bool {
		if q.To != nil {
			return ins == q.To
		}
		switch ins.(type) {
		case *ssa.Return:
			return q.ExitFilter == nil || q.ExitFilter(ins)
		case *ssa.Panic:
			if q.ExitReturnOnly {
				return false
			}
			return q.ExitFilter == nil || q.ExitFilter(ins)
		}
		return false
	}
	scan := func(b *ssa.BasicBlock, start int) (bool, bool) {
		for i := start; i < len(b.Instrs); i++ {
			ins := b.Instrs[i]
			if isTarget(ins) {
				return true, false
			}
			if avoid(ins) {
				return false, true
			}
		}
		return false, false
	}
	// flag phis: boolean φ with at least one constant edge
	var flags []*ssa.Phi
	for _, b := range fn.Blocks {
		for _, ins := range b.Instrs {
			ph, ok := ins.(*ssa.Phi)
			if !ok {
				break
			}
			if bt, ok := ph.Type().Underlying().(*types.Basic); !ok || bt.Kind() != types.Bool {
				continue
			}
			for _, e := range ph.Edges {
				if _, isC := ConstBool(e); isC {
					flags = append(flags, ph)
					break
				}
			}
		}
	}
	flagIdx := map[*ssa.Phi]int{}
	for i, f := range flags {
		flagIdx[f] = i
	}
	type state struct {
		b   *ssa.BasicBlock
		key string
	}
	// flag valuation: byte per flag: 'u' unknown, 't', 'f'
	initVal := make([]byte, len(flags))
	for i := range initVal {
		initVal[i] = 'u'
	}
	transfer := func(val []byte, from, to *ssa.BasicBlock) []byte {
		if len(flags) == 0 {
			return val
		}
		out := append([]byte(nil), val...)
		pi := -1
		for i, p := range to.Preds {
			if p == from {
				pi = i
			}
		}
		for _, ins := range to.Instrs {
			ph, ok := ins.(*ssa.Phi)
			if !ok {
				break
			}
			k, tracked := flagIdx[ph]
			if !tracked || pi < 0 {
				continue
			}
			e := ph.Edges[pi]
			if c, isC := ConstBool(e); isC {
				if c {
					out[k] = 't'
				} else {
					out[k] = 'f'
				}
			} else if ep, ok := e.(*ssa.Phi); ok {
				if k2, ok := flagIdx[ep]; ok {
					out[k] = val[k2]
				} else {
					out[k] = 'u'
				}
			} else {
				out[k] = 'u'
			}
		}
		return out
	}
	succs := func(b *ssa.BasicBlock, val []byte) []*ssa.BasicBlock {
		if iff := IfOf(b); iff != nil && len(flags) > 0 {
			cond := iff.Cond
			neg := false
			if u, ok := cond.(*ssa.UnOp); ok && u.Op == token.NOT {
				cond, neg = u.X, true
			}
			if ph, ok := cond.(*ssa.Phi); ok {
				if k, ok := flagIdx[ph]; ok && val[k] != 'u' {
					t := val[k] == 't'
					if neg {
						t = !t
					}
					if t {
						return b.Succs[:1]
					}
					return b.Succs[1:2]
				}
			}
		}
		return b.Succs
	}
	var startBlock *ssa.BasicBlock
	startIdx := 0
	if q.From != nil {
		startBlock = q.From.Block()
		startIdx = InstrIndex(q.From) + 1
	} else {
		startBlock = fn.Blocks[0]
	}
	var trail []*ssa.BasicBlock
	seen := map[state]bool{}
	type item struct {
		b   *ssa.BasicBlock
		val []byte
	}
	var work []item
	hit, blocked := scan(startBlock, startIdx)
	trail = append(trail, startBlock)
	if hit {
		return true, trail
	}
	infeasible := enumInfeasible(fn)
	push := func(from *ssa.BasicBlock, val []byte) {
		for _, s := range succs(from, val) {
			if q.CutEdges[Edge{from, s}] || infeasible[Edge{from, s}] {
				continue
			}
			nv := transfer(val, from, s)
			st := state{s, string(nv)}
			if !seen[st] {
				seen[st] = true
				work = append(work, item{s, nv})
			}
		}
	}
	if !blocked {
		push(startBlock, initVal)
	}
	for len(work) > 0 {
		it := work[0]
		work = work[1:]
		trail = append(trail, it.b)
		hit, blocked := scan(it.b, 0)
		if hit {
			return true, trail
		}
		if !blocked {
			push(it.b, it.val)
		}
	}
	return false, nil
}

// enumInfeasible: edges that no execution takes because the tested value is the
// result of a repository function all of whose returns are integer constants
// (an enumeration of outcomes): in `switch h() { case A: … case B: … }` with
// h returning only A or B, the edge past the last case is infeasible, and so is
// the arm of a constant h never returns.  Only a direct call result compared
// with constants in a chain of single-predecessor tests is recognised.
var enumInfeasibleCache = map[*ssa.Function]map[Edge]bool{}

func constReturnSet(h *ssa.Function) (map[int64]bool, bool) {
	if h == nil || h.Blocks == nil || h.Signature.Results().Len() != 1 {
		return nil, false
	}
	bt, ok := h.Signature.Results().At(0).Type().Underlying().(*types.Basic)
	if !ok || bt.Info()&types.IsInteger == 0 {
		return nil, false
	}
	set := map[int64]bool{}
	for _, b := range h.Blocks {
		if len(b.Instrs) == 0 {
			continue
		}
		switch t := b.Instrs[len(b.Instrs)-1].(type) {
		case *ssa.Return:
			k, ok := ConstInt(t.Results[0])
			if !ok {
				return nil, false
			}
			set[k] = true
		}
	}
	if h.Recover != nil || len(set) == 0 || len(set) > 8 {
		return nil, false
	}
	return set, true
}

// EnumInfeasible exposes the edges for analyses that walk the CFG themselves.
func EnumInfeasible(fn *ssa.Function) map[Edge]bool { return enumInfeasible(fn) }

func enumInfeasible(fn *ssa.Function) map[Edge]bool {
	if m, ok := enumInfeasibleCache[fn]; ok {
		return m
	}
	out := map[Edge]bool{}
	test := func(b *ssa.BasicBlock) (x *ssa.Call, k int64, ok bool) {
		iff := IfOf(b)
		if iff == nil {
			return nil, 0, false
		}
		cmp, isB := iff.Cond.(*ssa.BinOp)
		if !isB || cmp.Op != token.EQL {
			return nil, 0, false
		}
		cl, isC := cmp.X.(*ssa.Call)
		kk, isK := ConstInt(cmp.Y)
		if !isC || !isK {
			return nil, 0, false
		}
		return cl, kk, true
	}
	for _, b := range fn.Blocks {
		x, k, ok := test(b)
		if !ok {
			continue
		}
		set, ok := constReturnSet(x.Call.StaticCallee())
		if !ok {
			continue
		}
		excluded := map[int64]bool{}
		for cur := b; len(cur.Preds) == 1; {
			pr := cur.Preds[0]
			px, pk, ok := test(pr)
			if !ok || px != x || len(pr.Succs) != 2 || pr.Succs[1] != cur || pr.Succs[0] == cur {
				break
			}
			excluded[pk] = true
			cur = pr
		}
		if !set[k] || excluded[k] {
			out[Edge{b, b.Succs[0]}] = true
		}
		rest := 0
		for v := range set {
			if v != k && !excluded[v] {
				rest++
			}
		}
		if rest == 0 {
			out[Edge{b, b.Succs[1]}] = true
		}
	}
	enumInfeasibleCache[fn] = out
	return out
}

// MustPassBetween reports whether every path from `from` (nil = entry) to `to`
// (nil = any exit) executes an instruction satisfying pass.
func MustPassBetween(fn *ssa.Function, from, to ssa.Instruction, pass func(ssa.Instruction) bool) bool {
	ok, _ := PathQuery{Fn: fn, From: from, To: to, Avoid: pass}.Exists()
	return !ok
}

// Reachable reports whether `to` can execute after `from` (nil = entry).
func Reachable(fn *ssa.Function, from, to ssa.Instruction) bool {
	ok, _ := PathQuery{Fn: fn, From: from, To: to}.Exists()
	return ok
}

// EdgeGuards reports whether every path from entry to ins takes edge e.
func EdgeGuards(fn *ssa.Function, e Edge, ins ssa.Instruction) bool {
	ok, _ := PathQuery{Fn: fn, To: ins, CutEdges: map[Edge]bool{e: true}}.Exists()
	return !ok
}

// IfOf returns the *ssa.If terminating b, or nil.
func IfOf(b *ssa.BasicBlock) *ssa.If {
	if len(b.Instrs) == 0 {
		return nil
	}
	i, _ := b.Instrs[len(b.Instrs)-1].(*ssa.If)
	return i
}

// GuardedBy reports whether ins executes only after the branch `iff` went the
// given way (true arm = Succs[0]).
func GuardedBy(iff *ssa.If, arm bool, ins ssa.Instruction) bool {
	b := iff.Block()
	if b.Succs[0] == b.Succs[1] {
		return false
	}
	want := b.Succs[1]
	if arm {
		want = b.Succs[0]
	}
	return EdgeGuards(b.Parent(), Edge{b, want}, ins)
}

// ---------- values ----------

// Strip removes value-preserving wrappers (conversions between named/unnamed
// versions of the same underlying type, interface boxing).
func Strip(v ssa.Value) ssa.Value {
	for {
		switch x := v.(type) {
		case *ssa.ChangeType:
			v = x.X
		case *ssa.MakeInterface:
			v = x.X
		case *ssa.ChangeInterface:
			v = x.X
		default:
			return v
		}
	}
}

// StripConv additionally removes numeric conversions.
func StripConv(v ssa.Value) ssa.Value {
	for {
		v = Strip(v)
		if c, ok := v.(*ssa.Convert); ok {
			v = c.X
			continue
		}
		return v
	}
}

// ConstBool returns (value, true) when v is a boolean constant.
func ConstBool(v ssa.Value) (bool, bool) {
	c, ok := v.(*ssa.Const)
	if !ok || c.Value == nil || c.Value.Kind() != constant.Bool {
		return false, false
	}
	return constant.BoolVal(c.Value), true
}

// ConstInt returns (value, true) when v is an integer constant.
func ConstInt(v ssa.Value) (int64, bool) {
	c, ok := StripConv(v).(*ssa.Const)
	if !ok || c.Value == nil || c.Value.Kind() != constant.Int {
		return 0, false
	}
	n, exact := constant.Int64Val(c.Value)
	return n, exact
}

// IsNilConst reports whether v is the nil constant.
func IsNilConst(v ssa.Value) bool {
	c, ok := v.(*ssa.Const)
	return ok && c.Value == nil
}

// FieldName returns the name of the field addressed/selected by v
// (*ssa.FieldAddr or *ssa.Field), "" otherwise.
func FieldName(v ssa.Value) string {
	switch x := v.(type) {
	case *ssa.FieldAddr:
		st, ok := derefStruct(x.X.Type())
		if ok {
			return st.Field(x.Field).Name()
		}
	case *ssa.Field:
		st, ok := x.X.Type().Underlying().(*types.Struct)
		if ok {
			return st.Field(x.Field).Name()
		}
	}
	return ""
}

// FieldVar returns the *types.Var of the field addressed/selected by v, or nil.
func FieldVar(v ssa.Value) *types.Var {
	switch x := v.(type) {
	case *ssa.FieldAddr:
		if st, ok := derefStruct(x.X.Type()); ok {
			return st.Field(x.Field)
		}
	case *ssa.Field:
		if st, ok := x.X.Type().Underlying().(*types.Struct); ok {
			return st.Field(x.Field)
		}
	}
	return nil
}

func derefStruct(t types.Type) (*types.Struct, bool) {
	if p, ok := t.Underlying().(*types.Pointer); ok {
		t = p.Elem()
	}
	st, ok := t.Underlying().(*types.Struct)
	return st, ok
}

// LoadedField: if v is a load (*p) of a field address, returns that FieldAddr.
func LoadedField(v ssa.Value) *ssa.FieldAddr {
	if u, ok := v.(*ssa.UnOp); ok && u.Op == token.MUL {
		if fa, ok := u.X.(*ssa.FieldAddr); ok {
			return fa
		}
		// a pointer parameter of a helper with one call site, bound to the address of a field (`&b.count`)
		if prm, ok := u.X.(*ssa.Parameter); ok {
			if fa, ok := ResolveParam(prm).(*ssa.FieldAddr); ok {
				return fa
			}
		}
	}
	return nil
}

// AccessPath renders a value as a symbolic access path such as
// "b.processor.sem" (parameters and free variables by name, loads of fields by
// ".name", index by "[...]"). Values with no stable path render as "".
func AccessPath(v ssa.Value) string {
	switch x := v.(type) {
	case *ssa.Parameter:
		return x.Name()
	case *ssa.FreeVar:
		return x.Name()
	case *ssa.Global:
		return x.Pkg.Pkg.Name() + "." + x.Name()
	case *ssa.UnOp:
		if x.Op == token.MUL {
			// load: path of the address
			return AccessPath(x.X)
		}
	case *ssa.FieldAddr:
		b := AccessPath(x.X)
		if b == "" {
			return ""
		}
		return b + "." + FieldName(x)
	case *ssa.Field:
		b := AccessPath(x.X)
		if b == "" {
			return ""
		}
		return b + "." + FieldName(x)
	case *ssa.IndexAddr:
		b := AccessPath(x.X)
		if b == "" {
			return ""
		}
		return b + idxStr(x.Index)
	case *ssa.Index:
		b := AccessPath(x.X)
		if b == "" {
			return ""
		}
		return b + idxStr(x.Index)
	case *ssa.Alloc:
		if x.Comment != "" {
			return x.Comment
		}
	case *ssa.ChangeType:
		return AccessPath(x.X)
	case *ssa.MakeInterface:
		return AccessPath(x.X)
	case *ssa.TypeAssert:
		return AccessPath(x.X)
	case *ssa.Extract:
		return ""
	}
	return ""
}

func idxStr(i ssa.Value) string {
	if k, ok := ConstInt(i); ok {
		if _, isC := StripConv(i).(*ssa.Const); isC {
			return "[" + strconv.FormatInt(k, 10) + "]"
		}
	}
	if p, c, ok := AffineIn(i); ok {
		n := p.Comment
		if n == "" {
			n = p.Name()
		}
		if c == 0 {
			return "[" + n + "]"
		}
		return "[" + n + "+" + strconv.FormatInt(c, 10) + "]"
	}
	return "[]"
}

// Referrers returns the instructions that use v (nil-safe).
func Referrers(v ssa.Value) []ssa.Instruction {
	r := v.Referrers()
	if r == nil {
		return nil
	}
	return *r
}

// BackSlice computes the set of values v may derive from inside its function,
// following operands of pure instructions, phis, loads of local allocs (via
// their stores) and closure free variables (via the enclosing MakeClosure
// bindings). It does not enter callees. visit is called once per value; return
// false to stop descending below that value.
func BackSlice(v ssa.Value, visit func(ssa.Value) bool) {
	seen := map[ssa.Value]bool{}
	var walk func(ssa.Value)
	walk = func(v ssa.Value) {
		if v == nil || seen[v] {
			return
		}
		seen[v] = true
		if !visit(v) {
			return
		}
		switch x := v.(type) {
		case *ssa.Phi:
			for _, e := range x.Edges {
				walk(e)
			}
		case *ssa.UnOp:
			if x.Op == token.MUL {
				if a, ok := x.X.(*ssa.Alloc); ok {
					walk(a)
					return
				}
				if fv, ok := x.X.(*ssa.FreeVar); ok {
					walk(fv)
					return
				}
			}
			walk(x.X)
		case *ssa.Parameter:
			if b := paramBindings[x]; b != nil {
				walk(b)
			}
		case *ssa.FreeVar:
			fn := x.Parent()
			if fn == nil || fn.Parent() == nil {
				return
			}
			idx := -1
			for i, f := range fn.FreeVars {
				if f == x {
					idx = i
				}
			}
			EachInstr(fn.Parent(), func(i ssa.Instruction) {
				if mc, ok := i.(*ssa.MakeClosure); ok && mc.Fn == fn && idx >= 0 && idx < len(mc.Bindings) {
					b := mc.Bindings[idx]
					walk(b)
					// binding is usually the *address* of the captured variable
					if a, ok := b.(*ssa.Alloc); ok {
						for _, r := range Referrers(a) {
							if st, ok := r.(*ssa.Store); ok && st.Addr == a {
								walk(st.Val)
							}
						}
					}
				}
			})
		case *ssa.BinOp:
			walk(x.X)
			walk(x.Y)
		case *ssa.ChangeType:
			walk(x.X)
		case *ssa.Convert:
			walk(x.X)
		case *ssa.MakeInterface:
			walk(x.X)
		case *ssa.ChangeInterface:
			walk(x.X)
		case *ssa.TypeAssert:
			walk(x.X)
		case *ssa.Extract:
			walk(x.Tuple)
		case *ssa.Field:
			walk(x.X)
		case *ssa.FieldAddr:
			walk(x.X)
		case *ssa.Index:
			walk(x.X)
			walk(x.Index)
		case *ssa.IndexAddr:
			walk(x.X)
			walk(x.Index)
		case *ssa.Slice:
			walk(x.X)
		case *ssa.Lookup:
			walk(x.X)
			walk(x.Index)
		case *ssa.Call:
			for _, a := range x.Call.Args {
				walk(a)
			}
			if x.Call.IsInvoke() {
				walk(x.Call.Value)
			}
			// a helper declared transparent (a block of an anchored function moved into a function that
			// returns values used afterwards): the slice continues into what it returns
			if callee := x.Call.StaticCallee(); callee != nil && transparentFns[callee] {
				for _, r := range Returns(callee) {
					for _, res := range r.Results {
						walk(res)
					}
				}
			}
		case *ssa.MakeClosure:
			for _, b := range x.Bindings {
				walk(b)
			}
		case *ssa.Alloc:
			var into func(addr ssa.Value, depth int)
			into = func(addr ssa.Value, depth int) {
				for _, r := range Referrers(addr) {
					if st, ok := r.(*ssa.Store); ok && st.Addr == addr {
						walk(st.Val)
					}
					// element / field stores into the allocated aggregate (nested)
					if sub, ok := r.(ssa.Value); ok && depth < 6 {
						switch y := sub.(type) {
						case *ssa.IndexAddr:
							if y.X == addr {
								into(sub, depth+1)
							}
						case *ssa.FieldAddr:
							if y.X == addr {
								into(sub, depth+1)
							}
						}
					}
				}
			}
			into(x, 0)
		}
	}
	walk(v)
}

// paramBindings: parameters of a function with a single known call site (the body of a goroutine started by
// one `go f(args)` statement) and the argument each stands for. BackSlice continues from such a parameter into
// the argument, as it does from a closure's free variable into its binding.
var paramBindings = map[*ssa.Parameter]ssa.Value{}

var transparentFns = map[*ssa.Function]bool{}

// MarkTransparent makes BackSlice continue from a call of fn into the values fn returns.
func MarkTransparent(fn *ssa.Function) { transparentFns[fn] = true }

// ResolveParam follows parameter bindings: the argument a bound parameter stands for (v itself otherwise).
func ResolveParam(v ssa.Value) ssa.Value {
	for i := 0; i < 4; i++ {
		prm, ok := Strip(v).(*ssa.Parameter)
		if !ok {
			return v
		}
		b := paramBindings[prm]
		if b == nil {
			return v
		}
		v = b
	}
	return v
}

// BindParam records that prm stands for arg.
func BindParam(prm *ssa.Parameter, arg ssa.Value) { paramBindings[prm] = arg }

// UnbindParam forgets a binding made for the duration of one query.
func UnbindParam(prm *ssa.Parameter) { delete(paramBindings, prm) }

// ParamBinding returns the argument prm stands for, if any.
func ParamBinding(prm *ssa.Parameter) ssa.Value { return paramBindings[prm] }

// DerivesFrom reports whether pred holds for some value in v's backward slice.
func DerivesFrom(v ssa.Value, pred func(ssa.Value) bool) bool {
	found := false
	BackSlice(v, func(x ssa.Value) bool {
		if found {
			return false
		}
		if pred(x) {
			found = true
			return false
		}
		return true
	})
	return found
}

// FuncName renders a function for keys: package-relative, stable under moves
// inside the file.
func FuncName(fn *ssa.Function) string {
	if fn == nil {
		return "?"
	}
	s := fn.String()
	s = strings.ReplaceAll(s, RepoPath+"/", "")
	return s
}

// ResultValue returns the k-th value a return hands back, looking through the result cells go/ssa
// introduces in functions that defer (`*t1 = v; rundefers; t9 = *t1; return …, t9`): the value of the
// last store into the cell in the return's own block. The result itself when it is not spilled.
func ResultValue(r *ssa.Return, k int) ssa.Value {
	if k >= len(r.Results) {
		return nil
	}
	v := r.Results[k]
	ld, ok := v.(*ssa.UnOp)
	if !ok || ld.Op != token.MUL {
		return v
	}
	al, ok := ld.X.(*ssa.Alloc)
	if !ok || al.Heap {
		return v
	}
	b := r.Block()
	for i := len(b.Instrs) - 1; i >= 0; i-- {
		if st, ok := b.Instrs[i].(*ssa.Store); ok && st.Addr == ssa.Value(al) {
			return st.Val
		}
	}
	return v
}
