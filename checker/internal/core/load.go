// Package core holds the loader, the obligation model and the reporting
// plumbing shared by every rule of otelcheck (DESIGN.md section 2).
package core

import (
	"fmt"
	"go/ast"
	"go/token"
	"go/types"
	"os"
	"path/filepath"
	"sort"
	"strings"
	"time"

	"golang.org/x/tools/go/callgraph"
	"golang.org/x/tools/go/callgraph/cha"
	"golang.org/x/tools/go/callgraph/vta"
	"golang.org/x/tools/go/packages"
	"golang.org/x/tools/go/ssa"
	"golang.org/x/tools/go/ssa/ssautil"
)

// Module names understood by Load.
const (
	ModRoot = "root"
	ModCBP  = "cbp"
	ModObf  = "obf"
)

const (
	RepoPath  = "github.com/open-telemetry/otel-arrow"
	CBPPath   = RepoPath + "/collector/processor/concurrentbatchprocessor"
	ObfPath   = RepoPath + "/collector/processor/obfuscationprocessor"
	PdataPath = "go.opentelemetry.io/collector/pdata"
	ArrowPath = "github.com/apache/arrow-go/v18/arrow"
)

var moduleDirs = map[string]string{
	ModRoot: ".",
	ModCBP:  "collector/processor/concurrentbatchprocessor",
	ModObf:  "collector/processor/obfuscationprocessor",
}

var modulePaths = map[string]string{
	ModRoot: RepoPath,
	ModCBP:  CBPPath,
	ModObf:  ObfPath,
}

// Prog is one loaded, type-checked and SSA-built Go module of /repo.
type Prog struct {
	Name    string
	Repo    string
	Dir     string
	ModPath string
	Tags    string
	Fset    *token.FileSet
	Roots   []*packages.Package
	ByPath  map[string]*packages.Package
	SSA     *ssa.Program
	AllFns  map[*ssa.Function]bool
	LoadS   float64

	chaG *callgraph.Graph
	vtaG *callgraph.Graph

	fnOfDecl map[*ast.FuncDecl]*ssa.Function
}

// Canary is a source file overlaid (never written) into the module so that a
// rule can be exercised on a known-violating and a known-conforming instance.
type Canary struct {
	Name string // directory name under internal/zzverifcanary
	Src  []byte
}

// CanaryPkgPath returns the import path a canary gets inside module mod.
func CanaryPkgPath(mod, name string) string {
	return modulePaths[mod] + "/internal/zzverifcanary/" + name
}

// Load type-checks module mod of the repository rooted at repo and builds SSA.
func Load(repo, mod, tags string, canaries []Canary) (*Prog, error) {
	t0 := time.Now()
	rel, ok := moduleDirs[mod]
	if !ok {
		return nil, fmt.Errorf("unknown module %q", mod)
	}
	dir := filepath.Join(repo, rel)
	env := []string{}
	for _, e := range os.Environ() {
		if strings.HasPrefix(e, "GOWORK=") || strings.HasPrefix(e, "GOFLAGS=") || strings.HasPrefix(e, "GOPROXY=") || strings.HasPrefix(e, "GOTOOLCHAIN=") || strings.HasPrefix(e, "GOSUMDB=") {
			continue
		}
		env = append(env, e)
	}
	env = append(env, "GOWORK=off", "GOFLAGS=-mod=mod", "GOPROXY=off", "GOSUMDB=off", "GOTOOLCHAIN=local")
	cfg := &packages.Config{
		Mode: packages.LoadAllSyntax,
		Dir:  dir,
		Env:  env,
	}
	if tags != "" {
		cfg.BuildFlags = []string{"-tags=" + tags}
	}
	if len(canaries) > 0 {
		cfg.Overlay = map[string][]byte{}
		for _, c := range canaries {
			cfg.Overlay[filepath.Join(dir, "internal", "zzverifcanary", c.Name, "c.go")] = c.Src
		}
	}
	pats := []string{"./..."}
	pkgs, err := packages.Load(cfg, pats...)
	if err != nil {
		return nil, fmt.Errorf("load %s: %w", mod, err)
	}
	if len(pkgs) == 0 {
		return nil, fmt.Errorf("load %s: no packages matched in %s", mod, dir)
	}
	p := &Prog{Name: mod, Repo: repo, Dir: dir, ModPath: modulePaths[mod], Tags: tags, Roots: pkgs, ByPath: map[string]*packages.Package{}}
	var errs []string
	packages.Visit(pkgs, nil, func(pk *packages.Package) {
		p.ByPath[pk.PkgPath] = pk
		if p.Fset == nil {
			p.Fset = pk.Fset
		}
		if strings.HasPrefix(pk.PkgPath, RepoPath) {
			for _, e := range pk.Errors {
				errs = append(errs, pk.PkgPath+": "+e.Error())
			}
			if pk.IllTyped {
				errs = append(errs, pk.PkgPath+": ill-typed")
			}
		}
	})
	if len(errs) > 0 {
		sort.Strings(errs)
		if len(errs) > 8 {
			errs = errs[:8]
		}
		return nil, fmt.Errorf("load %s: type-check errors in repository packages: %s", mod, strings.Join(errs, "; "))
	}
	prog, _ := ssautil.AllPackages(pkgs, ssa.InstantiateGenerics)
	prog.Build()
	p.SSA = prog
	p.AllFns = ssautil.AllFunctions(prog)
	p.LoadS = time.Since(t0).Seconds()
	return p, nil
}

// InRepo reports whether pkg path belongs to the repository (any module).
func InRepo(path string) bool { return strings.HasPrefix(path, RepoPath) }

// IsCanaryPath reports whether the path is an overlaid canary package.
func IsCanaryPath(path string) bool { return strings.Contains(path, "/internal/zzverifcanary/") }

// FnPkgPath returns the package path owning fn ("" for synthetic wrappers
// without package; instantiations and closures report their origin's package).
func FnPkgPath(fn *ssa.Function) string {
	for fn != nil {
		if fn.Pkg != nil {
			return fn.Pkg.Pkg.Path()
		}
		if fn.Origin() != nil && fn.Origin() != fn {
			fn = fn.Origin()
			continue
		}
		if fn.Parent() != nil {
			fn = fn.Parent()
			continue
		}
		if o := fn.Object(); o != nil && o.Pkg() != nil {
			return o.Pkg().Path()
		}
		return ""
	}
	return ""
}

// Pkg returns the loaded package with the given import path or nil.
func (p *Prog) Pkg(path string) *packages.Package { return p.ByPath[path] }

// SSAPkg returns the SSA package for an import path or nil.
func (p *Prog) SSAPkg(path string) *ssa.Package {
	pk := p.ByPath[path]
	if pk == nil || pk.Types == nil {
		return nil
	}
	return p.SSA.Package(pk.Types)
}

// Func finds a package-level function or a method ("T.m" / "(*T).m" both given
// as recv="T") in package path. Returns nil if it does not exist.
func (p *Prog) Func(path, recv, name string) *ssa.Function {
	pk := p.ByPath[path]
	if pk == nil || pk.Types == nil {
		return nil
	}
	if recv == "" {
		if sp := p.SSA.Package(pk.Types); sp != nil {
			return sp.Func(name)
		}
		return nil
	}
	obj := pk.Types.Scope().Lookup(recv)
	if obj == nil {
		return nil
	}
	tn, ok := obj.(*types.TypeName)
	if !ok {
		return nil
	}
	for _, t := range []types.Type{tn.Type(), types.NewPointer(tn.Type())} {
		ms := p.SSA.MethodSets.MethodSet(t)
		for i := 0; i < ms.Len(); i++ {
			sel := ms.At(i)
			if sel.Obj().Name() == name {
				if f := p.SSA.MethodValue(sel); f != nil {
					// Skip promoted-method wrappers: want the declared one.
					if f.Synthetic == "" {
						return f
					}
				}
			}
		}
	}
	return nil
}

// FuncsIn returns all source functions (incl. closures and generic
// instantiations) whose owning package satisfies keep, sorted by position.
func (p *Prog) FuncsIn(keep func(pkgPath string) bool) []*ssa.Function {
	var out []*ssa.Function
	for fn := range p.AllFns {
		if fn.Blocks == nil || fn.Synthetic != "" && !strings.HasPrefix(fn.Synthetic, "instance of") {
			continue
		}
		if keep(FnPkgPath(fn)) {
			out = append(out, fn)
		}
	}
	sort.Slice(out, func(i, j int) bool {
		pi, pj := p.Fset.Position(out[i].Pos()), p.Fset.Position(out[j].Pos())
		if pi.Filename != pj.Filename {
			return pi.Filename < pj.Filename
		}
		if pi.Offset != pj.Offset {
			return pi.Offset < pj.Offset
		}
		return out[i].String() < out[j].String()
	})
	return out
}

// CHA returns the class-hierarchy call graph of the whole program.
func (p *Prog) CHA() *callgraph.Graph {
	if p.chaG == nil {
		p.chaG = cha.CallGraph(p.SSA)
	}
	return p.chaG
}

// VTA returns the variable-type-analysis call graph (more precise, slower).
func (p *Prog) VTA() *callgraph.Graph {
	if p.vtaG == nil {
		p.vtaG = vta.CallGraph(p.AllFns, p.CHA())
	}
	return p.vtaG
}

// Pos renders a position relative to the repository root.
func (p *Prog) Pos(pos token.Pos) string {
	if !pos.IsValid() {
		return "?"
	}
	ps := p.Fset.Position(pos)
	f := ps.Filename
	if i := strings.Index(f, "/internal/zzverifcanary/"); i >= 0 {
		f = "canary:" + f[i+len("/internal/zzverifcanary/"):]
	} else if rel, err := filepath.Rel(p.Repo, f); err == nil && !strings.HasPrefix(rel, "..") {
		f = rel
	}
	return fmt.Sprintf("%s:%d", f, ps.Line)
}

// FileOf returns the syntax file containing pos in a repo package.
func (p *Prog) FileOf(pos token.Pos) (*packages.Package, *ast.File) {
	for _, pk := range p.ByPath {
		if !InRepo(pk.PkgPath) {
			continue
		}
		for _, f := range pk.Syntax {
			if f.Pos() <= pos && pos <= f.End() {
				return pk, f
			}
		}
	}
	return nil, nil
}

// DeclOf returns the *ast.FuncDecl or *ast.FuncLit of fn together with the
// package that holds it.
func (p *Prog) DeclOf(fn *ssa.Function) (*packages.Package, ast.Node) {
	if fn == nil {
		return nil, nil
	}
	if fn.Origin() != nil {
		fn = fn.Origin()
	}
	if n := fn.Syntax(); n != nil {
		pk, _ := p.FileOf(n.Pos())
		return pk, n
	}
	return nil, nil
}
