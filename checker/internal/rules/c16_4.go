package rules

import (
	"fmt"
	"go/types"
	"strings"

	"golang.org/x/tools/go/ssa"

	"otelcheck/internal/core"
)

// C16.4 borrowed slices are not written. arrow.Metadata.Keys()/Values(),
// Schema.Fields(), StructType.Fields() … hand out the object's internal slices.
// The prototype schemas are package-level values shared by every producer, so a
// write through such a slice — an element store, or the in-place filter idiom
// `s := x.Keys()[:0]; s = append(s, …)` — edits the prototype for the whole
// process. A slice returned by a method of an arrow-go type is therefore never
// the target of an element store and never the first argument of append (also
// after re-slicing).
func c16_4(c *core.Ctx, p *core.Prog) {
	n := 0
	fns := rootFuncs(c, p)
	for _, fn := range fns {
		if fn.Synthetic != "" {
			continue
		}
		fn := fn
		core.EachInstr(fn, func(i ssa.Instruction) {
			cl, ok := i.(*ssa.Call)
			if !ok {
				return
			}
			f := core.CalleeObj(cl)
			if f == nil || f.Pkg() == nil || !(strings.HasPrefix(f.Pkg().Path(), core.ArrowPath) || core.IsCanaryPath(f.Pkg().Path())) {
				return
			}
			sig, _ := f.Type().(*types.Signature)
			if sig == nil || sig.Recv() == nil || sig.Results().Len() != 1 {
				return
			}
			if _, isSl := sig.Results().At(0).Type().Underlying().(*types.Slice); !isSl {
				return
			}
			if core.IsCanaryPath(f.Pkg().Path()) && !strings.HasPrefix(f.Name(), "Keys") {
				return
			}
			n++
			var bad []string
			seen := map[ssa.Value]bool{}
			resliced := map[ssa.Value]bool{}
			var follow func(v ssa.Value)
			follow = func(v ssa.Value) {
				if seen[v] {
					return
				}
				seen[v] = true
				for _, r := range core.Referrers(v) {
					switch u := r.(type) {
					case *ssa.Slice:
						if u.X == v {
							resliced[u] = true
							follow(u)
						}
					case *ssa.Phi:
						if resliced[v] {
							resliced[u] = true
						}
						follow(u)
					case *ssa.IndexAddr:
						if u.X != v {
							continue
						}
						for _, r2 := range core.Referrers(u) {
							if st, isSt := r2.(*ssa.Store); isSt && st.Addr == ssa.Value(u) {
								bad = append(bad, "element assigned at "+p.Pos(st.Pos()))
							}
						}
					case *ssa.Store:
						// stored into a local: follow its loads
						if u.Val == v {
							if al, isAl := u.Addr.(*ssa.Alloc); isAl {
								for _, r2 := range core.Referrers(al) {
									if ld, isLd := r2.(*ssa.UnOp); isLd {
										if resliced[v] {
											resliced[ld] = true
										}
										follow(ld)
									}
								}
							}
						}
					case *ssa.Call:
						if bi, isBi := u.Call.Value.(*ssa.Builtin); isBi {
							// append(borrowed, x) on the slice as handed out reallocates (arrow-go builds these slices
							// with exact capacity); after a re-slice such as [:0] the backing array is reused
							if bi.Name() == "append" && len(u.Call.Args) > 0 && u.Call.Args[0] == v && resliced[v] {
								bad = append(bad, "append reuses its backing array (after a re-slice) at "+p.Pos(u.Pos()))
							}
							if bi.Name() == "copy" && len(u.Call.Args) > 0 && u.Call.Args[0] == v {
								bad = append(bad, "copy writes into it at "+p.Pos(u.Pos()))
							}
						}
					}
				}
			}
			follow(cl)
			key := fmt.Sprintf("fn=%s|%s@%s", core.FuncName(fn), f.Name(), p.Pos(cl.Pos()))
			c.Check(len(bad) == 0, key, p.Pos(cl.Pos()), core.FuncName(fn),
				"the slice returned by "+f.Name()+"() is only read",
				fmt.Sprintf("the internal slice returned by %s() is written (%s): for the package-level prototype schemas this edits metadata/fields shared by every producer of the process — one stream changes what every other stream puts on the wire", f.FullName(), strings.Join(bad, "; ")))
		})
	}
	c.Stats["C16.4 borrowed slices"] = n
}

func init() {
	register("C16", &core.Rule{ID: "C16.4", Title: "slices borrowed from arrow-go objects (Metadata.Keys/Values, Fields …) are never written or append-reused", Mod: core.ModRoot, Floor: 20, Run: c16_4})
}
