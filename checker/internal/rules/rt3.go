package rules

import (
	"fmt"
	"os"
	"go/token"
	"sort"
	"strings"

	"golang.org/x/tools/go/ssa"

	"otelcheck/internal/core"
)

// RT.3 column pairing. For every scalar data-model field T.F the encoder writes
// the value of T.F() into the column(s) encCols(T.F) (origin analysis: the
// getter reaches an argument of a schema-builder Append whose receiver is the
// column handle created for a constant field name) and the decoder passes to
// T.SetF a value read from the column(s) decCols(T.F) (the argument derives
// from a typed accessor call given a column id looked up under a constant
// name). The two sets must intersect: otherwise the decoder restores the field
// from a column the encoder filled with something else.

type pairSite struct {
	fn  *ssa.Function
	pos token.Pos
}

func rt_3(sig dmSignal) func(c *core.Ctx, p *core.Prog) {
	return func(c *core.Ctx, p *core.Prog) {
		encRoots := methodsOf(p, pkgArrowRecord, "Producer", sig.enc)
		decRoots := methodsOf(p, pkgArrowRecord, "Consumer", sig.dec)
		rootT := dmRoot(p, sig)
		if rootT == nil || len(encRoots) == 0 || len(decRoots) == 0 {
			c.Undecided("anchors|"+sig.name, "", "", "pdata root type or producer/consumer entry point not found")
			return
		}
		encReach := repoReach(p, p.CHA(), encRoots)
		decReach := repoReach(p, p.CHA(), decRoots)
		all := map[*ssa.Function]bool{}
		for f := range encReach {
			all[f] = true
		}
		for f := range decReach {
			all[f] = true
		}
		e := newOriginEngine(p, p.CHA(), all)
		encCols := map[string]tokSet{}
		encAt := map[string]pairSite{}
		for _, fn := range sortedFuncs(p, encReach) {
			fn := fn
			core.EachInstr(fn, func(i ssa.Instruction) {
				ci, ok := i.(ssa.CallInstruction)
				if !ok {
					return
				}
				f := core.CalleeObj(ci)
				if f == nil || f.Pkg() == nil || f.Pkg().Path() != pkgBuilder || !strings.HasPrefix(f.Name(), "Append") {
					return
				}
				recv := core.CallRecv(ci)
				if recv == nil {
					return
				}
				cols := tokSet{}
				for _, cname := range e.tokens(recv).with("col:") {
					cols[cname] = true
				}
				if len(cols) == 0 {
					return
				}
				for _, a := range core.CallArgs(ci) {
					for _, g := range e.tokens(a).with("get:") {
						if encCols[g] == nil {
							encCols[g] = tokSet{}
							encAt[g] = pairSite{fn, i.Pos()}
						}
						encCols[g].addAll(cols)
					}
				}
			})
		}
		decCols := map[string]tokSet{}
		decAt := map[string]pairSite{}
		for _, fn := range sortedFuncs(p, decReach) {
			fn := fn
			core.EachInstr(fn, func(i ssa.Instruction) {
				ci, ok := i.(ssa.CallInstruction)
				if !ok {
					return
				}
				f := pdataCallee(ci)
				if f == nil || !strings.HasPrefix(f.Name(), "Set") || strings.HasPrefix(f.Name(), "SetEmpty") {
					return
				}
				args := core.CallArgs(ci)
				if len(args) != 1 {
					return
				}
				k := core.RecvNamed(f).Obj().Name() + "." + strings.TrimPrefix(f.Name(), "Set")
				cols := e.tokens(args[0]).with("col:")
				if decCols[k] == nil {
					decCols[k] = tokSet{}
					decAt[k] = pairSite{fn, i.Pos()}
				}
				for _, cn := range cols {
					decCols[k][cn] = true
				}
			})
		}
		traced := 0
		for _, T := range dmEntities(rootT) {
			tn := T.Obj().Name()
			for _, f := range dmFieldsOf(T) {
				if f.kind != "scalar" && f.kind != "optional" {
					continue
				}
				k := tn + "." + f.name
				ec, dc := encCols[k], decCols[k]
				key := sig.name + "|" + k
				_, decSeen := decAt[k]
				switch {
				case len(ec) == 0 && !decSeen:
					continue // neither side (RT.1 reports one-sided handling)
				case len(ec) == 0 && len(dc) > 0 && claimedBy(encCols, tn, f.name, dc) != "":
					// the column the decoder restores F from is filled from another getter of the same entity
					s := decAt[k]
					other := claimedBy(encCols, tn, f.name, dc)
					c.Viol(key, p.Pos(s.pos), s.fn.String(), fmt.Sprintf("the decoder restores %s from column(s) %v, but the encoder never writes %s() to a column and fills that column from %s() (%s): the field comes back with another field's value", k, keys(dc), k, other, p.Pos(encAt[other].pos)))
				case len(ec) == 0 || len(dc) == 0:
					where := encRoots[0].Pos()
					fnn := encRoots[0].String()
					if s, ok := decAt[k]; ok {
						where, fnn = s.pos, s.fn.String()
					}
					c.InfoOb(key, p.Pos(where), fnn, fmt.Sprintf("%s: value flow not traced to a named column on one side (encoder columns %v, decoder columns %v)", k, keys(ec), keys(dc)))
				default:
					traced++
					common := false
					for cn := range ec {
						if dc[cn] {
							common = true
						}
					}
					s := decAt[k]
					if os.Getenv("OTELCHECK_DEBUG") != "" {
						fmt.Println("RT.3", k, keys(ec), keys(dc))
					}
					c.Check(common, key, p.Pos(s.pos), s.fn.String(),
						fmt.Sprintf("%s is written to column(s) %v and restored from column(s) %v", k, keys(ec), keys(dc)),
						fmt.Sprintf("the encoder writes %s() to column(s) %v (%s) but the decoder passes to Set%s a value read from column(s) %v: the field is restored from a column that holds something else", k, keys(ec), p.Pos(encAt[k].pos), f.name, keys(dc)))
				}
			}
		}
		// derived columns: a column fed by several getters of one entity (duration = end − start). A field
		// whose only column is derived must be restored from that column together with the own columns
		// of the other getters feeding it; restoring it from the derived column alone yields the difference.
		feed := map[string]map[string]bool{} // entity|column → getters
		for g, ec := range encCols {
			tn := g[:strings.Index(g, ".")]
			for cn := range ec {
				k := tn + "|" + cn
				if feed[k] == nil {
					feed[k] = map[string]bool{}
				}
				feed[k][g] = true
			}
		}
		var dks []string
		for k, gs := range feed {
			if len(gs) >= 2 {
				dks = append(dks, k)
			}
		}
		sort.Strings(dks)
		for _, k := range dks {
			tn, col := k[:strings.Index(k, "|")], k[strings.Index(k, "|")+1:]
			var gs []string
			for g := range feed[k] {
				gs = append(gs, g)
			}
			sort.Strings(gs)
			for _, g := range gs {
				// g has no own column
				own := false
				for cn := range encCols[g] {
					if len(feed[tn+"|"+cn]) == 1 {
						own = true
					}
				}
				if own || len(decCols[g]) == 0 {
					continue
				}
				need := map[string]bool{col: true}
				for _, h := range gs {
					if h == g {
						continue
					}
					for cn := range encCols[h] {
						if len(feed[tn+"|"+cn]) == 1 {
							need[cn] = true
						}
					}
				}
				var missing []string
				for cn := range need {
					if !decCols[g][cn] {
						missing = append(missing, cn)
					}
				}
				sort.Strings(missing)
				s := decAt[g]
				c.Check(len(missing) == 0, sig.name+"|derived|"+g, p.Pos(s.pos), s.fn.String(),
					fmt.Sprintf("%s has no column of its own (it is encoded into the derived column %s) and is restored from %v", g, col, keys(decCols[g])),
					fmt.Sprintf("%s is encoded only into the derived column %s (fed by %v) but the decoder restores it from %v without %v: the field comes back as the difference, not the value", g, col, gs, keys(decCols[g]), missing))
			}
		}
		c.Stats["RT.3 paired fields "+sig.name] = traced
		c.Stats["RT.3 origin rounds"] = e.rounds
	}
}

func keys(s tokSet) []string {
	var out []string
	for k := range s {
		out = append(out, k)
	}
	sort.Strings(out)
	return out
}

func init() {
	for _, s := range dmSignals {
		register(s.prop, &core.Rule{ID: "RT.3", Title: "column pairing: every scalar " + s.name + " field is restored from a column the encoder wrote it to", Mod: core.ModRoot, Floor: s.floor3, Run: rt_3(s)})
	}
}

// claimedBy: another getter of entity tn whose encoder columns intersect cols.
func claimedBy(encCols map[string]tokSet, tn, field string, cols tokSet) string {
	var names []string
	for g, ec := range encCols {
		if g == tn+"."+field {
			continue
		}
		// another getter of the same entity, or the same-named getter of another entity (the usual
		// wrong-variable slip: scope's SchemaUrl for the resource's, span's dropped count for the event's)
		if !strings.HasPrefix(g, tn+".") && !strings.HasSuffix(g, "."+field) {
			continue
		}
		for cn := range ec {
			if cols[cn] {
				names = append(names, g)
				break
			}
		}
	}
	sort.Strings(names)
	if len(names) == 0 {
		return ""
	}
	return names[0]
}
