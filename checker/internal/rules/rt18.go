package rules

import (
	"fmt"
	"go/token"
	"go/types"
	"sort"
	"strings"

	"golang.org/x/tools/go/ssa"

	"otelcheck/internal/core"
)

// RT.18 nullable-id mirror (decoder half of RT.16). Where the encoder of an
// entity writes the row's id as null when the row has no related data
// (attributes, events, links), the decoder of that entity must read the id
// column through a nullable accessor and consult the related-data stores only
// under the non-nil test: a non-nullable read turns "no id" into id/delta 0 and
// attaches another row's related records.

// nullIDEntities: pdata entity type names whose encoder function writes a null id (an RT.16 site).
func nullIDEntities(p *core.Prog, e *originEngine, reach map[*ssa.Function]bool) map[string]string {
	out := map[string]string{}
	for _, fn := range sortedFuncs(p, reach) {
		if !encPkg(core.FnPkgPath(fn)) || fn.Synthetic != "" {
			continue
		}
		byField := map[*types.Var][]ssa.CallInstruction{}
		core.EachInstr(fn, func(i ssa.Instruction) {
			if fv := appendEvent(i); fv != nil {
				byField[fv] = append(byField[fv], i.(ssa.CallInstruction))
			}
		})
		site := false
		for _, calls := range byField {
			var nulls, vals []ssa.CallInstruction
			for _, s := range calls {
				if core.CalleeObj(s).Name() == "AppendNull" {
					nulls = append(nulls, s)
				} else {
					vals = append(vals, s)
				}
			}
			if len(nulls) != 1 || len(vals) != 1 || len(core.CallArgs(vals[0])) != 1 {
				continue
			}
			id := core.StripConv(core.CallArgs(vals[0])[0])
			core.EachInstr(fn, func(i ssa.Instruction) {
				ci, ok := i.(ssa.CallInstruction)
				if !ok || !isAccumulate(ci) {
					return
				}
				a := core.CallArgs(ci)
				if len(a) >= 2 && (core.StripConv(a[0]) == id || core.SameValue(core.StripConv(a[0]), id)) && len(zeroTested(fn, nulls[0])) > 0 {
					site = true
				}
			})
		}
		if !site {
			continue
		}
		// entity types whose getters flow into the wrapper appends of this function
		core.EachInstr(fn, func(i ssa.Instruction) {
			ci, ok := i.(ssa.CallInstruction)
			if !ok {
				return
			}
			f := core.CalleeObj(ci)
			if f == nil || f.Pkg() == nil || f.Pkg().Path() != pkgBuilder || !strings.HasPrefix(f.Name(), "Append") {
				return
			}
			// the id and parent-id columns carry linkage, not data-model fields of the entity
			if recv := core.CallRecv(ci); recv != nil {
				skip := false
				for _, cn := range e.tokens(recv).with("col:") {
					if cn == "id" || cn == "parent_id" {
						skip = true
					}
				}
				if skip {
					return
				}
			}
			for _, a := range core.CallArgs(ci) {
				for _, g := range e.tokens(a).with("get:") {
					tn := g[:strings.Index(g, ".")]
					if _, ok := out[tn]; !ok {
						out[tn] = core.FuncName(fn)
					}
				}
			}
		})
	}
	return out
}

func rt_18(c *core.Ctx, p *core.Prog) {
	encReach := encodeReach(p)
	decReach := repoReach(p, p.CHA(), consumerEntries(p))
	all := map[*ssa.Function]bool{}
	for f := range encReach {
		all[f] = true
	}
	for f := range decReach {
		all[f] = true
	}
	e := newOriginEngine(p, p.CHA(), all)
	nullEnt := nullIDEntities(p, e, encReach)
	c.Stats["RT.18 entities with nullable id"] = len(nullEnt)
	var ents []string
	for k := range nullEnt {
		ents = append(ents, k)
	}
	sort.Strings(ents)
	c.Note("RT.18: entities whose encoder writes a null id when the row has no related data: %s", strings.Join(ents, ", "))
	n := 0
	for _, fn := range sortedFuncs(p, decReach) {
		if fn.Synthetic != "" || !strings.Contains(core.FnPkgPath(fn), "/otlp") {
			continue
		}
		// entities this decoder function fills
		var ent, encFn string
		core.EachInstr(fn, func(i ssa.Instruction) {
			ci, ok := i.(ssa.CallInstruction)
			if !ok || ent != "" {
				return
			}
			f := pdataCallee(ci)
			if f == nil || !strings.HasPrefix(f.Name(), "Set") {
				return
			}
			tn := core.RecvNamed(f).Obj().Name()
			if ef, ok := nullEnt[tn]; ok {
				ent, encFn = tn, ef
			}
		})
		if ent == "" {
			continue
		}
		// reads of the id column in this function
		type read struct {
			call     *ssa.Call
			nullable bool
		}
		var reads []read
		core.EachInstr(fn, func(i ssa.Instruction) {
			cl, ok := i.(*ssa.Call)
			if !ok {
				return
			}
			f := core.CalleeObj(cl)
			if f == nil || f.Pkg() == nil || f.Pkg().Path() != pkgArrowUtils || strings.Contains(f.Name(), "FieldID") {
				return
			}
			isID := false
			for _, a := range core.CallArgs(cl) {
				if basicKind(a.Type()) != types.Int {
					continue
				}
				cols := e.tokens(a).with("col:")
				if len(cols) == 1 && cols[0] == "id" {
					isID = true
				}
			}
			if !isID {
				return
			}
			sig := f.Type().(*types.Signature)
			nullable := false
			if sig.Results().Len() > 0 {
				_, nullable = sig.Results().At(0).Type().(*types.Pointer)
			}
			reads = append(reads, read{cl, nullable})
		})
		for ri, r := range reads {
			n++
			key := fmt.Sprintf("fn=%s|entity=%s", core.FuncName(fn), ent)
			if ri > 0 {
				key += fmt.Sprintf("#%d", ri+1)
			}
			if !r.nullable {
				c.Viol(key, p.Pos(r.call.Pos()), core.FuncName(fn), fmt.Sprintf("the decoder of %s reads the id column with the non-nullable accessor %s, but the encoder (%s) writes a null id for a row without related data: the null reads as 0, so the row is given the related records (attributes/events/links) of another row", ent, core.CalleeObj(r.call).Name(), encFn))
				continue
			}
			// every store lookup fed by this read is guarded by the non-nil test of the pointer
			var ptr ssa.Value = r.call
			for _, ref := range core.Referrers(r.call) {
				if ex, ok := ref.(*ssa.Extract); ok && ex.Index == 0 {
					ptr = ex
				}
			}
			var bad []string
			core.EachInstr(fn, func(i ssa.Instruction) {
				cl, ok := i.(*ssa.Call)
				if !ok {
					return
				}
				f := core.CalleeObj(cl)
				if f == nil || !(strings.HasSuffix(f.Name(), "ByID") || strings.HasSuffix(f.Name(), "ByDeltaID") || strings.HasSuffix(f.Name(), "FromDelta")) {
					return
				}
				uses := false
				for _, a := range core.CallArgs(cl) {
					if core.DerivesFrom(a, func(x ssa.Value) bool { return x == ptr }) {
						uses = true
					}
				}
				if !uses {
					return
				}
				guarded := false
				for _, b := range fn.Blocks {
					iff := core.IfOf(b)
					if iff == nil {
						continue
					}
					bo, ok := iff.Cond.(*ssa.BinOp)
					if !ok || !core.IsNilConst(bo.Y) || !core.SameValue(bo.X, ptr) && core.Canon(bo.X) != core.Canon(ptr) {
						continue
					}
					if (bo.Op == token.NEQ && core.GuardedBy(iff, true, cl)) || (bo.Op == token.EQL && core.GuardedBy(iff, false, cl)) {
						guarded = true
					}
				}
				if !guarded {
					bad = append(bad, fmt.Sprintf("%s at %s", f.Name(), p.Pos(cl.Pos())))
				}
			})
			c.Check(len(bad) == 0, key, p.Pos(r.call.Pos()), core.FuncName(fn),
				fmt.Sprintf("the id of %s is read through a nullable accessor and every related-data lookup it feeds is under the non-nil test", ent),
				fmt.Sprintf("the nullable id of %s feeds %s outside the non-nil test", ent, strings.Join(bad, "; ")))
		}
	}
	c.Stats["RT.18 id reads"] = n
}

func init() {
	for _, prop := range []string{"C01", "C02", "C03"} {
		register(prop, &core.Rule{ID: "RT.18", Title: "nullable-id mirror: where the encoder writes a null id the decoder reads it nullable and looks related data up only under the non-nil test", Mod: core.ModRoot, Floor: 1, FloorBy: map[string]int{"C01": 3, "C02": 1, "C03": 1}, Run: rt_18})
	}
}
