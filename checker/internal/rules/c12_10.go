package rules

import (
	"fmt"
	"go/types"
	"sort"
	"strings"

	"golang.org/x/tools/go/ssa"

	"otelcheck/internal/core"
)

// C12.10 / C04.10 the schema signature tells the Arrow types apart. The schema
// id — the key under which Produce looks up the IPC stream of a record — is a
// string built by a type switch over arrow data types. Two leaf types that
// contribute the same constant make two different schemas share one id: after
// a dictionary index widens from 16 to 32 bits the record with the new schema
// is written to the stream opened with the old one and the IPC writer refuses
// it (and every later batch of that payload type). The constants contributed by
// the leaf arms (arms that add constants only) must be pairwise distinct.
func c12_10(c *core.Ctx, p *core.Prog) {
	n := 0
	for _, fn := range p.FuncsIn(func(pp string) bool { return pp == pkgArrowUtils }) {
		if fn.Parent() != nil || fn.Synthetic != "" || len(fn.Params) != 1 || fn.Signature.Results().Len() != 1 {
			continue
		}
		if b, ok := fn.Signature.Results().At(0).Type().Underlying().(*types.Basic); !ok || b.Kind() != types.String {
			continue
		}
		if !strings.HasPrefix(core.TypePkgPath(fn.Params[0].Type()), core.ArrowPath) {
			continue
		}
		// arms of the type switch on the parameter
		type arm struct {
			typ    string
			consts []string
			calls  bool
			pos    ssa.Instruction
		}
		var arms []*arm
		core.EachInstr(fn, func(i ssa.Instruction) {
			ta, ok := i.(*ssa.TypeAssert)
			if !ok || !ta.CommaOk || ta.X != ssa.Value(fn.Params[0]) {
				return
			}
			a := &arm{typ: types.TypeString(ta.AssertedType, func(pk *types.Package) string { return pk.Name() }), pos: ta}
			for _, r := range core.Referrers(ta) {
				ex, isEx := r.(*ssa.Extract)
				if !isEx || ex.Index != 1 {
					continue
				}
				for _, r2 := range core.Referrers(ex) {
					iff, isIf := r2.(*ssa.If)
					if !isIf {
						continue
					}
					core.EachInstr(fn, func(j ssa.Instruction) {
						if !core.GuardedBy(iff, true, j) {
							return
						}
						switch x := j.(type) {
						case *ssa.BinOp:
							for _, op := range []ssa.Value{x.X, x.Y} {
								if s, isC := constString(op); isC && s != "" {
									a.consts = append(a.consts, s)
								}
							}
						case *ssa.Call:
							if _, isBi := x.Call.Value.(*ssa.Builtin); !isBi {
								a.calls = true
							}
						}
					})
				}
			}
			arms = append(arms, a)
		})
		if len(arms) < 5 {
			continue
		}
		n++
		by := map[string][]string{}
		for _, a := range arms {
			if a.calls || len(a.consts) == 0 {
				continue
			}
			k := strings.Join(a.consts, "|")
			by[k] = append(by[k], a.typ)
		}
		var dups []string
		for k, ts := range by {
			if len(ts) > 1 {
				sort.Strings(ts)
				dups = append(dups, fmt.Sprintf("%v all contribute %q", ts, k))
			}
		}
		sort.Strings(dups)
		c.Check(len(dups) == 0, "fn="+core.FuncName(fn), p.Pos(fn.Pos()), core.FuncName(fn),
			fmt.Sprintf("%d arms; the leaf types contribute pairwise distinct constants", len(arms)),
			"the schema signature does not tell some Arrow types apart: "+strings.Join(dups, "; ")+" — two schemas that differ only in such a type (a dictionary index widened from 16 to 32 bits) get the same schema id, the producer writes the new schema's record to the IPC stream opened with the old schema and the batch (and every later one of that payload type) is refused")
	}
	if n == 0 {
		c.Undecided("anchors", "?", "", "no type-switch signature function found in pkg/arrow")
	}
}

func init() {
	register("C12", &core.Rule{ID: "C12.10", Title: "the schema signature contributes a distinct constant for every leaf Arrow type", Mod: core.ModRoot, Floor: 1, Run: c12_10})
	register("C04", &core.Rule{ID: "C04.10", Title: "the schema signature tells index widths apart (a widened dictionary index gives a new schema id, hence a new IPC stream)", Mod: core.ModRoot, Floor: 1, Run: c12_10})
}
