package rules

import (
	"fmt"
	"go/types"
	"sort"
	"strings"

	"golang.org/x/tools/go/ssa"

	"otelcheck/internal/core"
)

// C17.8 sibling constructors agree. The processor instance is built by one
// constructor per signal; for every configuration-derived field that two or
// more constructors set, the expression must be the same function of the
// configuration in all of them (same callees applied to the same config fields).
// A refactoring that reaches only some of the siblings makes one signal run in
// another mode than the others built from the same configuration (e.g. metrics
// obfuscating every attribute although a list was configured).
func exprSig(v ssa.Value, depth int) string {
	v = core.Strip(v)
	if depth > 6 {
		return "…"
	}
	switch x := v.(type) {
	case *ssa.Const:
		if x.Value == nil {
			return "nil"
		}
		return x.Value.ExactString()
	case *ssa.Parameter:
		return "param:" + types.TypeString(x.Type(), func(*types.Package) string { return "" })
	case *ssa.Call:
		name := "?"
		if f := core.CalleeObj(x); f != nil {
			name = f.Name()
			if f.Pkg() != nil {
				name = f.Pkg().Name() + "." + f.Name()
			}
		} else if bi, ok := x.Call.Value.(*ssa.Builtin); ok {
			name = bi.Name()
		}
		var as []string
		for _, a := range x.Call.Args {
			as = append(as, exprSig(a, depth+1))
		}
		return name + "(" + strings.Join(as, ",") + ")"
	case *ssa.UnOp:
		if fa, ok := x.X.(*ssa.FieldAddr); ok {
			return exprSig(fa.X, depth+1) + "." + core.FieldName(fa)
		}
		if al, ok := x.X.(*ssa.Alloc); ok {
			// single-assignment local
			cv := core.Canon(x)
			if cv != ssa.Value(x) {
				return exprSig(cv, depth+1)
			}
			_ = al
		}
		return x.Op.String() + exprSig(x.X, depth+1)
	case *ssa.Field:
		return exprSig(x.X, depth+1) + "." + core.FieldName(x)
	case *ssa.BinOp:
		return "(" + exprSig(x.X, depth+1) + x.Op.String() + exprSig(x.Y, depth+1) + ")"
	case *ssa.TypeAssert:
		return exprSig(x.X, depth+1)
	case *ssa.Extract:
		return exprSig(x.Tuple, depth+1) + fmt.Sprintf("#%d", x.Index)
	case *ssa.Phi:
		var es []string
		for _, e := range x.Edges {
			es = append(es, exprSig(e, depth+1))
		}
		sort.Strings(es)
		return "phi(" + strings.Join(es, "|") + ")"
	}
	return fmt.Sprintf("%T", v)
}

func c17_8(c *core.Ctx, p *core.Prog) {
	a := newObfAnchors(p)
	if !a.ok(c) {
		return
	}
	inst := core.NamedOf(a.cipherF.Type())
	_ = inst
	// the instance struct: the one that owns the cipher field
	var instT *types.Named
	for _, fn := range obfFuncs(c, p) {
		core.EachInstr(fn, func(i ssa.Instruction) {
			if st, ok := i.(*ssa.Store); ok {
				if fa, ok := st.Addr.(*ssa.FieldAddr); ok && core.FieldVar(fa) == a.cipherF {
					instT = core.NamedOf(fa.X.Type())
				}
			}
		})
	}
	if instT == nil {
		c.Undecided("anchors", "?", "", "instance struct not resolved")
		return
	}
	// constructors: functions that allocate the instance struct and store into its fields
	type fieldExpr struct {
		fn  *ssa.Function
		sig string
		pos string
	}
	byField := map[*types.Var][]fieldExpr{}
	for _, fn := range obfFuncs(c, p) {
		core.EachInstr(fn, func(i ssa.Instruction) {
			st, ok := i.(*ssa.Store)
			if !ok {
				return
			}
			fa, ok := st.Addr.(*ssa.FieldAddr)
			if !ok || core.NamedOf(fa.X.Type()) != instT {
				return
			}
			if _, fresh := fa.X.(*ssa.Alloc); !fresh {
				return
			}
			byField[core.FieldVar(fa)] = append(byField[core.FieldVar(fa)], fieldExpr{fn, exprSig(st.Val, 0), p.Pos(st.Pos())})
		})
	}
	var fs []*types.Var
	for f := range byField {
		fs = append(fs, f)
	}
	sort.Slice(fs, func(i, j int) bool { return fs[i].Name() < fs[j].Name() })
	n := 0
	for _, f := range fs {
		es := byField[f]
		ctors := map[*ssa.Function]bool{}
		for _, e := range es {
			ctors[e.fn] = true
		}
		if len(ctors) < 2 {
			continue
		}
		n++
		sigs := map[string][]string{}
		for _, e := range es {
			sigs[e.sig] = append(sigs[e.sig], fmt.Sprintf("%s (%s)", e.fn.Name(), e.pos))
		}
		var parts []string
		for s, who := range sigs {
			sort.Strings(who)
			parts = append(parts, fmt.Sprintf("%s in %s", s, strings.Join(who, ", ")))
		}
		sort.Strings(parts)
		c.Check(len(sigs) == 1, "field="+f.Name(), es[0].pos, es[0].fn.String(),
			fmt.Sprintf("%d constructors compute %s the same way", len(ctors), f.Name()),
			fmt.Sprintf("the sibling constructors compute the instance field %s differently: %s — processors built from one configuration then run in different modes depending on the signal", f.Name(), strings.Join(parts, " vs ")))
	}
	c.Stats["C17.8 fields set by several constructors"] = n
	if n == 0 {
		// one construction site (e.g. the constructors share a helper): nothing to cross-check, which is the
		// strongest form of agreement
		sites := map[*ssa.Function]bool{}
		for _, es := range byField {
			for _, e := range es {
				sites[e.fn] = true
			}
		}
		if len(sites) >= 1 {
			c.OK("single-site", "?", "", fmt.Sprintf("the instance fields are computed at %d construction site(s); no field is computed in more than one place", len(sites)))
		}
	}
}

func init() {
	register("C17", &core.Rule{ID: "C17.8", Title: "sibling constructors compute every shared instance field the same way from the configuration", Mod: core.ModObf, Floor: 1, Run: c17_8})
}
