package rules

import (
	"fmt"
	"go/types"

	"golang.org/x/tools/go/ssa"

	"otelcheck/internal/core"
)

// C11.7 — lock pairing in the batch processor.
//
// Rule template (Engler et al., "every acquire is released on all exits"):
// for every call X.Lock() / X.RLock() on a sync.Mutex / sync.RWMutex in the
// batch-processor package, every path from the call to an exit of the function
// (return or explicit panic) executes X.Unlock() / X.RUnlock() on the same
// mutex, or a defer of it, or a call / defer of a package function or closure
// that unconditionally does.  A second acquisition of the same mutex on a path
// that has not released it is reported as well (sync mutexes are not
// re-entrant).
//
// A necessary condition of "never … a deadlock": a path that leaves with the
// mutex held blocks every later acquirer for good (a request with a new
// metadata combination, the cardinality telemetry callback).

type lockID struct {
	fld  *types.Var
	path string
}

func (l lockID) String() string {
	if l.fld != nil {
		return "field " + l.fld.Name()
	}
	return l.path
}

// mutexOp classifies a call as an operation on a sync mutex: kind "lock" /
// "unlock" ("r" prefixed for the read side) and the identity of the mutex.
func mutexOp(ci ssa.CallInstruction) (kind string, id lockID, ok bool) {
	f := core.CalleeObj(ci)
	if f == nil || f.Pkg() == nil || f.Pkg().Path() != "sync" {
		return
	}
	rn := core.RecvNamed(f)
	if rn == nil || (rn.Obj().Name() != "Mutex" && rn.Obj().Name() != "RWMutex") {
		return
	}
	switch f.Name() {
	case "Lock":
		kind = "lock"
	case "Unlock":
		kind = "unlock"
	case "RLock":
		kind = "rlock"
	case "RUnlock":
		kind = "runlock"
	default:
		return
	}
	recv := core.CallRecv(ci)
	if recv == nil {
		return
	}
	id = lockID{fld: core.FieldVar(recv)}
	if id.fld == nil {
		id.path = core.AccessPath(recv)
		if id.path == "" {
			return kind, id, false
		}
	}
	return kind, id, true
}

// releasesAlways: fn executes the release `want` of mutex id on every path to
// a return (used for helpers and deferred closures).
func releasesAlways(fn *ssa.Function, want string, id lockID, depth int) bool {
	if fn == nil || len(fn.Blocks) == 0 || depth > 3 {
		return false
	}
	return core.MustPassBetween(fn, nil, nil, func(i ssa.Instruction) bool {
		return isRelease(i, want, id, depth+1)
	})
}

func isRelease(i ssa.Instruction, want string, id lockID, depth int) bool {
	ci, ok := i.(ssa.CallInstruction)
	if !ok {
		return false
	}
	if _, isGo := i.(*ssa.Go); isGo {
		return false
	}
	if k, got, ok := mutexOp(ci); ok {
		return k == want && got == id
	}
	// a helper or closure of the same package that always releases; the
	// identity is field-based, so it carries across the call
	if id.fld == nil {
		return false
	}
	var callee *ssa.Function
	if mc, ok := ci.Common().Value.(*ssa.MakeClosure); ok {
		callee, _ = mc.Fn.(*ssa.Function)
	} else {
		callee = ci.Common().StaticCallee()
	}
	if callee == nil || callee.Pkg == nil || i.Parent().Pkg == nil || callee.Pkg != i.Parent().Pkg {
		return false
	}
	return releasesAlways(callee, want, id, depth)
}

func c11_7(c *core.Ctx, p *core.Prog) {
	n := 0
	for _, fn := range cbpFuncs(c, p) {
		if fn.Synthetic != "" {
			continue
		}
		for _, f := range core.WithClosures(fn) {
			k := 0
			core.EachCall(f, func(ci ssa.CallInstruction) {
				if _, isDefer := ci.(*ssa.Defer); isDefer {
					return
				}
				if _, isGo := ci.(*ssa.Go); isGo {
					return
				}
				kind, id, ok := mutexOp(ci)
				if kind != "lock" && kind != "rlock" {
					return
				}
				k++
				n++
				pos := p.Pos(ci.Pos())
				key := fmt.Sprintf("pair|fn=%s|mutex=%s|#%d", core.FuncName(f), id, k)
				if !ok {
					c.Undecided(key, pos, core.FuncName(f), "mutex of this acquisition has no stable identity")
					return
				}
				want := "unlock"
				if kind == "rlock" {
					want = "runlock"
				}
				// re-acquisition without release
				again := false
				core.EachCall(f, func(cj ssa.CallInstruction) {
					if again {
						return
					}
					if _, isDefer := cj.(*ssa.Defer); isDefer {
						return
					}
					k2, id2, ok2 := mutexOp(cj)
					if !ok2 || id2 != id || (k2 != "lock" && !(k2 == "rlock" && kind == "lock")) {
						return
					}
					hit, _ := core.PathQuery{Fn: f, From: ci, To: cj, Avoid: func(i ssa.Instruction) bool {
						if _, isDefer := i.(*ssa.Defer); isDefer {
							return false // a deferred release has not run yet
						}
						return isRelease(i, want, id, 0)
					}}.Exists()
					if hit {
						again = true
						c.Viol(key, pos, core.FuncName(f), fmt.Sprintf("%s is acquired again at %s on a path that still holds it (sync mutexes are not re-entrant)", id, p.Pos(cj.Pos())))
					}
				})
				if again {
					return
				}
				leak, _ := core.PathQuery{Fn: f, From: ci, Avoid: func(i ssa.Instruction) bool { return isRelease(i, want, id, 0) }}.Exists()
				if leak {
					c.Viol(key, pos, core.FuncName(f), fmt.Sprintf("a path from this %s of %s leaves %s without releasing it: every later acquirer blocks for good", kindName(kind), id, core.FuncName(f)))
					return
				}
				{
					c.OK(key, pos, core.FuncName(f), fmt.Sprintf("every path from this %s of %s to an exit releases it, and none re-acquires it first", kindName(kind), id))
				}
			})
		}
	}
	if n == 0 {
		c.Note("no mutex acquisition found in the batch-processor package")
	}
}

func kindName(k string) string {
	if k == "rlock" {
		return "RLock"
	}
	return "Lock"
}

func init() {
	register("C11", &core.Rule{ID: "C11.7", Title: "every mutex acquisition is released on every path out of the function and never re-acquired while held", Mod: core.ModCBP, Floor: 2, Run: c11_7, Canary: c11_7Canary})
}

const c11_7Canary = `package c

import "sync"

type T struct {
	mu sync.Mutex
	rw sync.RWMutex
	n  int
}

// BadEarlyReturn leaves with the mutex held on the limit path.
func (t *T) BadEarlyReturn(limit int) bool {
	t.mu.Lock()
	if t.n >= limit {
		return false
	}
	t.n++
	t.mu.Unlock()
	return true
}

// BadReacquire takes the mutex twice (and the second acquisition is never released).
func (t *T) BadReacquire() {
	t.mu.Lock()
	defer t.mu.Unlock()
	t.mu.Lock()
	t.n++
}

// BadWrongSide releases the write side of a read lock's sibling only.
func (t *T) BadWrongSide() int {
	t.rw.RLock()
	n := t.n
	t.mu.Unlock()
	return n
}

// GoodDefer uses a deferred release.
func (t *T) GoodDefer() int {
	t.mu.Lock()
	defer t.mu.Unlock()
	return t.n
}

// GoodBothArms releases on each arm.
func (t *T) GoodBothArms(limit int) bool {
	t.mu.Lock()
	if t.n >= limit {
		t.mu.Unlock()
		return false
	}
	t.n++
	t.mu.Unlock()
	return true
}

func (t *T) done() { t.mu.Unlock() }

// GoodHelper releases through a helper and a deferred closure.
func (t *T) GoodHelper() int {
	t.mu.Lock()
	defer t.done()
	t.rw.RLock()
	defer func() { t.rw.RUnlock() }()
	return t.n
}

// GoodLoop re-acquires after releasing.
func (t *T) GoodLoop(k int) {
	for i := 0; i < k; i++ {
		t.mu.Lock()
		t.n++
		t.mu.Unlock()
	}
}
`
