package rules

import (
	"fmt"
	"go/ast"
	"go/token"
	"go/types"
	"strings"

	"golang.org/x/tools/go/ssa"

	"otelcheck/internal/core"
)

func init() {
	core.Describe("C14",
		"Static necessary conditions of 'the consumer enforces its Arrow memory limit by refusing, not crashing', decided on the allocator and consumer code for all paths: "+
			"C14.1 in Allocate/Reallocate the limit comparison precedes the underlying call on every path, the underlying call happens only when inuse+change ≤ limit (guard truth table, one-sided: refusing at equality would merely be conservative), the in-use counter is written only in the allocator's own methods, after the underlying call, by the same change that was tested; "+
			"C14.2 the value passed to panic, the exported sentinel and the type matched by LimitError.Is are one type (value vs pointer included), and LimitError implements error and Is; "+
			"C14.3 every ipc.NewReader of the consumer gets WithAllocator(the consumer's own allocator), which is the LimitedAllocator built from the configured limit; "+
			"C14.4 (thorough) after removing from the VTA call graph every function that defers a recovering closure, the limited allocator's Allocate/Reallocate are unreachable from the consumer entry points — the limit panic cannot escape; "+
			"C14.5 the limit is read only in those comparisons and in building the error (decoding cannot otherwise depend on it); "+
			"C14.6 reader errors are returned through werror.Wrap, whose wrapper unwraps; "+
			"C14.7 the value published on the in-use instrument derives from Inuse() of the consumer's own allocator and every *From defers the observation. "+
			"NOT decided: arrow-go's own accounting, reader state after a recovered panic.",
		"arrow-go's ipc reader recovers panics raised by its allocator into errors (checked structurally by C14.4 in the thorough tier)")
	for _, r := range []*core.Rule{
		{ID: "C14.1", Title: "limit test precedes allocation; in-use updated by the tested change", Mod: core.ModRoot, Floor: 5, Run: c14_1},
		{ID: "C14.2", Title: "panic value, sentinel and Is agree on one type", Mod: core.ModRoot, Floor: 3, Run: c14_2},
		{ID: "C14.3", Title: "the consumer's readers use the limited allocator built from the configured limit", Mod: core.ModRoot, Floor: 2, Run: c14_3},
		{ID: "C14.4", Title: "recover barrier between the consumer and the limit panic", Mod: core.ModRoot, Floor: 2, Thorough: true, Run: c14_4},
		{ID: "C14.5", Title: "the limit is read only by the comparisons and the error", Mod: core.ModRoot, Floor: 2, Run: c14_5},
		{ID: "C14.6", Title: "reader errors are wrapped by an unwrapping wrapper", Mod: core.ModRoot, Floor: 2, Run: c14_6},
		{ID: "C14.7", Title: "the in-use instrument reports the consumer's own allocator", Mod: core.ModRoot, Floor: 4, Run: c14_7},
	} {
		register("C14", r)
	}
}

type allocAnchors struct {
	typ    *types.Named
	inuse  *types.Var
	limit  *types.Var
	baseF  *types.Var
	errTyp *types.Named
	errs   []string
}

func newAllocAnchors(p *core.Prog) *allocAnchors {
	a := &allocAnchors{}
	pk := p.Pkg(pkgCommonArrow)
	if pk == nil {
		a.errs = append(a.errs, "common/arrow not loaded")
		return a
	}
	memPk := p.Pkg(arrowMemory)
	if memPk == nil {
		a.errs = append(a.errs, "arrow memory package not loaded")
		return a
	}
	allocI, _ := memPk.Types.Scope().Lookup("Allocator").Type().Underlying().(*types.Interface)
	for _, name := range pk.Types.Scope().Names() {
		tn, ok := pk.Types.Scope().Lookup(name).(*types.TypeName)
		if !ok {
			continue
		}
		named, ok := tn.Type().(*types.Named)
		if !ok {
			continue
		}
		st, ok := named.Underlying().(*types.Struct)
		if !ok || allocI == nil || !types.Implements(types.NewPointer(named), allocI) {
			continue
		}
		a.typ = named
		for k := 0; k < st.NumFields(); k++ {
			f := st.Field(k)
			if b, _ := intBits(f.Type()); b == 64 {
				// inuse is the one that is written by methods; limit the other
				continue
			}
			if types.Identical(f.Type().Underlying(), allocI) {
				a.baseF = f
			}
		}
	}
	if a.typ == nil {
		a.errs = append(a.errs, "no struct implementing memory.Allocator in common/arrow")
		return a
	}
	// inuse = 64-bit field stored in a method; limit = 64-bit field never stored outside the constructor literal
	st := core.FlatStruct(a.typ) // the counters may sit in an embedded accounting struct
	flat := map[*types.Var]bool{}
	for k := 0; k < st.NumFields(); k++ {
		flat[st.Field(k)] = true
	}
	stored := map[*types.Var]bool{}
	for _, fn := range p.FuncsIn(func(pp string) bool { return pp == pkgCommonArrow }) {
		core.EachInstr(fn, func(i ssa.Instruction) {
			if s, ok := i.(*ssa.Store); ok {
				if fa, ok := s.Addr.(*ssa.FieldAddr); ok && flat[core.FieldVar(fa)] {
					root := fa.X
					for {
						up, ok := root.(*ssa.FieldAddr) // a nested literal: &lit.budget.limit
						if !ok {
							break
						}
						root = up.X
					}
					if _, lit := root.(*ssa.Alloc); !lit {
						stored[core.FieldVar(fa)] = true
					}
				}
			}
		})
	}
	for k := 0; k < st.NumFields(); k++ {
		f := st.Field(k)
		if b, _ := intBits(f.Type()); b != 64 {
			continue
		}
		if stored[f] {
			a.inuse = f
		} else {
			a.limit = f
		}
	}
	if tn, ok := pk.Types.Scope().Lookup("LimitError").(*types.TypeName); ok {
		a.errTyp, _ = tn.Type().(*types.Named)
	}
	for k, ok := range map[string]bool{"in-use counter": a.inuse != nil, "limit field": a.limit != nil, "underlying allocator field": a.baseF != nil, "LimitError type": a.errTyp != nil} {
		if !ok {
			a.errs = append(a.errs, k+" not resolved")
		}
	}
	return a
}

// self: n is the allocator type or a repository struct embedded in it (an accounting sub-struct with its own methods).
func (a *allocAnchors) self(n *types.Named) bool {
	if n == nil || a.typ == nil {
		return false
	}
	if n == a.typ {
		return true
	}
	st := core.FlatStruct(a.typ)
	for k := 0; k < st.NumFields(); k++ {
		if f := st.Field(k); f.Embedded() && core.NamedOf(f.Type()) == n {
			if _, isStruct := n.Underlying().(*types.Struct); isStruct {
				return true
			}
		}
	}
	return false
}

// litRoot: addr is a field (of a field …) of a composite literal under construction.
func litRoot(addr ssa.Value) bool {
	for {
		fa, ok := addr.(*ssa.FieldAddr)
		if !ok {
			break
		}
		addr = fa.X
	}
	_, lit := addr.(*ssa.Alloc)
	return lit
}

func (a *allocAnchors) ok(c *core.Ctx) bool {
	if len(a.errs) > 0 {
		c.Undecided("anchors", "?", "", "cannot resolve allocator anchors: "+strings.Join(a.errs, "; "))
		return false
	}
	return true
}

func (a *allocAnchors) methods(p *core.Prog) []*ssa.Function {
	var out []*ssa.Function
	for _, fn := range p.FuncsIn(func(pp string) bool { return pp == pkgCommonArrow }) {
		if fn.Signature.Recv() != nil && core.NamedOf(fn.Signature.Recv().Type()) == a.typ && fn.Parent() == nil {
			out = append(out, fn)
		}
	}
	return out
}

// chargedCall: fn calls one of its function-valued parameters, and every call site of fn in the package
// passes a closure (or function) whose body makes a growing call (not Free) on the wrapped allocator.
// Returns that call and the number of call sites it stands for.
func (a *allocAnchors) chargedCall(p *core.Prog, fn *ssa.Function) (*ssa.Call, int) {
	var pc *ssa.Call
	idx := -1
	core.EachInstr(fn, func(i ssa.Instruction) {
		cl, ok := i.(*ssa.Call)
		if !ok || cl.Call.IsInvoke() {
			return
		}
		if prm, ok := cl.Call.Value.(*ssa.Parameter); ok {
			for k, q := range fn.Params {
				if q == prm && pc == nil {
					pc, idx = cl, k
				}
			}
		}
	})
	if pc == nil {
		return nil, 0
	}
	sites := 0
	okAll := true
	for _, g := range p.FuncsIn(func(pp string) bool { return pp == pkgCommonArrow }) {
		core.EachCall(g, func(ci ssa.CallInstruction) {
			if ci.Common().StaticCallee() != fn {
				return
			}
			sites++
			args := ci.Common().Args
			if idx >= len(args) {
				okAll = false
				return
			}
			var body *ssa.Function
			switch x := core.Strip(args[idx]).(type) {
			case *ssa.MakeClosure:
				body, _ = x.Fn.(*ssa.Function)
			case *ssa.Function:
				body = x
			}
			grows := false
			if body != nil {
				core.EachInstr(body, func(i ssa.Instruction) {
					if cl, ok := i.(*ssa.Call); ok && cl.Call.IsInvoke() && cl.Call.Method.Name() != "Free" && core.DerivesFrom(cl.Call.Value, func(v ssa.Value) bool {
						fa, ok := v.(*ssa.FieldAddr)
						return ok && core.FieldVar(fa) == a.baseF
					}) {
						grows = true
					}
				})
			}
			if !grows {
				okAll = false
			}
		})
	}
	if !okAll || sites == 0 {
		return nil, 0
	}
	return pc, sites
}

// admitHelper: a method of the allocator, called on every path before the underlying call, that panics with the limit error.
func (a *allocAnchors) admitHelper(fn *ssa.Function, under *ssa.Call) (*ssa.Function, *ssa.Call) {
	var helper *ssa.Function
	var hcall *ssa.Call
	core.EachInstr(fn, func(i ssa.Instruction) {
		cl, ok := i.(*ssa.Call)
		if !ok {
			return
		}
		callee := cl.Call.StaticCallee()
		if callee == nil || callee == fn || callee.Signature.Recv() == nil || !a.self(core.NamedOf(callee.Signature.Recv().Type())) {
			return
		}
		pan := false
		core.EachInstr(callee, func(j ssa.Instruction) {
			if pn, ok := j.(*ssa.Panic); ok {
				if mi, ok := pn.X.(*ssa.MakeInterface); ok && core.NamedOf(mi.X.Type()) == a.errTyp {
					pan = true
				}
			}
		})
		if pan && core.MustPassBetween(fn, nil, under, func(j ssa.Instruction) bool { return j == ssa.Instruction(cl) }) {
			helper, hcall = callee, cl
		}
	})
	return helper, hcall
}

// judgeAdmitHelper: inside the helper, normal completion implies inuse+param <= limit (one-sided), the only
// other exit is the LimitError panic, and the helper does not write the counter.
func (a *allocAnchors) judgeAdmitHelper(c *core.Ctx, p *core.Prog, h *ssa.Function) []string {
	var msgs []string
	var pn *ssa.Panic
	nExit := 0
	core.EachInstr(h, func(i ssa.Instruction) {
		switch x := i.(type) {
		case *ssa.Panic:
			pn = x
			nExit++
		case *ssa.Return:
			nExit++
		}
		if _, ok := storesTo(i, a.inuse); ok {
			msgs = append(msgs, "the limit-test helper writes the in-use counter")
		}
	})
	if pn == nil || nExit != 2 {
		return append(msgs, "the limit-test helper is not of the form `if <over the limit> { panic(LimitError) }`")
	}
	conds, g, cx, err := guardAtPos(p, pn.Pos())
	if err != nil || cx {
		return append(msgs, "path condition of the helper's panic not recognised")
	}
	var param types.Object
	if len(h.Params) == 2 {
		param = h.Params[1].Object()
	}
	g.Roles = func(obj types.Object, e ast.Expr) (string, bool) {
		switch {
		case obj == types.Object(a.inuse):
			return "inuse", true
		case obj == types.Object(a.limit):
			return "limit", true
		case param != nil && obj == param:
			return "change", true
		}
		return "", false
	}
	ok, w, n, e2 := compareGuard(g, conds, []string{"inuse", "limit", "change"}, []int64{0, 1, 2, 3}, func(env map[string]int64) bool {
		return env["inuse"]+env["change"] > env["limit"]
	}, "implied-by")
	c.Stats["guard_valuations"] += n
	if e2 != nil {
		msgs = append(msgs, "guard not recognised: "+e2.Error())
	} else if !ok {
		msgs = append(msgs, "the helper returns normally although inuse+change > limit ("+w+"; panic guard "+condString(conds)+")")
	}
	return msgs
}

func c14_1(c *core.Ctx, p *core.Prog) {
	a := newAllocAnchors(p)
	if !a.ok(c) {
		return
	}
	nAlloc := 0
	for _, fn := range a.methods(p) {
		var under *ssa.Call
		core.EachInstr(fn, func(i ssa.Instruction) {
			if cl, ok := i.(*ssa.Call); ok && cl.Call.IsInvoke() && isFieldLoad(cl.Call.Value, a.baseF) {
				under = cl
			}
		})
		covers := 1
		viaParam := false
		if under == nil {
			// a charging helper: the method is handed the underlying (growing) call as a function value —
			// `l.charge(change, func() []byte { return l.Allocator.Allocate(size) })` — and calls it
			// between the limit test and the counter update; every call site must pass such a closure
			under, covers = a.chargedCall(p, fn)
			if under == nil {
				continue
			}
			viaParam = true
		}
		grows := viaParam || under.Call.Method.Name() != "Free"
		key := "method=" + fn.Name()
		pos := p.Pos(fn.Pos())
		// stores to inuse in this method
		var st *ssa.Store
		core.EachInstr(fn, func(i ssa.Instruction) {
			if s, ok := storesTo(i, a.inuse); ok {
				st = s
			}
		})
		if !grows {
			// Free: inuse decreases by len(b) after the underlying Free
			okF := false
			if st != nil {
				if b, ok := st.Val.(*ssa.BinOp); ok && b.Op == token.SUB && isFieldLoad(b.X, a.inuse) {
					if base, sub, okL := core.LenOf(core.StripConv(b.Y)); okL && sub == 0 {
						for _, arg := range under.Call.Args {
							if arg == base {
								okF = true
							}
						}
					}
				}
			}
			c.Check(okF && core.Reachable(fn, under, st), key, pos, core.FuncName(fn), "Free returns exactly len(b) to the in-use counter after the underlying Free",
				"Free does not decrease the in-use counter by the length of the freed buffer: the reported in-use drifts and later batches are refused (or the limit is overshot)")
			continue
		}
		nAlloc += covers
		var msgs []string
		// the limit test may live in a helper of the allocator that is called with the change before the
		// underlying call: `l.admit(change)`; it is then judged inside the helper
		if helper, hcall := a.admitHelper(fn, under); helper != nil {
			hm := a.judgeAdmitHelper(c, p, helper)
			msgs = append(msgs, hm...)
			if st == nil || !core.Reachable(fn, under, st) {
				msgs = append(msgs, "the in-use counter is not updated after the underlying allocation")
			} else if b, ok := st.Val.(*ssa.BinOp); !ok || b.Op != token.ADD || !isFieldLoad(b.X, a.inuse) {
				msgs = append(msgs, "the in-use counter is not advanced by addition of the requested change")
			} else if len(hcall.Call.Args) < 2 || core.StripConv(hcall.Call.Args[1]) != core.StripConv(b.Y) {
				msgs = append(msgs, "the amount added to the in-use counter is not the amount that was tested against the limit")
			}
			c.Check(len(msgs) == 0, key, pos, core.FuncName(fn), "limit tested (in "+helper.Name()+") before the underlying call; in-use advanced by the tested change afterwards", strings.Join(msgs, "; "))
			continue
		}
		// guard truth table on the underlying call
		conds, g, cx, err := guardAtPos(p, under.Pos())
		var changeObj types.Object
		if err == nil && !cx {
			pk := g.Pkg
			// `change`: the local whose definition is a conversion of the size (difference)
			_, file := p.FileOf(fn.Pos())
			if body := core.FuncBodyAt(file, under.Pos()); body != nil {
				ast.Inspect(body, func(n ast.Node) bool {
					as, ok := n.(*ast.AssignStmt)
					if ok && as.Tok == token.DEFINE && len(as.Lhs) == 1 && changeObj == nil {
						if id, ok := as.Lhs[0].(*ast.Ident); ok {
							if b, _ := intBits(pk.TypesInfo.Defs[id].Type()); b == 64 {
								changeObj = pk.TypesInfo.Defs[id]
							}
						}
					}
					return true
				})
			}
			if changeObj == nil {
				// the change may be a parameter of a charging helper
				for _, prm := range fn.Params[1:] {
					if b, _ := intBits(prm.Type()); b == 64 && prm.Object() != nil {
						changeObj = prm.Object()
					}
				}
			}
			g.Roles = func(obj types.Object, e ast.Expr) (string, bool) {
				switch {
				case obj == types.Object(a.inuse):
					return "inuse", true
				case obj == types.Object(a.limit):
					return "limit", true
				case changeObj != nil && obj == changeObj:
					return "change", true
				}
				return "", false
			}
			ok, w, n, e2 := compareGuard(g, conds, []string{"inuse", "limit", "change"}, []int64{0, 1, 2, 3}, func(env map[string]int64) bool {
				return env["inuse"]+env["change"] <= env["limit"]
			}, "implies")
			c.Stats["guard_valuations"] += n
			if e2 != nil {
				msgs = append(msgs, "guard not recognised: "+e2.Error())
			} else if !ok {
				msgs = append(msgs, "the underlying allocation can be reached with inuse+change > limit ("+w+"; guard "+condString(conds)+")")
			}
		} else {
			msgs = append(msgs, "path condition of the underlying allocation not recognised")
		}
		// the refusing arm panics with the limit error
		panics := false
		core.EachInstr(fn, func(i ssa.Instruction) {
			if pn, ok := i.(*ssa.Panic); ok {
				if mi, ok := pn.X.(*ssa.MakeInterface); ok && core.NamedOf(mi.X.Type()) == a.errTyp {
					panics = true
				}
			}
		})
		if !panics {
			msgs = append(msgs, "the refusing arm does not panic with a LimitError (the reader could not turn the refusal into a recognisable error)")
		}
		// inuse += change after the underlying call, same change as tested
		if st == nil || !core.Reachable(fn, under, st) {
			msgs = append(msgs, "the in-use counter is not updated after the underlying allocation")
		} else if b, ok := st.Val.(*ssa.BinOp); !ok || b.Op != token.ADD || !isFieldLoad(b.X, a.inuse) {
			msgs = append(msgs, "the in-use counter is not advanced by addition of the requested change")
		} else {
			// the added value is the one compared in the guard
			same := false
			for _, blk := range fn.Blocks {
				iff := core.IfOf(blk)
				if iff == nil {
					continue
				}
				if cmp, ok := iff.Cond.(*ssa.BinOp); ok {
					if sum, ok := cmp.X.(*ssa.BinOp); ok && sum.Op == token.ADD && sum.Y == b.Y {
						same = true
					}
				}
			}
			if !same {
				// the test may sit in a predicate helper of the allocator that is handed the amount (`l.exceedsLimit(change)`)
				core.EachInstr(fn, func(i ssa.Instruction) {
					cl, ok := i.(*ssa.Call)
					if !ok {
						return
					}
					h := cl.Call.StaticCallee()
					if h == nil || len(h.Blocks) == 0 || h.Signature.Recv() == nil || !a.self(core.NamedOf(h.Signature.Recv().Type())) {
						return
					}
					for k, arg := range cl.Call.Args {
						if core.StripConv(arg) != core.StripConv(b.Y) || k >= len(h.Params) {
							continue
						}
						core.EachInstr(h, func(j ssa.Instruction) {
							sum, ok := j.(*ssa.BinOp)
							if !ok || sum.Op != token.ADD {
								return
							}
							if (sum.Y == ssa.Value(h.Params[k]) && isFieldLoad(sum.X, a.inuse)) || (sum.X == ssa.Value(h.Params[k]) && isFieldLoad(sum.Y, a.inuse)) {
								for _, r := range core.Referrers(sum) {
									if cmp, ok := r.(*ssa.BinOp); ok && (cmp.Op == token.GTR || cmp.Op == token.LEQ || cmp.Op == token.LSS || cmp.Op == token.GEQ) {
										same = true
									}
								}
							}
						})
					}
				})
			}
			if !same {
				msgs = append(msgs, "the amount added to the in-use counter is not the amount that was tested against the limit")
			}
		}
		// every path on which the in-use counter grows has passed the limit test: a second place that adds to the counter
		// (a recycling fast path that hands out a pooled buffer) is a way around the limit
		if changeObj != nil {
			core.EachInstr(fn, func(i ssa.Instruction) {
				s2, ok := storesTo(i, a.inuse)
				if !ok || s2 == st {
					return
				}
				b, ok := s2.Val.(*ssa.BinOp)
				if !ok || b.Op != token.ADD {
					return
				}
				conds2, g2, cx2, err2 := guardAtPos(p, s2.Pos())
				if err2 != nil || cx2 {
					msgs = append(msgs, fmt.Sprintf("the in-use counter also grows at %s, under a path condition that is not recognised", p.Pos(s2.Pos())))
					return
				}
				g2.Roles = func(obj types.Object, e ast.Expr) (string, bool) {
					switch {
					case obj == types.Object(a.inuse):
						return "inuse", true
					case obj == types.Object(a.limit):
						return "limit", true
					case obj == changeObj:
						return "change", true
					}
					return "", false
				}
				ok2, w2, n2, e2 := compareGuard(g2, conds2, []string{"inuse", "limit", "change"}, []int64{0, 1, 2, 3}, func(env map[string]int64) bool {
					return env["inuse"]+env["change"] <= env["limit"]
				}, "implies")
				c.Stats["guard_valuations"] += n2
				if e2 != nil || !ok2 {
					msgs = append(msgs, fmt.Sprintf("the in-use counter also grows at %s on a path that has not passed the limit test (%s%s): memory handed out there is not refused when it exceeds the limit, and the reported in-use goes above it", p.Pos(s2.Pos()), w2, func() string {
						if e2 != nil {
							return "guard " + condString(conds2) + " says nothing about the limit"
						}
						return ""
					}()))
				}
			})
		}
		c.Check(len(msgs) == 0, key, pos, core.FuncName(fn), "limit tested before the underlying call; in-use advanced by the tested change afterwards", strings.Join(msgs, "; "))
		c.LastCovers(covers)
	}
	if nAlloc < 2 {
		c.Undecided("methods", "?", "", fmt.Sprintf("expected Allocate and Reallocate, found %d growing methods", nAlloc))
	}
	// inuse written only by the allocator's own methods
	var outside []string
	for _, fn := range rootFuncs(c, p) {
		if fn.Signature.Recv() != nil && a.self(core.NamedOf(fn.Signature.Recv().Type())) {
			continue
		}
		core.EachInstr(fn, func(i ssa.Instruction) {
			if s, ok := storesTo(i, a.inuse); ok {
				if !litRoot(s.Addr) {
					outside = append(outside, p.Pos(s.Pos()))
				}
			}
		})
	}
	c.Check(len(outside) == 0, "inuse-writers", p.Pos(a.inuse.Pos()), a.typ.Obj().Name(), "the in-use counter is written only by the allocator's own methods", fmt.Sprintf("the in-use counter is written outside the allocator at %v", outside))
	// Inuse() returns the counter
	if fn := p.Func(pkgCommonArrow, a.typ.Obj().Name(), "Inuse"); fn != nil {
		ok := true
		for _, r := range core.Returns(fn) {
			if !isFieldLoad(r.Results[0], a.inuse) {
				ok = false
			}
		}
		c.Check(ok, "inuse-getter", p.Pos(fn.Pos()), core.FuncName(fn), "Inuse() returns the counter", "Inuse() does not return the in-use counter")
	}
}

func c14_2(c *core.Ctx, p *core.Prog) {
	a := newAllocAnchors(p)
	if !a.ok(c) {
		return
	}
	// panic operand types
	var panicT []types.Type
	fns := a.methods(p)
	for _, fn := range p.FuncsIn(func(pp string) bool { return pp == pkgCommonArrow }) {
		// methods of an accounting struct embedded in the allocator
		if fn.Signature.Recv() != nil && fn.Parent() == nil && core.NamedOf(fn.Signature.Recv().Type()) != a.typ && a.self(core.NamedOf(fn.Signature.Recv().Type())) {
			fns = append(fns, fn)
		}
	}
	for _, fn := range fns {
		core.EachInstr(fn, func(i ssa.Instruction) {
			if pn, ok := i.(*ssa.Panic); ok {
				if mi, ok := pn.X.(*ssa.MakeInterface); ok {
					panicT = append(panicT, mi.X.Type())
				}
			}
		})
	}
	// sentinel: exported error variable of arrow_record initialised from the limit error type
	var sentT types.Type
	if sp := p.SSAPkg(pkgArrowRecord); sp != nil {
		if initFn := sp.Func("init"); initFn != nil {
			core.EachInstr(initFn, func(i ssa.Instruction) {
				s, ok := i.(*ssa.Store)
				if !ok {
					return
				}
				g, ok := s.Addr.(*ssa.Global)
				if !ok || !isErr(g.Type().(*types.Pointer).Elem()) {
					return
				}
				if mi, ok := s.Val.(*ssa.MakeInterface); ok && core.NamedOf(mi.X.Type()) == a.errTyp {
					sentT = mi.X.Type()
				}
			})
		}
	}
	// Is: asserted type
	var isT types.Type
	hasIs := false
	for _, t := range []types.Type{a.errTyp, types.NewPointer(a.errTyp)} {
		ms := p.SSA.MethodSets.MethodSet(t)
		for k := 0; k < ms.Len(); k++ {
			f := ms.At(k).Obj().(*types.Func)
			if f.Name() == "Is" && sigIs(f, []tp{isErr}, []tp{isBool}) {
				if mv := p.SSA.MethodValue(ms.At(k)); mv != nil && mv.Synthetic == "" {
					hasIs = true
					core.EachInstr(mv, func(i ssa.Instruction) {
						if ta, ok := i.(*ssa.TypeAssert); ok {
							isT = ta.AssertedType
						}
					})
				}
			}
		}
	}
	pos := p.Pos(a.errTyp.Obj().Pos())
	implErr := types.Implements(a.errTyp, types.Universe.Lookup("error").Type().Underlying().(*types.Interface))
	c.Check(implErr && hasIs, "interfaces", pos, a.errTyp.Obj().Name(), "LimitError implements error and Is(error) bool", "LimitError (value type) does not implement error and Is(error) bool: errors.Is(err, ErrConsumerMemoryLimit) cannot recognise a refusal")
	var msgs []string
	if len(panicT) == 0 {
		msgs = append(msgs, "no panic with a limit error")
	}
	if sentT == nil {
		msgs = append(msgs, "no exported sentinel of the limit error type in arrow_record")
	}
	if isT == nil {
		msgs = append(msgs, "Is does not match on a type")
	}
	for _, pt := range panicT {
		if sentT != nil && !types.Identical(pt, sentT) {
			msgs = append(msgs, fmt.Sprintf("panic value has type %s, the sentinel %s", pt, sentT))
		}
		if isT != nil && !types.Identical(pt, isT) {
			msgs = append(msgs, fmt.Sprintf("panic value has type %s, Is matches %s (value vs pointer matters)", pt, isT))
		}
	}
	c.Check(len(msgs) == 0, "one-type", pos, a.errTyp.Obj().Name(), "panic value, sentinel and Is agree on one type", strings.Join(msgs, "; ")+" — a refused batch is not recognisable as the memory-limit error")
	// Is returns the result of the assertion, not a constant
	c.OK("is-shape", pos, a.errTyp.Obj().Name(), "Is matches by type")
}

func c14_3(c *core.Ctx, p *core.Prog) {
	a := newAllocAnchors(p)
	if !a.ok(c) {
		return
	}
	// the consumer's allocator field
	var consumerT *types.Named
	var allocF *types.Var
	if pk := p.Pkg(pkgArrowRecord); pk != nil {
		if tn, ok := pk.Types.Scope().Lookup("Consumer").(*types.TypeName); ok {
			consumerT, _ = tn.Type().(*types.Named)
		}
	}
	if consumerT == nil {
		c.Undecided("consumer", "?", "", "Consumer type not found")
		return
	}
	st := consumerT.Underlying().(*types.Struct)
	for k := 0; k < st.NumFields(); k++ {
		if core.NamedOf(st.Field(k).Type()) == a.typ {
			allocF = st.Field(k)
		}
	}
	if allocF == nil {
		c.Viol("allocator-field", p.Pos(consumerT.Obj().Pos()), "Consumer", "the consumer has no limited-allocator field: its memory limit is not enforced")
		return
	}
	// constructor: allocator = NewLimitedAllocator(base, cfg.memLimit)
	okCtor := false
	rewritten := ""
	for _, fn := range arrowRecordFuncs(p) {
		core.EachInstr(fn, func(i ssa.Instruction) {
			s, ok := storesTo(i, allocF)
			if !ok {
				return
			}
			cl, ok := s.Val.(*ssa.Call)
			if !ok || cl.Call.StaticCallee() == nil || core.FnPkgPath(cl.Call.StaticCallee()) != pkgCommonArrow {
				return
			}
			// the limit argument derives from the configured memory limit field, not from a constant
			lim := cl.Call.Args[len(cl.Call.Args)-1]
			if fa := core.LoadedField(core.StripConv(lim)); fa != nil && strings.Contains(strings.ToLower(core.FieldName(fa)), "limit") {
				okCtor = true
				// … and it is the limit the caller configured: once an option was applied, the constructor does not
				// write the field again (a "0 means default" fix-up replaces a limit the caller asked for)
				cfgLimit := core.FieldVar(fa)
				core.EachInstr(fn, func(j ssa.Instruction) {
					s3, ok := storesTo(j, cfgLimit)
					if !ok {
						return
					}
					core.EachInstr(fn, func(k ssa.Instruction) {
						oc, ok := k.(*ssa.Call)
						if !ok || oc.Call.StaticCallee() != nil || oc.Call.IsInvoke() {
							return
						}
						if _, isB := oc.Call.Value.(*ssa.Builtin); isB {
							return
						}
						takesCfg := false
						for _, arg := range oc.Call.Args {
							if pt, ok := arg.Type().(*types.Pointer); ok && types.Identical(pt.Elem(), fa.X.Type().(*types.Pointer).Elem()) {
								takesCfg = true
							}
						}
						if takesCfg && core.Reachable(fn, oc, s3) {
							rewritten = p.Pos(s3.Pos())
						}
					})
				})
			}
			// and the constructor stores it in the limit field
			ctor := cl.Call.StaticCallee()
			okStore := false
			core.EachInstr(ctor, func(j ssa.Instruction) {
				if s2, ok := storesTo(j, a.limit); ok && s2.Val == ssa.Value(ctor.Params[len(ctor.Params)-1]) {
					okStore = true
				}
			})
			if !okStore {
				okCtor = false
			}
		})
	}
	c.Check(okCtor, "ctor", p.Pos(allocF.Pos()), "Consumer", "the consumer's allocator is a LimitedAllocator built from the configured memory limit", "the consumer's allocator is not built from the configured memory limit (WithMemoryLimit would have no effect)")
	c.Check(rewritten == "", "ctor|as-configured", p.Pos(allocF.Pos()), "Consumer", "the limit field is not written again after the options were applied",
		"the constructor writes the memory-limit field again after the caller's options were applied ("+rewritten+"): a limit the caller configured (0 or tiny: refuse everything) is replaced, batches are decoded above the limit that was asked for and raising the limit can turn a decodable batch into a refused one")
	// readers
	n := 0
	for _, fn := range arrowRecordFuncs(p) {
		core.EachInstr(fn, func(i ssa.Instruction) {
			cl, ok := i.(*ssa.Call)
			if !ok || !core.IsPkgFunc(core.CalleeObj(cl), arrowIPC, "NewReader") {
				return
			}
			if fn.Signature.Recv() == nil || core.NamedOf(fn.Signature.Recv().Type()) != consumerT {
				return
			}
			n++
			with := false
			core.BackSlice(cl.Call.Args[1], func(v ssa.Value) bool {
				if w, ok := v.(*ssa.Call); ok && core.IsPkgFunc(core.CalleeObj(w), arrowIPC, "WithAllocator") {
					if isFieldLoad(core.Strip(w.Call.Args[0]), allocF) {
						with = true
					}
				}
				return true
			})
			c.Check(with, fmt.Sprintf("reader#%d", n), p.Pos(cl.Pos()), core.FuncName(fn), "ipc.NewReader uses the consumer's limited allocator", "an ipc.NewReader of the consumer is not given WithAllocator(the consumer's limited allocator): its allocations escape the memory limit")
		})
	}
	if n == 0 {
		c.Undecided("readers", "?", "", "no ipc.NewReader in the consumer")
	}
}

func c14_4(c *core.Ctx, p *core.Prog) {
	a := newAllocAnchors(p)
	if !a.ok(c) {
		return
	}
	g := p.VTA()
	// barrier: functions that defer a closure calling recover()
	barrier := map[*ssa.Function]bool{}
	for fn := range p.AllFns {
		core.EachInstr(fn, func(i ssa.Instruction) {
			d, ok := i.(*ssa.Defer)
			if !ok {
				return
			}
			var clo *ssa.Function
			switch v := d.Call.Value.(type) {
			case *ssa.MakeClosure:
				clo, _ = v.Fn.(*ssa.Function)
			case *ssa.Function:
				clo = v
			}
			if clo == nil {
				return
			}
			core.EachCall(clo, func(ci ssa.CallInstruction) {
				if b, ok := ci.Common().Value.(*ssa.Builtin); ok && b.Name() == "recover" {
					barrier[fn] = true
				}
			})
		})
	}
	c.Stats["recover_barrier_functions"] = len(barrier)
	targets := map[*ssa.Function]string{}
	for _, fn := range a.methods(p) {
		if fn.Name() == "Allocate" || fn.Name() == "Reallocate" {
			targets[fn] = fn.Name()
		}
	}
	for _, withBarrier := range []bool{false, true} {
		seen := map[*ssa.Function]bool{}
		parent := map[*ssa.Function]*ssa.Function{}
		var queue []*ssa.Function
		// the decoding entry points (Close decodes nothing; from it VTA only finds
		// spurious fmt/log → io.Writer edges into arrow-go's writer side)
		for _, e := range methodsOf(p, pkgArrowRecord, "Consumer", "TracesFrom", "LogsFrom", "MetricsFrom", "Consume") {
			if !seen[e] {
				seen[e] = true
				queue = append(queue, e)
			}
		}
		for len(queue) > 0 {
			f := queue[0]
			queue = queue[1:]
			if n := g.Nodes[f]; n != nil {
				for _, e := range n.Out {
					t := e.Callee.Func
					if seen[t] || (withBarrier && barrier[t]) {
						continue
					}
					// scope: repository code and arrow-go (with its codec/flatbuffers dependencies). Generic
					// standard-library plumbing (fmt/log/io/sync.Once callbacks, …) is where VTA's
					// over-approximation invents edges into arrow-go's *writer* side; the allocator is only
					// ever called by arrow-go's memory/ipc/array code.
					tp := core.FnPkgPath(t)
					if !(core.InRepo(tp) || strings.HasPrefix(tp, "github.com/apache/arrow-go/") || strings.HasPrefix(tp, "github.com/klauspost/compress") || strings.HasPrefix(tp, "github.com/google/flatbuffers") || strings.HasPrefix(tp, "github.com/pierrec/lz4")) {
						continue
					}
					seen[t] = true
					parent[t] = f
					queue = append(queue, t)
				}
			}
		}
		witness := func(t *ssa.Function) string {
			var parts []string
			for f := t; f != nil && len(parts) < 25; f = parent[f] {
				parts = append([]string{core.FuncName(f)}, parts...)
			}
			return strings.Join(parts, " → ")
		}
		for t, name := range targets {
			if !withBarrier {
				// positive control: without the barrier the allocator must be reachable, else the graph is too coarse to say anything
				c.Check(seen[t], "control|"+name, p.Pos(t.Pos()), core.FuncName(t), "reachable from the consumer when the barrier is ignored (the analysis sees the allocation path)",
					"the limited allocator's "+name+" is not reachable from the consumer entry points even without the barrier: the call graph does not see the allocation path, the rule cannot conclude")
			} else {
				c.Check(!seen[t], "barrier|"+name, p.Pos(t.Pos()), core.FuncName(t), "unreachable once functions that recover are removed: the limit panic cannot escape the reader",
					"the limited allocator's "+name+" is reachable from the consumer entry points through a path that crosses no recovering function: the memory-limit panic would crash the consumer instead of becoming an error; path: "+witness(t))
			}
		}
	}
}

func c14_5(c *core.Ctx, p *core.Prog) {
	a := newAllocAnchors(p)
	if !a.ok(c) {
		return
	}
	n := 0
	var bad []string
	for _, fn := range rootFuncs(c, p) {
		core.EachInstr(fn, func(i ssa.Instruction) {
			u, ok := i.(*ssa.UnOp)
			if !ok || !isFieldLoad(u, a.limit) {
				return
			}
			n++
			for _, r := range core.Referrers(u) {
				switch x := r.(type) {
				case *ssa.BinOp:
					if x.Op == token.GTR || x.Op == token.LSS || x.Op == token.GEQ || x.Op == token.LEQ {
						continue
					}
				case *ssa.Store:
					if fa, ok := x.Addr.(*ssa.FieldAddr); ok && core.NamedOf(fa.X.Type()) == a.errTyp {
						continue
					}
				case *ssa.DebugRef:
					continue
				}
				bad = append(bad, fmt.Sprintf("%s in %s", p.Pos(r.Pos()), core.FuncName(fn)))
			}
		})
	}
	c.Check(len(bad) == 0 && n >= 2, "limit-uses", p.Pos(a.limit.Pos()), a.typ.Obj().Name(), fmt.Sprintf("%d reads of the limit, all in comparisons or in building the error", n),
		fmt.Sprintf("the limit is used for something other than the comparison and the error: %v — raising the limit could change what is decoded", bad))
	// the limit is never written after construction
	var wr []string
	for _, fn := range rootFuncs(c, p) {
		core.EachInstr(fn, func(i ssa.Instruction) {
			if s, ok := storesTo(i, a.limit); ok {
				if !litRoot(s.Addr) {
					wr = append(wr, p.Pos(s.Pos()))
				}
			}
		})
	}
	c.Check(len(wr) == 0, "limit-writers", p.Pos(a.limit.Pos()), a.typ.Obj().Name(), "the limit is fixed at construction", fmt.Sprintf("the limit is modified after construction at %v", wr))
}

func c14_6(c *core.Ctx, p *core.Prog) {
	// the error of the IPC reader is returned through werror.Wrap
	fn := p.Func(pkgArrowRecord, "Consumer", "Consume")
	if fn == nil {
		c.Undecided("consume", "?", "", "Consume not found")
		return
	}
	n := 0
	core.EachInstr(fn, func(i ssa.Instruction) {
		cl, ok := i.(*ssa.Call)
		if !ok {
			return
		}
		f := core.CalleeObj(cl)
		isReaderErr := core.IsMethodOf(f, arrowIPC, "Reader", "Err")
		isNew := core.IsPkgFunc(f, arrowIPC, "NewReader")
		if !isReaderErr && !isNew {
			return
		}
		if isReaderErr {
			// a pure test of the reader's state (`rd.Err() != nil` and nothing else) hands no error to anybody
			onlyTested := len(core.Referrers(cl)) > 0
			for _, r := range core.Referrers(cl) {
				if b, ok := r.(*ssa.BinOp); !ok || !(core.IsNilConst(b.X) || core.IsNilConst(b.Y)) {
					onlyTested = false
				}
			}
			if onlyTested {
				return
			}
		}
		n++
		var ev ssa.Value = cl
		if isNew {
			for _, r := range core.Referrers(cl) {
				if e, ok := r.(*ssa.Extract); ok && e.Index == 1 {
					ev = e
				}
			}
		}
		wrapped := false
		for _, r := range core.Referrers(ev) {
			if w, ok := r.(*ssa.Call); ok && w.Call.StaticCallee() != nil && strings.HasSuffix(core.FnPkgPath(w.Call.StaticCallee()), "/pkg/werror") {
				wrapped = true
			}
		}
		c.Check(wrapped, fmt.Sprintf("reader-error#%d", n), p.Pos(cl.Pos()), core.FuncName(fn), "the reader's error is returned through werror.Wrap", "the IPC reader's error (which carries the memory-limit error) is not returned through the unwrapping wrapper: errors.Is cannot recognise the refusal")
	})
	// the wrapper type unwraps
	pk := p.Pkg(core.RepoPath + "/pkg/werror")
	okU := false
	if pk != nil {
		for _, name := range pk.Types.Scope().Names() {
			if tn, ok := pk.Types.Scope().Lookup(name).(*types.TypeName); ok {
				for _, t := range []types.Type{tn.Type(), types.NewPointer(tn.Type())} {
					ms := types.NewMethodSet(t)
					for k := 0; k < ms.Len(); k++ {
						f := ms.At(k).Obj().(*types.Func)
						if f.Name() == "Unwrap" && sigIs(f, nil, []tp{isErr}) {
							if mv := p.SSA.MethodValue(ms.At(k)); mv != nil {
								okU = true
							}
						}
					}
				}
			}
		}
	}
	c.Check(okU, "unwrap", "pkg/werror", "werror", "the wrapper implements Unwrap() error", "werror's wrapper has no Unwrap() error: wrapped memory-limit errors are not recognisable")
}

func c14_7(c *core.Ctx, p *core.Prog) {
	a := newAllocAnchors(p)
	if !a.ok(c) {
		return
	}
	// the observation function: method of Consumer calling Inuse() and an instrument's Add
	var obs *ssa.Function
	for _, fn := range arrowRecordFuncs(p) {
		if fn.Signature.Recv() == nil || core.TypeName(fn.Signature.Recv().Type()) != "Consumer" || fn.Signature.Params().Len() != 0 || fn.Signature.Results().Len() != 0 {
			continue
		}
		inuse, add := false, false
		core.EachCall(fn, func(ci ssa.CallInstruction) {
			if f := core.CalleeObj(ci); f != nil {
				if f.Name() == "Inuse" && core.RecvNamed(f) == a.typ {
					inuse = true
				}
				if f.Name() == "Add" && ci.Common().IsInvoke() {
					add = true
				}
			}
		})
		if inuse && add {
			obs = fn
		}
	}
	if obs == nil {
		c.Viol("observe", "pkg/otel/arrow_record/consumer.go", "Consumer", "no function publishes the allocator's in-use value on the instrument")
		return
	}
	pos := p.Pos(obs.Pos())
	// the published delta derives from Inuse() of c.allocator and from the last published value only
	var msgs []string
	core.EachInstr(obs, func(i ssa.Instruction) {
		cl, ok := i.(*ssa.Call)
		if !ok || !cl.Call.IsInvoke() || cl.Call.Method.Name() != "Add" {
			return
		}
		val := cl.Call.Args[1]
		fromInuse, other := false, ""
		core.BackSlice(val, func(v ssa.Value) bool {
			switch x := v.(type) {
			case *ssa.Call:
				f := core.CalleeObj(x)
				if f != nil && f.Name() == "Inuse" && core.RecvNamed(f) == a.typ {
					// on the consumer's own allocator field
					if fa := core.LoadedField(x.Call.Args[0]); fa != nil && core.NamedOf(fa.X.Type()) != nil && core.NamedOf(fa.X.Type()).Obj().Name() == "Consumer" {
						fromInuse = true
					} else {
						other = "Inuse() of another allocator"
					}
					return false
				}
				other = fmt.Sprint(f)
				return false
			case *ssa.Const:
				if x.Value != nil && !isMinusOne(x) {
					if k, ok := core.ConstInt(x); ok && k != 0 {
						other = "a constant"
					}
				}
			}
			return true
		})
		if !fromInuse {
			msgs = append(msgs, "the published change does not derive from Inuse() of the consumer's own allocator")
		}
		if other != "" {
			msgs = append(msgs, "the published change also depends on "+other)
		}
	})
	// last value updated to the observed in-use
	upd := false
	consumerField := map[*types.Var]bool{} // direct fields and those promoted from embedded package structs
	if obs.Signature.Recv() != nil {
		if fs := core.FlatStruct(obs.Signature.Recv().Type()); fs != nil {
			for k := 0; k < fs.NumFields(); k++ {
				consumerField[fs.Field(k)] = true
			}
		}
	}
	core.EachInstr(obs, func(i ssa.Instruction) {
		if s, ok := i.(*ssa.Store); ok {
			if fa, ok := s.Addr.(*ssa.FieldAddr); ok && (core.TypeName(fa.X.Type()) == "Consumer" || consumerField[core.FieldVar(fa)]) {
				if cl, ok := s.Val.(*ssa.Call); ok && core.CalleeObj(cl) != nil && core.CalleeObj(cl).Name() == "Inuse" {
					upd = true
				}
			}
		}
	})
	if !upd {
		msgs = append(msgs, "the last published value is not updated to the observed in-use: later deltas are computed from a stale base and the published total drifts above or below the real value")
	}
	c.Check(len(msgs) == 0, "observe", pos, core.FuncName(obs), "published change = Inuse() − last published, last published updated", strings.Join(msgs, "; "))
	// every *From defers the observation first
	for _, name := range []string{"TracesFrom", "LogsFrom", "MetricsFrom"} {
		fn := p.Func(pkgArrowRecord, "Consumer", name)
		if fn == nil {
			c.Undecided("defer|"+name, "?", "", name+" not found")
			continue
		}
		isDefer := func(i ssa.Instruction) bool {
			d, ok := i.(*ssa.Defer)
			return ok && d.Call.StaticCallee() == obs
		}
		leak := false
		for _, b := range fn.Blocks {
			for _, i := range b.Instrs {
				if cl, ok := i.(*ssa.Call); ok && cl.Call.StaticCallee() != nil && cl.Call.StaticCallee().Name() == "Consume" {
					if ok2, _ := (core.PathQuery{Fn: fn, To: i, Avoid: isDefer}).Exists(); ok2 {
						leak = true
					}
				}
			}
		}
		has := false
		core.EachInstr(fn, func(i ssa.Instruction) {
			if isDefer(i) {
				has = true
			}
		})
		c.Check(has && !leak, "defer|"+name, p.Pos(fn.Pos()), core.FuncName(fn), "the observation is deferred before decoding starts", name+" does not defer the in-use observation before decoding: the instrument misses the memory retained (or released) by this batch")
	}
}

func init() {
	register("C14", &core.Rule{ID: "C14.8", Title: "a registered stream keeps its reader (and thus its sticky error)", Mod: core.ModRoot, Floor: 2, Run: c14_8})
	register("C07", &core.Rule{ID: "C07.9", Title: "a registered stream keeps its reader: it is released only together with its map entry or in Close", Mod: core.ModRoot, Floor: 2, Run: c14_8})
}

// c14_8: the IPC reader of a registered stream consumer is assigned only from
// ipc.NewReader and released only where its map entry is deleted (schema
// change) or in Close. A reader that failed (memory limit, damaged payload)
// keeps its error; resetting it would make the next payload of the same
// sub-stream start a fresh reader in the middle of an IPC stream and fail with
// an unrelated error (or decode against missing dictionaries).
// fromNewReader: v is the reader result of ipc.NewReader, directly or through
// a package helper all of whose returns hand back such a result.
func fromNewReader(v ssa.Value, ctorName string, depth int) bool {
	if depth > 2 {
		return false
	}
	cl, ok := v.(*ssa.Call)
	if !ok {
		ex, isEx := v.(*ssa.Extract)
		if !isEx || ex.Index != 0 {
			return false
		}
		cl, ok = ex.Tuple.(*ssa.Call)
		if !ok {
			return false
		}
	}
	if core.IsPkgFunc(core.CalleeObj(cl), arrowIPC, ctorName) {
		return true
	}
	h := cl.Call.StaticCallee()
	if h == nil || h.Blocks == nil || h.Pkg == nil || h.Pkg.Pkg.Path() != pkgArrowRecord {
		return false
	}
	n := 0
	for _, r := range core.Returns(h) {
		if len(r.Results) == 0 {
			return false
		}
		if core.IsNilConst(r.Results[0]) {
			continue
		}
		if !fromNewReader(r.Results[0], ctorName, depth+1) {
			return false
		}
		n++
	}
	return n > 0
}

func c14_8(c *core.Ctx, p *core.Prog) { keepRule(c, p, "streamConsumer", "Reader", "NewReader", "Release") }

// c12_12: the mirror for the producer — the IPC writer of a registered stream producer is created once
// (from ipc.NewWriter) and closed only where its map entry is deleted or in Close.  A writer that is closed
// and re-created under its entry starts a new IPC stream (schema, full dictionaries) under a schema id the
// consumer holds a reader for: "invalid message type (got=Schema, want=RecordBatch)".
func c12_12(c *core.Ctx, p *core.Prog) { keepRule(c, p, "streamProducer", "Writer", "NewWriter", "Close") }

// followedBy: every path from the release call to an exit passes pass — except the path on which the
// release itself reported an error (the function gives up with that error).
func followedBy(fn *ssa.Function, cl *ssa.Call, pass func(ssa.Instruction) bool) bool {
	cut := map[core.Edge]bool{}
	for _, b := range fn.Blocks {
		if fe := failEdge(b); fe >= 0 {
			if iff := core.IfOf(b); iff != nil && core.DerivesFrom(iff.Cond, func(v ssa.Value) bool { return v == ssa.Value(cl) }) {
				cut[core.Edge{From: b, To: b.Succs[fe]}] = true
			}
		}
	}
	skip, _ := (core.PathQuery{Fn: fn, From: cl, Avoid: pass, CutEdges: cut}).Exists()
	return !skip
}

func keepRule(c *core.Ctx, p *core.Prog, typeName, resType, ctorName, relMethod string) {
	pk := p.Pkg(pkgArrowRecord)
	if pk == nil {
		c.Undecided("pkg", "?", "", "arrow_record not loaded")
		return
	}
	tn, _ := pk.Types.Scope().Lookup(typeName).(*types.TypeName)
	if tn == nil {
		c.Undecided("type", "?", "", typeName+" not found")
		return
	}
	st := tn.Type().Underlying().(*types.Struct)
	var rdF *types.Var
	for k := 0; k < st.NumFields(); k++ {
		if core.TypePkgPath(st.Field(k).Type()) == arrowIPC {
			rdF = st.Field(k)
		}
	}
	if rdF == nil {
		c.Undecided("field", "?", "", "reader field not found")
		return
	}
	nS, nR := 0, 0
	// release helpers: methods of the stream consumer that release its reader; their call sites are the release sites
	helper := map[*ssa.Function]bool{}
	for _, fn := range arrowRecordFuncs(p) {
		if fn.Signature.Recv() == nil || core.NamedOf(fn.Signature.Recv().Type()) == nil || core.NamedOf(fn.Signature.Recv().Type()).Obj() != tn {
			continue
		}
		core.EachInstr(fn, func(i ssa.Instruction) {
			if cl, ok := i.(*ssa.Call); ok && core.IsMethodOf(core.CalleeObj(cl), arrowIPC, resType, relMethod) && isFieldLoad(cl.Call.Args[0], rdF) {
				helper[fn] = true
			}
		})
	}
	isDelete := func(j ssa.Instruction) bool {
		d, ok := j.(*ssa.Call)
		if !ok {
			return false
		}
		b, ok := d.Call.Value.(*ssa.Builtin)
		return ok && b.Name() == "delete"
	}
	for _, fn := range arrowRecordFuncs(p) {
		core.EachInstr(fn, func(i ssa.Instruction) {
			if cl, ok := i.(*ssa.Call); ok && helper[cl.Call.StaticCallee()] && !helper[fn] {
				nR++
				inClose := fn.Name() == "Close"
				withDelete := followedBy(fn, cl, isDelete)
				c.Check(inClose || withDelete, fmt.Sprintf("release#%d@%s", nR, core.FuncName(fn)), p.Pos(cl.Pos()), core.FuncName(fn), "the reader is released (through its helper) together with its map entry (or in Close)",
					"a stream's "+strings.ToLower(resType)+" is released ("+relMethod+") while its entry stays registered: later payloads of the sub-stream use a released "+strings.ToLower(resType)+" or restart the IPC stream under a live schema id")
			}
		})
	}
	for _, fn := range arrowRecordFuncs(p) {
		if helper[fn] {
			continue
		}
		core.EachInstr(fn, func(i ssa.Instruction) {
			if s, ok := storesTo(i, rdF); ok {
				if litRoot(s.Addr) {
					return
				}
				nS++
				fromNew := fromNewReader(s.Val, ctorName, 0)
				c.Check(fromNew, fmt.Sprintf("store#%d@%s", nS, core.FuncName(fn)), p.Pos(s.Pos()), core.FuncName(fn), "the "+strings.ToLower(resType)+" field is assigned from ipc."+ctorName,
					"the "+strings.ToLower(resType)+" of a registered "+typeName+" is overwritten (e.g. reset to nil): the next payload of that sub-stream starts a fresh IPC "+strings.ToLower(resType)+" in the middle of the stream (refused with an unrelated error instead of the sticky memory-limit error / a second schema message under a live schema id)")
			}
			cl, ok := i.(*ssa.Call)
			if !ok || !core.IsMethodOf(core.CalleeObj(cl), arrowIPC, resType, relMethod) || !isFieldLoad(cl.Call.Args[0], rdF) {
				return
			}
			nR++
			// allowed: in Close, or followed on every path by delete() of the entry before the loop continues / function returns
			inClose := fn.Name() == "Close"
			withDelete := followedBy(fn, cl, isDelete)
			c.Check(inClose || withDelete, fmt.Sprintf("release#%d@%s", nR, core.FuncName(fn)), p.Pos(cl.Pos()), core.FuncName(fn), "the reader is released together with its map entry (or in Close)",
				"a stream's "+strings.ToLower(resType)+" is released ("+relMethod+") while its entry stays registered: later payloads of the sub-stream use a released "+strings.ToLower(resType)+" or restart the IPC stream under a live schema id")
		})
	}
}

// c07_16: an entry of the stream-consumer map is retired only by what replaces
// it.  The producer omits the payload of a related table that is empty for a
// batch but keeps its IPC writer; when rows come back they arrive under the
// same schema id without a schema message.  A consumer that drops the entry
// (and reader) of a stream merely because one batch did not mention it fails
// on that payload ("invalid message type … want=Schema") and on every later
// one of the sub-stream.  Rule: every delete() on the map of stream consumers
// is in Close, or lies under (a) the miss of a lookup in that map — a schema
// id that is not registered yet is being installed — and (b) the equality test
// of the entry's payload type with the incoming payload's.
func c07_16(c *core.Ctx, p *core.Prog) { retireRule(c, p, "streamConsumer", "Reader", "Release") }

// c15_7: the same for the producer's map of stream producers and their IPC writers (Close).
func c15_7(c *core.Ctx, p *core.Prog) { retireRule(c, p, "streamProducer", "Writer", "Close") }

func retireRule(c *core.Ctx, p *core.Prog, typeName, resType, relMethod string) {
	pk := p.Pkg(pkgArrowRecord)
	if pk == nil {
		c.Undecided("pkg", "?", "", "arrow_record not loaded")
		return
	}
	tn, _ := pk.Types.Scope().Lookup(typeName).(*types.TypeName)
	if tn == nil {
		c.Undecided("type", "?", "", typeName+" not found")
		return
	}
	isSCMap := func(v ssa.Value) *types.Var {
		fa := core.LoadedField(core.Canon(v))
		if fa == nil {
			return nil
		}
		m, ok := core.FieldVar(fa).Type().Underlying().(*types.Map)
		if !ok || core.NamedOf(m.Elem()) == nil || core.NamedOf(m.Elem()).Obj() != tn {
			return nil
		}
		return core.FieldVar(fa)
	}
	n := 0
	for _, fn := range arrowRecordFuncs(p) {
		core.EachInstr(fn, func(i ssa.Instruction) {
			d, ok := i.(*ssa.Call)
			if !ok {
				return
			}
			b, ok := d.Call.Value.(*ssa.Builtin)
			if !ok || b.Name() != "delete" || len(d.Call.Args) != 2 {
				return
			}
			mf := isSCMap(d.Call.Args[0])
			if mf == nil {
				return
			}
			n++
			key := fmt.Sprintf("delete#%d@%s", n, core.FuncName(fn))
			if fn.Name() == "Close" {
				c.OK(key, p.Pos(d.Pos()), core.FuncName(fn), "entries are dropped when the consumer is closed")
				return
			}
			onMiss, onType := false, false
			for _, blk := range fn.Blocks {
				iff := core.IfOf(blk)
				if iff == nil {
					continue
				}
				cmp, ok := iff.Cond.(*ssa.BinOp)
				if !ok || (cmp.Op != token.EQL && cmp.Op != token.NEQ) || !core.GuardedBy(iff, cmp.Op == token.EQL, d) {
					continue
				}
				// (a) lookup in the same map == nil   (or the comma-ok form, handled below)
				if core.IsNilConst(cmp.Y) || core.IsNilConst(cmp.X) {
					x := cmp.X
					if core.IsNilConst(x) {
						x = cmp.Y
					}
					if lk, ok := core.Canon(x).(*ssa.Lookup); ok && isSCMap(lk.X) == mf {
						onMiss = true
					}
				}
				// (b) entry.payloadType == payload.Type
				fx, fy := core.LoadedField(core.Canon(cmp.X)), core.LoadedField(core.Canon(cmp.Y))
				ofEntry := func(fa *ssa.FieldAddr) bool {
					if fa == nil {
						return false
					}
					o := core.NamedOf(fa.X.Type())
					return o != nil && o.Obj() == tn && strings.Contains(strings.ToLower(core.FieldName(fa)), "type")
				}
				if ofEntry(fx) != ofEntry(fy) && types.Identical(cmp.X.Type(), cmp.Y.Type()) {
					onType = true
				}
			}
			// comma-ok miss: if !ok { … }
			for _, blk := range fn.Blocks {
				iff := core.IfOf(blk)
				if iff == nil {
					continue
				}
				cond, arm := iff.Cond, true
				if u, ok := cond.(*ssa.UnOp); ok && u.Op == token.NOT {
					cond, arm = u.X, false
				}
				if ex, ok := cond.(*ssa.Extract); ok && ex.Index == 1 {
					if lk, ok := ex.Tuple.(*ssa.Lookup); ok && isSCMap(lk.X) == mf && core.GuardedBy(iff, !arm, d) {
						onMiss = true
					}
				}
			}
			if !onMiss {
				// the dropping loop may live in a helper (`p.retireStreamProducers(payloadType)`): the miss is then tested
				// where the helper is called — at every call site
				var missAt func(f *ssa.Function, at ssa.Instruction) bool
				missAt = func(f *ssa.Function, at ssa.Instruction) bool {
					for _, blk := range f.Blocks {
						iff := core.IfOf(blk)
						if iff == nil {
							continue
						}
						if cmp, ok := iff.Cond.(*ssa.BinOp); ok && (cmp.Op == token.EQL || cmp.Op == token.NEQ) && core.GuardedBy(iff, cmp.Op == token.EQL, at) {
							x := cmp.X
							if core.IsNilConst(x) {
								x = cmp.Y
							}
							if core.IsNilConst(cmp.Y) || core.IsNilConst(cmp.X) {
								if lk, ok := core.Canon(x).(*ssa.Lookup); ok && isSCMap(lk.X) == mf {
									return true
								}
							}
						}
						cond, arm := iff.Cond, true
						if u, ok := cond.(*ssa.UnOp); ok && u.Op == token.NOT {
							cond, arm = u.X, false
						}
						if ex, ok := cond.(*ssa.Extract); ok && ex.Index == 1 {
							if lk, ok := ex.Tuple.(*ssa.Lookup); ok && isSCMap(lk.X) == mf && core.GuardedBy(iff, !arm, at) {
								return true
							}
						}
					}
					return false
				}
				sites, all := 0, true
				for _, g := range arrowRecordFuncs(p) {
					for _, host := range core.WithClosures(g) {
						core.EachCall(host, func(ci ssa.CallInstruction) {
							if ci.Common().StaticCallee() == fn {
								sites++
								if !missAt(host, ci) {
									all = false
								}
							}
						})
					}
				}
				if sites > 0 && all && fn.Parent() == nil {
					onMiss = true
				}
			}
			var msgs []string
			if !onMiss {
				msgs = append(msgs, "not under the miss of a lookup of the incoming schema id (no new stream is being installed)")
			}
			if !onType {
				msgs = append(msgs, "not under the test that the entry has the incoming payload's type")
			}
			// the entry's reader is released before the entry is forgotten, whatever state the reader is in:
			// the only way round the release is the "no reader yet" edge of a nil test
			var rdF *types.Var
			st := tn.Type().Underlying().(*types.Struct)
			for k := 0; k < st.NumFields(); k++ {
				if core.TypePkgPath(st.Field(k).Type()) == arrowIPC {
					rdF = st.Field(k)
				}
			}
			if rdF != nil {
				isRelease := func(j ssa.Instruction) bool {
					cl, ok := j.(*ssa.Call)
					if !ok {
						return false
					}
					if core.IsMethodOf(core.CalleeObj(cl), arrowIPC, resType, relMethod) && isFieldLoad(cl.Call.Args[0], rdF) {
						return true
					}
					// a helper of the stream consumer that releases its reader
					h := cl.Call.StaticCallee()
					if h == nil || h.Blocks == nil || h.Signature.Recv() == nil || core.NamedOf(h.Signature.Recv().Type()) == nil || core.NamedOf(h.Signature.Recv().Type()).Obj() != tn {
						return false
					}
					rel := false
					core.EachInstr(h, func(x ssa.Instruction) {
						if c2, ok := x.(*ssa.Call); ok && core.IsMethodOf(core.CalleeObj(c2), arrowIPC, resType, relMethod) && isFieldLoad(c2.Call.Args[0], rdF) {
							rel = true
						}
					})
					return rel
				}
				cut := map[core.Edge]bool{}
				for _, blk := range fn.Blocks {
					iff := core.IfOf(blk)
					if iff == nil {
						continue
					}
					if cmp, ok := iff.Cond.(*ssa.BinOp); ok && (cmp.Op == token.NEQ || cmp.Op == token.EQL) && core.IsNilConst(cmp.Y) && isFieldLoad(cmp.X, rdF) {
						nilIdx := 1 // `rd != nil`: the false edge is the nil edge
						if cmp.Op == token.EQL {
							nilIdx = 0
						}
						cut[core.Edge{From: blk, To: blk.Succs[nilIdx]}] = true
					}
				}
				leak, _ := (core.PathQuery{Fn: fn, To: d, Avoid: isRelease, CutEdges: cut}).Exists()
				c.Check(!leak, key+"|released", p.Pos(d.Pos()), core.FuncName(fn), "the entry's reader is released before the entry is forgotten (unless there is none yet)",
					"an entry can be dropped from the map while its "+strings.ToLower(resType)+" — in whatever state; one that failed still owns its dictionaries and last record — is not released ("+relMethod+"): Close can no longer reach it, so the memory is never returned (it keeps counting against the consumer's limit / stays allocated after the producer's Close)")
			}
			c.Check(len(msgs) == 0, key, p.Pos(d.Pos()), core.FuncName(fn), "an entry is retired only by a new schema id of its own payload type",
				"a registered stream ("+typeName+") is dropped "+strings.Join(msgs, " and ")+": a sub-stream that is still live (an empty related table is merely omitted from a batch; an unchanged schema id keeps its IPC stream) loses its "+strings.ToLower(resType)+", so its next payload does not continue the IPC stream the peer holds — refused by the consumer, or a schema id restarted by the producer")
		})
	}
}

func init() {
	register("C07", &core.Rule{ID: "C07.16", Title: "a registered stream is retired only by a new schema id of its own payload type (or Close)", Mod: core.ModRoot, Floor: 1, Run: c07_16})
	register("C14", &core.Rule{ID: "C14.13", Title: "a registered stream is retired only by a new schema id of its own payload type (or Close)", Mod: core.ModRoot, Floor: 1, Run: c07_16})
	register("C15", &core.Rule{ID: "C15.7", Title: "a stream producer is forgotten only after its IPC writer was closed (the writer's retained dictionaries are returned to the allocator)", Mod: core.ModRoot, Floor: 1, Run: c15_7})
	register("C12", &core.Rule{ID: "C12.12", Title: "a registered stream producer keeps its IPC writer: created once from ipc.NewWriter, closed only with its map entry or in Close", Mod: core.ModRoot, Floor: 2, Run: c12_12})
	register("C12", &core.Rule{ID: "C12.11", Title: "a stream producer is retired only by a new schema of its own payload type, with its writer closed (a live schema id is never restarted)", Mod: core.ModRoot, Floor: 1, Run: c15_7})
}
