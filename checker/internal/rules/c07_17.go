package rules

import (
	"fmt"
	"go/token"
	"go/types"

	"golang.org/x/tools/go/ssa"

	"otelcheck/internal/core"
)

// C07.17 — a record that may be missing is used only under a nil test of itself.
//
// The decoders first sort the records of a batch into locals by payload type (`spanEventRecord`,
// `spanLinkRecord`, `numberDPRec`, …) — nil when the batch carries no payload of that type, which
// is ordinary: a batch of spans without links has no SPAN_LINKS payload — and then build one
// store per local under `if x != nil`. The blocks are near-identical; testing the neighbour's
// variable type-checks, passes every test whose batches carry both payloads or neither, and then
// either dereferences nil (a well-formed batch with events and no links panics the consumer) or
// skips a payload that is there (links silently missing, success reported).
//
// Rule: in every decoder function that is handed the records of a batch, a method call on a
// *RecordMessage value that may be nil (a φ with a nil edge) is dominated by the non-nil edge of
// a nil test of that same value.
func c07_17(c *core.Ctx, p *core.Prog) {
	reach := repoReach(p, p.CHA(), consumerEntries(p))
	n := 0
	for _, fn := range sortedFuncs(p, reach) {
		if fn.Synthetic != "" && fn.Parent() == nil {
			continue
		}
		takes := false
		for f := fn; f != nil; f = f.Parent() {
			for _, prm := range f.Params {
				if isRecordMsgSlice(prm.Type()) {
					takes = true
				}
			}
		}
		if !takes {
			continue
		}
		var mayNil func(v ssa.Value, d int, seen map[ssa.Value]bool) bool
		mayNil = func(v ssa.Value, d int, seen map[ssa.Value]bool) bool {
			if d > 5 || seen[v] {
				return false
			}
			seen[v] = true
			switch x := v.(type) {
			case *ssa.Const:
				return x.IsNil()
			case *ssa.Phi:
				for _, e := range x.Edges {
					if mayNil(e, d+1, seen) {
						return true
					}
				}
			}
			return false
		}
		k := 0
		core.EachInstr(fn, func(i ssa.Instruction) {
			cl, ok := i.(*ssa.Call)
			if !ok || cl.Call.IsInvoke() || len(cl.Call.Args) == 0 {
				return
			}
			v := cl.Call.Args[0]
			pt, ok := v.Type().(*types.Pointer)
			if !ok || core.TypeName(pt.Elem()) != "RecordMessage" || core.TypePkgPath(pt.Elem()) != pkgRecordMsg {
				return
			}
			callee := cl.Call.StaticCallee()
			if callee == nil || callee.Signature.Recv() == nil {
				return
			}
			if _, isPhi := v.(*ssa.Phi); !isPhi || !mayNil(v, 0, map[ssa.Value]bool{}) {
				return
			}
			n++
			k++
			guarded := false
			for _, b := range fn.Blocks {
				iff := core.IfOf(b)
				if iff == nil {
					continue
				}
				cmp, ok := iff.Cond.(*ssa.BinOp)
				if !ok || (cmp.Op != token.NEQ && cmp.Op != token.EQL) {
					continue
				}
				var other ssa.Value
				switch {
				case cmp.X == v && core.IsNilConst(cmp.Y):
					other = cmp.Y
				case cmp.Y == v && core.IsNilConst(cmp.X):
					other = cmp.X
				}
				if other != nil && core.GuardedBy(iff, cmp.Op == token.NEQ, cl) {
					guarded = true
				}
			}
			name := v.Name()
			if ph, ok := v.(*ssa.Phi); ok && ph.Comment != "" {
				name = ph.Comment
			}
			key := fmt.Sprintf("use|fn=%s|%s#%d", core.FuncName(fn), name, k)
			c.Check(guarded, key, p.Pos(cl.Pos()), core.FuncName(fn), name+" is used under a nil test of itself",
				fmt.Sprintf("%s — nil when the batch carries no payload of its type — is used at %s without a dominating nil test of that very variable (the test in front of it looks at another one): a well-formed batch that has the neighbour's payload but not this one makes the consumer dereference nil, and one that has this payload but not the neighbour's is decoded without it, with no error", name, p.Pos(cl.Pos())))
		})
	}
	if n < 2 {
		c.Undecided("count", "?", "", fmt.Sprintf("expected the pending-record locals of the three RelatedDataFrom functions (8+ guarded uses), found %d", n))
	}
}

func init() {
	register("C07", &core.Rule{ID: "C07.17", Title: "a record local that is nil when its payload is absent is used only under a nil test of itself", Mod: core.ModRoot, Floor: 0, Run: c07_17})
	for prop, id := range map[string]string{"C01": "C01.9", "C03": "C03.9"} {
		register(prop, &core.Rule{ID: id, Title: "a record local that is nil when its payload is absent is used only under a nil test of itself (a payload that is present is not skipped under the neighbour's test)", Mod: core.ModRoot, Floor: 0, Run: c07_17})
	}
}
