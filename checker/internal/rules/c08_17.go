package rules

import (
	"fmt"
	"go/token"
	"go/types"
	"strings"

	"golang.org/x/tools/go/ssa"

	"otelcheck/internal/core"
)

// C08.17 — the schema projection drops a field only when a transform of its node removed it.
//
// The adaptive schema is the prototype schema projected through the transform tree: a column the
// stream has not needed yet carries a transform that answers nil, and is left out. When a value
// needs the column, the wrapper removes that transform and asks for a schema update; the builders
// then rebuild the record with the new schema and append the batch again. The loop ends because
// a column that was asked for is there on the next attempt. A projection that leaves a field out
// for any other reason (an "empty struct", a "useless list") breaks that: the column is asked for
// on every attempt, never appears, and the builder gives up with a panic after its retry limit —
// for inputs that merely have zero values where others have data.
//
// Rule: in every function that projects an arrow field through a transform node (result
// *arrow.Field, a *TransformNode among the parameters), a nil result is returned only under the
// nil test of a transform's own result.

// C08.18 — a map kept in a field that the encode path inserts into is never set to nil.
// (`s.RecordSizeDistribution = nil` in a Reset, and the next batch panics with "assignment to
// entry in nil map" — but only for streams that reset their statistics.)

const c08_18Canary = `package c

type stats struct {
	dist map[int]int
	n    int
}

func observe(s *stats, k int) { s.dist[k]++ }

// BadReset forgets the map.
func BadReset(s *stats) { s.n = 0; s.dist = nil }

// GoodReset starts a new one.
func GoodReset(s *stats) { s.n = 0; s.dist = map[int]int{} }

var _ = observe
`

func c08_17(c *core.Ctx, p *core.Prog) {
	n := 0
	for _, fn := range sortedFuncs(p, encodeReach(p)) {
		if fn.Synthetic != "" || fn.Parent() != nil || fn.Signature.Results().Len() != 1 {
			continue
		}
		rt, ok := fn.Signature.Results().At(0).Type().(*types.Pointer)
		if !ok || core.TypeName(rt.Elem()) != "Field" || !strings.HasPrefix(core.TypePkgPath(rt.Elem()), core.ArrowPath) {
			continue
		}
		hasNode := false
		for _, prm := range fn.Params {
			if core.TypeName(prm.Type()) == "TransformNode" {
				hasNode = true
			}
		}
		if !hasNode {
			continue
		}
		n++
		// results of transforms: invoke-mode calls returning *arrow.Field
		isTransformResult := func(v ssa.Value) bool {
			found := false
			core.BackSlice(v, func(x ssa.Value) bool {
				if cl, ok := x.(*ssa.Call); ok && types.Identical(cl.Type(), fn.Signature.Results().At(0).Type()) {
					// a transform (interface call), or the projection of a child (a map without key or value column is no map)
					if cl.Call.IsInvoke() || cl.Call.StaticCallee() == fn {
						found = true
						return false
					}
				}
				return !found
			})
			return found
		}
		var bad []string
		for _, r := range core.Returns(fn) {
			vals := []ssa.Value{r.Results[0]}
			if ph, ok := r.Results[0].(*ssa.Phi); ok {
				vals = ph.Edges
			}
			for _, v := range vals {
				if !core.IsNilConst(v) {
					continue
				}
				// reachable without taking the "is nil" edge of a test of a transform's (or a child projection's) result?
				cut := map[core.Edge]bool{}
				for _, b := range fn.Blocks {
					iff := core.IfOf(b)
					if iff == nil {
						continue
					}
					cmp, ok := iff.Cond.(*ssa.BinOp)
					if !ok || !core.IsNilConst(cmp.Y) || !isTransformResult(cmp.X) {
						continue
					}
					k := 0
					if cmp.Op != token.EQL {
						k = 1
					}
					cut[core.Edge{From: b, To: b.Succs[k]}] = true
				}
				// a φ of nil: only the edge that brings the nil matters
				target := ssa.Instruction(r)
				if ph, ok := r.Results[0].(*ssa.Phi); ok {
					for k, e := range ph.Edges {
						if e == v && k < len(ph.Block().Preds) {
							pred := ph.Block().Preds[k]
							target = pred.Instrs[len(pred.Instrs)-1]
						}
					}
				}
				free, _ := (core.PathQuery{Fn: fn, To: target, CutEdges: cut}).Exists()
				guarded := !free
				if !guarded {
					bad = append(bad, p.Pos(r.Pos()))
				}
			}
		}
		c.Check(len(bad) == 0, "fn="+core.FuncName(fn), p.Pos(fn.Pos()), core.FuncName(fn), "a field is left out of the projected schema only when one of its node's transforms removed it",
			fmt.Sprintf("%s leaves a field out of the schema at %v although no transform of its node removed it: a column that a value needs is requested on every rebuild and never appears, so the record builder panics with 'Too many consecutive schema updates' — for inputs whose values so far were all zero/empty", fn.Name(), bad))
	}
	if n == 0 {
		c.Undecided("anchors", "?", "", "no function projecting an arrow field through a transform node found")
	}
}

func c08_18(c *core.Ctx, p *core.Prog) {
	reach := encodeReach(p)
	fns := sortedFuncs(p, reach)
	// also what the producer's accessors (statistics, reset) reach: every method of the producer
	for _, m := range p.FuncsIn(func(pp string) bool { return pp == pkgArrowRecord }) {
		if m.Signature.Recv() != nil && core.TypeName(m.Signature.Recv().Type()) == "Producer" && !reach[m] {
			for f := range repoReach(p, p.CHA(), []*ssa.Function{m}) {
				if !reach[f] {
					reach[f] = true
					fns = append(fns, f)
				}
			}
		}
	}
	fns = append(fns, p.FuncsIn(func(pp string) bool { return core.IsCanaryPath(pp) && c.InScope(pp) })...)
	updated := map[*types.Var]string{}
	for _, fn := range fns {
		core.EachInstr(fn, func(i ssa.Instruction) {
			if mu, ok := i.(*ssa.MapUpdate); ok {
				if fa := core.LoadedField(mu.Map); fa != nil {
					updated[core.FieldVar(fa)] = p.Pos(mu.Pos())
				}
			}
		})
	}
	for _, fn := range fns {
		core.EachInstr(fn, func(i ssa.Instruction) {
			st, ok := i.(*ssa.Store)
			if !ok {
				return
			}
			fa, ok := st.Addr.(*ssa.FieldAddr)
			if !ok {
				return
			}
			at, isUpd := updated[core.FieldVar(fa)]
			if !isUpd {
				return
			}
			key := fmt.Sprintf("store|%s.%s@%s", core.TypeName(fa.X.Type()), core.FieldName(fa), core.FuncName(fn))
			c.Check(!core.IsNilConst(st.Val), key, p.Pos(st.Pos()), core.FuncName(fn), "the map is replaced by a map",
				fmt.Sprintf("%s sets the map %s to nil while %s inserts into it: the next batch after this call panics with 'assignment to entry in nil map'", fn.Name(), core.FieldName(fa), at))
		})
	}
}

func init() {
	register("C08", &core.Rule{ID: "C08.17", Title: "the schema projection leaves a field out only when a transform of its node removed it (a requested column appears on the next rebuild)", Mod: core.ModRoot, Floor: 1, Run: c08_17})
	register("C04", &core.Rule{ID: "C04.14", Title: "the schema projection leaves a field out only when a transform of its node removed it (schema evolution converges)", Mod: core.ModRoot, Floor: 1, Run: c08_17})
	register("C08", &core.Rule{ID: "C08.18", Title: "a map field the producer inserts into is never set to nil", Mod: core.ModRoot, Floor: 0, Run: c08_18, Canary: c08_18Canary})
}
