// Package rules holds the repository-specific rules, one file per rule family.
package rules

import (
	"sort"
	"strings"

	"otelcheck/internal/core"
)

var registry = map[string][]*core.Rule{}

// register adds a rule to a property.
func register(property string, r *core.Rule) {
	registry[property] = append(registry[property], r)
}

// For returns the rules of a property, sorted by id.
func For(property string) []*core.Rule {
	rs := append([]*core.Rule(nil), registry[property]...)
	sort.SliceStable(rs, func(i, j int) bool { return rs[i].ID < rs[j].ID })
	return rs
}

// Properties lists the properties that have at least one rule.
func Properties() []string {
	var out []string
	for p := range registry {
		out = append(out, p)
	}
	sort.Strings(out)
	return out
}

// Signal scoping: C01/C02/C03 are about one signal each. A construct inside
// another signal's encoder/decoder packages is neither evidence for nor a
// violation of the property (a defect in the metrics encoder does not break
// the traces round trip), so obligations located there are not recorded.
var signalDirs = map[string]string{"C01": "traces", "C02": "logs", "C03": "metrics"}

func init() {
	core.Scope = func(property, pos, fn string) bool {
		own, ok := signalDirs[property]
		if !ok {
			return true
		}
		for _, other := range []string{"traces", "logs", "metrics"} {
			if other == own {
				continue
			}
			if strings.Contains(pos, "pkg/otel/"+other+"/") || strings.Contains(fn, "pkg/otel/"+other+"/") {
				return false
			}
		}
		return true
	}
}
