// Package rules holds the repository-specific rules, one file per rule family.
package rules

import (
	"sort"

	"otelcheck/internal/core"
)

var registry = map[string][]*core.Rule{}

// register adds a rule to a property.
func register(property string, r *core.Rule) {
	registry[property] = append(registry[property], r)
}

// For returns the rules of a property, sorted by id.
func For(property string) []*core.Rule {
	rs := append([]*core.Rule(nil), registry[property]...)
	sort.SliceStable(rs, func(i, j int) bool { return rs[i].ID < rs[j].ID })
	return rs
}

// Properties lists the properties that have at least one rule.
func Properties() []string {
	var out []string
	for p := range registry {
		out = append(out, p)
	}
	sort.Strings(out)
	return out
}
