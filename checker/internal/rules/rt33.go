package rules

import (
	"fmt"

	"golang.org/x/tools/go/ssa"

	"otelcheck/internal/core"
)

// RT.33 — a Range callback over the caller's attributes stops the iteration
// only to report an error.
//
// pcommon.Map.Range stops at the first `false` its callback returns.  The
// encoders (accumulators, CBOR serializer, identity strings, comparators) walk
// attribute maps with such callbacks; skipping one entry is `return true`.  A
// `return false` on a path that recorded no error ends the walk silently: every
// attribute after that entry is dropped from the encoded batch.
//
// Rule: in every callback passed to a pdata Range on the encode path, each
// return of the constant false lies on a path that stored a non-nil value into
// a captured error variable (or is guarded by a test of one).

func rt_33(c *core.Ctx, p *core.Prog) {
	reach := encodeReach(p)
	fns := sortedFuncs(p, reach)
	fns = append(fns, p.FuncsIn(func(pp string) bool { return core.IsCanaryPath(pp) && c.InScope(pp) })...)
	seen := map[*ssa.Function]bool{}
	for _, top := range fns {
		if top.Synthetic != "" {
			continue
		}
		for _, fn := range core.WithClosures(top) {
			k := 0
			core.EachInstr(fn, func(i ssa.Instruction) {
				cl, ok := i.(*ssa.Call)
				if !ok {
					return
				}
				f := pdataCallee(cl)
				if f == nil || f.Name() != "Range" || len(cl.Call.Args) != 2 {
					return
				}
				clo := resolveCallback(cl.Call.Args[1])
				if clo == nil || seen[clo] {
					return
				}
				seen[clo] = true
				k++
				key := fmt.Sprintf("range|fn=%s#%d", core.FuncName(fn), k)
				pos := p.Pos(cl.Pos())
				// stores of a non-nil error into a captured variable
				isErrStore := func(j ssa.Instruction) bool {
					st, ok := j.(*ssa.Store)
					if !ok {
						return false
					}
					if _, isFree := st.Addr.(*ssa.FreeVar); !isFree {
						return false
					}
					// a non-nil error, or a flag set to true (`found = true; return false` in a search or comparison)
					if isErr(st.Val.Type()) && !core.IsNilConst(st.Val) {
						return true
					}
					if b, isB := core.ConstBool(st.Val); isB && b {
						return true
					}
					return false
				}
				// edges on which a captured / local error is known to be non-nil
				errEdges := map[core.Edge]bool{}
				for _, b := range clo.Blocks {
					if fe := failEdge(b); fe >= 0 {
						errEdges[core.Edge{From: b, To: b.Succs[fe]}] = true
					}
				}
				bad := ""
				for _, r := range core.Returns(clo) {
					if len(r.Results) != 1 {
						continue
					}
					if b, ok := core.ConstBool(r.Results[0]); !ok || b {
						continue
					}
					// a path to this return that stores no error and takes no error edge
					silent, _ := (core.PathQuery{Fn: clo, To: r, Avoid: isErrStore, CutEdges: errEdges}).Exists()
					if silent {
						bad = p.Pos(r.Pos())
					}
				}
				c.Check(bad == "", key, pos, core.FuncName(fn),
					"the callback stops the iteration only after recording an error",
					"the Range callback returns false at "+bad+" on a path that recorded no error: the iteration stops there and every attribute after that entry is silently dropped from the encoded batch (skipping an entry is `return true`)")
			})
		}
	}
}

func init() {
	for _, prop := range []string{"C01", "C02", "C03"} {
		register(prop, &core.Rule{ID: "RT.33", Title: "a Range callback over the caller's attributes stops the iteration only to report an error", Mod: core.ModRoot, Floor: 5, Run: rt_33, Canary: rt33Canary})
	}
}

const rt33Canary = `package c

import "go.opentelemetry.io/collector/pdata/pcommon"

type Acc struct{ keys []string }

// BadStopsOnSkip ends the walk at the first entry it wants to skip.
func (a *Acc) BadStopsOnSkip(m pcommon.Map) {
	m.Range(func(k string, v pcommon.Value) bool {
		if k == "" || v.Type() == pcommon.ValueTypeEmpty {
			return false
		}
		a.keys = append(a.keys, k)
		return true
	})
}

func check(k string) error { return nil }

// GoodStopsOnError ends the walk only with an error.
func (a *Acc) GoodStopsOnError(m pcommon.Map) (err error) {
	m.Range(func(k string, v pcommon.Value) bool {
		if k == "" {
			return true
		}
		if e := check(k); e != nil {
			err = e
			return false
		}
		a.keys = append(a.keys, k)
		return true
	})
	return err
}
`
