package rules

import (
	"fmt"
	"go/types"

	"golang.org/x/tools/go/ssa"

	"otelcheck/internal/core"
)

// C14.12 (= C07.13) — no typed nil behind an interface that is guarded by nil
// tests.
//
// `x.f, err = New(...)` with `f` of an interface type and New returning a
// concrete pointer stores the pointer into the interface whatever err says.
// When New fails, `f` holds a nil pointer inside a non-nil interface: every
// `x.f != nil` guard in the program still reads true, and the first method
// call or Release dereferences nil — outside any recover.  In the consumer
// that state is reached exactly when opening a stream's reader is refused
// (possibly by the memory limit itself), so the refusal becomes a panic on the
// next payload, on eviction or on Close.
//
// Rule: on the decode side, a store of a concrete pointer, obtained from a call
// that also returns an error, into an interface-typed struct field happens only
// where that error is known to be nil (the store is guarded by the err == nil
// edge), or the field is never compared with nil anywhere.

func c14_12(c *core.Ctx, p *core.Prog) {
	reach := repoReach(p, p.CHA(), consumerEntries(p))
	fns := sortedFuncs(p, reach)
	fns = append(fns, p.FuncsIn(func(pp string) bool { return core.IsCanaryPath(pp) && c.InScope(pp) })...)
	// interface-typed fields that are nil-tested somewhere
	nilTested := map[*types.Var]bool{}
	for _, fn := range fns {
		for _, b := range fn.Blocks {
			iff := core.IfOf(b)
			if iff == nil {
				continue
			}
			if cmp, ok := iff.Cond.(*ssa.BinOp); ok && core.IsNilConst(cmp.Y) {
				if fa := core.LoadedField(cmp.X); fa != nil {
					nilTested[core.FieldVar(fa)] = true
				}
			}
		}
	}
	n := 0
	for _, fn := range fns {
		if fn.Synthetic != "" {
			continue
		}
		core.EachInstr(fn, func(i ssa.Instruction) {
			st, ok := i.(*ssa.Store)
			if !ok {
				return
			}
			fa, ok := st.Addr.(*ssa.FieldAddr)
			if !ok {
				return
			}
			fv := core.FieldVar(fa)
			if fv == nil {
				return
			}
			if _, isI := fv.Type().Underlying().(*types.Interface); !isI {
				return
			}
			mi, ok := st.Val.(*ssa.MakeInterface)
			if !ok {
				return
			}
			if _, isPtr := mi.X.Type().Underlying().(*types.Pointer); !isPtr {
				return
			}
			ex, ok := mi.X.(*ssa.Extract)
			if !ok {
				return
			}
			call, ok := ex.Tuple.(*ssa.Call)
			if !ok {
				return
			}
			var errV ssa.Value
			for _, r := range core.Referrers(call) {
				if e2, ok := r.(*ssa.Extract); ok && isErr(e2.Type()) {
					errV = e2
				}
			}
			if errV == nil {
				return
			}
			n++
			key := fmt.Sprintf("typednil|fn=%s|field=%s#%d", core.FuncName(fn), fv.Name(), n)
			pos := p.Pos(st.Pos())
			guarded := false
			for _, b := range fn.Blocks {
				if fe := failEdge(b); fe >= 0 {
					iff := core.IfOf(b)
					if cmp, ok := iff.Cond.(*ssa.BinOp); ok && (cmp.X == errV || core.DerivesFrom(cmp.X, func(v ssa.Value) bool { return v == errV })) {
						if core.EdgeGuards(fn, core.Edge{From: b, To: b.Succs[1-fe]}, st) {
							guarded = true
						}
					}
				}
			}
			switch {
			case guarded:
				c.OK(key, pos, core.FuncName(fn), "the pointer is stored into the interface only where the error is nil")
			case !nilTested[fv]:
				c.InfoOb(key, pos, core.FuncName(fn), "stored regardless of the error, but the field is never compared with nil")
			default:
				f := core.CalleeObj(call)
				name := "the call"
				if f != nil {
					name = f.Name()
				}
				c.Viol(key, pos, core.FuncName(fn), fmt.Sprintf("the pointer returned by %s is stored into the interface field %s before its error is checked: when %s fails the field holds a nil pointer inside a non-nil interface, every `%s != nil` guard still reads true, and the next method call or Release on it dereferences nil (a refused reader creation becomes a panic on the next payload, on eviction or on Close)", name, fv.Name(), name, fv.Name()))
			}
		})
	}
}

func init() {
	register("C14", &core.Rule{ID: "C14.12", Title: "no typed nil behind a nil-guarded interface field: a pointer obtained with an error is stored into an interface only where the error is nil", Mod: core.ModRoot, Floor: 0, Run: c14_12, Canary: c14_12Canary})
	register("C07", &core.Rule{ID: "C07.13", Title: "no typed nil behind a nil-guarded interface field: a pointer obtained with an error is stored into an interface only where the error is nil", Mod: core.ModRoot, Floor: 0, Run: c14_12, Canary: c14_12Canary})
}

const c14_12Canary = `package c

import "errors"

type Reader interface{ Next() bool }

type impl struct{ n int }

func (r *impl) Next() bool { r.n--; return r.n > 0 }

func open(n int) (*impl, error) {
	if n < 0 {
		return nil, errors.New("refused")
	}
	return &impl{n: n}, nil
}

type S struct{ r Reader }

// BadAssignBoth stores the pointer whatever the error says.
func (s *S) BadAssignBoth(n int) error {
	var err error
	s.r, err = open(n)
	if err != nil {
		return err
	}
	return nil
}

// GoodAssignAfterCheck stores it once the error is known to be nil.
func (s *S) GoodAssignAfterCheck(n int) error {
	r, err := open(n)
	if err != nil {
		return err
	}
	s.r = r
	return nil
}

// Use is where the guard lives.
func (s *S) Use() bool {
	if s.r != nil {
		return s.r.Next()
	}
	return false
}
`
