package rules

import (
	"fmt"
	"go/types"
	"sort"
	"strings"

	"golang.org/x/tools/go/ssa"

	"otelcheck/internal/core"
)

func init() {
	core.Describe("C15",
		"Static necessary conditions of 'the producer leaves its input untouched and releases all memory on Close', decided for the repo functions reachable from Producer.BatchArrowRecordsFrom* / Close: "+
			"C15.1 effect analysis: no pdata mutator (Set*, Put*, Append*, Remove*, Move*, EnsureCapacity, Sort, FromRaw, Clear, or CopyTo *into* a value) is applied to a value that is not created in the same function by a pdata New* call; "+
			"C15.2 Produce defers the release of every record message before anything can leave the per-message function; "+
			"C15.3 created ⇒ released by the destructor chain: Close releases every releasable field of the producer and closes every stream producer's writer; every type that implements the related-record-builder interface releases its record builder in Release; the related-records manager releases every declared builder unconditionally; the entity builders' Release reaches the manager's; "+
			"C15.4 an owning field is overwritten only after the old value was released/closed (= C13.6 and C12.5); "+
			"C15.5 the configured allocator reaches every record builder and IPC writer, and no other allocator is created on the encode path. "+
			"NOT decided: leaks inside arrow-go; paths returning a fatal error (two such sites — Produce mid-loop, BatchArrowRecordsFrom* after a failed BuildRecordMessages — are listed in evidence, not reported: no input reaches them with a well-behaved allocator).",
		"pdata getters return views on the caller's data (a mutator on a view mutates the input)", "array.RecordBuilder.Release frees its column builders and dictionary memo tables")
	for _, r := range []*core.Rule{
		{ID: "C15.1", Title: "no pdata mutator on the caller's data", Mod: core.ModRoot, Floor: 80, Run: c15_1, Canary: c15_1Canary},
		{ID: "C15.2", Title: "Produce defers the release of every record", Mod: core.ModRoot, Floor: 1, Run: c15_2},
		{ID: "C15.3", Title: "created ⇒ released by the destructor chain", Mod: core.ModRoot, Floor: 20, Run: c15_3},
		{ID: "C15.4", Title: "owning fields are released before they are overwritten", Mod: core.ModRoot, Floor: 3, Run: c13_6},
		{ID: "C15.5", Title: "only the configured allocator is used on the encode path", Mod: core.ModRoot, Floor: 5, Run: c15_5},
	} {
		register("C15", r)
	}
}

const c15_1Canary = `package c

import "go.opentelemetry.io/collector/pdata/pcommon"

// BadNormalise deletes attributes of the caller's map.
func BadNormalise(m pcommon.Map) int {
	m.RemoveIf(func(k string, v pcommon.Value) bool { return k == "" })
	return m.Len()
}

// BadAppend grows the caller's slice.
func BadAppend(s pcommon.Slice) {
	s.AppendEmpty().SetInt(1)
}

func GoodCopy(m pcommon.Map) int {
	tmp := pcommon.NewMap()
	m.CopyTo(tmp)
	tmp.RemoveIf(func(k string, v pcommon.Value) bool { return k == "" })
	return tmp.Len()
}
`

var pdataMutatorPrefixes = []string{"Set", "Put", "Append", "Remove", "Move", "EnsureCapacity", "Sort", "FromRaw", "Clear"}

func isPdataMutator(name string) bool {
	for _, pre := range pdataMutatorPrefixes {
		if strings.HasPrefix(name, pre) {
			return true
		}
	}
	return false
}

// freshPdata: v derives (through niladic getters / element accessors) from a pdata New* call made in this function.
func freshPdata(v ssa.Value, depth int) bool {
	if depth > 8 {
		return false
	}
	v = core.Canon(v)
	cl, ok := v.(*ssa.Call)
	if !ok {
		return false
	}
	f := core.CalleeObj(cl)
	if f == nil || f.Pkg() == nil || !strings.HasPrefix(f.Pkg().Path(), core.PdataPath) {
		return false
	}
	if core.RecvNamed(f) == nil {
		return strings.HasPrefix(f.Name(), "New")
	}
	if len(cl.Call.Args) == 0 {
		return false
	}
	return freshPdata(cl.Call.Args[0], depth+1)
}

func c15_1(c *core.Ctx, p *core.Prog) {
	// CHA in both tiers: its reach is a superset of VTA's, so the thorough tier never inspects less than the quick one
	reach := repoReach(p, p.CHA(), producerEntries(p))
	if c.Tier == "thorough" {
		c.Stats["C15.1 functions reachable under VTA (subset of the CHA reach that is inspected)"] = len(repoReach(p, p.VTA(), producerEntries(p)))
	}
	if len(reach) < 100 {
		c.Undecided("reach", "?", "", fmt.Sprintf("only %d repo functions reachable from the producer entry points", len(reach)))
		return
	}
	fns := sortedFuncs(p, reach)
	for _, f := range rootFuncs(c, p) {
		if core.IsCanaryPath(core.FnPkgPath(f)) {
			fns = append(fns, f)
		}
	}
	nCalls := 0
	for _, fn := range fns {
		if !prodPkg(core.FnPkgPath(fn)) && !core.IsCanaryPath(core.FnPkgPath(fn)) {
			continue
		}
		var bad []string
		n := 0
		core.EachCall(fn, func(ci ssa.CallInstruction) {
			f := pdataCallee(ci)
			if f == nil {
				return
			}
			n++
			args := ci.Common().Args
			var target ssa.Value
			switch {
			case f.Name() == "CopyTo" || f.Name() == "MoveTo" || f.Name() == "MoveAndAppendTo":
				if len(args) >= 2 {
					if f.Name() == "CopyTo" {
						target = args[1]
					} else {
						// Move*: mutates both
						if !freshPdata(args[0], 0) {
							bad = append(bad, fmt.Sprintf("%s: %s.%s empties its receiver", p.Pos(ci.Pos()), core.RecvNamed(f).Obj().Name(), f.Name()))
						}
						target = args[1]
					}
				}
			case isPdataMutator(f.Name()):
				if len(args) >= 1 {
					target = args[0]
				}
			default:
				return
			}
			if target != nil && !freshPdata(target, 0) {
				bad = append(bad, fmt.Sprintf("%s: %s.%s on a value that is not created here", p.Pos(ci.Pos()), core.RecvNamed(f).Obj().Name(), f.Name()))
			}
		})
		nCalls += n
		if n == 0 {
			continue
		}
		c.Check(len(bad) == 0, "fn="+core.FuncName(fn), p.Pos(fn.Pos()), core.FuncName(fn), fmt.Sprintf("%d pdata call(s), none mutates the caller's data", n),
			"encoding modifies the telemetry it is given: "+strings.Join(bad, "; ")+" — the same value re-sent or exported elsewhere afterwards differs")
	}
	c.Stats["pdata_calls_on_encode_path"] = nCalls
	c.Stats["encode_path_functions"] = len(reach)
}

func c15_2(c *core.Ctx, p *core.Prog) {
	a := newProdAnchors(p)
	if !a.ok(c) {
		return
	}
	fn := a.produceIn
	// a Defer whose (closure) target calls Record().Release() on the message
	var dfr *ssa.Defer
	core.EachInstr(fn, func(i ssa.Instruction) {
		d, ok := i.(*ssa.Defer)
		if !ok {
			return
		}
		var tgt *ssa.Function
		switch v := d.Call.Value.(type) {
		case *ssa.MakeClosure:
			tgt, _ = v.Fn.(*ssa.Function)
		case *ssa.Function:
			tgt = v
		}
		if tgt == nil {
			return
		}
		core.EachCall(tgt, func(ci ssa.CallInstruction) {
			if ci.Common().IsInvoke() && ci.Common().Method.Name() == "Release" {
				if rc, ok := ci.Common().Value.(*ssa.Call); ok && core.CalleeObj(rc) != nil && core.CalleeObj(rc).Name() == "Record" {
					dfr = d
				}
			}
		})
	})
	pos := p.Pos(fn.Pos())
	if dfr == nil {
		c.Viol("defer-release", pos, core.FuncName(fn), "the per-message function of Produce does not defer rm.Record().Release(): every record built for a batch leaks")
		return
	}
	leak := false
	for _, b := range fn.Blocks {
		for _, i := range b.Instrs {
			switch y := i.(type) {
			case *ssa.Return:
				if y.Block().Comment == "recover" {
					continue
				}
				if ok, _ := (core.PathQuery{Fn: fn, To: i, Avoid: func(x ssa.Instruction) bool { return x == ssa.Instruction(dfr) }}).Exists(); ok {
					leak = true
				}
			}
		}
	}
	c.Check(!leak, "defer-release", p.Pos(dfr.Pos()), core.FuncName(fn), "the release of the record is deferred before any return", "a return of the per-message function is reachable before the release of the record is deferred: the record leaks on that path")
	// every message goes through the per-message function: the closure is called for every index of the message slice
	par := fn.Parent()
	cov := false
	if par != nil {
		core.EachInstr(par, func(i ssa.Instruction) {
			cl, ok := i.(*ssa.Call)
			if !ok {
				return
			}
			if mc, ok := cl.Call.Value.(*ssa.MakeClosure); !ok || mc.Fn != ssa.Value(fn) {
				return
			}
			// inside a range over the parameter slice
			for _, b := range par.Blocks {
				for _, j := range b.Instrs {
					if ph, ok := j.(*ssa.Phi); ok {
						if ind, ok := core.InductionOf(ph); ok && ind.Base != nil && core.Canon(ind.Base) == ssa.Value(par.Params[len(par.Params)-1]) && ind.Init+ind.A <= 0 && ind.Sub == 0 {
							cov = true
						}
					}
				}
			}
		})
	}
	c.Check(cov, "every-message", pos, core.FuncName(fn), "the per-message function runs for every message of the batch", "the per-message function does not run for every message handed to Produce: the skipped records are never released")
}

func hasReleaseMethod(t types.Type) bool {
	for _, tt := range []types.Type{t, types.NewPointer(t)} {
		ms := types.NewMethodSet(tt)
		for i := 0; i < ms.Len(); i++ {
			f := ms.At(i).Obj().(*types.Func)
			if f.Name() == "Release" && sigIs(f, nil, nil) {
				return true
			}
		}
	}
	return false
}

func c15_3(c *core.Ctx, p *core.Prog) {
	a := newProdAnchors(p)
	if !a.ok(c) {
		return
	}
	closeFn := p.Func(pkgArrowRecord, "Producer", "Close")
	if closeFn == nil {
		c.Undecided("close", "?", "", "Producer.Close not found")
		return
	}
	// (d) every releasable field of the producer is released by Close on every path that returns nil
	st := a.producer.Underlying().(*types.Struct)
	for k := 0; k < st.NumFields(); k++ {
		fv := st.Field(k)
		pt, ok := fv.Type().(*types.Pointer)
		if !ok || !hasReleaseMethod(pt.Elem()) || !core.InRepo(core.TypePkgPath(fv.Type())) {
			continue
		}
		isRel := func(i ssa.Instruction) bool {
			cl, ok := i.(*ssa.Call)
			return ok && core.CalleeObj(cl) != nil && core.CalleeObj(cl).Name() == "Release" && len(cl.Call.Args) == 1 && isFieldLoad(cl.Call.Args[0], fv)
		}
		okR := core.MustPassBetween(closeFn, nil, nil, isRel)
		c.Check(okR, "close|field="+fv.Name(), p.Pos(closeFn.Pos()), core.FuncName(closeFn), "Close releases "+fv.Name()+" on every path",
			"Producer.Close does not release "+fv.Name()+" on every path: its record builder (column builders, dictionary memo tables) is never returned to the configured allocator")
	}
	// writers of every stream producer closed: a range over the map with Close on the writer field
	okW := false
	core.EachInstr(closeFn, func(i ssa.Instruction) {
		cl, ok := i.(*ssa.Call)
		if !ok || !core.IsMethodOf(core.CalleeObj(cl), arrowIPC, "Writer", "Close") {
			return
		}
		// receiver: field of the map's range value
		if fa := core.LoadedField(cl.Call.Args[0]); fa != nil && core.NamedOf(fa.X.Type()) == a.sp {
			if ex, ok := fa.X.(*ssa.Extract); ok {
				if nx, ok := ex.Tuple.(*ssa.Next); ok {
					if rg, ok := nx.Iter.(*ssa.Range); ok && isFieldLoad(rg.X, a.mapF) {
						okW = true
					}
				}
			}
		}
	})
	c.Check(okW, "close|writers", p.Pos(closeFn.Pos()), core.FuncName(closeFn), "Close closes the IPC writer of every registered stream producer", "Producer.Close does not close the IPC writer of every registered stream producer: their buffers stay allocated")
	// (b) every implementation of the related-record-builder interface releases its record builder
	var rrb *types.Named
	if pk := p.Pkg(pkgCommonArrow); pk != nil {
		if tn, ok := pk.Types.Scope().Lookup("RelatedRecordBuilder").(*types.TypeName); ok {
			rrb, _ = tn.Type().(*types.Named)
		}
	}
	if rrb == nil {
		c.Undecided("iface", "?", "", "RelatedRecordBuilder interface not found")
		return
	}
	iface := rrb.Underlying().(*types.Interface)
	var impls []*types.Named
	for path, pk := range p.ByPath {
		if !prodPkg(path) {
			continue
		}
		for _, name := range pk.Types.Scope().Names() {
			if tn, ok := pk.Types.Scope().Lookup(name).(*types.TypeName); ok {
				if n, ok := tn.Type().(*types.Named); ok {
					if _, isI := n.Underlying().(*types.Interface); !isI && types.Implements(types.NewPointer(n), iface) {
						impls = append(impls, n)
					}
				}
			}
		}
	}
	sort.Slice(impls, func(i, j int) bool { return impls[i].Obj().Pkg().Path()+impls[i].Obj().Name() < impls[j].Obj().Pkg().Path()+impls[j].Obj().Name() })
	for _, n := range impls {
		rel := p.Func(n.Obj().Pkg().Path(), n.Obj().Name(), "Release")
		key := "impl=" + strings.TrimPrefix(n.Obj().Pkg().Path(), core.RepoPath+"/") + "." + n.Obj().Name()
		if rel == nil {
			c.Undecided(key, p.Pos(n.Obj().Pos()), n.Obj().Name(), "Release not found")
			continue
		}
		s, _ := n.Underlying().(*types.Struct)
		var rbF *types.Var
		for k := 0; s != nil && k < s.NumFields(); k++ {
			if core.TypeName(s.Field(k).Type()) == "RecordBuilderExt" {
				rbF = s.Field(k)
			}
		}
		if rbF == nil {
			c.Undecided(key, p.Pos(rel.Pos()), core.FuncName(rel), "no record-builder field")
			continue
		}
		// released on every path, except after the `released` latch is set
		isRel := func(i ssa.Instruction) bool {
			cl, ok := i.(*ssa.Call)
			return ok && core.CalleeObj(cl) != nil && core.CalleeObj(cl).Name() == "Release" && len(cl.Call.Args) == 1 && isFieldLoad(cl.Call.Args[0], rbF)
		}
		cut := map[core.Edge]bool{}
		for _, b := range rel.Blocks {
			iff := core.IfOf(b)
			if iff == nil {
				continue
			}
			// `if !b.released {…}` / `if b.released {return}`: the already-released edge
			if fa := core.LoadedField(iff.Cond); fa != nil && isBool(core.FieldVar(fa).Type()) {
				cut[core.Edge{From: b, To: b.Succs[0]}] = true
			}
			if u, ok := iff.Cond.(*ssa.UnOp); ok {
				if fa := core.LoadedField(u.X); fa != nil && isBool(core.FieldVar(fa).Type()) {
					cut[core.Edge{From: b, To: b.Succs[1]}] = true
				}
			}
		}
		leak, _ := core.PathQuery{Fn: rel, Avoid: isRel, CutEdges: cut, ExitReturnOnly: true}.Exists()
		c.Check(!leak, key, p.Pos(rel.Pos()), core.FuncName(rel), "Release releases the record builder (unless already released)",
			n.Obj().Name()+".Release does not release its record builder on every path: the related record's column builders and dictionaries are never returned to the allocator")
	}
	if len(impls) < 8 {
		c.Undecided("impls", "?", "", fmt.Sprintf("expected the related record builders (attrs16/32, events, links, exemplars, data points), found %d", len(impls)))
	}
	// (a) the manager releases every declared builder unconditionally
	mrel := p.Func(pkgCommonArrow, "RelatedRecordsManager", "Release")
	decl := p.Func(pkgCommonArrow, "RelatedRecordsManager", "Declare")
	if mrel == nil || decl == nil {
		c.Undecided("manager", "?", "", "RelatedRecordsManager.Release/Declare not found")
		return
	}
	var declF *types.Var
	core.EachInstr(decl, func(i ssa.Instruction) {
		if s, ok := i.(*ssa.Store); ok {
			if fa, ok := s.Addr.(*ssa.FieldAddr); ok {
				if sl, ok := core.FieldVar(fa).Type().Underlying().(*types.Slice); ok && types.Identical(sl.Elem(), rrb) {
					declF = core.FieldVar(fa)
				}
			}
		}
	})
	var msgs []string
	var relCall *ssa.Call
	core.EachInstr(mrel, func(i ssa.Instruction) {
		if cl, ok := i.(*ssa.Call); ok && cl.Call.IsInvoke() && cl.Call.Method.Name() == "Release" {
			relCall = cl
		}
	})
	if declF == nil || relCall == nil {
		msgs = append(msgs, "the manager does not release the builders it declares")
	} else {
		cov := false
		core.BackSlice(relCall.Call.Value, func(v ssa.Value) bool {
			acc, ok := core.ElemAccessOf(v)
			if !ok || acc.Phi == nil {
				return true
			}
			if !isFieldLoad(acc.Base, declF) {
				msgs = append(msgs, "the manager releases another list than the one Declare fills")
				return false
			}
			if ind, ok := core.InductionOf(acc.Phi); ok {
				if lo, hi, ok := ind.Coverage(acc); ok && lo <= 0 && hi >= 0 {
					cov = true
				}
			}
			return false
		})
		if !cov && len(msgs) == 0 {
			msgs = append(msgs, "the release loop does not cover every declared builder")
		}
		// unconditional: inside the loop body no branch skips the call
		for _, b := range mrel.Blocks {
			iff := core.IfOf(b)
			if iff == nil {
				continue
			}
			if _, isInd := indOfBlock(b); isInd {
				continue
			}
			if core.GuardedBy(iff, true, relCall) || core.GuardedBy(iff, false, relCall) {
				msgs = append(msgs, "the release of a declared builder is conditional (e.g. skipped when the builder's accumulator is empty): a builder used by an earlier batch but not by the last one keeps its dictionary memo tables after Close")
			}
		}
	}
	c.Check(len(msgs) == 0, "manager|release", p.Pos(mrel.Pos()), core.FuncName(mrel), "every declared related builder is released, unconditionally", strings.Join(msgs, "; "))
	// (c) Producer.Close reaches the manager's Release
	reach := repoReach(p, p.CHA(), []*ssa.Function{closeFn})
	c.Check(reach[mrel], "close|reaches-manager", p.Pos(closeFn.Pos()), core.FuncName(closeFn), "Producer.Close reaches RelatedRecordsManager.Release", "Producer.Close no longer reaches the related-records manager's Release: no related record builder is released")
	// every entity builder's Release reaches it too
	for k := 0; k < st.NumFields(); k++ {
		fv := st.Field(k)
		pt, ok := fv.Type().(*types.Pointer)
		if !ok || !hasReleaseMethod(pt.Elem()) || core.TypeName(fv.Type()) == "RecordBuilderExt" || !core.InRepo(core.TypePkgPath(fv.Type())) {
			continue
		}
		n := core.NamedOf(fv.Type())
		rel := p.Func(n.Obj().Pkg().Path(), n.Obj().Name(), "Release")
		if rel == nil {
			continue
		}
		r2 := repoReach(p, p.CHA(), []*ssa.Function{rel})
		c.Check(r2[mrel], "entity|"+n.Obj().Name(), p.Pos(rel.Pos()), core.FuncName(rel), n.Obj().Name()+".Release reaches the manager's Release", n.Obj().Name()+".Release does not reach the related-records manager's Release: the related record builders of this signal leak")
	}
}

func indOfBlock(b *ssa.BasicBlock) (*core.Induction, bool) {
	for _, i := range b.Instrs {
		if ph, ok := i.(*ssa.Phi); ok {
			if ind, ok := core.InductionOf(ph); ok && ind.Cond != nil && ind.Cond.Block() == b {
				return ind, true
			}
		}
	}
	return nil, false
}

func c15_5(c *core.Ctx, p *core.Prog) {
	a := newProdAnchors(p)
	if !a.ok(c) {
		return
	}
	// ipc.NewWriter gets WithAllocator(p.pool)
	var poolF *types.Var
	st := a.producer.Underlying().(*types.Struct)
	for k := 0; k < st.NumFields(); k++ {
		if core.TypePkgPath(st.Field(k).Type()) == arrowMemory {
			poolF = st.Field(k)
		}
	}
	n := 0
	for _, fn := range arrowRecordFuncs(p) {
		core.EachInstr(fn, func(i ssa.Instruction) {
			cl, ok := i.(*ssa.Call)
			if !ok || !core.IsPkgFunc(core.CalleeObj(cl), arrowIPC, "NewWriter") {
				return
			}
			n++
			with := false
			core.BackSlice(cl.Call.Args[1], func(v ssa.Value) bool {
				if w, ok := v.(*ssa.Call); ok && core.IsPkgFunc(core.CalleeObj(w), arrowIPC, "WithAllocator") && poolF != nil {
					arg := core.Strip(w.Call.Args[0])
					if isFieldLoad(arg, poolF) {
						with = true
					}
					// the writer may be created in a helper that is handed the allocator: every call site passes the producer's
					if prm, ok := arg.(*ssa.Parameter); ok {
						idx := -1
						for k, q := range fn.Params {
							if q == prm {
								idx = k
							}
						}
						sites, all := 0, true
						for _, g := range arrowRecordFuncs(p) {
							for _, host := range core.WithClosures(g) {
								core.EachCall(host, func(ci ssa.CallInstruction) {
									if ci.Common().StaticCallee() == fn && idx >= 0 && idx < len(ci.Common().Args) {
										sites++
										if !isFieldLoad(core.Strip(ci.Common().Args[idx]), poolF) {
											all = false
										}
									}
								})
							}
						}
						if sites > 0 && all {
							with = true
						}
					}
				}
				return true
			})
			c.Check(with, fmt.Sprintf("writer#%d", n), p.Pos(cl.Pos()), core.FuncName(fn), "the IPC writer uses the producer's configured allocator", "an IPC writer is not created with WithAllocator(the producer's configured allocator): its memory escapes the caller-supplied allocator")
		})
	}
	// the pool field is the configured one
	ctor := p.Func(pkgArrowRecord, "", "NewProducerWithOptions")
	okPool := false
	if ctor != nil && poolF != nil {
		core.EachInstr(ctor, func(i ssa.Instruction) {
			if s, ok := storesTo(i, poolF); ok {
				if fa := core.LoadedField(s.Val); fa != nil && core.FieldName(fa) == "Pool" {
					okPool = true
				}
			}
		})
	}
	c.Check(okPool, "pool-field", "pkg/otel/arrow_record/producer.go", "NewProducerWithOptions", "the producer keeps the configured allocator", "the producer does not keep the configured allocator (conf.Pool)")
	// no other allocator is created on the encode / construction path (outside pkg/config's default)
	roots := producerEntries(p)
	if ctor != nil {
		roots = append(roots, ctor)
	}
	reach := repoReach(p, p.CHA(), roots)
	var bad []string
	for f := range reach {
		if strings.HasSuffix(core.FnPkgPath(f), "/pkg/config") {
			continue
		}
		core.EachInstr(f, func(i ssa.Instruction) {
			if cl, ok := i.(*ssa.Call); ok {
				if o := core.CalleeObj(cl); o != nil && o.Pkg() != nil && o.Pkg().Path() == arrowMemory && strings.HasPrefix(o.Name(), "New") {
					bad = append(bad, fmt.Sprintf("%s: memory.%s in %s", p.Pos(cl.Pos()), o.Name(), core.FuncName(f)))
				}
			}
			for _, op := range i.Operands(nil) {
				if op != nil && *op != nil {
					if g, ok := (*op).(*ssa.Global); ok && g.Pkg != nil && g.Pkg.Pkg.Path() == arrowMemory && g.Name() == "DefaultAllocator" {
						bad = append(bad, fmt.Sprintf("%s: memory.DefaultAllocator in %s", p.Pos(i.Pos()), core.FuncName(f)))
					}
				}
			}
		})
	}
	sort.Strings(bad)
	c.Check(len(bad) == 0, "no-other-allocator", "pkg/otel", "", fmt.Sprintf("%d functions on the construction/encode path create no allocator of their own", len(reach)),
		"an allocator other than the configured one is used on the encode path: "+strings.Join(bad, "; ")+" — memory obtained from it is invisible to (and never returned to) the caller-supplied allocator")
	// record builders: C13.3 checks the Pool argument at the four NewRecordBuilderExt sites
	c13_3(c, p)
}
