package rules

import (
	"fmt"
	"go/token"
	"go/types"
	"sort"
	"strings"

	"golang.org/x/tools/go/ssa"

	"otelcheck/internal/core"
)

// RT.7 / C04.1 — parent-id codec mirror (DESIGN section 4).
//
// A codec signature is extracted from the SSA of an encoder's Encode method
// and of the decoder's Decode method (the arm its constructor selects):
//
//	kind  ∈ {raw, delta, group}      raw: the id itself; delta: id − previous id on every row;
//	                                 group: delta inside a run of rows of one group, raw on the first row of a group
//	atoms = the data attributes whose equality with the previous row defines "same group"
//
// The encoder of every sorter whose constructor is reachable from
// NewProducerWithOptions must have the signature of the decoder of its entity.

type codecSig struct {
	kind  string
	atoms []string
	note  string
}

func (s codecSig) String() string {
	if s.kind == "group" {
		return "group-delta on {" + strings.Join(s.atoms, ",") + "}"
	}
	return s.kind
}

var atomSynonyms = map[string]string{"valuetype": "type", "attributes": "attrs"}

func normAtom(s string) string {
	s = strings.ToLower(strings.TrimPrefix(strings.TrimPrefix(s, "prev"), "Prev"))
	if t, ok := atomSynonyms[s]; ok {
		return t
	}
	return s
}

// atomsOfCond collects the group atoms tested by a boolean value: equality of a
// piece of previous-row state with a piece of the current row. fn is the
// function containing v; recv its receiver.
// atomsFromNEQ: set while the atoms of an inequality whose false edge guards the delta return are collected.
var atomsFromNEQ bool

func atomsOfCond(p *core.Prog, v ssa.Value, depth int, out map[string]bool) {
	if depth > 3 || v == nil {
		return
	}
	nameOf := func(x ssa.Value) string {
		x = core.StripConv(x)
		// *ptr
		if u, ok := x.(*ssa.UnOp); ok && u.Op == token.MUL {
			if fa, ok := u.X.(*ssa.FieldAddr); ok {
				return core.FieldName(fa)
			}
			if pr, ok := u.X.(*ssa.Parameter); ok {
				return pr.Name()
			}
			if u2, ok := u.X.(*ssa.UnOp); ok && u2.Op == token.MUL {
				if fa, ok := u2.X.(*ssa.FieldAddr); ok {
					return core.FieldName(fa)
				}
			}
		}
		switch y := x.(type) {
		case *ssa.Parameter:
			return y.Name()
		case *ssa.Field:
			return core.FieldName(y)
		case *ssa.Call:
			if f := core.CalleeObj(y); f != nil && len(y.Call.Args) >= 1 {
				// getter on a parameter / previous value: ValueType(), IntValue(), Type(), Name()
				if f.Name() == "Type" {
					return "value.type"
				}
				return f.Name()
			}
		case *ssa.Slice:
			return "" // handled by caller
		}
		return ""
	}
	switch x := v.(type) {
	case *ssa.BinOp:
		if x.Op == token.EQL || (x.Op == token.NEQ && atomsFromNEQ) {
			a, b := nameOf(x.X), nameOf(x.Y)
			// prefer the name on the current-row side (not prefixed by prev)
			n := a
			if strings.HasPrefix(strings.ToLower(a), "prev") || a == "" {
				n = b
			}
			if n == "" {
				n = a
			}
			if c, isC := x.Y.(*ssa.Const); isC && !core.IsNilConst(c) {
				// comparison of previous state with a constant kind tag: names the state
				n = a
			}
			if core.IsNilConst(x.Y) || core.IsNilConst(x.X) {
				return // nil tests describe "first row", not the group
			}
			if n != "" {
				out[normAtom(n)] = true
			}
		}
	case *ssa.UnOp:
		if x.Op == token.NOT {
			atomsOfCond(p, x.X, depth, out)
		}
	case *ssa.Phi:
		for _, e := range x.Edges {
			atomsOfCond(p, e, depth+1, out)
		}
		// short-circuit conditions: the blocks' Ifs feeding this phi
		for _, pred := range x.Block().Preds {
			if iff := core.IfOf(pred); iff != nil {
				atomsOfCond(p, iff.Cond, depth+1, out)
			}
		}
	case *ssa.Call:
		f := core.CalleeObj(x)
		if f == nil {
			return
		}
		// equality helpers on (previous, current): carrow.Equal / bytes.Equal
		if f.Name() == "Equal" && (f.Pkg() != nil && (f.Pkg().Path() == "bytes" || core.InRepo(f.Pkg().Path()))) && core.RecvNamed(f) == nil && len(x.Call.Args) == 2 {
			n := nameOf(x.Call.Args[1])
			if n == "" {
				// slices of array fields etc.: use the access path's last component
				ap := core.AccessPath(x.Call.Args[1])
				if ap == "" {
					core.BackSlice(x.Call.Args[1], func(y ssa.Value) bool {
						if fa, ok := y.(*ssa.FieldAddr); ok && n == "" {
							n = core.FieldName(fa)
							return false
						}
						if pr, ok := y.(*ssa.Parameter); ok && n == "" {
							n = pr.Name()
							return false
						}
						return n == ""
					})
				} else {
					n = ap[strings.LastIndex(ap, ".")+1:]
				}
			}
			if n != "" {
				out[normAtom(n)] = true
			}
			return
		}
		// a group predicate of the same type (IsSameGroup / Equal method): every equality it tests on a path returning true
		if callee := core.StaticCallee(x); callee != nil && callee.Blocks != nil && core.InRepo(core.FnPkgPath(callee)) && isBool(x.Type()) {
			for _, b := range callee.Blocks {
				if iff := core.IfOf(b); iff != nil {
					atomsOfCond(p, iff.Cond, depth+1, out)
				}
			}
			for _, r := range core.Returns(callee) {
				atomsOfCond(p, r.Results[0], depth+1, out)
			}
		}
	}
}

// sigOfRegion classifies the returns of fn that are reachable under `guard`
// (nil = all returns): raw / delta, and the atoms of the test separating them.
func sigOfRegion(p *core.Prog, fn *ssa.Function, idParam ssa.Value, inRegion func(ssa.Instruction) bool, decoder bool) codecSig {
	var raws, deltas []*ssa.Return
	unknown := 0
	for _, r := range core.Returns(fn) {
		if inRegion != nil && !inRegion(r) {
			continue
		}
		var vals []ssa.Value
		if ph, ok := r.Results[0].(*ssa.Phi); ok {
			vals = ph.Edges
		} else {
			vals = []ssa.Value{r.Results[0]}
		}
		for _, v := range vals {
			v = core.StripConv(v)
			// `d.prev += id; return d.prev`: the returned load stands for the value just stored
			if sv := lastStoredInto(v); sv != nil {
				v = core.StripConv(sv)
			}
			// the value may be produced by a helper that is handed the id (`return s.nextInGroup(parentID)`): the helper's
			// own signature — raw or delta — is the kind of this return
			if cl, ok := v.(*ssa.Call); ok {
				if h := cl.Call.StaticCallee(); h != nil && len(h.Blocks) > 0 && core.InRepo(core.FnPkgPath(h)) && h != fn {
					sub := ""
					for k, a := range cl.Call.Args {
						if core.StripConv(a) == idParam && k < len(h.Params) {
							sub = sigOfRegion(p, h, h.Params[k], nil, decoder).kind
						}
					}
					if sub == "group" && inRegion == nil && len(core.Returns(fn)) == 1 && len(vals) == 1 {
						// plain delegation (`return s.encode(parentID, key, value, s.IsSameGroup)`): the helper's signature, read
						// with its parameters standing for this call's arguments (the group predicate may be one of them)
						for k, a := range cl.Call.Args {
							if k < len(h.Params) {
								core.BindParam(h.Params[k], a)
							}
						}
						var out codecSig
						for k, a := range cl.Call.Args {
							if core.StripConv(a) == idParam && k < len(h.Params) {
								out = sigOfRegion(p, h, h.Params[k], nil, decoder)
							}
						}
						for k := range cl.Call.Args {
							if k < len(h.Params) {
								core.UnbindParam(h.Params[k])
							}
						}
						return out
					}
					switch sub {
					case "raw":
						raws = append(raws, r)
						continue
					case "delta":
						deltas = append(deltas, r)
						continue
					}
				}
			}
			switch {
			case v == idParam:
				raws = append(raws, r)
			default:
				b, ok := v.(*ssa.BinOp)
				isDelta := false
				if ok && !decoder && b.Op == token.SUB && core.StripConv(b.X) == idParam && core.LoadedField(b.Y) != nil {
					isDelta = true
				}
				if ok && decoder && b.Op == token.ADD && (core.StripConv(b.Y) == idParam && core.LoadedField(b.X) != nil || core.StripConv(b.X) == idParam && core.LoadedField(b.Y) != nil) {
					isDelta = true
				}
				if isDelta {
					deltas = append(deltas, r)
				} else {
					unknown++
				}
			}
		}
	}
	switch {
	case unknown > 0:
		return codecSig{kind: "unknown", note: "a returned value is neither the id nor id∓previous"}
	case len(deltas) == 0 && len(raws) > 0:
		return codecSig{kind: "raw"}
	case len(raws) == 0 && len(deltas) > 0:
		return codecSig{kind: "delta"}
	case len(raws) == 0 && len(deltas) == 0:
		return codecSig{kind: "unknown", note: "no return in the selected arm"}
	}
	// group: atoms of the Ifs that guard a delta return (inside the region)
	atoms := map[string]bool{}
	for _, b := range fn.Blocks {
		iff := core.IfOf(b)
		if iff == nil || (inRegion != nil && !inRegion(iff)) {
			continue
		}
		guards, guardsNeg := false, false
		for _, r := range deltas {
			if core.GuardedBy(iff, true, r) {
				guards = true
			}
			if core.GuardedBy(iff, false, r) {
				guardsNeg = true
			}
		}
		if guards {
			atomsOfCond(p, iff.Cond, 0, atoms)
		}
		// the De Morgan form: `if a != pa || b != pb { raw } else { delta }` — the delta return sits on the false
		// edges of the inequality tests
		if guardsNeg {
			if cmp, ok := iff.Cond.(*ssa.BinOp); ok && cmp.Op == token.NEQ {
				atomsFromNEQ = true
				atomsOfCond(p, iff.Cond, 0, atoms)
				atomsFromNEQ = false
			}
		}
	}
	if len(atoms) == 0 {
		// no test dominates a delta return (the `previous + id` tail is shared by several arms): take the
		// tests that separate the two kinds — one edge leads only to delta returns, the other only to raw ones
		isDelta := map[*ssa.BasicBlock]bool{}
		isRaw := map[*ssa.BasicBlock]bool{}
		for _, r := range deltas {
			isDelta[r.Block()] = true
		}
		for _, r := range raws {
			isRaw[r.Block()] = true
		}
		reach := func(from *ssa.BasicBlock, avoid *ssa.BasicBlock) (d, r bool) {
			seen := map[*ssa.BasicBlock]bool{avoid: true}
			var walk func(b *ssa.BasicBlock)
			walk = func(b *ssa.BasicBlock) {
				if seen[b] {
					return
				}
				seen[b] = true
				if isDelta[b] {
					d = true
				}
				if isRaw[b] {
					r = true
				}
				for _, s := range b.Succs {
					walk(s)
				}
			}
			walk(from)
			return
		}
		for _, b := range fn.Blocks {
			iff := core.IfOf(b)
			if iff == nil || (inRegion != nil && !inRegion(iff)) {
				continue
			}
			d0, r0 := reach(b.Succs[0], b)
			d1, r1 := reach(b.Succs[1], b)
			switch {
			case d0 && !r0 && r1 && !d1:
				atomsOfCond(p, iff.Cond, 0, atoms)
			case d1 && !r1 && r0 && !d0:
				if cmp, ok := iff.Cond.(*ssa.BinOp); ok && cmp.Op == token.NEQ {
					atomsFromNEQ = true
					atomsOfCond(p, iff.Cond, 0, atoms)
					atomsFromNEQ = false
				} else {
					atomsOfCond(p, iff.Cond, 0, atoms)
				}
			}
		}
	}
	var as []string
	for a := range atoms {
		as = append(as, a)
	}
	sort.Strings(as)
	return codecSig{kind: "group", atoms: as}
}

// lastStoredInto: v is a load of a struct field; the value of the nearest store into that field of the
// same object that precedes the load in its block (or in the chain of single predecessors).
func lastStoredInto(v ssa.Value) ssa.Value {
	ld, ok := v.(*ssa.UnOp)
	if !ok || ld.Op != token.MUL {
		return nil
	}
	fa, ok := ld.X.(*ssa.FieldAddr)
	if !ok {
		return nil
	}
	b := ld.Block()
	start := -1
	for k, i := range b.Instrs {
		if i == ssa.Instruction(ld) {
			start = k
		}
	}
	for hops := 0; hops < 3 && b != nil; hops++ {
		for k := start - 1; k >= 0; k-- {
			switch i := b.Instrs[k].(type) {
			case *ssa.Store:
				if fb, ok := i.Addr.(*ssa.FieldAddr); ok && fb.Field == fa.Field && (fb.X == fa.X || core.SameValue(fb.X, fa.X)) {
					return i.Val
				}
			case *ssa.Call:
				return nil // a call may write the field
			}
		}
		if len(b.Preds) != 1 {
			return nil
		}
		b = b.Preds[0]
		start = len(b.Instrs)
	}
	return nil
}

type sorterImpl struct {
	iface  *types.Named
	typ    *types.Named
	encode *ssa.Function
	reset  *ssa.Function
	ctors  []*ssa.Function
}

func findSorters(p *core.Prog) []*sorterImpl {
	var ifaces []*types.Named
	for path, pk := range p.ByPath {
		if !prodPkg(path) {
			continue
		}
		for _, name := range pk.Types.Scope().Names() {
			tn, ok := pk.Types.Scope().Lookup(name).(*types.TypeName)
			if !ok {
				continue
			}
			n, ok := tn.Type().(*types.Named)
			if !ok {
				continue
			}
			it, ok := n.Underlying().(*types.Interface)
			if !ok {
				continue
			}
			hasE, hasR := false, false
			for k := 0; k < it.NumMethods(); k++ {
				switch it.Method(k).Name() {
				case "Encode":
					hasE = true
				case "Reset":
					hasR = true
				}
			}
			if hasE && hasR {
				ifaces = append(ifaces, n)
			}
		}
	}
	var out []*sorterImpl
	for _, in := range ifaces {
		it := in.Underlying().(*types.Interface)
		for path, pk := range p.ByPath {
			if !prodPkg(path) {
				continue
			}
			for _, name := range pk.Types.Scope().Names() {
				tn, ok := pk.Types.Scope().Lookup(name).(*types.TypeName)
				if !ok {
					continue
				}
				n, ok := tn.Type().(*types.Named)
				if !ok {
					continue
				}
				if _, isI := n.Underlying().(*types.Interface); isI || !types.Implements(types.NewPointer(n), it) {
					continue
				}
				si := &sorterImpl{iface: in, typ: n}
				si.encode = p.Func(path, n.Obj().Name(), "Encode")
				si.reset = p.Func(path, n.Obj().Name(), "Reset")
				// constructors: niladic functions of the package returning *T
				for _, fn := range p.FuncsIn(func(pp string) bool { return pp == path }) {
					if fn.Parent() == nil && fn.Signature.Recv() == nil && fn.Signature.Results().Len() == 1 {
						if pt, ok := fn.Signature.Results().At(0).Type().(*types.Pointer); ok && pt.Elem() == types.Type(n) {
							si.ctors = append(si.ctors, fn)
						}
					}
				}
				out = append(out, si)
			}
		}
	}
	sort.Slice(out, func(i, j int) bool {
		return out[i].typ.Obj().Pkg().Path()+out[i].typ.Obj().Name() < out[j].typ.Obj().Pkg().Path()+out[j].typ.Obj().Name()
	})
	return out
}

type decoderImpl struct {
	typ    *types.Named
	decode *ssa.Function
	sig    codecSig
	pos    token.Pos
}

// findDecoders: types with a Decode method and an encoding-type selector set by their constructor.
func findDecoders(p *core.Prog) []*decoderImpl {
	var out []*decoderImpl
	for _, fn := range p.FuncsIn(prodPkg) {
		if fn.Name() != "Decode" || fn.Signature.Recv() == nil || fn.Parent() != nil {
			continue
		}
		if fn.Synthetic != "" {
			continue // instantiations share the generic body
		}
		n := core.NamedOf(fn.Signature.Recv().Type())
		if n == nil || len(fn.Params) < 2 {
			continue
		}
		d := &decoderImpl{typ: n, decode: fn, pos: fn.Pos()}
		// the selector field and the constant its constructor stores
		var selF *types.Var
		var selV ssa.Value
		var arms []*ssa.If
		for _, b := range fn.Blocks {
			iff := core.IfOf(b)
			if iff == nil {
				continue
			}
			cmp, ok := iff.Cond.(*ssa.BinOp)
			if !ok || cmp.Op != token.EQL {
				continue
			}
			if fa := core.LoadedField(cmp.X); fa != nil && fa.X == ssa.Value(fn.Params[0]) {
				if _, isC := core.ConstInt(cmp.Y); isC {
					// the selector is the value switched on at function entry; nested tests of other state are not arms
					if selF == nil && b == fn.Blocks[0] {
						selF = core.FieldVar(fa)
						selV = cmp.X
					}
					if selV != nil && cmp.X == selV {
						arms = append(arms, iff)
					}
				}
			}
		}
		var selected int64 = -1
		if selF != nil {
			for _, g := range p.FuncsIn(func(pp string) bool { return pp == core.FnPkgPath(fn) }) {
				core.EachInstr(g, func(i ssa.Instruction) {
					if s, ok := i.(*ssa.Store); ok {
						if fa, ok := s.Addr.(*ssa.FieldAddr); ok && fa.Field >= 0 && core.FieldName(fa) == selF.Name() && core.TypeName(fa.X.Type()) == n.Obj().Name() {
							if k, isC := core.ConstInt(s.Val); isC {
								selected = k
							} else if prm, ok := s.Val.(*ssa.Parameter); ok {
								// constructor parameter: the constant passed at its call sites
								idx := -1
								for k, q := range g.Params {
									if q == prm {
										idx = k
									}
								}
								for _, h := range p.FuncsIn(prodPkg) {
									core.EachCall(h, func(ci ssa.CallInstruction) {
										if ci.Common().StaticCallee() == g && idx >= 0 && idx < len(ci.Common().Args) {
											if k, isC := core.ConstInt(ci.Common().Args[idx]); isC {
												selected = k
											}
										}
									})
								}
							}
						}
					}
				})
			}
		}
		idParam := ssa.Value(fn.Params[1])
		d.sig.note = fmt.Sprintf("(selector %v = %d, %d arms)", selF != nil, selected, len(arms))
		if selF == nil || selected < 0 {
			d.sig = sigOfRegion(p, fn, idParam, nil, true)
		} else {
			var arm *ssa.If
			for _, a := range arms {
				if k, _ := core.ConstInt(a.Cond.(*ssa.BinOp).Y); k == selected {
					arm = a
				}
			}
			if arm == nil {
				d.sig = codecSig{kind: "unknown", note: fmt.Sprintf("no arm for the selected encoding type %d", selected)}
			} else {
				// everything the selected arm can reach (its body and the code after the switch), not only what it dominates
				inArm := map[*ssa.BasicBlock]bool{}
				var mark func(b *ssa.BasicBlock)
				mark = func(b *ssa.BasicBlock) {
					if inArm[b] || b == arm.Block() {
						return
					}
					inArm[b] = true
					for _, s := range b.Succs {
						mark(s)
					}
				}
				mark(arm.Block().Succs[0])
				d.sig = sigOfRegion(p, fn, idParam, func(i ssa.Instruction) bool { return inArm[i.Block()] }, true)
			}
		}
		out = append(out, d)
	}
	return out
}

func entityToken(name string) string {
	l := strings.ToLower(name)
	for _, t := range []string{"attrs", "attribute", "event", "link", "exemplar"} {
		if strings.Contains(l, t) {
			if t == "attribute" {
				return "attrs"
			}
			return t
		}
	}
	return ""
}

func rt_7(c *core.Ctx, p *core.Prog) { rt7(c, p, false) }

func rt_7_default(c *core.Ctx, p *core.Prog) { rt7(c, p, true) }

func rt7(c *core.Ctx, p *core.Prog, onlyDefault bool) {
	sorters := findSorters(p)
	decs := findDecoders(p)
	if len(sorters) < 10 || len(decs) < 4 {
		c.Undecided("anchors", "?", "", fmt.Sprintf("found %d sorter implementations and %d decoders", len(sorters), len(decs)))
		return
	}
	decOf := map[string]*decoderImpl{}
	for _, d := range decs {
		if t := entityToken(d.typ.Obj().Name()); t != "" {
			decOf[t] = d
		}
		c.Note("RT.7 decoder %s: %s %s", d.typ.Obj().Name(), d.sig, d.sig.note)
	}
	// reachable constructors
	var roots []*ssa.Function
	if f := p.Func(pkgArrowRecord, "", "NewProducerWithOptions"); f != nil {
		roots = append(roots, f)
	}
	g := p.CHA()
	if c.Tier == "thorough" {
		g = p.VTA()
	}
	reach := repoReach(p, g, roots)
	// types allocated in functions reachable from the constructor of the producer
	allocIn := map[*types.TypeName]bool{}
	for f := range reach {
		core.EachInstr(f, func(i ssa.Instruction) {
			if al, ok := i.(*ssa.Alloc); ok && al.Heap {
				if n, ok := al.Type().(*types.Pointer).Elem().(*types.Named); ok {
					allocIn[n.Obj()] = true
				}
			}
		})
	}
	for _, s := range sorters {
		tok := entityToken(s.iface.Obj().Name())
		name := s.typ.Obj().Name()
		key := "sorter=" + strings.TrimPrefix(s.typ.Obj().Pkg().Path(), core.RepoPath+"/") + "." + name
		live := false
		for _, ct := range s.ctors {
			if reach[ct] {
				live = true
			}
		}
		if allocIn[s.typ.Obj()] {
			live = true
		}
		if live && onlyDefault && !defaultLive(p, reach, s.typ) {
			c.InfoOb(key, p.Pos(s.typ.Obj().Pos()), name, "selected only by a non-default ordering option: an obligation of C04 (C04.1), not of the default round trip")
			continue
		}
		if s.encode == nil || len(s.encode.Params) < 2 {
			c.Undecided(key, p.Pos(s.typ.Obj().Pos()), name, "Encode not found")
			continue
		}
		pos := p.Pos(s.encode.Pos())
		sig := sigOfRegion(p, s.encode, s.encode.Params[1], nil, false)
		if !live {
			c.InfoOb(key, pos, name, fmt.Sprintf("not selectable by any producer option (constructor unreachable from NewProducerWithOptions): %s", sig))
			continue
		}
		d := decOf[tok]
		if d == nil {
			// data-point sorters: no decoder type; the store accumulates plain deltas
			c.Check(sig.kind == "delta", key, pos, name, "plain delta parent ids (the decoder accumulates every row)",
				fmt.Sprintf("%s encodes parent ids as %s, but the decoder of this record accumulates every row as a plain delta", name, sig))
			continue
		}
		if sig.kind == "unknown" || d.sig.kind == "unknown" {
			c.Undecided(key, pos, name, "codec signature not recognised: "+sig.note+d.sig.note)
			continue
		}
		same := sig.kind == d.sig.kind && strings.Join(sig.atoms, ",") == strings.Join(d.sig.atoms, ",")
		c.Check(same, key, pos, name, fmt.Sprintf("encodes parent ids as %s, which is what %s decodes", sig, d.typ.Obj().Name()),
			fmt.Sprintf("%s (selectable through the producer's ordering options) encodes parent ids as %s, but the decoder %s always decodes %s: with this ordering the decoded %s are attached to the wrong parents", name, sig, d.typ.Obj().Name(), d.sig, tok))
		// the previous parent id follows every row: on every path of Encode to a return the field that the
		// delta is computed against is assigned the current parent id (a delta is relative to the previous
		// row, not to the first row of the group — the decoder accumulates row by row)
		if sig.kind != "raw" {
			pid := s.encode.Params[1]
			prevF := prevFieldOf(s.encode, pid, 0)
			if prevF != nil {
				isUpd := updatesPrev(s.encode, pid, prevF, 0)
				stale, _ := (core.PathQuery{Fn: s.encode, Avoid: isUpd, ExitReturnOnly: true}).Exists()
				c.Check(!stale, key+"|prev", pos, name, "the previous parent id is updated on every path of Encode",
					fmt.Sprintf("%s.Encode can return without assigning the current parent id to %s (e.g. on the same-group path): the next delta is computed against an older row while the decoder accumulates row by row, so from the third row of a group on the related records land on the wrong parent", name, prevF.Name()))
			}
		}
		// Reset re-establishes the state that Encode's first-row test relies on: every prev* field written by Encode is written by Reset
		if s.reset != nil && sig.kind != "raw" {
			wr := func(fn *ssa.Function) map[string]bool {
				m := map[string]bool{}
				core.EachInstr(fn, func(i ssa.Instruction) {
					if st, ok := i.(*ssa.Store); ok {
						if fa, ok := st.Addr.(*ssa.FieldAddr); ok && fa.X == ssa.Value(fn.Params[0]) {
							m[core.FieldName(fa)] = true
						}
					}
				})
				return m
			}
			enc, res := wr(s.encode), wr(s.reset)
			var missing []string
			for f := range enc {
				if !res[f] {
					missing = append(missing, f)
				}
			}
			sort.Strings(missing)
			c.Check(len(missing) == 0, key+"|reset", p.Pos(s.reset.Pos()), name, "Reset re-initialises every field Encode carries from row to row",
				fmt.Sprintf("%s.Reset does not re-initialise %v, which Encode carries from row to row: state of the previous batch leaks into the next", name, missing))
		}
	}
}

func init() {
	for _, prop := range []string{"C01", "C02", "C03"} {
		register(prop, &core.Rule{ID: "RT.7", Title: "parent-id codec mirror: every sorter of the default configuration encodes what the decoder decodes", Mod: core.ModRoot, Floor: 8, FloorBy: map[string]int{"C01": 8, "C02": 4, "C03": 8}, Run: rt_7_default})
	}
	register("C04", &core.Rule{ID: "C04.1", Title: "parent-id codec mirror: every sorter an option can select encodes what the decoder decodes", Mod: core.ModRoot, Floor: 14, Run: rt_7})
}

// defaultLive: the sorter type is allocated, in a function reachable from the
// producer's constructor, either outside any option switch or in the arm that
// the default value of the option selects.
func defaultLive(p *core.Prog, reach map[*ssa.Function]bool, t *types.Named) bool {
	// default values of the configuration fields: constant stores in pkg/config functions returning *Config
	defaults := map[string]int64{}
	for _, fn := range p.FuncsIn(func(pp string) bool { return pp == pkgConfig }) {
		if fn.Signature.Results().Len() != 1 || core.TypeName(fn.Signature.Results().At(0).Type()) != "Config" || fn.Signature.Params().Len() != 0 {
			continue
		}
		core.EachInstr(fn, func(i ssa.Instruction) {
			if s, ok := i.(*ssa.Store); ok {
				if fa, ok := s.Addr.(*ssa.FieldAddr); ok {
					if k, isC := core.ConstInt(s.Val); isC {
						defaults[core.FieldName(fa)] = k
					}
				}
			}
		})
	}
	res := false
	for f := range reach {
		core.EachInstr(f, func(i ssa.Instruction) {
			al, ok := i.(*ssa.Alloc)
			if !ok || !al.Heap {
				return
			}
			if n, ok := al.Type().(*types.Pointer).Elem().(*types.Named); !ok || n != t {
				return
			}
			// guarded by `param == K`?
			guarded := false
			for _, b := range f.Blocks {
				iff := core.IfOf(b)
				if iff == nil {
					continue
				}
				cmp, ok := iff.Cond.(*ssa.BinOp)
				if !ok || cmp.Op != token.EQL {
					continue
				}
				prm, ok := cmp.X.(*ssa.Parameter)
				k, isC := core.ConstInt(cmp.Y)
				if !ok || !isC || !core.GuardedBy(iff, true, al) {
					continue
				}
				guarded = true
				// which option feeds this parameter?
				idx := -1
				for q, pp := range f.Params {
					if pp == prm {
						idx = q
					}
				}
				for g := range reach {
					core.EachCall(g, func(ci ssa.CallInstruction) {
						if ci.Common().StaticCallee() == f && idx >= 0 && idx < len(ci.Common().Args) {
							if fa := core.LoadedField(ci.Common().Args[idx]); fa != nil {
								if d, ok := defaults[core.FieldName(fa)]; ok && d == k {
									res = true
								}
							}
						}
					})
				}
			}
			if !guarded {
				res = true
			}
		})
	}
	return res
}

// prevFieldOf: the field the delta `id − previous` is computed against, in fn or in a package helper fn hands the id to.
func prevFieldOf(fn *ssa.Function, pid ssa.Value, depth int) *types.Var {
	var prevF *types.Var
	core.EachInstr(fn, func(i ssa.Instruction) {
		if prevF != nil {
			return
		}
		switch x := i.(type) {
		case *ssa.BinOp:
			if x.Op == token.SUB && core.StripConv(x.X) == pid {
				if fa := core.LoadedField(core.StripConv(x.Y)); fa != nil {
					prevF = core.FieldVar(fa)
				}
			}
		case *ssa.Call:
			if h := x.Call.StaticCallee(); h != nil && len(h.Blocks) > 0 && depth < 2 && h != fn && core.InRepo(core.FnPkgPath(h)) {
				for k, a := range x.Call.Args {
					if core.StripConv(a) == pid && k < len(h.Params) {
						if f := prevFieldOf(h, h.Params[k], depth+1); f != nil {
							prevF = f
						}
					}
				}
			}
		}
	})
	return prevF
}

// updatesPrev: the instruction assigns (a value derived from) the current id to prevF — directly, or by calling a
// package helper that is handed the id and does so on every path to its return.
func updatesPrev(fn *ssa.Function, pid ssa.Value, prevF *types.Var, depth int) func(ssa.Instruction) bool {
	return func(i ssa.Instruction) bool {
		switch x := i.(type) {
		case *ssa.Store:
			fa, ok := x.Addr.(*ssa.FieldAddr)
			return ok && core.FieldVar(fa) == prevF && core.DerivesFrom(x.Val, func(v ssa.Value) bool { return v == pid })
		case *ssa.Call:
			h := x.Call.StaticCallee()
			if h == nil || len(h.Blocks) == 0 || depth >= 2 || h == fn || !core.InRepo(core.FnPkgPath(h)) {
				return false
			}
			for k, a := range x.Call.Args {
				if core.StripConv(a) == pid && k < len(h.Params) {
					skip, _ := (core.PathQuery{Fn: h, Avoid: updatesPrev(h, h.Params[k], prevF, depth+1), ExitReturnOnly: true}).Exists()
					if !skip {
						return true
					}
				}
			}
		}
		return false
	}
}
