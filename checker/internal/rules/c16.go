package rules

import (
	"fmt"
	"go/token"
	"go/types"
	"sort"
	"strings"

	"golang.org/x/tools/go/ssa"

	"otelcheck/internal/core"
)

func init() {
	core.Describe("C16",
		"Static necessary conditions of 'separate streams are independent under concurrent use', decided over every package-level variable of the repository's production packages: "+
			"C16.1 no package-level variable is assigned outside package initialisation; nothing is written through it (element/field/map stores on values loaded from it); every repository struct type reachable from a package-level variable is immutable (no field of it is ever stored outside the construction of a fresh value) and no stateful synchronisation/container type hangs off a package-level variable; "+
			"C16.2 fields that hold sub-slices of package-level tables are never index-assigned or appended to; "+
			"C16.3 every function that returns one of the stateful sorter/builder interfaces returns a fresh allocation, never a package-level instance. "+
			"NOT decided: shared state inside arrow-go, pdata and the otel globals; 'decodes as if alone' follows only with determinism of those libraries.",
		"arrow.DataType values, *arrow.Schema and arrow.Metadata are immutable after construction (arrow-go API contract)")
	register("C14", &core.Rule{ID: "C14.17", Title: "package-level variables of the consumer's and the allocator's packages are immutable after init (a shared default limit)", Mod: core.ModRoot, Floor: 10, Run: c14_17})
	register("C16", &core.Rule{ID: "C16.1", Title: "package-level variables are immutable after init", Mod: core.ModRoot, Floor: 60, Run: c16_1, Canary: c16_1Canary})
	register("C16", &core.Rule{ID: "C16.2", Title: "sub-slices of package-level tables held in fields are never written", Mod: core.ModRoot, Floor: 2, Run: c16_2})
	register("C16", &core.Rule{ID: "C16.3", Title: "stateful sorters/builders are fresh per instance", Mod: core.ModRoot, Floor: 8, Run: c16_3})
}

const c16_1Canary = `package c

import (
	"bytes"
	"sync"
	"sync/atomic"
)

// BadScratch: a scratch buffer of a stateful library type shared by every stream.
var BadScratch bytes.Buffer

func scratch(b []byte) []byte { BadScratch.Reset(); BadScratch.Write(b); return BadScratch.Bytes() }

type sorter struct{ prev int }

func (s *sorter) Encode(v int) int { d := v - s.prev; s.prev = v; return d }

// BadSharedSorter: one stateful instance for every stream.
var BadSharedSorter = &sorter{}

// BadCache: a package-level cache.
var BadCache = map[string]int{}

func remember(k string) { BadCache[k]++ }

// BadOnce: lazily initialised shared state.
var BadOnce sync.Once

// BadSeq: a plain integer advanced atomically — race free, and still one sequence for every stream.
var BadSeq int64

func nextSeq() int64 { return atomic.AddInt64(&BadSeq, 1) }

var _ = nextSeq

type cfg struct{ name string }

// GoodTable: read-only table of an immutable type.
var GoodTable = []*cfg{{name: "a"}, {name: "b"}}

func lookup(i int) string { return GoodTable[i].name }

var _ = remember
var _ = scratch
var _ = lookup
var _ = BadSharedSorter.Encode
`

func isInitFn(fn *ssa.Function) bool {
	for f := fn; f != nil; f = f.Parent() {
		if f.Name() == "init" || strings.HasPrefix(f.Name(), "init#") {
			return true
		}
	}
	return false
}

// mutableStructs: repository struct types some field of which is stored outside
// the construction of a fresh value (base = local Alloc) and outside init.
func mutableStructs(fns []*ssa.Function) map[*types.TypeName]string {
	out := map[*types.TypeName]string{}
	for _, fn := range fns {
		if isInitFn(fn) {
			continue
		}
		core.EachInstr(fn, func(i ssa.Instruction) {
			s, ok := i.(*ssa.Store)
			if !ok {
				return
			}
			fa, ok := s.Addr.(*ssa.FieldAddr)
			if !ok {
				return
			}
			// construction of a fresh value
			base := fa.X
			for {
				if f2, ok := base.(*ssa.FieldAddr); ok {
					base = f2.X
					continue
				}
				break
			}
			if _, fresh := base.(*ssa.Alloc); fresh {
				return
			}
			n := core.NamedOf(fa.X.Type())
			if n == nil || n.Obj().Pkg() == nil {
				return
			}
			if _, seen := out[n.Obj()]; !seen {
				out[n.Obj()] = core.FieldName(fa)
			}
		})
	}
	return out
}

// reachableTypes walks the type graph from t; visit returns false to stop below a type.
func reachableTypes(t types.Type, seen map[types.Type]bool, visit func(types.Type) bool) {
	if t == nil || seen[t] {
		return
	}
	seen[t] = true
	if !visit(t) {
		return
	}
	switch x := t.(type) {
	case *types.Named:
		reachableTypes(x.Underlying(), seen, visit)
	case *types.Alias:
		reachableTypes(types.Unalias(x), seen, visit)
	case *types.Pointer:
		reachableTypes(x.Elem(), seen, visit)
	case *types.Slice:
		reachableTypes(x.Elem(), seen, visit)
	case *types.Array:
		reachableTypes(x.Elem(), seen, visit)
	case *types.Map:
		reachableTypes(x.Key(), seen, visit)
		reachableTypes(x.Elem(), seen, visit)
	case *types.Chan:
		reachableTypes(x.Elem(), seen, visit)
	case *types.Struct:
		for i := 0; i < x.NumFields(); i++ {
			reachableTypes(x.Field(i).Type(), seen, visit)
		}
	}
}

func init() {
	register("C17", &core.Rule{ID: "C17.9", Title: "no package-level mutable state in the obfuscation processor: what one instance is configured with or learns never reaches another", Mod: core.ModObf, Floor: 0, Run: c17_9, Canary: c16_1Canary})
}

func c16_1(c *core.Ctx, p *core.Prog) {
	c16_1On(c, p, rootFuncs(c, p), prodPkg)
}

// c14_17: the same audit over the packages of the consumer and its allocator: a limit (or any option) kept in a
// package-level value that consumers share is changed for every later consumer by the options of one.
func c14_17(c *core.Ctx, p *core.Prog) {
	c16_1On(c, p, rootFuncs(c, p), func(pp string) bool { return pp == pkgArrowRecord || pp == pkgCommonArrow })
}

// c17_9: the same audit over the obfuscation processor's package (instances of the processor are the "streams").
func c17_9(c *core.Ctx, p *core.Prog) {
	c16_1On(c, p, obfFuncs(c, p), func(pp string) bool { return pp == core.ObfPath })
}

func c16_1On(c *core.Ctx, p *core.Prog, fns []*ssa.Function, prodPkg func(string) bool) {
	mut := mutableStructs(fns)
	// globals of production packages
	type gl struct {
		g   *ssa.Global
		pkg string
	}
	var globals []gl
	for path, pk := range p.ByPath {
		if !prodPkg(path) && !(core.IsCanaryPath(path) && c.InScope(path)) {
			continue
		}
		sp := p.SSA.Package(pk.Types)
		if sp == nil {
			continue
		}
		for _, m := range sp.Members {
			if g, ok := m.(*ssa.Global); ok && !strings.HasPrefix(g.Name(), "init$") && g.Name() != "_" {
				globals = append(globals, gl{g, path})
			}
		}
	}
	sort.Slice(globals, func(i, j int) bool { return globals[i].g.String() < globals[j].g.String() })
	// uses of each global outside init
	type use struct {
		fn  *ssa.Function
		ins ssa.Instruction
	}
	uses := map[*ssa.Global][]use{}
	for _, fn := range fns {
		if isInitFn(fn) {
			continue
		}
		core.EachInstr(fn, func(i ssa.Instruction) {
			for _, op := range i.Operands(nil) {
				if op == nil || *op == nil {
					continue
				}
				if g, ok := (*op).(*ssa.Global); ok {
					uses[g] = append(uses[g], use{fn, i})
				}
			}
		})
	}
	for _, x := range globals {
		g := x.g
		key := "var=" + strings.TrimPrefix(g.String(), core.RepoPath+"/")
		pos := p.Pos(g.Pos())
		elemT := g.Type().(*types.Pointer).Elem()
		var problems []string
		// (a) direct stores, (c) writes through
		for _, u := range uses[g] {
			switch y := u.ins.(type) {
			case *ssa.Store:
				if y.Addr == ssa.Value(g) {
					problems = append(problems, fmt.Sprintf("assigned at %s (%s)", p.Pos(y.Pos()), core.FuncName(u.fn)))
				}
			}
			// loaded value: follow one level of addressing to stores / map updates
			if ld, ok := u.ins.(*ssa.UnOp); ok && ld.Op == token.MUL && ld.X == ssa.Value(g) {
				var follow func(v ssa.Value, depth int)
				follow = func(v ssa.Value, depth int) {
					if depth > 4 {
						return
					}
					for _, r := range core.Referrers(v) {
						switch z := r.(type) {
						case *ssa.MapUpdate:
							if z.Map == v {
								problems = append(problems, fmt.Sprintf("map updated at %s (%s)", p.Pos(z.Pos()), core.FuncName(u.fn)))
							}
						case *ssa.IndexAddr:
							if z.X == v {
								follow(z, depth+1)
							}
						case *ssa.FieldAddr:
							if z.X == v {
								follow(z, depth+1)
							}
						case *ssa.Store:
							if z.Addr == v {
								problems = append(problems, fmt.Sprintf("written through at %s (%s)", p.Pos(z.Pos()), core.FuncName(u.fn)))
							}
						case *ssa.UnOp:
							if z.Op == token.MUL && z.X == v {
								follow(z, depth+1)
							}
						case *ssa.Call:
							if b, ok := z.Call.Value.(*ssa.Builtin); ok && (b.Name() == "delete" || b.Name() == "clear") && len(z.Call.Args) > 0 && z.Call.Args[0] == v {
								problems = append(problems, fmt.Sprintf("%s applied at %s", b.Name(), p.Pos(z.Pos())))
							}
						}
					}
				}
				follow(ld, 0)
			}
			// the variable's address handed to something that writes through it: sync/atomic mutators
			// (a counter shared by every instance), or a repository function that stores through the parameter
			if ci, ok := u.ins.(ssa.CallInstruction); ok && !isInitFn(u.fn) {
				for k, a := range ci.Common().Args {
					if a != ssa.Value(g) {
						continue
					}
					if f := core.CalleeObj(ci); f != nil && f.Pkg() != nil && f.Pkg().Path() == "sync/atomic" {
						if !strings.HasPrefix(f.Name(), "Load") {
							problems = append(problems, fmt.Sprintf("updated with atomic.%s at %s (%s): a value every instance draws from", f.Name(), p.Pos(ci.Pos()), core.FuncName(u.fn)))
						}
						continue
					}
					if callee := ci.Common().StaticCallee(); callee != nil && len(callee.Blocks) > 0 && k < len(callee.Params) {
						prm := callee.Params[k]
						core.EachInstr(callee, func(j ssa.Instruction) {
							if st, ok := j.(*ssa.Store); ok && st.Addr == ssa.Value(prm) {
								problems = append(problems, fmt.Sprintf("written through its address by %s (called at %s)", callee.Name(), p.Pos(ci.Pos())))
							}
							if cj, ok := j.(ssa.CallInstruction); ok {
								if f2 := core.CalleeObj(cj); f2 != nil && f2.Pkg() != nil && f2.Pkg().Path() == "sync/atomic" && !strings.HasPrefix(f2.Name(), "Load") {
									for _, a2 := range cj.Common().Args {
										if a2 == ssa.Value(prm) {
											problems = append(problems, fmt.Sprintf("updated atomically through its address by %s (called at %s)", callee.Name(), p.Pos(ci.Pos())))
										}
									}
								}
							}
						})
					}
				}
			}
			// address-based access: &g.field / &g[i] stores
			if fa, ok := u.ins.(*ssa.FieldAddr); ok && fa.X == ssa.Value(g) {
				for _, r := range core.Referrers(fa) {
					if s, ok := r.(*ssa.Store); ok && s.Addr == ssa.Value(fa) {
						problems = append(problems, fmt.Sprintf("field assigned at %s (%s)", p.Pos(s.Pos()), core.FuncName(u.fn)))
					}
				}
			}
			if ia, ok := u.ins.(*ssa.IndexAddr); ok && ia.X == ssa.Value(g) {
				for _, r := range core.Referrers(ia) {
					if s, ok := r.(*ssa.Store); ok && s.Addr == ssa.Value(ia) {
						problems = append(problems, fmt.Sprintf("element assigned at %s (%s)", p.Pos(s.Pos()), core.FuncName(u.fn)))
					}
				}
			}
		}
		// (b) type-level: mutable repo structs / stateful library types reachable from the variable's type
		reachableTypes(elemT, map[types.Type]bool{}, func(t types.Type) bool {
			n, ok := t.(*types.Named)
			if !ok {
				return true
			}
			if n.Obj().Pkg() == nil {
				return true
			}
			pp := n.Obj().Pkg().Path()
			switch {
			case core.InRepo(pp) || core.IsCanaryPath(pp):
				if f, isMut := mut[n.Obj()]; isMut {
					problems = append(problems, fmt.Sprintf("holds a %s, whose field %s is written after construction (stateful type shared by every stream)", n.Obj().Name(), f))
					return false
				}
				// a repository interface: the values behind it are its implementations
				if it, isI := n.Underlying().(*types.Interface); isI && it.NumMethods() > 0 {
					var names []string
					for tn, f := range mut {
						tt := tn.Type()
						if types.Implements(tt, it) || types.Implements(types.NewPointer(tt), it) {
							names = append(names, tn.Name()+" (field "+f+")")
						}
					}
					sort.Strings(names)
					if len(names) > 0 {
						if len(names) > 3 {
							names = append(names[:3], "…")
						}
						problems = append(problems, fmt.Sprintf("holds %s values, an interface implemented by stateful types: %s — an instance kept here is shared by every stream", n.Obj().Name(), strings.Join(names, ", ")))
					}
					return false
				}
				return true
			case pp == "sync" || pp == "sync/atomic":
				problems = append(problems, fmt.Sprintf("holds a %s.%s (shared mutable state)", pp, n.Obj().Name()))
				return false
			case strings.HasPrefix(pp, core.ArrowPath) || strings.HasPrefix(pp, "go.opentelemetry.io/") || pp == "errors" || pp == "fmt" || pp == "regexp" || pp == "time" || pp == "reflect":
				return false // immutable API types (arrow schemas / data types / metadata), otel attribute keys, error values
			default:
				// any other library type: stateful when it is a struct with pointer-receiver methods
				// (bytes.Buffer, strings.Builder, math/rand.Rand, sync.Pool-like helpers, encoders ...)
				if _, isStruct := n.Underlying().(*types.Struct); isStruct {
					if types.NewMethodSet(types.NewPointer(n)).Len() > types.NewMethodSet(n).Len() {
						problems = append(problems, fmt.Sprintf("holds a %s.%s, a library type with pointer-receiver (mutating) methods: one instance shared by every stream", pp, n.Obj().Name()))
					}
				}
				return false
			}
		})
		sort.Strings(problems)
		if len(problems) > 3 {
			problems = append(problems[:3], fmt.Sprintf("… %d more", len(problems)-3))
		}
		// a package-level map that is never written is fine; note when it is a map at all
		c.Check(len(problems) == 0, key, pos, g.Name(), "immutable after init ("+types.TypeString(elemT, func(*types.Package) string { return "" })+")",
			"package-level variable "+g.Name()+" is shared mutable state: "+strings.Join(problems, "; ")+" — two instances (producers / consumers, or processor instances) used side by side race on it and can change each other's output")
	}
	c.Stats["package_level_variables"] = len(globals)
	c.Stats["mutable_struct_types"] = len(mut)
}

func c16_2(c *core.Ctx, p *core.Prog) {
	fns := rootFuncs(c, p)
	// fields assigned a value that derives from a slicing of a package-level variable (directly or through a helper's result)
	sliceOfGlobal := func(v ssa.Value) bool {
		return core.DerivesFrom(v, func(x ssa.Value) bool {
			sl, ok := x.(*ssa.Slice)
			if !ok {
				return false
			}
			ld, ok := sl.X.(*ssa.UnOp)
			if !ok || ld.Op != token.MUL {
				return false
			}
			_, isG := ld.X.(*ssa.Global)
			return isG
		})
	}
	helper := map[*ssa.Function]bool{}
	for _, fn := range fns {
		for _, r := range core.Returns(fn) {
			for _, res := range r.Results {
				if _, isSl := res.Type().Underlying().(*types.Slice); isSl && sliceOfGlobal(res) {
					helper[fn] = true
				}
			}
		}
	}
	// helpers that return a window of a slice they are handed (a generic `rng(all, lo, hi)`): their
	// result aliases a package-level table when that parameter's argument is the table
	windowOfParam := map[*ssa.Function]map[int]bool{}
	for _, fn := range fns {
		for _, r := range core.Returns(fn) {
			for _, res := range r.Results {
				if _, isSl := res.Type().Underlying().(*types.Slice); !isSl {
					continue
				}
				core.BackSlice(res, func(x ssa.Value) bool {
					if sl, ok := x.(*ssa.Slice); ok {
						if prm, ok := core.Strip(sl.X).(*ssa.Parameter); ok {
							for k, q := range fn.Params {
								if q == prm {
									if windowOfParam[fn] == nil {
										windowOfParam[fn] = map[int]bool{}
									}
									windowOfParam[fn][k] = true
								}
							}
						}
					}
					if prm, ok := x.(*ssa.Parameter); ok && x == core.Strip(res) {
						for k, q := range fn.Params {
							if q == prm {
								if windowOfParam[fn] == nil {
									windowOfParam[fn] = map[int]bool{}
								}
								windowOfParam[fn][k] = true
							}
						}
					}
					return true
				})
			}
		}
	}
	isGlobalSlice := func(v ssa.Value) bool {
		if sliceOfGlobal(v) {
			return true
		}
		ld, ok := core.Strip(v).(*ssa.UnOp)
		if !ok || ld.Op != token.MUL {
			return false
		}
		_, isG := ld.X.(*ssa.Global)
		return isG
	}
	tainted := map[*types.Var]string{}
	for _, fn := range fns {
		core.EachInstr(fn, func(i ssa.Instruction) {
			s, ok := i.(*ssa.Store)
			if !ok {
				return
			}
			fa, ok := s.Addr.(*ssa.FieldAddr)
			if !ok {
				return
			}
			if _, isSl := core.FieldVar(fa).Type().Underlying().(*types.Slice); !isSl {
				return
			}
			from := sliceOfGlobal(s.Val)
			if cl, ok := s.Val.(*ssa.Call); ok && helper[cl.Call.StaticCallee()] {
				from = true
			}
			if cl, ok := s.Val.(*ssa.Call); ok && cl.Call.StaticCallee() != nil {
				for k := range windowOfParam[cl.Call.StaticCallee()] {
					if k < len(cl.Call.Args) && isGlobalSlice(cl.Call.Args[k]) {
						from = true
					}
				}
			}
			if from {
				tainted[core.FieldVar(fa)] = p.Pos(s.Pos())
			}
		})
	}
	var fields []*types.Var
	for f := range tainted {
		fields = append(fields, f)
	}
	sort.Slice(fields, func(i, j int) bool { return fields[i].Name() < fields[j].Name() })
	for _, f := range fields {
		var bad []string
		for _, fn := range fns {
			core.EachInstr(fn, func(i ssa.Instruction) {
				switch x := i.(type) {
				case *ssa.Store:
					if ia, ok := x.Addr.(*ssa.IndexAddr); ok && isFieldLoad(ia.X, f) {
						bad = append(bad, "element assigned at "+p.Pos(x.Pos()))
					}
				case *ssa.Call:
					if b, ok := x.Call.Value.(*ssa.Builtin); ok && b.Name() == "append" && isFieldLoad(x.Call.Args[0], f) {
						bad = append(bad, "appended to at "+p.Pos(x.Pos()))
					}
					if b, ok := x.Call.Value.(*ssa.Builtin); ok && b.Name() == "copy" && isFieldLoad(x.Call.Args[0], f) {
						bad = append(bad, "copied into at "+p.Pos(x.Pos()))
					}
				}
			})
		}
		c.Check(len(bad) == 0, "field="+f.Name(), tainted[f], f.Name(), "holds a window into a package-level table and is only read",
			"field "+f.Name()+" holds a window into a package-level table (assigned at "+tainted[f]+") and is written: "+strings.Join(bad, "; ")+" — the write lands in the table shared by every stream")
	}
	if len(fields) < 2 {
		c.Undecided("fields", "?", "", fmt.Sprintf("expected the index-type windows of the dictionary transform, found %d fields derived from package-level tables", len(fields)))
	}
}

func c16_3(c *core.Ctx, p *core.Prog) {
	fns := rootFuncs(c, p)
	mut := mutableStructs(fns)
	// functions whose result is an interface declared in the repository whose implementations are stateful
	for _, fn := range fns {
		if fn.Parent() != nil || fn.Signature.Results().Len() != 1 {
			continue
		}
		rt := fn.Signature.Results().At(0).Type()
		// niladic constructors of a stateful struct type: func X() *T
		if pt, isPtr := rt.(*types.Pointer); isPtr && fn.Signature.Params().Len() == 0 && fn.Signature.Recv() == nil {
			if tn, ok := pt.Elem().(*types.Named); ok && tn.Obj().Pkg() != nil && core.InRepo(tn.Obj().Pkg().Path()) {
				if _, isMut := mut[tn.Obj()]; isMut {
					var shared []string
					for _, r := range core.Returns(fn) {
						if !freshValue(core.Strip(r.Results[0]), 0) {
							shared = append(shared, p.Pos(r.Pos()))
						}
					}
					c.Check(len(shared) == 0, "ctor="+core.FuncName(fn), p.Pos(fn.Pos()), core.FuncName(fn), "returns a fresh "+tn.Obj().Name(),
						fmt.Sprintf("%s returns a stateful %s that is not a fresh allocation at %v: instances would share state across streams", fn.Name(), tn.Obj().Name(), shared))
				}
			}
			continue
		}
		rn, ok := rt.(*types.Named)
		if !ok || rn.Obj().Pkg() == nil || !core.InRepo(rn.Obj().Pkg().Path()) {
			continue
		}
		if _, isI := rn.Underlying().(*types.Interface); !isI {
			continue
		}
		// does it return concrete stateful values?
		stateful := false
		var shared []string
		n := 0
		for _, r := range core.Returns(fn) {
			var vals []ssa.Value
			if ph, ok := r.Results[0].(*ssa.Phi); ok {
				vals = ph.Edges
			} else {
				vals = []ssa.Value{r.Results[0]}
			}
			for _, v := range vals {
				mi, ok := v.(*ssa.MakeInterface)
				if !ok {
					continue
				}
				n++
				cn := core.NamedOf(mi.X.Type())
				if cn != nil {
					if _, isMut := mut[cn.Obj()]; isMut {
						stateful = true
					}
				}
				// fresh?
				switch y := mi.X.(type) {
				case *ssa.Alloc:
					if !y.Heap {
						shared = append(shared, p.Pos(r.Pos()))
					}
				case *ssa.Call:
					// a constructor call: accept when that constructor returns a fresh allocation
					callee := y.Call.StaticCallee()
					fresh := callee != nil && callee.Blocks != nil
					if fresh {
						for _, r2 := range core.Returns(callee) {
							if al, ok := core.Strip(r2.Results[0]).(*ssa.Alloc); !ok || !al.Heap {
								fresh = false
							}
						}
					}
					if !fresh {
						shared = append(shared, p.Pos(r.Pos()))
					}
				default:
					shared = append(shared, p.Pos(r.Pos())+" ("+fmt.Sprintf("%T", y)+")")
				}
			}
		}
		if n == 0 || !stateful {
			continue
		}
		c.Check(len(shared) == 0, "ctor="+core.FuncName(fn), p.Pos(fn.Pos()), core.FuncName(fn), fmt.Sprintf("returns a fresh %s on every path (%d)", rn.Obj().Name(), n),
			fmt.Sprintf("%s returns a stateful %s that is not a fresh allocation at %v: instances would share encoder state (previous ids/keys) across streams", fn.Name(), rn.Obj().Name(), shared))
	}
}

// freshValue: v is a heap allocation made by this call, or the result of a
// repository function all of whose returns are fresh (bounded depth).
func freshValue(v ssa.Value, depth int) bool {
	switch x := v.(type) {
	case *ssa.Alloc:
		return x.Heap
	case *ssa.Call:
		callee := x.Call.StaticCallee()
		if callee == nil || callee.Blocks == nil || depth > 2 {
			return false
		}
		for _, r := range core.Returns(callee) {
			if len(r.Results) == 0 || !freshValue(core.Strip(r.Results[0]), depth+1) {
				return false
			}
		}
		return true
	}
	return false
}
