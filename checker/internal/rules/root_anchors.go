package rules

import (
	"go/types"
	"sort"
	"strings"

	"golang.org/x/tools/go/callgraph"
	"golang.org/x/tools/go/ssa"

	"otelcheck/internal/core"
)

const (
	pkgArrowRecord = core.RepoPath + "/pkg/otel/arrow_record"
	pkgArrowUtils  = core.RepoPath + "/pkg/arrow"
	pkgRecordMsg   = core.RepoPath + "/pkg/record_message"
	pkgBuilder     = core.RepoPath + "/pkg/otel/common/schema/builder"
	pkgSchema      = core.RepoPath + "/pkg/otel/common/schema"
	pkgTransform   = core.RepoPath + "/pkg/otel/common/schema/transform"
	pkgCommonArrow = core.RepoPath + "/pkg/otel/common/arrow"
	pkgCommonOtlp  = core.RepoPath + "/pkg/otel/common/otlp"
	pkgConfig      = core.RepoPath + "/pkg/config"
	arrowArray     = core.ArrowPath + "/array"
	arrowIPC       = core.ArrowPath + "/ipc"
	arrowMemory    = core.ArrowPath + "/memory"
)

// prodPkg reports whether a repo package is production code of the encoder /
// decoder (benchmarks, data generators, assertion helpers, tools, mocks and
// generated API code are loaded but outside every rule's scope).
func prodPkg(path string) bool {
	if !strings.HasPrefix(path, core.RepoPath+"/pkg/") {
		return false
	}
	for _, ex := range []string{"/pkg/benchmark", "/pkg/datagen", "/pkg/otel/assert", "/pkg/air", "/mock"} {
		if strings.Contains(path, ex) {
			return false
		}
	}
	return true
}

func rootFuncs(c *core.Ctx, p *core.Prog) []*ssa.Function {
	return p.FuncsIn(func(pp string) bool {
		return prodPkg(pp) || (core.IsCanaryPath(pp) && c.InScope(pp))
	})
}

// methodsOf returns the declared (non-synthetic) methods of pkg.typeName with the given names.
func methodsOf(p *core.Prog, pkg, typeName string, names ...string) []*ssa.Function {
	var out []*ssa.Function
	for _, n := range names {
		if f := p.Func(pkg, typeName, n); f != nil {
			out = append(out, f)
		}
	}
	return out
}

// consumerEntries / producerEntries: the public entry points of arrow_record.
func consumerEntries(p *core.Prog) []*ssa.Function {
	return methodsOf(p, pkgArrowRecord, "Consumer", "TracesFrom", "LogsFrom", "MetricsFrom", "Consume", "Close")
}

func producerEntries(p *core.Prog) []*ssa.Function {
	return methodsOf(p, pkgArrowRecord, "Producer", "BatchArrowRecordsFromTraces", "BatchArrowRecordsFromLogs", "BatchArrowRecordsFromMetrics", "Close")
}

// repoReach computes the repo functions reachable from roots. Traversal
// descends through repository functions only; a library function is entered for
// one hop to pick up edges that lead back into repository code (callbacks);
// every function literal defined inside a reachable function is reachable.
func repoReach(p *core.Prog, g *callgraph.Graph, roots []*ssa.Function) map[*ssa.Function]bool {
	seen := map[*ssa.Function]bool{}
	var walk func(f *ssa.Function, libHop bool)
	walk = func(f *ssa.Function, libHop bool) {
		if f == nil {
			return
		}
		inRepo := core.InRepo(core.FnPkgPath(f))
		if inRepo {
			if seen[f] {
				return
			}
			seen[f] = true
			for _, an := range f.AnonFuncs {
				walk(an, false)
			}
			// a method value handed on as a function (`attrs.Range(col.collect)`) runs like the closure it replaces
			core.EachInstr(f, func(i ssa.Instruction) {
				mc, ok := i.(*ssa.MakeClosure)
				if !ok {
					return
				}
				if w, _ := mc.Fn.(*ssa.Function); w != nil && strings.HasPrefix(w.Synthetic, "bound method wrapper") {
					if m, _ := w.Object().(*types.Func); m != nil {
						if mf := p.SSA.FuncValue(m); mf != nil && core.InRepo(core.FnPkgPath(mf)) {
							walk(mf, false)
						}
					}
				}
			})
		} else if libHop {
			return
		}
		n := g.Nodes[f]
		if n == nil {
			return
		}
		for _, e := range n.Out {
			callee := e.Callee.Func
			if core.InRepo(core.FnPkgPath(callee)) {
				walk(callee, false)
			} else if inRepo {
				walk(callee, true) // one hop into the library
			}
		}
	}
	for _, r := range roots {
		walk(r, false)
	}
	return seen
}

func sortedFuncs(p *core.Prog, set map[*ssa.Function]bool) []*ssa.Function {
	var out []*ssa.Function
	for f := range set {
		out = append(out, f)
	}
	sort.Slice(out, func(i, j int) bool {
		pi, pj := p.Fset.Position(out[i].Pos()), p.Fset.Position(out[j].Pos())
		if pi.Filename != pj.Filename {
			return pi.Filename < pj.Filename
		}
		if pi.Offset != pj.Offset {
			return pi.Offset < pj.Offset
		}
		return out[i].String() < out[j].String()
	})
	return out
}

// lastResultIsError reports whether sig's last result is error and returns its index.
func lastResultIsError(sig *types.Signature) (int, bool) {
	n := sig.Results().Len()
	if n == 0 {
		return 0, false
	}
	return n - 1, isErr(sig.Results().At(n-1).Type())
}

// usedValue reports whether v has a referrer other than debug refs.
func usedValue(v ssa.Value) bool {
	for _, r := range core.Referrers(v) {
		if _, dbg := r.(*ssa.DebugRef); !dbg {
			return true
		}
	}
	return false
}

// delegateOf returns fn itself when has(fn); otherwise the package function fn hands its work to: a
// static callee in fn's own package for which has() holds and that is called from exactly one site
// in the package (the instances of a generic helper are separate functions, so a helper shared by
// three entry points through three instantiations has one call site each). The delegate's
// parameters are bound to the arguments of that call (core.BindParam), so that value flow and
// calls of function-valued parameters resolve to what the entry point passed. nil if there is none.
func delegateOf(p *core.Prog, fn *ssa.Function, has func(*ssa.Function) bool) *ssa.Function {
	cur := fn
	for depth := 0; depth < 3; depth++ {
		if has(cur) {
			return cur
		}
		var next *ssa.Function
		var site ssa.CallInstruction
		core.EachCall(cur, func(ci ssa.CallInstruction) {
			callee := ci.Common().StaticCallee()
			if callee == nil || len(callee.Blocks) == 0 || core.FnPkgPath(callee) != core.FnPkgPath(fn) || callee == cur {
				return
			}
			ok := has(callee)
			if !ok {
				// one more level is looked at below
				core.EachCall(callee, func(cj ssa.CallInstruction) {
					if c2 := cj.Common().StaticCallee(); c2 != nil && len(c2.Blocks) > 0 && core.FnPkgPath(c2) == core.FnPkgPath(fn) && has(c2) {
						ok = true
					}
				})
			}
			if ok && next == nil {
				next, site = callee, ci
			}
		})
		if next == nil {
			return nil
		}
		sites := 0
		for _, g := range p.FuncsIn(func(pp string) bool { return pp == core.FnPkgPath(fn) }) {
			for _, h := range core.WithClosures(g) {
				core.EachCall(h, func(ci ssa.CallInstruction) {
					if ci.Common().StaticCallee() == next {
						sites++
					}
				})
			}
		}
		if sites != 1 {
			return nil
		}
		for k, prm := range next.Params {
			if k < len(site.Common().Args) {
				core.BindParam(prm, site.Common().Args[k])
			}
		}
		cur = next
	}
	return nil
}
