package rules

import (
	"fmt"
	"go/constant"
	"go/token"
	"go/types"
	"strings"

	"golang.org/x/tools/go/ssa"

	"otelcheck/internal/core"
)

func init() {
	core.Describe("C13",
		"Static necessary conditions of 'dictionaries sent on a stream never outgrow the configured limit', decided on the schema/transform/builder code for all paths: "+
			"C13.1 NewRecord hands out a record only after the dictionary scan ran over every top-level column and the schema was still up to date; otherwise the record is released, the schema updated and ErrSchemaNotUpToDate returned; "+
			"C13.2 the scan recurses through every composite Arrow kind (struct, list, union, map) and measures the dictionary's own length; every dictionary field the transform creates carries the id the scan looks up; "+
			"C13.3 the configured limit and reset threshold reach config.NewDictionary at every NewRecordBuilderExt site; "+
			"C13.4 the index tables agree (max cardinality = 2^bits−1 of the index type at the same position), findIndex maps each interval to the least index, both per-column tables are the same slice range, and the constructors yield min ≤ max; "+
			"C13.5 cardinality above the capacity of the current width advances the width; past the last allowed width the dictionary is reset or disabled, each with a schema-update request; "+
			"C13.6 a schema update installs a fresh array.RecordBuilder (fresh dictionaries), releases the old one and migrates no dictionary values; "+
			"C13.7 MaxCard==0 yields no index types and the transform then returns the value type. "+
			"NOT decided: arrow-go dictionary builders, IPC delta/replacement emission, decoder-side memory.",
		"array.NewRecordBuilder starts with empty dictionaries", "a record for which NewRecord returned an error is never sent")
	for _, r := range []*core.Rule{
		{ID: "C13.1", Title: "records are handed out only after the dictionary scan and an up-to-date check", Mod: core.ModRoot, Floor: 3, Run: c13_1},
		{ID: "C13.2", Title: "the scan covers every composite kind; dictionary fields carry their id", Mod: core.ModRoot, Floor: 6, Run: c13_2},
		{ID: "C13.3", Title: "limit and threshold reach every record builder", Mod: core.ModRoot, Floor: 4, Run: c13_3},
		{ID: "C13.4", Title: "index tables, findIndex and min ≤ max", Mod: core.ModRoot, Floor: 5, Run: c13_4},
		{ID: "C13.5", Title: "width advances on excess; reset or disable past the last width", Mod: core.ModRoot, Floor: 3, Run: c13_5},
		{ID: "C13.6", Title: "schema update installs fresh builders and migrates nothing", Mod: core.ModRoot, Floor: 3, Run: c13_6},
		{ID: "C13.7", Title: "MaxCard==0 disables dictionaries", Mod: core.ModRoot, Floor: 2, Run: c13_7},
	} {
		register("C13", r)
	}
	register("C04", &core.Rule{ID: "C04.3", Title: "dictionary limit and reset threshold reach every record builder", Mod: core.ModRoot, Floor: 4, Run: c13_3})
}

// delegatesToScan: h is a thin wrapper (a method kept for its callers) whose every path calls the dictionary scan.
func delegatesToScan(h *ssa.Function) bool {
	if h == nil || len(h.Blocks) == 0 || len(h.Blocks) > 3 {
		return false
	}
	miss, _ := (core.PathQuery{Fn: h, ExitReturnOnly: true, Avoid: func(i ssa.Instruction) bool {
		cl, ok := i.(*ssa.Call)
		return ok && cl.Call.StaticCallee() != nil && cl.Call.StaticCallee() != h && isDictScanFn(cl.Call.StaticCallee())
	}}).Exists()
	return !miss
}

func c13_1(c *core.Ctx, p *core.Prog) {
	fn := p.Func(pkgBuilder, "RecordBuilderExt", "NewRecord")
	if fn == nil {
		c.Undecided("anchor", "?", "", "RecordBuilderExt.NewRecord not found")
		return
	}
	var inner *ssa.Call
	var scans []*ssa.Call
	var upToDate []*ssa.Call
	core.EachInstr(fn, func(i ssa.Instruction) {
		cl, ok := i.(*ssa.Call)
		if !ok {
			return
		}
		f := core.CalleeObj(cl)
		switch {
		case core.IsMethodOf(f, arrowArray, "RecordBuilder", "NewRecord"):
			inner = cl
		case cl.Call.StaticCallee() != nil && core.FnPkgPath(cl.Call.StaticCallee()) == pkgBuilder && f != nil && sigIs(f, nil, []tp{isBool}):
			upToDate = append(upToDate, cl)
		case cl.Call.StaticCallee() != nil && core.FnPkgPath(cl.Call.StaticCallee()) == pkgBuilder && (isDictScanFn(cl.Call.StaticCallee()) || delegatesToScan(cl.Call.StaticCallee())):
			scans = append(scans, cl)
		}
	})
	pos := p.Pos(fn.Pos())
	if inner == nil || len(scans) == 0 || len(upToDate) == 0 {
		c.Undecided("anchor", pos, core.FuncName(fn), "inner NewRecord / dictionary scan / up-to-date test not found")
		return
	}
	scan := scans[0]
	// the scan ranges over all top-level fields of the record builder's schema
	cov, cmsg := false, "the dictionary scan does not range over all top-level columns"
	core.BackSlice(scanFieldArg(scan), func(v ssa.Value) bool {
		acc, ok := core.ElemAccessOf(v)
		if !ok || acc.Phi == nil {
			return true
		}
		ind, ok := core.InductionOf(acc.Phi)
		if !ok {
			cmsg = "scan loop form not recognised"
			return false
		}
		lo, hi, ok := ind.Coverage(acc)
		if ok && lo <= 0 && hi >= 0 {
			cov, cmsg = true, "scan covers columns [0,len(fields))"
		} else if ok {
			cmsg = fmt.Sprintf("the dictionary scan covers columns [%d, len%+d) only: dictionaries of the other columns are never measured", lo, hi)
		}
		return false
	})
	// same index for field and column
	fa, okF := core.ElemAccessOf(firstElem(scanFieldArg(scan)))
	ca, okC := core.ElemAccessOf(firstElem(scanColumnArg(scan)))
	if okF && okC && (fa.Phi != ca.Phi || fa.Off != ca.Off) {
		cov, cmsg = false, "the scan pairs a field with the column of a different index"
	}
	c.Check(cov, "scan|coverage", p.Pos(scan.Pos()), core.FuncName(fn), cmsg, cmsg)
	// the scan loop is left only through its own bound: no break / return after a first column that needs an update
	{
		var header *ssa.BasicBlock
		var body map[*ssa.BasicBlock]bool
		for h, bd := range loopsOf(fn) {
			if bd[scan.Block()] && (body == nil || len(bd) < len(body)) {
				header, body = h, bd
			}
		}
		early := ""
		if header != nil {
			for b := range body {
				if b == header {
					continue
				}
				for _, s2 := range b.Succs {
					if !body[s2] {
						early = p.Pos(b.Instrs[len(b.Instrs)-1].Pos())
						if early == "?" || early == "" {
							early = fmt.Sprintf("block %d", b.Index)
						}
					}
				}
			}
		}
		c.Check(header != nil && early == "", "scan|no-early-exit", p.Pos(scan.Pos()), core.FuncName(fn),
			"the scan loop is left only when every column was inspected",
			"the dictionary scan can stop before every column was inspected (an exit inside the loop at "+early+"): each rebuild then widens one column only, so a batch in which several dictionaries outgrow their index at once needs more rebuilds than the retry cap allows (the producer panics \"Too many consecutive schema updates\"), and the remaining dictionaries are measured a build late")
	}
	// the scan is unconditional: every path from the built record to a non-nil return enters the scan loop
	{
		var header *ssa.BasicBlock
		var body map[*ssa.BasicBlock]bool
		for h, bd := range loopsOf(fn) {
			if bd[scan.Block()] && (body == nil || len(bd) < len(body)) {
				header, body = h, bd
			}
		}
		skip := ""
		// the one condition under which there is nothing to scan: the builder has no dictionary field at all
		noDict := map[core.Edge]bool{}
		for _, b := range fn.Blocks {
			iff := core.IfOf(b)
			if iff == nil {
				continue
			}
			cmp, ok := iff.Cond.(*ssa.BinOp)
			if !ok {
				continue
			}
			k, isK := core.ConstInt(cmp.Y)
			ln, isLen := cmp.X.(*ssa.Call)
			if !isK || k != 0 || !isLen {
				continue
			}
			if bi, ok := ln.Call.Value.(*ssa.Builtin); !ok || bi.Name() != "len" {
				continue
			}
			mt, ok := ln.Call.Args[0].Type().Underlying().(*types.Map)
			if !ok || core.TypeName(mt.Elem()) != "DictionaryField" {
				continue
			}
			switch cmp.Op {
			case token.GTR, token.NEQ:
				noDict[core.Edge{From: b, To: b.Succs[1]}] = true
			case token.EQL, token.LEQ:
				noDict[core.Edge{From: b, To: b.Succs[0]}] = true
			}
		}
		if header != nil {
			for _, r := range core.Returns(fn) {
				if core.IsNilConst(r.Results[0]) {
					continue
				}
				if ok, _ := (core.PathQuery{Fn: fn, From: inner, To: r, CutEdges: noDict, Avoid: func(i ssa.Instruction) bool { return i.Block() == header }}).Exists(); ok {
					skip = p.Pos(r.Pos())
				}
			}
			c.Check(skip == "", "scan|unconditional", p.Pos(scan.Pos()), core.FuncName(fn),
				"every path from the built record to a returned record runs the dictionary scan",
				"a record can be returned (at "+skip+") on a path that skips the dictionary scan: whatever the condition is based on, the dictionaries of that record are not measured, so nothing stops them from outgrowing their index width and the configured limit")
		}
	}
	// a non-nil record is returned only on the up-to-date arm of a test made after the scan
	var msgs []string
	nOK := 0
	for _, r := range core.Returns(fn) {
		if core.IsNilConst(r.Results[0]) {
			continue
		}
		nOK++
		if !core.DerivesFrom(r.Results[0], func(v ssa.Value) bool { return v == ssa.Value(inner) }) {
			msgs = append(msgs, "the returned record is not the one that was built and scanned")
		}
		guarded := false
		for _, t := range upToDate {
			if !core.Reachable(fn, scan, t) {
				continue
			}
			for _, ref := range core.Referrers(t) {
				switch x := ref.(type) {
				case *ssa.If:
					if core.GuardedBy(x, true, r) {
						guarded = true
					}
				case *ssa.UnOp:
					if x.Op == token.NOT {
						for _, r2 := range core.Referrers(x) {
							if iff, ok := r2.(*ssa.If); ok && core.GuardedBy(iff, false, r) {
								guarded = true
							}
						}
					}
				}
			}
		}
		if !guarded {
			msgs = append(msgs, fmt.Sprintf("%s: a record is returned without an up-to-date test made after the dictionary scan: a record whose dictionary exceeds its index capacity or the configured limit would be sent", p.Pos(r.Pos())))
		}
	}
	if nOK == 0 {
		msgs = append(msgs, "NewRecord never returns a record")
	}
	c.Check(len(msgs) == 0, "handout", pos, core.FuncName(fn), "a record is handed out only after the scan and an up-to-date test", strings.Join(msgs, "; "))
	// the discard path after the scan: Release + UpdateSchema + ErrSchemaNotUpToDate
	msgs = nil
	isRelease := func(i ssa.Instruction) bool {
		cl, ok := i.(*ssa.Call)
		return ok && cl.Call.IsInvoke() && cl.Call.Method.Name() == "Release" && cl.Call.Value == ssa.Value(inner)
	}
	isUpdate := func(i ssa.Instruction) bool {
		cl, ok := i.(*ssa.Call)
		return ok && cl.Call.StaticCallee() != nil && cl.Call.StaticCallee().Name() == "UpdateSchema"
	}
	for _, r := range core.Returns(fn) {
		if !core.IsNilConst(r.Results[0]) || !core.Reachable(fn, scan, r) {
			continue
		}
		if core.IsNilConst(r.Results[1]) {
			msgs = append(msgs, fmt.Sprintf("%s: returns neither a record nor an error", p.Pos(r.Pos())))
		}
		if !core.MustPassBetween(fn, scan, r, isRelease) {
			msgs = append(msgs, fmt.Sprintf("%s: the discarded record is not released", p.Pos(r.Pos())))
		}
		if !core.MustPassBetween(fn, scan, r, isUpdate) {
			msgs = append(msgs, fmt.Sprintf("%s: the schema is not updated before the retry is requested", p.Pos(r.Pos())))
		}
	}
	c.Check(len(msgs) == 0, "discard", pos, core.FuncName(fn), "an over-limit record is released, the schema updated and the retry error returned", strings.Join(msgs, "; "))
}

// firstElem returns the first element-address value in v's backward slice.
func firstElem(v ssa.Value) ssa.Value {
	var res ssa.Value
	core.BackSlice(v, func(x ssa.Value) bool {
		if _, ok := core.ElemAccessOf(x); ok && res == nil {
			res = x
			return false
		}
		return res == nil
	})
	if res == nil {
		return v
	}
	return res
}

func c13_2(c *core.Ctx, p *core.Prog) {
	// the scan function: recursive method of RecordBuilderExt taking (*arrow.Field, arrow.Array)
	var scan *ssa.Function
	for _, fn := range p.FuncsIn(func(pp string) bool { return pp == pkgBuilder }) {
		if isDictScanFn(fn) {
			scan = fn
		}
	}
	if scan == nil {
		c.Undecided("scan", "?", "", "recursive dictionary scan not found")
		return
	}
	// arms of the type switch
	arms := map[string]*ssa.If{}
	core.EachInstr(scan, func(i ssa.Instruction) {
		ta, ok := i.(*ssa.TypeAssert)
		if !ok || !ta.CommaOk || !strings.HasPrefix(core.TypePkgPath(ta.AssertedType), core.ArrowPath) {
			return
		}
		name := core.TypeName(ta.AssertedType)
		if !strings.HasSuffix(name, "Type") {
			return
		}
		for _, r := range core.Referrers(ta) {
			if e, ok := r.(*ssa.Extract); ok && e.Index == 1 {
				for _, r2 := range core.Referrers(e) {
					if iff, ok := r2.(*ssa.If); ok {
						arms[name] = iff
					}
				}
			}
		}
	})
	// history independence: whether a column is measured depends on the field, the column and the transform map —
	// not on other state of the builder (an "already overflowed" set, a counter): a column skipped because of what
	// the stream carried before is a dictionary that grows unobserved
	{
		var dictMapF *types.Var
		var recvNamed *types.Named
		if scan.Signature.Recv() != nil {
			recvNamed = core.NamedOf(scan.Signature.Recv().Type())
		}
		if recvNamed == nil {
			// a package function is handed what it may consult; nothing else of the builder is in reach
		} else if st, ok := recvNamed.Underlying().(*types.Struct); ok {
			for k := 0; k < st.NumFields(); k++ {
				if m, ok := st.Field(k).Type().Underlying().(*types.Map); ok && strings.Contains(core.TypeName(m.Elem()), "DictionaryField") {
					dictMapF = st.Field(k)
				}
			}
		}
		var bad []string
		for _, f := range core.WithClosures(scan) {
			for _, b := range f.Blocks {
				iff := core.IfOf(b)
				if iff == nil {
					continue
				}
				core.BackSlice(iff.Cond, func(v ssa.Value) bool {
					if fa, ok := v.(*ssa.FieldAddr); ok {
						if recvNamed != nil && core.NamedOf(fa.X.Type()) == recvNamed && core.FieldVar(fa) != dictMapF {
							bad = append(bad, fmt.Sprintf("%s (reads %s)", p.Pos(iff.Cond.Pos()), core.FieldName(fa)))
							return false
						}
					}
					return true
				})
			}
		}
		c.Check(len(bad) == 0, "history-independent", p.Pos(scan.Pos()), core.FuncName(scan), "the scan's decisions depend on the field, the column and the transform map only",
			fmt.Sprintf("the dictionary scan takes a decision from other state of the record builder at %v: a column can be skipped depending on what the stream carried before (e.g. because a column of the same leaf name overflowed), and its dictionary then outgrows its index width and the configured limit unobserved", bad))
	}
	// every dictionary column that reaches the scan is measured: on the arm of the `*array.Dictionary` column every
	// path reports the dictionary's length to the column's transform — a report made only when something else holds
	// (the length differs from the last one seen, a counter is due) lets a record pass on which the limit and the
	// index width were never evaluated, e.g. the record rebuilt after a dictionary restart
	{
		isReport := func(i ssa.Instruction) bool {
			cl, ok := i.(*ssa.Call)
			if !ok {
				return false
			}
			f := core.CalleeObj(cl)
			if f == nil || core.RecvNamed(f) == nil || !strings.Contains(core.RecvNamed(f).Obj().Name(), "DictionaryField") {
				return false
			}
			for _, a := range cl.Call.Args {
				if !isInt(a.Type()) {
					continue
				}
				if core.DerivesFrom(a, func(v ssa.Value) bool {
					c2, ok := v.(*ssa.Call)
					if !ok {
						return false
					}
					g := core.CalleeObj(c2)
					if g == nil || g.Name() != "Len" {
						return false
					}
					// the length of the dictionary, not of the index column
					recv := core.CallRecv(c2)
					return recv != nil && core.DerivesFrom(recv, func(w ssa.Value) bool {
						c3, ok := w.(*ssa.Call)
						return ok && core.CalleeObj(c3) != nil && core.CalleeObj(c3).Name() == "Dictionary"
					})
				}) {
					return true
				}
			}
			return false
		}
		nArm := 0
		for _, f := range core.WithClosures(scan) {
			f := f
			core.EachInstr(f, func(i ssa.Instruction) {
				ta, ok := i.(*ssa.TypeAssert)
				if !ok || core.TypeName(ta.AssertedType) != "Dictionary" || !strings.HasPrefix(core.TypePkgPath(ta.AssertedType), core.ArrowPath) {
					return
				}
				var start ssa.Instruction
				if ta.CommaOk {
					for _, r := range core.Referrers(ta) {
						if e, ok := r.(*ssa.Extract); ok && e.Index == 1 {
							for _, r2 := range core.Referrers(e) {
								if iff, ok := r2.(*ssa.If); ok {
									start = iff.Block().Succs[0].Instrs[0]
								}
							}
						}
					}
				} else {
					start = ta
				}
				if start == nil {
					return
				}
				nArm++
				helperReports := func(i ssa.Instruction) bool {
					if isReport(i) {
						return true
					}
					cl, ok := i.(*ssa.Call)
					if !ok {
						return false
					}
					h := cl.Call.StaticCallee()
					if h == nil || len(h.Blocks) == 0 || h == scan || !core.InRepo(core.FnPkgPath(h)) {
						return false
					}
					rep := false
					core.EachInstr(h, func(j ssa.Instruction) {
						if c2, ok := j.(*ssa.Call); ok {
							if g := core.CalleeObj(c2); g != nil && core.RecvNamed(g) != nil && strings.Contains(core.RecvNamed(g).Obj().Name(), "DictionaryField") && len(c2.Call.Args) > 1 {
								rep = true
							}
						}
					})
					if !rep {
						return false
					}
					miss, _ := (core.PathQuery{Fn: h, ExitReturnOnly: true, Avoid: func(j ssa.Instruction) bool {
						c2, ok := j.(*ssa.Call)
						if !ok {
							return false
						}
						g := core.CalleeObj(c2)
						return g != nil && core.RecvNamed(g) != nil && strings.Contains(core.RecvNamed(g).Obj().Name(), "DictionaryField") && len(c2.Call.Args) > 1
					}}).Exists()
					return !miss
				}
				if helperReports(start) {
					c.OK(fmt.Sprintf("measured#%d", nArm), p.Pos(ta.Pos()), core.FuncName(f), "every path of the dictionary-column arm reports the dictionary's length to the transform")
					return
				}
				miss, _ := (core.PathQuery{Fn: f, From: start, ExitReturnOnly: true, Avoid: helperReports}).Exists()
				c.Check(!miss, fmt.Sprintf("measured#%d", nArm), p.Pos(ta.Pos()), core.FuncName(f), "every path of the dictionary-column arm reports the dictionary's length to the transform",
					"a dictionary column can pass the scan without its dictionary's length being reported to the transform (the report is made under a further condition): the limit and the index width are not evaluated for that record — the record rebuilt after a dictionary restart, or a dictionary whose length happens to repeat, is sent over the limit")
			})
		}
		if nArm == 0 {
			c.Undecided("measured", p.Pos(scan.Pos()), core.FuncName(scan), "no `*array.Dictionary` arm found in the dictionary scan")
		}
	}
	for _, kind := range []string{"StructType", "ListType", "UnionType", "MapType"} {
		iff := arms[kind]
		if iff == nil && kind == "UnionType" {
			// concrete arms are as good as the interface arm only when every implementer has one: the schema
			// projection (NewFieldFrom / NewTransformTreeFrom) descends into sparse and dense unions alike
			if arms["SparseUnionType"] != nil && arms["DenseUnionType"] != nil {
				iff = arms["SparseUnionType"]
			} else if arms["SparseUnionType"] != nil || arms["DenseUnionType"] != nil {
				c.Viol("arm="+kind, p.Pos(scan.Pos()), core.FuncName(scan), "the dictionary scan descends into one kind of union only (sparse or dense), while the schema projection supports both: dictionaries nested under the other kind are never measured and can outgrow their index width and the configured limit")
				continue
			}
		}
		key := "arm=" + kind
		if iff == nil {
			c.Viol(key, p.Pos(scan.Pos()), core.FuncName(scan), "the dictionary scan has no arm for "+kind+": dictionaries nested under such a column are never measured and can outgrow their index width and the configured limit")
			continue
		}
		// the recursive calls of the arm: in the arm itself, or in a helper of the package that the arm calls
		// and that calls the scan back (one helper per composite kind)
		var recs []*ssa.Call
		core.EachInstr(scan, func(i ssa.Instruction) {
			cl, ok := i.(*ssa.Call)
			if !ok || !core.GuardedBy(iff, true, cl) {
				return
			}
			h := cl.Call.StaticCallee()
			if h == scan {
				recs = append(recs, cl)
				return
			}
			if h == nil || h.Blocks == nil || core.FnPkgPath(h) != pkgBuilder {
				return
			}
			core.EachInstr(h, func(j ssa.Instruction) {
				if c2, ok := j.(*ssa.Call); ok && c2.Call.StaticCallee() == scan {
					recs = append(recs, c2)
				}
			})
		})
		n := len(recs)
		want := 1
		if kind == "MapType" {
			want = 2
		}
		c.Check(n >= want, key, p.Pos(iff.Cond.Pos()), core.FuncName(scan), fmt.Sprintf("%s arm recurses (%d call(s))", kind, n),
			fmt.Sprintf("the %s arm of the dictionary scan recurses %d time(s), expected at least %d: some children are never measured", kind, n, want))
		// children visited in a loop: field i is paired with child i, for every i
		if kind == "StructType" || kind == "UnionType" {
			for _, cl := range recs {
				cl := cl
				func() {
					fAcc, ok := core.ElemAccessOf(firstElem(scanFieldArg(cl)))
					if !ok || fAcc.Phi == nil {
						c.Undecided(key+"|pairing", p.Pos(cl.Pos()), core.FuncName(scan), "the child field handed to the recursive scan is not an element of a field list indexed by a loop variable")
						return
					}
					var child *ssa.Call
					core.BackSlice(scanColumnArg(cl), func(v ssa.Value) bool {
						if c2, ok := v.(*ssa.Call); ok && child == nil && len(core.CallArgs(c2)) >= 1 {
							if f := core.CalleeObj(c2); f != nil && f.Name() == "Field" {
								child = c2
								return false
							}
						}
						return child == nil
					})
					if child == nil {
						c.Undecided(key+"|pairing", p.Pos(cl.Pos()), core.FuncName(scan), "the child column handed to the recursive scan is not taken with Field(i)")
						return
					}
					args := core.CallArgs(child)
					idx := core.StripConv(args[len(args)-1])
					// both indices in the form φ + c (a range loop counts from -1 and uses φ+1)
					iphi, ioff, iok := core.AffineIn(idx)
					same := iok && iphi == fAcc.Phi && ioff == fAcc.Off
					msg := fmt.Sprintf("the %s arm pairs child field i with child column i", kind)
					bad := fmt.Sprintf("the %s arm pairs child field i with the child column at a different position (%s): the dictionary of a child is measured against the wrong column or not at all", kind, idx.String())
					if same {
						if ind, ok := core.InductionOf(fAcc.Phi); ok {
							if lo, hi, ok := ind.Coverage(fAcc); !ok || lo > 0 || hi < 0 {
								same, bad = false, fmt.Sprintf("the %s arm does not visit every child", kind)
							}
						}
					}
					c.Check(same, key+"|pairing", p.Pos(cl.Pos()), core.FuncName(scan), msg, bad)
				}()
			}
		}
	}
	// leaf: cardinality = length of the dictionary
	var setCard *ssa.Call
	core.EachInstr(scan, func(i ssa.Instruction) {
		if cl, ok := i.(*ssa.Call); ok && cl.Call.StaticCallee() != nil && core.FnPkgPath(cl.Call.StaticCallee()) == pkgTransform && len(cl.Call.Args) == 3 {
			if b, _ := intBits(cl.Call.Args[1].Type()); b == 64 {
				setCard = cl
			}
		}
	})
	if setCard == nil {
		c.Viol("leaf|cardinality", p.Pos(scan.Pos()), core.FuncName(scan), "the dictionary scan never reports a cardinality to the dictionary transform")
	} else {
		okLen := core.DerivesFrom(setCard.Call.Args[1], func(v ssa.Value) bool {
			cl, ok := v.(*ssa.Call)
			if !ok || !cl.Call.IsInvoke() || cl.Call.Method.Name() != "Len" {
				return false
			}
			d, ok := cl.Call.Value.(*ssa.Call)
			return ok && core.CalleeObj(d) != nil && core.CalleeObj(d).Name() == "Dictionary"
		})
		c.Check(okLen, "leaf|cardinality", p.Pos(setCard.Pos()), core.FuncName(scan), "the reported cardinality is the dictionary's own length", "the cardinality reported to the transform is not Dictionary().Len(): overflow detection compares the wrong quantity with the index capacity")
	}
	// Transform tags every dictionary field it creates
	tf := p.Func(pkgTransform, "DictionaryField", "Transform")
	if tf == nil {
		c.Undecided("tag", "?", "", "DictionaryField.Transform not found")
		return
	}
	n, bad := 0, 0
	core.EachInstr(tf, func(i ssa.Instruction) {
		al, ok := i.(*ssa.Alloc)
		if !ok || core.TypeName(al.Type()) != "Field" || !al.Heap {
			return
		}
		var typV, mdV ssa.Value
		for _, r := range core.Referrers(al) {
			if fa, ok := r.(*ssa.FieldAddr); ok {
				for _, r2 := range core.Referrers(fa) {
					if s, ok := r2.(*ssa.Store); ok && s.Addr == ssa.Value(fa) {
						switch core.FieldName(fa) {
						case "Type":
							typV = s.Val
						case "Metadata":
							mdV = s.Val
						}
					}
				}
			}
		}
		isDict := false
		if typV != nil {
			core.BackSlice(typV, func(v ssa.Value) bool {
				if a2, ok := v.(*ssa.Alloc); ok && core.TypeName(a2.Type()) == "DictionaryType" {
					isDict = true
				}
				return true
			})
		}
		if !isDict {
			return
		}
		n++
		tagged := mdV != nil && core.DerivesFrom(mdV, func(v ssa.Value) bool {
			g, ok := v.(*ssa.Const)
			return ok && g.Value != nil && g.Value.Kind() == constant.String && constant.StringVal(g.Value) == "dictId"
		}) && core.DerivesFrom(mdV, func(v ssa.Value) bool {
			fa, ok := v.(*ssa.FieldAddr)
			return ok && core.FieldName(fa) == "DictID"
		})
		if !tagged {
			bad++
		}
	})
	c.Check(n > 0 && bad == 0, "tag", p.Pos(tf.Pos()), core.FuncName(tf), fmt.Sprintf("all %d dictionary fields created by the transform carry the dictionary id", n),
		fmt.Sprintf("%d of %d dictionary fields created by the transform do not carry the dictionary-id metadata the scan looks up: their dictionaries are never measured", bad, n))
}

// helperCallSites: for an unexported package-level function, the number of its static call sites in the
// repository (a construct inside such a helper stands for that many uses); 1 otherwise.
func helperCallSites(p *core.Prog, fn *ssa.Function) int {
	if fn.Signature.Recv() != nil || fn.Parent() != nil || fn.Object() == nil || fn.Object().Exported() {
		return 1
	}
	n := 0
	if nd := p.CHA().Nodes[fn]; nd != nil {
		for _, e := range nd.In {
			if e.Site != nil && e.Site.Common().StaticCallee() == fn && e.Caller.Func.Pkg == fn.Pkg {
				n++
			}
		}
	}
	if n < 1 {
		return 1
	}
	return n
}

func c13_3(c *core.Ctx, p *core.Prog) {
	n := 0
	for _, fn := range rootFuncs(c, p) {
		core.EachInstr(fn, func(i ssa.Instruction) {
			cl, ok := i.(*ssa.Call)
			if !ok || cl.Call.StaticCallee() == nil || cl.Call.StaticCallee().Name() != "NewRecordBuilderExt" || core.FnPkgPath(cl.Call.StaticCallee()) != pkgBuilder {
				return
			}
			n++
			key := fmt.Sprintf("site#%d@%s", n, core.FuncName(fn))
			pos := p.Pos(cl.Pos())
			var dict *ssa.Call
			for _, arg := range cl.Call.Args {
				if d, ok := arg.(*ssa.Call); ok && d.Call.StaticCallee() != nil && d.Call.StaticCallee().Name() == "NewDictionary" {
					dict = d
				}
			}
			if dict == nil {
				c.Viol(key, pos, core.FuncName(fn), "the record builder is not configured with config.NewDictionary(limit, threshold): the configured dictionary limit does not apply to this record")
				return
			}
			fromField := func(v ssa.Value, name string) bool {
				fa := core.LoadedField(core.StripConv(v))
				return fa != nil && core.FieldName(fa) == name && core.TypePkgPath(fa.X.Type()) == pkgConfig
			}
			okL := fromField(dict.Call.Args[0], "LimitIndexSize")
			okT := fromField(dict.Call.Args[1], "DictResetThreshold")
			var msgs []string
			if !okL {
				msgs = append(msgs, "the dictionary limit is not the configured LimitIndexSize")
			}
			if !okT {
				msgs = append(msgs, "the reset threshold is not the configured DictResetThreshold")
			}
			// allocator plumbing (C15.5)
			if fa := core.LoadedField(cl.Call.Args[0]); fa == nil || core.FieldName(fa) != "Pool" {
				msgs = append(msgs, "the record builder does not use the configured allocator (Pool)")
			}
			c.Check(len(msgs) == 0, key, pos, core.FuncName(fn), "configured limit, threshold and allocator reach this record builder", strings.Join(msgs, "; "))
			c.LastCovers(helperCallSites(p, fn))
		})
	}
}

func c13_4(c *core.Ctx, p *core.Prog) {
	sp := p.SSAPkg(pkgTransform)
	if sp == nil {
		c.Undecided("pkg", "?", "", "transform package not loaded")
		return
	}
	initFn := sp.Func("init")
	// element stores into the two tables
	types16 := map[int64]string{}
	cards := map[int64]string{}
	core.EachInstr(initFn, func(i ssa.Instruction) {
		s, ok := i.(*ssa.Store)
		if !ok {
			return
		}
		ia, ok := s.Addr.(*ssa.IndexAddr)
		if !ok {
			return
		}
		k, isC := core.ConstInt(ia.Index)
		if !isC {
			return
		}
		if cst, ok := s.Val.(*ssa.Const); ok && cst.Value != nil && cst.Value.Kind() == constant.Int {
			cards[k] = cst.Value.ExactString()
			return
		}
		core.BackSlice(s.Val, func(v ssa.Value) bool {
			if fa, ok := v.(*ssa.FieldAddr); ok && strings.HasPrefix(core.FieldName(fa), "Uint") {
				types16[k] = core.FieldName(fa)
				return false
			}
			return true
		})
	})
	want := map[string]string{"Uint8": "255", "Uint16": "65535", "Uint32": "4294967295", "Uint64": "18446744073709551615"}
	var msgs []string
	if len(types16) < 2 || len(types16) != len(cards) {
		msgs = append(msgs, fmt.Sprintf("index tables not recognised (%d types, %d capacities)", len(types16), len(cards)))
	}
	prev := ""
	for k := int64(0); k < int64(len(types16)); k++ {
		if want[types16[k]] != cards[k] {
			msgs = append(msgs, fmt.Sprintf("position %d: index type %s has capacity %s in the table, its real capacity is %s", k, types16[k], cards[k], want[types16[k]]))
		}
		if prev != "" && len(cards[k]) < len(prev) {
			msgs = append(msgs, "capacities are not increasing")
		}
		prev = cards[k]
	}
	pos := "pkg/otel/common/schema/transform/dictionary.go"
	c.Check(len(msgs) == 0, "tables", pos, "AllIndexTypes/AllIndexMaxCard", fmt.Sprintf("%d index types with capacity 2^bits−1 each", len(types16)), strings.Join(msgs, "; ")+" — a dictionary could hold more entries than its index type can address")
	// findIndex
	fi := indexFunctionOf(p)
	if fi == nil {
		fi = sp.Func("findIndex")
	}
	if fi == nil {
		c.Undecided("findIndex", pos, "", "findIndex not found")
	} else {
		msgs = nil
		seenRet := map[int64]bool{}
		for _, b := range fi.Blocks {
			iff := core.IfOf(b)
			if iff == nil {
				continue
			}
			cmp, ok := iff.Cond.(*ssa.BinOp)
			if !ok || cmp.Op != token.LEQ || cmp.X != ssa.Value(fi.Params[0]) {
				msgs = append(msgs, "a test of findIndex is not `card <= capacity`")
				continue
			}
			cst, _ := cmp.Y.(*ssa.Const)
			ret, okR := b.Succs[0].Instrs[len(b.Succs[0].Instrs)-1].(*ssa.Return)
			if cst == nil || !okR {
				msgs = append(msgs, "findIndex form not recognised")
				continue
			}
			k, _ := core.ConstInt(ret.Results[0])
			seenRet[k] = true
			if cards[k] != cst.Value.ExactString() {
				msgs = append(msgs, fmt.Sprintf("findIndex returns %d for card <= %s, but table capacity at %d is %s", k, cst.Value.ExactString(), k, cards[k]))
			}
		}
		for _, r := range core.Returns(fi) {
			if k, ok := core.ConstInt(r.Results[0]); ok {
				seenRet[k] = true
			}
		}
		for k := int64(0); k < int64(len(cards)); k++ {
			if !seenRet[k] {
				msgs = append(msgs, fmt.Sprintf("findIndex never returns %d", k))
			}
		}
		c.Check(len(msgs) == 0, "findIndex", p.Pos(fi.Pos()), core.FuncName(fi), "maps each capacity interval to the least index", strings.Join(msgs, "; "))
	}
	// windows: every slice-typed field of a transform-package struct that is filled from a package-level
	// table holds table[f(min) : f(max)+1] with f the validated index function, and all such fields
	// of one struct are cut with the same (min, max) — the types a column may use stay aligned with
	// their capacities. The stored value is followed through package helpers (generic or not), each
	// parameter standing for the argument of the call it was reached through.
	type windowT struct {
		table  *ssa.Global
		fn     *ssa.Function
		lo, hi ssa.Value
		field  *types.Var
		pos    token.Pos
		host   *ssa.Function
	}
	var wins []windowT
	var bad []string
	for _, fn := range p.FuncsIn(func(pp string) bool { return pp == pkgTransform }) {
		fn := fn
		core.EachInstr(fn, func(i ssa.Instruction) {
			st, ok := i.(*ssa.Store)
			if !ok {
				return
			}
			fa, ok := st.Addr.(*ssa.FieldAddr)
			if !ok {
				return
			}
			if _, isSl := core.FieldVar(fa).Type().Underlying().(*types.Slice); !isSl {
				return
			}
			tbl, f, lo, hi, why := tableWindow(st.Val, nil, 0)
			if tbl == nil {
				return // not filled from a package table (or not a window at all: C16.2 watches aliasing of the tables)
			}
			if why != "" {
				bad = append(bad, fmt.Sprintf("%s: %s.%s: %s", p.Pos(st.Pos()), core.TypeName(fa.X.Type()), core.FieldName(fa), why))
				return
			}
			wins = append(wins, windowT{tbl, f, lo, hi, core.FieldVar(fa), st.Pos(), fn})
		})
	}
	if len(wins) < 2 && len(bad) == 0 {
		c.Undecided("range", pos, "", fmt.Sprintf("expected the two index windows (types, capacities) of the dictionary transform, found %d fields cut from a package table", len(wins)))
	}
	for _, b := range bad {
		c.Viol("range|"+b, pos, "", b+": the widths a column may use would not match its capacities")
	}
	for k, w := range wins {
		var msgs []string
		if fi != nil && w.fn != fi {
			msgs = append(msgs, fmt.Sprintf("the bounds are computed by %s, not by the index function %s", w.fn.Name(), fi.Name()))
		}
		if core.SameValue(w.lo, w.hi) || core.AccessPath(w.lo) != "" && core.AccessPath(w.lo) == core.AccessPath(w.hi) {
			msgs = append(msgs, "lower and upper bound come from the same value")
		}
		for j, o := range wins {
			if j == k {
				continue
			}
			if !(core.SameValue(w.lo, o.lo) || core.AccessPath(w.lo) != "" && core.AccessPath(w.lo) == core.AccessPath(o.lo)) ||
				!(core.SameValue(w.hi, o.hi) || core.AccessPath(w.hi) != "" && core.AccessPath(w.hi) == core.AccessPath(o.hi)) {
				msgs = append(msgs, fmt.Sprintf("cut with other bounds than the window of %s", o.field.Name()))
			}
			if o.table == w.table && o.field != w.field {
				msgs = append(msgs, fmt.Sprintf("cut from the same table as %s", o.field.Name()))
			}
		}
		c.Check(len(msgs) == 0, "range="+w.field.Name(), p.Pos(w.pos), core.FuncName(w.host), w.table.Name()+"[findIndex(min) : findIndex(max)+1]",
			w.field.Name()+" is not "+w.table.Name()+"[findIndex(min) : findIndex(max)+1] with the bounds of its sibling: "+strings.Join(msgs, "; ")+" — the widths a column may use would not match its capacities")
	}
	// constructors: MinCard ≤ MaxCard
	for _, fn := range p.FuncsIn(func(pp string) bool { return strings.HasSuffix(pp, "/schema/config") }) {
		if fn.Parent() != nil || core.TypeName(fn.Signature.Results().At(0).Type()) != "Dictionary" {
			continue
		}
		var minV, maxV ssa.Value
		core.EachInstr(fn, func(i ssa.Instruction) {
			if s, ok := i.(*ssa.Store); ok {
				if fa, ok := s.Addr.(*ssa.FieldAddr); ok {
					switch core.FieldName(fa) {
					case "MinCard":
						minV = s.Val
					case "MaxCard":
						maxV = s.Val
					}
				}
			}
		})
		okM := false
		if ph, ok := minV.(*ssa.Phi); ok && maxV != nil {
			// one edge is the max value, taken on the true arm of max < other
			for k, e := range ph.Edges {
				if e != maxV && !core.SameValue(e, maxV) {
					continue
				}
				pred := ph.Block().Preds[k]
				for _, b := range fn.Blocks {
					iff := core.IfOf(b)
					if iff == nil {
						continue
					}
					cmp, ok := iff.Cond.(*ssa.BinOp)
					if ok && cmp.Op == token.LSS && (cmp.X == maxV || core.SameValue(cmp.X, maxV)) && (b.Succs[0] == pred || b.Succs[0] == ph.Block() && b == pred) {
						okM = true
					}
				}
			}
		}
		c.Check(okM, "minmax="+core.FuncName(fn), p.Pos(fn.Pos()), core.FuncName(fn), "MinCard = min(requested, MaxCard)", "the constructor can yield MinCard > MaxCard (the 'minCard > maxCard' panic becomes reachable, or a column starts wider than the limit allows)")
	}
}

func c13_5(c *core.Ctx, p *core.Prog) {
	var fn *ssa.Function
	for _, f := range p.FuncsIn(func(pp string) bool { return pp == pkgTransform }) {
		if f.Signature.Recv() == nil || core.TypeName(f.Signature.Recv().Type()) != "DictionaryField" {
			continue
		}
		// requests made here or in the small same-type helpers this method calls (`t.requestReset()`, `t.overflow(…)`);
		// a helper that only requests is not the update function itself
		n, branches := 0, 0
		for _, b := range f.Blocks {
			if core.IfOf(b) != nil {
				branches++
			}
		}
		core.EachCall(f, func(ci ssa.CallInstruction) {
			if dictRequests(ci, f, 0) {
				n++
			}
		})
		if n >= 2 && branches >= 2 {
			fn = f
		}
	}
	if fn == nil {
		c.Undecided("anchor", "?", "", "index-type update function not found")
		return
	}
	pos := p.Pos(fn.Pos())
	// the advance loop: store currentIndex = currentIndex + 1 guarded by cardinality > indexMaxCard[currentIndex]
	var cardCmp *ssa.BinOp
	var lastIf *ssa.If
	pastOnTrue := true
	for _, b := range fn.Blocks {
		iff := core.IfOf(b)
		if iff == nil {
			continue
		}
		cmp, ok := iff.Cond.(*ssa.BinOp)
		if !ok {
			continue
		}
		if fa := core.LoadedField(cmp.X); fa != nil && core.FieldName(fa) == "cardinality" {
			cardCmp = cmp
		}
		// `if idx >= len(tbl) { past the last width }` or the guard-clause form `if idx < len(tbl) { …; return }`
		if cmp.Op == token.GEQ || cmp.Op == token.LSS {
			if fa := core.LoadedField(cmp.X); fa != nil {
				if _, _, okL := core.LenOf(cmp.Y); okL {
					// not the bound test of the advance loop itself (`for idx < len(tbl) && card > cap[idx] { idx++ }`)
					inLoop := core.Reachable(fn, b.Succs[0].Instrs[0], iff) || core.Reachable(fn, b.Succs[1].Instrs[0], iff)
					if !inLoop || cmp.Op == token.GEQ {
						lastIf = iff
						pastOnTrue = cmp.Op == token.GEQ
					}
				}
			}
		}
	}
	var msgs []string
	if cardCmp == nil {
		msgs = append(msgs, "no comparison of the observed cardinality with a capacity")
	} else {
		if cardCmp.Op != token.GTR && cardCmp.Op != token.GEQ {
			msgs = append(msgs, "the width does not advance when cardinality exceeds the capacity")
		}
		okCap := false
		if u, ok := cardCmp.Y.(*ssa.UnOp); ok && u.Op == token.MUL {
			if ia, ok := u.X.(*ssa.IndexAddr); ok {
				if fa := core.LoadedField(ia.X); fa != nil {
					if sl, ok := core.FieldVar(fa).Type().Underlying().(*types.Slice); ok {
						if b, _ := intBits(sl.Elem()); b == 64 && core.LoadedField(ia.Index) != nil {
							okCap = true
						}
					}
				}
			}
		}
		if !okCap {
			msgs = append(msgs, "the cardinality is not compared with the capacity of the current index width")
		}
	}
	c.Check(len(msgs) == 0, "advance", pos, core.FuncName(fn), "cardinality above the current capacity advances the index width", strings.Join(msgs, "; "))
	// past the last width: both arms request an update; one disables (nil), the other clamps the index
	msgs = nil
	if lastIf == nil {
		msgs = append(msgs, "no test for 'past the last allowed width'")
	} else {
		incs := 0
		disabled, clamped := false, false
		core.EachInstr(fn, func(i ssa.Instruction) {
			ins, _ := i.(ssa.Instruction)
			if !core.GuardedBy(lastIf, pastOnTrue, ins) {
				return
			}
			if cl, ok := i.(ssa.CallInstruction); ok && dictRequests(cl, fn, 0) {
				incs++
			}
			storeEv := func(s *ssa.Store) {
				if fa, ok := s.Addr.(*ssa.FieldAddr); ok {
					if _, isSl := core.FieldVar(fa).Type().Underlying().(*types.Slice); isSl && core.IsNilConst(s.Val) {
						disabled = true
					}
					if b, ok := s.Val.(*ssa.BinOp); ok && b.Op == token.SUB {
						if _, _, okL := core.LenOf(b.X); okL {
							clamped = true
						}
					}
				}
			}
			if s, ok := i.(*ssa.Store); ok {
				storeEv(s)
			}
			// … or in a same-type helper called under the test
			if cl, ok := i.(*ssa.Call); ok {
				if h := cl.Call.StaticCallee(); h != nil && h != fn && len(h.Blocks) > 0 && h.Signature.Recv() != nil && fn.Signature.Recv() != nil && types.Identical(h.Signature.Recv().Type(), fn.Signature.Recv().Type()) {
					core.EachInstr(h, func(j ssa.Instruction) {
						if s, ok := j.(*ssa.Store); ok {
							storeEv(s)
						}
					})
				}
			}
		})
		if incs < 2 {
			msgs = append(msgs, "not every arm past the last width requests a schema update")
		}
		if !disabled {
			msgs = append(msgs, "no arm disables the dictionary (overflow to the value type)")
		}
		if !clamped {
			msgs = append(msgs, "the reset arm does not bring the index back to the last allowed width")
		}
		// no path past the last width leaves without a request
		isInc := func(i ssa.Instruction) bool {
			cl, ok := i.(ssa.CallInstruction)
			return ok && dictRequests(cl, fn, 0)
		}
		pastEdge := 0
		if !pastOnTrue {
			pastEdge = 1
		}
		first := lastIf.Block().Succs[pastEdge].Instrs[0]
		if !isInc(first) {
			if ok, _ := (core.PathQuery{Fn: fn, From: first, Avoid: isInc, ExitReturnOnly: true}).Exists(); ok {
				msgs = append(msgs, "a path past the last allowed width neither resets nor disables the dictionary: it keeps growing beyond the limit")
			}
		}
	}
	c.Check(len(msgs) == 0, "past-last", pos, core.FuncName(fn), "past the last width the dictionary is reset or disabled, with a schema-update request", strings.Join(msgs, "; "))
	// SetCardinality stores the observed cardinality and re-evaluates
	sc := p.Func(pkgTransform, "DictionaryField", "SetCardinality")
	okS := false
	if sc != nil {
		stored, called := false, false
		core.EachInstr(sc, func(i ssa.Instruction) {
			if s, ok := i.(*ssa.Store); ok {
				if fa, ok := s.Addr.(*ssa.FieldAddr); ok && core.FieldName(fa) == "cardinality" && s.Val == ssa.Value(sc.Params[1]) {
					stored = true
				}
			}
			if cl, ok := i.(*ssa.Call); ok && cl.Call.StaticCallee() == fn {
				called = true
			}
		})
		// on every path: no early exit that skips the re-evaluation
		every := core.MustPassBetween(sc, nil, nil, func(i ssa.Instruction) bool {
			cl, ok := i.(*ssa.Call)
			return ok && cl.Call.StaticCallee() == fn
		})
		okS = stored && called && every
	}
	c.Check(okS, "set-cardinality", pos, core.FuncName(fn), "every measured cardinality is stored and re-evaluated", "SetCardinality does not store the measured cardinality and re-evaluate the index width on every path (e.g. it returns early when the cardinality is unchanged): after a reset that cannot help, the rebuilt record has the same cardinality, no overflow is raised and a dictionary larger than its index width is sent")
}

func c13_6(c *core.Ctx, p *core.Prog) {
	fn := p.Func(pkgBuilder, "RecordBuilderExt", "UpdateSchema")
	if fn == nil {
		c.Undecided("anchor", "?", "", "UpdateSchema not found")
		return
	}
	var mk, rel *ssa.Call
	var st *ssa.Store
	var idStore *ssa.Store
	core.EachInstr(fn, func(i ssa.Instruction) {
		switch x := i.(type) {
		case *ssa.Call:
			f := core.CalleeObj(x)
			if core.IsPkgFunc(f, arrowArray, "NewRecordBuilder") {
				mk = x
			}
			if core.IsMethodOf(f, arrowArray, "RecordBuilder", "Release") {
				rel = x
			}
		case *ssa.Store:
			if fa, ok := x.Addr.(*ssa.FieldAddr); ok {
				if core.TypeName(core.FieldVar(fa).Type()) == "RecordBuilder" {
					st = x
				}
				if b, ok := core.FieldVar(fa).Type().Underlying().(*types.Basic); ok && b.Kind() == types.String && core.FieldName(fa) != "label" {
					idStore = x
				}
			}
		}
	})
	pos := p.Pos(fn.Pos())
	var msgs []string
	if mk == nil || st == nil || st.Val != ssa.Value(mk) {
		msgs = append(msgs, "the record builder is not replaced by a fresh array.NewRecordBuilder")
	}
	if rel == nil || st == nil || !core.Reachable(fn, rel, st) {
		msgs = append(msgs, "the old record builder is not released before it is replaced (leak)")
	}
	if mk != nil {
		if fa := core.LoadedField(mk.Call.Args[0]); fa == nil || !strings.Contains(strings.ToLower(core.FieldName(fa)), "alloc") {
			msgs = append(msgs, "the fresh record builder does not use the builder's own allocator")
		}
		if !core.DerivesFrom(mk.Call.Args[1], func(v ssa.Value) bool {
			cl, ok := v.(*ssa.Call)
			return ok && cl.Call.StaticCallee() != nil && cl.Call.StaticCallee().Name() == "NewSchemaFrom"
		}) {
			msgs = append(msgs, "the fresh record builder is not built from the re-derived schema")
		}
	}
	if st != nil {
		// unconditional: a schema update is served in the middle of an aborted attempt (rows were appended to
		// the current builder and NewRecord reported "not up to date"); the fresh builder is what discards
		// them, also when the update changes nothing the schema id shows (a sorting-columns metadata change)
		if skip, _ := (core.PathQuery{Fn: fn, Avoid: func(i ssa.Instruction) bool { return i == ssa.Instruction(st) }, ExitReturnOnly: true}).Exists(); skip {
			msgs = append(msgs, "UpdateSchema can return without having replaced the record builder (a short-cut for an 'unchanged' schema): the rows the aborted attempt appended stay in the builder and are encoded a second time by the retry")
		}
	}
	c.Check(len(msgs) == 0, "fresh-builder", pos, core.FuncName(fn), "fresh array.RecordBuilder installed on every path, old one released", strings.Join(msgs, "; "))
	// schema id recomputed from the new schema (C04.4)
	okID := false
	if idStore != nil && mk != nil {
		if cl, ok := idStore.Val.(*ssa.Call); ok && len(cl.Call.Args) == 1 && cl.Call.Args[0] == mk.Call.Args[1] && core.Reachable(fn, st, idStore) {
			okID = true
		}
	}
	c.Check(okID, "schema-id", pos, core.FuncName(fn), "the schema id is recomputed from the new schema after the builder is replaced", "the schema id is not recomputed from the new schema when the record builder is replaced: a changed schema would continue the old IPC sub-stream (undecodable)")
	// nothing reachable migrates dictionary values
	reach := repoReach(p, p.CHA(), []*ssa.Function{fn})
	var mig []string
	for f := range reach {
		core.EachCall(f, func(ci ssa.CallInstruction) {
			if o := core.CalleeObj(ci); o != nil && o.Pkg() != nil && o.Pkg().Path() == arrowArray && strings.Contains(o.Name(), "DictValues") {
				mig = append(mig, p.Pos(ci.Pos()))
			}
		})
	}
	c.Check(len(mig) == 0, "no-migration", pos, core.FuncName(fn), fmt.Sprintf("%d functions reachable from UpdateSchema insert no dictionary values into the new builder", len(reach)),
		fmt.Sprintf("dictionary values are migrated into the fresh builder at %v: a reset or overflowed dictionary would start non-empty and keep growing past the limit", mig))
}

func c13_7(c *core.Ctx, p *core.Prog) {
	fn := p.Func(pkgTransform, "DictionaryField", "initIndices")
	if fn == nil {
		c.Undecided("anchor", "?", "", "initIndices not found")
		return
	}
	// the slice-field stores of non-nil values are guarded by MaxCard != 0
	ok := true
	n := 0
	core.EachInstr(fn, func(i ssa.Instruction) {
		s, okS := i.(*ssa.Store)
		if !okS || core.IsNilConst(s.Val) {
			return
		}
		fa, okF := s.Addr.(*ssa.FieldAddr)
		if !okF {
			return
		}
		if _, isSl := core.FieldVar(fa).Type().Underlying().(*types.Slice); !isSl {
			return
		}
		n++
		g := false
		for _, b := range fn.Blocks {
			iff := core.IfOf(b)
			if iff == nil {
				continue
			}
			cmp, okC := iff.Cond.(*ssa.BinOp)
			if !okC {
				continue
			}
			k, isC := core.ConstInt(cmp.Y)
			fa2 := core.LoadedField(cmp.X)
			if isC && k == 0 && fa2 != nil && core.FieldName(fa2) == "MaxCard" {
				if cmp.Op == token.EQL && core.GuardedBy(iff, false, s) {
					g = true
				}
				if cmp.Op == token.NEQ && core.GuardedBy(iff, true, s) {
					g = true
				}
			}
		}
		if !g {
			ok = false
		}
	})
	c.Check(ok && n >= 1, "no-dictionary", p.Pos(fn.Pos()), core.FuncName(fn), "index types are installed only when MaxCard != 0", "index types are installed although MaxCard == 0: WithNoDictionary would still send dictionaries")
	// Transform with no index types returns the value type for dictionary fields
	tf := p.Func(pkgTransform, "DictionaryField", "Transform")
	okT := false
	if tf != nil {
		core.EachInstr(tf, func(i ssa.Instruction) {
			s, ok := i.(*ssa.Store)
			if !ok {
				return
			}
			fa, ok := s.Addr.(*ssa.FieldAddr)
			if !ok || core.FieldName(fa) != "Type" {
				return
			}
			if f2 := core.LoadedField(s.Val); f2 != nil && core.FieldName(f2) == "ValueType" {
				// guarded by indexTypes == nil
				for _, b := range tf.Blocks {
					iff := core.IfOf(b)
					if iff == nil {
						continue
					}
					if cmp, ok := iff.Cond.(*ssa.BinOp); ok && core.IsNilConst(cmp.Y) && cmp.Op == token.EQL && core.GuardedBy(iff, true, s) {
						okT = true
					}
				}
			}
		})
	}
	c.Check(okT, "downgrade", "pkg/otel/common/schema/transform/dictionary.go", "Transform", "without index types a dictionary field becomes its value type", "with no index types the transform does not downgrade a dictionary field to its value type")
}

func init() {
	// mechanisms named by C04 (overflow detection / discard / rebuild; new schema ⇒ new schema id ⇒ new IPC stream)
	register("C04", &core.Rule{ID: "C04.4", Title: "a schema update installs fresh builders and recomputes the schema id", Mod: core.ModRoot, Floor: 3, Run: c13_6})
	register("C04", &core.Rule{ID: "C04.41", Title: "related schema keys are read after Build and carry their own prefix/type", Mod: core.ModRoot, Floor: 4, Run: c12_3})
	register("C04", &core.Rule{ID: "C04.42", Title: "a new schema key closes the same-type stream producers and takes the next schema id", Mod: core.ModRoot, Floor: 5, Run: c12_5})
	register("C04", &core.Rule{ID: "C04.7", Title: "index width advances on excess; reset or disable past the last width; every measurement re-evaluated", Mod: core.ModRoot, Floor: 3, Run: c13_5})
	register("C04", &core.Rule{ID: "C04.8", Title: "records are handed out only after the dictionary scan and an up-to-date check", Mod: core.ModRoot, Floor: 3, Run: c13_1})
	register("C08", &core.Rule{ID: "C08.12", Title: "the dictionary scan inspects every column before the record is judged (one rebuild handles all overflowing columns; the retry cap is not exceeded)", Mod: core.ModRoot, Floor: 3, Run: c13_1})
	for _, prop := range []string{"C01", "C02", "C03"} {
		register(prop, &core.Rule{ID: "RT.26", Title: "the dictionary scan inspects every column before the record is judged (a batch in which many dictionaries grow at once still encodes)", Mod: core.ModRoot, Floor: 3, Run: c13_1})
	}
}

// tableWindow follows v to a slice expression table[f(lo) : f(hi)+1] over a package-level variable.
// env maps the parameters of the helpers entered on the way to the arguments they were called with.
// Returns the table (nil: v is not cut from a package table), the index function, the two bound
// arguments (resolved to the outermost caller) and a reason when the form is not the expected one.
func tableWindow(v ssa.Value, env map[*ssa.Parameter]ssa.Value, depth int) (tbl *ssa.Global, f *ssa.Function, lo, hi ssa.Value, why string) {
	resolve := func(x ssa.Value) ssa.Value {
		for k := 0; k < 8; k++ {
			x = core.Strip(x)
			prm, ok := x.(*ssa.Parameter)
			if !ok || env[prm] == nil {
				return x
			}
			x = env[prm]
		}
		return x
	}
	v = resolve(v)
	if depth > 6 {
		return nil, nil, nil, nil, ""
	}
	switch x := v.(type) {
	case *ssa.Call:
		callee := x.Call.StaticCallee()
		if callee == nil || callee.Blocks == nil || !core.InRepo(core.FnPkgPath(callee)) {
			return nil, nil, nil, nil, ""
		}
		sub := map[*ssa.Parameter]ssa.Value{}
		for k, a := range env {
			sub[k] = a
		}
		for k, prm := range callee.Params {
			if k < len(x.Call.Args) {
				sub[prm] = resolve(x.Call.Args[k])
			}
		}
		first := true
		for _, r := range core.Returns(callee) {
			if len(r.Results) == 0 {
				continue
			}
			t2, f2, lo2, hi2, why2 := tableWindow(r.Results[0], sub, depth+1)
			if first {
				tbl, f, lo, hi, why = t2, f2, lo2, hi2, why2
				first = false
				continue
			}
			if t2 != tbl || f2 != f {
				return tbl, f, lo, hi, "the helper " + callee.Name() + " returns different windows on different paths"
			}
		}
		return
	case *ssa.Slice:
		base := resolve(x.X)
		if inner, ok := base.(*ssa.Slice); ok {
			// a window of a window: whatever the arithmetic, it is not the one form whose alignment is evident
			if t2, _, _, _, _ := tableWindow(inner, env, depth+1); t2 != nil {
				return t2, nil, nil, nil, "the table is cut in two steps (not table[f(min) : f(max)+1])"
			}
			if ld, ok := resolve(inner.X).(*ssa.UnOp); ok && ld.Op == token.MUL {
				if g, ok := ld.X.(*ssa.Global); ok {
					return g, nil, nil, nil, "the table is cut in two steps (not table[f(min) : f(max)+1])"
				}
			}
			return nil, nil, nil, nil, ""
		}
		ld, ok := base.(*ssa.UnOp)
		if !ok || ld.Op != token.MUL {
			return nil, nil, nil, nil, ""
		}
		g, ok := ld.X.(*ssa.Global)
		if !ok {
			return nil, nil, nil, nil, ""
		}
		tbl = g
		if x.Low == nil || x.High == nil {
			return tbl, nil, nil, nil, "the table is not cut on both sides"
		}
		lc, ok1 := core.Strip(x.Low).(*ssa.Call)
		hb, ok2 := core.Strip(x.High).(*ssa.BinOp)
		if !ok1 || !ok2 || hb.Op != token.ADD {
			return tbl, nil, nil, nil, "the bounds are not f(min) and f(max)+1"
		}
		hc, ok3 := core.Strip(hb.X).(*ssa.Call)
		one, isC := core.ConstInt(hb.Y)
		if !ok3 {
			hc, ok3 = core.Strip(hb.Y).(*ssa.Call)
			one, isC = core.ConstInt(hb.X)
		}
		if !ok3 || !isC || one != 1 || lc.Call.StaticCallee() == nil || lc.Call.StaticCallee() != hc.Call.StaticCallee() || len(lc.Call.Args) != 1 || len(hc.Call.Args) != 1 {
			return tbl, nil, nil, nil, "the bounds are not f(min) and f(max)+1 with one index function"
		}
		return tbl, lc.Call.StaticCallee(), resolve(lc.Call.Args[0]), resolve(hc.Call.Args[0]), ""
	}
	return nil, nil, nil, nil, ""
}

// indexFunctionOf: the function whose results bound the windows cut from the package tables of the
// transform package (resolved from the window stores, not by name).
func indexFunctionOf(p *core.Prog) *ssa.Function {
	var out *ssa.Function
	for _, fn := range p.FuncsIn(func(pp string) bool { return pp == pkgTransform }) {
		core.EachInstr(fn, func(i ssa.Instruction) {
			st, ok := i.(*ssa.Store)
			if !ok || out != nil {
				return
			}
			if _, ok := st.Addr.(*ssa.FieldAddr); !ok {
				return
			}
			if _, f, _, _, why := tableWindow(st.Val, nil, 0); f != nil && why == "" {
				out = f
			}
		})
	}
	return out
}

// isDictScanFn: a function of the builder package that takes a *arrow.Field and an arrow.Array (whatever else it
// takes, method or not) and calls itself: the recursive dictionary scan.
func isDictScanFn(fn *ssa.Function) bool {
	if fn == nil || len(fn.Blocks) == 0 || fn.Parent() != nil {
		return false
	}
	hasField, hasArray := false, false
	for _, prm := range fn.Params {
		t := prm.Type()
		if pt, ok := t.(*types.Pointer); ok && core.TypeName(pt.Elem()) == "Field" && strings.HasPrefix(core.TypePkgPath(pt.Elem()), core.ArrowPath) {
			hasField = true
		}
		if core.TypeName(t) == "Array" && strings.HasPrefix(core.TypePkgPath(t), core.ArrowPath) {
			hasArray = true
		}
	}
	if !hasField || !hasArray {
		return false
	}
	rec := false
	core.EachCall(fn, func(ci ssa.CallInstruction) {
		if ci.Common().StaticCallee() == fn {
			rec = true
		}
		// one helper per composite kind that calls the scan back
		if h := ci.Common().StaticCallee(); h != nil && h != fn && len(h.Blocks) > 0 && core.FnPkgPath(h) == core.FnPkgPath(fn) {
			core.EachCall(h, func(cj ssa.CallInstruction) {
				if cj.Common().StaticCallee() == fn {
					rec = true
				}
			})
		}
	})
	return rec
}

// scanFieldArg / scanColumnArg: the *arrow.Field and the arrow.Array argument of a call of the dictionary scan,
// wherever they stand in the argument list.
func scanFieldArg(cl *ssa.Call) ssa.Value {
	for _, a := range cl.Call.Args {
		if pt, ok := a.Type().(*types.Pointer); ok && core.TypeName(pt.Elem()) == "Field" {
			return a
		}
	}
	if len(cl.Call.Args) > 1 {
		return cl.Call.Args[1]
	}
	return cl.Call.Args[0]
}

func scanColumnArg(cl *ssa.Call) ssa.Value {
	for _, a := range cl.Call.Args {
		if core.TypeName(a.Type()) == "Array" && strings.HasPrefix(core.TypePkgPath(a.Type()), core.ArrowPath) {
			return a
		}
	}
	return cl.Call.Args[len(cl.Call.Args)-1]
}

// dictRequests: the call is a schema-update request (Inc), or a call of a same-type helper of host every path of
// which makes one.
func dictRequests(ci ssa.CallInstruction, host *ssa.Function, depth int) bool {
	if o := core.CalleeObj(ci); o != nil && o.Name() == "Inc" {
		return true
	}
	h := ci.Common().StaticCallee()
	if h == nil || h == host || len(h.Blocks) == 0 || depth > 1 || h.Signature.Recv() == nil || host.Signature.Recv() == nil || !types.Identical(h.Signature.Recv().Type(), host.Signature.Recv().Type()) {
		return false
	}
	return core.MustPassBetween(h, nil, nil, func(i ssa.Instruction) bool {
		cj, ok := i.(ssa.CallInstruction)
		return ok && dictRequests(cj, h, depth+1)
	})
}
