package rules

import (
	"fmt"
	"go/token"
	"go/types"
	"sort"
	"strings"

	"golang.org/x/tools/go/ssa"

	"otelcheck/internal/core"
)

// C18.9 who may use a contributor's context. A request's context travels with
// its pending entry and its contributor tuple. On the send/export path it may be
// copied into another such field, compared, asked for its trace span
// (trace.SpanFromContext, for links), handed to the tracer on the single-context
// arm (C18.2 decides when) and watched with Done() while that same contributor
// is being answered (C18.5). Any other use — waiting for the export slot with
// it, deriving a timeout from it, passing it downstream on the merged arm —
// lets one caller's context decide something for the whole batch.
func c18_9(c *core.Ctx, p *core.Prog) {
	a := newCBPAnchors(p)
	if !a.ok(c) {
		return
	}
	if a.sendFn == nil || a.exportFn == nil {
		c.Undecided("anchors", "?", "", "send function / export goroutine not resolved")
		return
	}
	// request-context fields: context.Context fields of package structs that travel with a request
	// (structs that also hold a response channel, a request payload or an item count), not the shard's own
	reqCtx := map[*types.Var]string{}
	sc := a.pkg.Pkg.Scope()
	for _, name := range sc.Names() {
		tn, ok := sc.Lookup(name).(*types.TypeName)
		if !ok {
			continue
		}
		st, ok := tn.Type().Underlying().(*types.Struct)
		if !ok || tn.Type() == types.Type(a.shard) {
			continue
		}
		hasChan := false
		for i := 0; i < st.NumFields(); i++ {
			if _, isCh := st.Field(i).Type().Underlying().(*types.Chan); isCh {
				hasChan = true
			}
		}
		if !hasChan {
			continue
		}
		for i := 0; i < st.NumFields(); i++ {
			if isCtx(st.Field(i).Type()) {
				reqCtx[st.Field(i)] = name + "." + st.Field(i).Name()
			}
		}
	}
	if len(reqCtx) == 0 {
		c.Undecided("anchors|fields", "?", "", "no request-context field found")
		return
	}
	// functions on the send/export path: the sending function, its closures, and package functions they call
	fnSet := map[*ssa.Function]bool{}
	var add func(f *ssa.Function, depth int)
	add = func(f *ssa.Function, depth int) {
		if f == nil || fnSet[f] || core.FnPkgPath(f) != core.CBPPath || depth > 3 {
			return
		}
		fnSet[f] = true
		for _, cf := range f.AnonFuncs {
			add(cf, depth)
		}
		core.EachInstr(f, func(i ssa.Instruction) {
			if ci, ok := i.(ssa.CallInstruction); ok {
				add(core.StaticCallee(ci), depth+1)
			}
		})
	}
	add(a.sendFn, 0)
	var fns []*ssa.Function
	for f := range fnSet {
		fns = append(fns, f)
	}
	sort.Slice(fns, func(i, j int) bool { return fns[i].Pos() < fns[j].Pos() })
	n := 0
	for _, fn := range fns {
		core.EachInstr(fn, func(i ssa.Instruction) {
			var fv *types.Var
			var val ssa.Value
			switch x := i.(type) {
			case *ssa.UnOp:
				if fa, ok := x.X.(*ssa.FieldAddr); ok && x.Op == token.MUL {
					fv, val = core.FieldVar(fa), x
				}
			case *ssa.Field:
				fv, val = core.FieldVar(x), x
			}
			if fv == nil || reqCtx[fv] == "" {
				return
			}
			n++
			var bad []string
			seen := map[ssa.Value]bool{}
			var follow func(v ssa.Value)
			follow = func(v ssa.Value) {
				if seen[v] {
					return
				}
				seen[v] = true
				for _, r := range core.Referrers(v) {
					switch u := r.(type) {
					case *ssa.Phi, *ssa.MakeInterface, *ssa.ChangeInterface, *ssa.ChangeType:
						follow(u.(ssa.Value))
					case *ssa.BinOp:
						// comparison
					case *ssa.Store:
						if u.Val != v {
							continue
						}
						switch ad := u.Addr.(type) {
						case *ssa.FieldAddr:
							if reqCtx[core.FieldVar(ad)] == "" {
								bad = append(bad, "stored into "+core.FieldName(ad))
							}
						case *ssa.Alloc:
							for _, r2 := range core.Referrers(ad) {
								if ld, ok := r2.(*ssa.UnOp); ok && ld.Op == token.MUL {
									follow(ld)
								}
							}
						case *ssa.FreeVar:
						default:
							// element of a local slice etc.: follow nothing further
						}
					case ssa.CallInstruction:
						cc := u.Common()
						if cc.IsInvoke() && cc.Value == v {
							if cc.Method.Name() != "Done" && cc.Method.Name() != "Err" && cc.Method.Name() != "Value" {
								bad = append(bad, "method "+cc.Method.Name())
							}
							continue
						}
						f := core.CalleeObj(u)
						name := "a function value"
						if f != nil {
							name = f.Name()
							if f.Pkg() != nil {
								name = f.Pkg().Name() + "." + f.Name()
							}
						}
						switch {
						case f != nil && f.Name() == "SpanFromContext":
						case f != nil && f.Name() == "Start" && strings.Contains(f.FullName(), "Tracer"):
						case f != nil && f.Pkg() != nil && f.Pkg().Path() == core.CBPPath:
							// a package function: its own uses are analysed when it is on the path
						default:
							bad = append(bad, "passed to "+name)
						}
					}
				}
			}
			follow(val)
			sort.Strings(bad)
			c.Check(len(bad) == 0, fmt.Sprintf("fn=%s|field=%s#%d", core.FuncName(fn), reqCtx[fv], n), p.Pos(i.Pos()), core.FuncName(fn),
				"the request context is only copied, compared, asked for its span, watched for the same contributor or handed to the tracer",
				fmt.Sprintf("a contributor's request context (%s) is %s on the send/export path: one caller's context (its cancellation, deadline or values) then decides something for the whole merged batch", reqCtx[fv], strings.Join(bad, ", ")))
		})
	}
	c.Stats["C18.9 request-context reads"] = n
}

func init() {
	register("C18", &core.Rule{ID: "C18.9", Title: "a contributor's context is only copied, compared, linked, watched for its own reply or handed to the tracer on the single arm", Mod: core.ModCBP, Floor: 5, Run: c18_9})
}
