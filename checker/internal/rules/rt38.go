package rules

import (
	"fmt"
	"go/types"
	"strings"

	"golang.org/x/tools/go/ssa"

	"otelcheck/internal/core"
)

// RT.38 — looking something up in a decoder-side store does not change the store.
//
// The related rows of a batch (attributes, events, links, data points, exemplars) are loaded
// into stores keyed by parent id before the main record is decoded, and the row decoders then
// look them up. An id is looked up as often as the main record refers to it: the logs, traces
// and metrics encoders do not repeat an unchanged scope under the next resource (scope-id delta
// 0), so the same scope id is resolved once per resource. A lookup that removes (or replaces)
// the entry it hands out answers the first reference and leaves the others empty — silently,
// and only for batches in which one id has several referrers.
//
// Rule: a function of the decode path that returns what it looked up in a map held in a field
// of a repository struct (a store) neither deletes from nor inserts into that same map.

const rt38Canary = `package c

type store struct {
	byID   map[uint16]*int
	lastID uint16
}

// BadByDeltaID consumes the entry it returns.
func BadByDeltaID(s *store, d uint16) *int {
	s.lastID += d
	if m, ok := s.byID[s.lastID]; ok {
		delete(s.byID, s.lastID)
		return m
	}
	return nil
}

// GoodByDeltaID only advances its delta cursor.
func GoodByDeltaID(s *store, d uint16) *int {
	s.lastID += d
	if m, ok := s.byID[s.lastID]; ok {
		return m
	}
	return nil
}
`

func rt_38(c *core.Ctx, p *core.Prog) {
	reach := repoReach(p, p.CHA(), consumerEntries(p))
	fns := sortedFuncs(p, reach)
	fns = append(fns, p.FuncsIn(func(pp string) bool { return core.IsCanaryPath(pp) && c.InScope(pp) })...)
	for _, fn := range fns {
		if (fn.Synthetic != "" && !strings.HasPrefix(fn.Synthetic, "instance of")) || fn.Signature.Results().Len() == 0 {
			continue
		}
		// maps held in struct fields that the function reads with a lookup whose result it returns
		read := map[*types.Var]*ssa.Lookup{}
		core.EachInstr(fn, func(i ssa.Instruction) {
			lk, ok := i.(*ssa.Lookup)
			if !ok {
				return
			}
			if _, isMap := lk.X.Type().Underlying().(*types.Map); !isMap {
				return
			}
			fa := core.LoadedField(lk.X)
			if fa == nil {
				return
			}
			// stores of the decoders: struct types declared in the decoder packages (…/otlp)
			n := core.NamedOf(fa.X.Type())
			if n == nil || n.Obj().Pkg() == nil || !(core.InRepo(n.Obj().Pkg().Path()) && strings.HasSuffix(n.Obj().Pkg().Path(), "/otlp") || core.IsCanaryPath(n.Obj().Pkg().Path())) {
				return
			}
			returned := false
			for _, r := range core.Returns(fn) {
				for _, res := range r.Results {
					if fromLookup(res, lk, 0) {
						returned = true
					}
				}
			}
			if returned {
				read[core.FieldVar(fa)] = lk
			}
		})
		for f, lk := range read {
			var writes []string
			core.EachInstr(fn, func(i ssa.Instruction) {
				switch x := i.(type) {
				case *ssa.MapUpdate:
					if fa := core.LoadedField(x.Map); fa != nil && core.FieldVar(fa) == f {
						writes = append(writes, "inserts at "+p.Pos(x.Pos()))
					}
				case *ssa.Call:
					if b, ok := x.Call.Value.(*ssa.Builtin); ok && (b.Name() == "delete" || b.Name() == "clear") && len(x.Call.Args) > 0 {
						if fa := core.LoadedField(x.Call.Args[0]); fa != nil && core.FieldVar(fa) == f {
							writes = append(writes, b.Name()+" at "+p.Pos(x.Pos()))
						}
					}
				}
			})
			key := "lookup=" + core.FuncName(fn) + "|map=" + f.Name()
			c.Check(len(writes) == 0, key, p.Pos(lk.Pos()), core.FuncName(fn), "returns what it finds in "+f.Name()+" and leaves the map as it is",
				fmt.Sprintf("%s returns what it looks up in %s and also writes that map (%s): an id that is referred to more than once in a batch (a scope shared by several resources is encoded once, with scope-id delta 0 under the later resources) is answered the first time only — the other referrers decode without their attributes / related rows, with no error", fn.Name(), f.Name(), strings.Join(writes, ", ")))
		}
	}
}

// fromLookup: v is the looked-up value (directly, as the first component of a comma-ok lookup,
// through a φ, a conversion, an address-of-copy or a dereference).
func fromLookup(v ssa.Value, lk *ssa.Lookup, depth int) bool {
	if depth > 6 || v == nil {
		return false
	}
	switch x := v.(type) {
	case *ssa.Lookup:
		return x == lk
	case *ssa.Extract:
		return x.Tuple == ssa.Value(lk) && x.Index == 0
	case *ssa.Phi:
		for _, e := range x.Edges {
			if fromLookup(e, lk, depth+1) {
				return true
			}
		}
	case *ssa.UnOp:
		return fromLookup(x.X, lk, depth+1)
	case *ssa.ChangeType:
		return fromLookup(x.X, lk, depth+1)
	case *ssa.Convert:
		return fromLookup(x.X, lk, depth+1)
	case *ssa.MakeInterface:
		return fromLookup(x.X, lk, depth+1)
	}
	return false
}

func init() {
	for _, pr := range []string{"C01", "C02", "C03"} {
		register(pr, &core.Rule{ID: "RT.38", Title: "a lookup in a decoder-side store (attributes, events, links, data points by parent id) does not modify the store: an id may be looked up more than once", Mod: core.ModRoot, Floor: 4, Run: rt_38, Canary: rt38Canary})
	}
}
