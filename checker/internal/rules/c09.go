package rules

import (
	"fmt"
	"go/ast"
	"go/token"
	"go/types"
	"sort"
	"strings"

	"golang.org/x/tools/go/ssa"

	"otelcheck/internal/core"
)

func init() {
	core.Describe("C09",
		"Static necessary conditions of the size-limit and flush-deadline property, decided from the code of the batch processor: "+
			"C09.1 every call of the send function is guarded by itemCount()>0 (no empty batch); "+
			"C09.2 each signal's splitBatch splits iff max>0 ∧ count>max, with size max (guard truth table compared with the specification over a finite order domain, plus C05.8); "+
			"C09.3 Validate rejects iff max>0 ∧ max<size, or timeout<0 (truth tables of the path conditions of its returns); "+
			"C09.4 the flush loop sends iff count>0 ∧ (no timer ∨ count≥size); a timer exists iff timeout≠0 ∧ size≠0; "+
			"C09.5 every path through the timer arm re-arms the timer, and every sending path through the flush function stops and re-arms it. "+
			"NOT decided: any wall-clock bound (timing is a run-time quantity no static argument here can bound), behaviour while the concurrency semaphore holds exports back.",
		"go 1.23 timer semantics (module's go directive): Reset on a live timer is safe", "time.Timer fires once per arming")
	register("C09", &core.Rule{ID: "C09.1", Title: "no empty batch is sent", Mod: core.ModCBP, Floor: 2, Run: c09_1})
	register("C09", &core.Rule{ID: "C09.2", Title: "split iff max>0 and count>max", Mod: core.ModCBP, Floor: 3, Run: c09_2})
	register("C09", &core.Rule{ID: "C09.3", Title: "config validation truth table", Mod: core.ModCBP, Floor: 2, Run: c09_3})
	register("C09", &core.Rule{ID: "C09.4", Title: "flush-loop and timer-existence guards", Mod: core.ModCBP, Floor: 2, Run: c09_4})
	register("C09", &core.Rule{ID: "C09.5", Title: "timer is re-armed on every timer/flush path", Mod: core.ModCBP, Floor: 2, Run: c09_5})
	register("C09", &core.Rule{ID: "C09.7", Title: "the flush timer is re-armed only after a send or its own tick, never by a mere arrival", Mod: core.ModCBP, Floor: 1, Run: c09_7})
	register("C09", &core.Rule{ID: "C09.6", Title: "capacity tests in split callbacks read live state (a stale capacity overshoots send_batch_max_size)", Mod: core.ModCBP, Floor: 10, Run: c05_10, Canary: c05_10Canary})
	register("C11", &core.Rule{ID: "C11.12", Title: "the split arm is entered only when count>max: otherwise the splitter hands back the shard's live buffer, and the export goroutine reads it while the shard loop keeps appending to it (a data race)", Mod: core.ModCBP, Floor: 3, Run: c09_2})
	register("C06", &core.Rule{ID: "C06.12", Title: "the split arm is entered only when count>max: otherwise the splitter hands back the live buffer, the counter restarts at zero, and the next batch's outcome goes to callers whose items were not in it", Mod: core.ModCBP, Floor: 3, Run: c09_2})
	register("C05", &core.Rule{ID: "C05.11", Title: "split arm entered only when count>max (the splitter returns its argument itself otherwise)", Mod: core.ModCBP, Floor: 3, Run: c09_2})
}

// guardOfCall computes the AST path condition of the call instruction ci.
func guardOfCall(p *core.Prog, ci ssa.Instruction) (conds []core.Cond, g *core.GuardEval, complex bool, err error) {
	pk, file := p.FileOf(ci.Pos())
	if file == nil {
		return nil, nil, false, fmt.Errorf("no syntax for %s", p.Pos(ci.Pos()))
	}
	body := core.FuncBodyAt(file, ci.Pos())
	if body == nil {
		return nil, nil, false, fmt.Errorf("no enclosing function body")
	}
	conds, complex = core.PathCond(file, body, ci.Pos())
	g = &core.GuardEval{Pkg: pk}
	g.Inline = func(fn *types.Func) ast.Expr {
		if fn.Pkg() == nil || fn.Pkg() != pk.Types {
			return nil
		}
		return core.SingleReturnExpr(pk, fn)
	}
	conds = g.ExpandConds(conds)
	return conds, g, complex, nil
}

// compareGuard enumerates the finite domain and compares guard with spec.
// mode: "equiv" (guard ⇔ spec) or "implies" (guard ⇒ spec).
func compareGuard(g *core.GuardEval, conds []core.Cond, roles []string, dom []int64, spec func(env map[string]int64) bool, mode string) (ok bool, witness string, n int, err error) {
	ok = true
	// conjuncts contributed by earlier early-exits that speak about terms outside the rule's model are dropped
	var kept []core.Cond
	for _, cd := range conds {
		if cd.FromExit {
			if _, e := g.Terms([]core.Cond{cd}); e != nil {
				continue
			}
		}
		kept = append(kept, cd)
	}
	conds = kept
	n = core.EnumEnvs(roles, dom, func(env map[string]int64) bool {
		if guardEnvAssume != nil && !guardEnvAssume(env) {
			return true // outside what the rule assumes (an invariant the code relies on)
		}
		gv, e := g.Eval(conds, env)
		if e != nil {
			err = e
			return false
		}
		sv := spec(env)
		bad := false
		switch mode {
		case "equiv":
			bad = gv != sv
		case "implies":
			bad = gv && !sv
		case "implied-by":
			bad = sv && !gv
		}
		if bad {
			ok = false
			var parts []string
			for _, r := range roles {
				parts = append(parts, fmt.Sprintf("%s=%d", strings.TrimPrefix(r, "?"), env[r]))
			}
			sort.Strings(parts)
			witness = fmt.Sprintf("%s: code=%v spec=%v", strings.Join(parts, " "), gv, sv)
			return false
		}
		return true
	})
	return
}

// guardEnvAssume, when set by a rule around a compareGuard call, restricts the valuations compared.
var guardEnvAssume func(env map[string]int64) bool

var smallDom = []int64{-1, 0, 1, 2, 3}

func condString(conds []core.Cond) string {
	var parts []string
	for _, c := range conds {
		s := types.ExprString(c.Expr)
		if c.Neg {
			s = "!(" + s + ")"
		}
		parts = append(parts, s)
	}
	if len(parts) == 0 {
		return "true"
	}
	return strings.Join(parts, " && ")
}

func c09_1(c *core.Ctx, p *core.Prog) {
	a := newCBPAnchors(p)
	if !a.ok(c) {
		return
	}
	n := 0
	for _, fn := range cbpFuncs(c, p) {
		core.EachInstr(fn, func(i ssa.Instruction) {
			if !isCallTo(i, a.sendFn) {
				return
			}
			n++
			key := fmt.Sprintf("send@%s#%d", core.FuncName(fn), n)
			pos := p.Pos(i.Pos())
			conds, g, _, err := guardOfCall(p, i)
			if err != nil {
				c.Undecided(key, pos, core.FuncName(fn), err.Error())
				return
			}
			// keep only the conjuncts whose terms resolve; an unresolved conjunct
			// can only strengthen the guard, which is sound for an implication.
			g.Roles = func(obj types.Object, e ast.Expr) (string, bool) {
				if obj == types.Object(a.mCount) {
					return "count", true
				}
				return "", false
			}
			var usable []core.Cond
			for _, cd := range conds {
				if _, e := g.Terms([]core.Cond{cd}); e == nil {
					usable = append(usable, cd)
				}
			}
			roleNames := []string{"count"}
			if len(usable) < len(conds) {
				// a conjunct that also speaks about other things (the whole flush predicate in one helper): those terms are
				// free variables of the implication
				g.Roles = func(obj types.Object, e ast.Expr) (string, bool) {
					if obj == types.Object(a.mCount) {
						return "count", true
					}
					if v, ok := obj.(*types.Var); ok && v.IsField() {
						return "?" + v.Name(), true
					}
					return "", false
				}
				usable = usable[:0]
				seenRole := map[string]bool{"count": true}
				for _, cd := range conds {
					if rs, e := g.Terms([]core.Cond{cd}); e == nil {
						usable = append(usable, cd)
						for _, r := range rs {
							if !seenRole[r] {
								seenRole[r] = true
								roleNames = append(roleNames, r)
							}
						}
					}
				}
				if len(roleNames) > 5 {
					roleNames = roleNames[:1]
					usable = nil
				}
			}
			ok, w, _, err := compareGuard(g, usable, roleNames, smallDom, func(env map[string]int64) bool { return env["count"] > 0 }, "implies")
			if err != nil {
				c.Undecided(key, pos, core.FuncName(fn), err.Error())
				return
			}
			c.Check(ok, key, pos, core.FuncName(fn), "send is guarded by itemCount()>0: "+condString(usable),
				"the send function can be reached with an empty batch (guard "+condString(usable)+"; counter-example "+w+"): an empty batch would be exported")
		})
	}
}

func c09_2(c *core.Ctx, p *core.Prog) {
	a := newCBPAnchors(p)
	if !a.ok(c) {
		return
	}
	for _, bi := range a.impls() {
		fn := bi.splitFn
		key := "impl=" + bi.typ.Obj().Name()
		if fn == nil || bi.counter == nil || bi.data == nil || bi.maxP == nil {
			c.Undecided(key, "?", "", "cannot resolve split method of "+bi.typ.Obj().Name())
			continue
		}
		var split *ssa.Call
		core.EachInstr(fn, func(i ssa.Instruction) {
			if cl, ok := i.(*ssa.Call); ok {
				f := cl.Call.StaticCallee()
				if f == nil {
					f = core.BoundCallee(cl)
				}
				if f != nil && core.FnPkgPath(f) == core.CBPPath && len(cl.Call.Args) == 2 && types.Identical(cl.Call.Args[1].Type(), bi.data.Type()) {
					split = cl
				}
			}
		})
		if split == nil {
			c.Undecided(key, p.Pos(fn.Pos()), core.FuncName(fn), "no splitter call found")
			continue
		}
		pos := p.Pos(split.Pos())
		conds, g, cx, err := guardOfCall(p, split)
		if err != nil || cx {
			c.Undecided(key, pos, core.FuncName(fn), fmt.Sprintf("path condition of the splitter call not recognised (%v)", err))
			continue
		}
		maxObj := bi.maxP.Object()
		countM := a.implMethod(bi.typ, a.mCount)
		// a pointer parameter of the delegate that stands for the address of the counter
		var countPtr token.Pos
		for _, pr := range fn.Params {
			if fa, ok := core.ResolveParam(pr).(*ssa.FieldAddr); ok && pr != bi.maxP && core.FieldVar(fa) == bi.counter {
				countPtr = pr.Pos()
			}
		}
		g.Roles = func(obj types.Object, e ast.Expr) (string, bool) {
			switch {
			case obj == maxObj || (obj != nil && obj.Pos() == bi.maxP.Pos() && bi.maxP.Pos().IsValid()):
				return "max", true
			case obj != nil && countPtr.IsValid() && obj.Pos() == countPtr:
				return "count", true
			case obj == types.Object(bi.counter):
				return "count", true
			case countM != nil && obj == countM.Object():
				return "count", true
			}
			return "", false
		}
		ok, w, n, err := compareGuard(g, conds, []string{"max", "count"}, smallDom, func(env map[string]int64) bool {
			return env["max"] > 0 && env["count"] > env["max"]
		}, "equiv")
		if err != nil {
			c.Undecided(key, pos, core.FuncName(fn), err.Error())
			continue
		}
		c.Stats["guard_valuations"] += n
		c.Check(ok, key, pos, core.FuncName(fn), "splits iff max>0 ∧ count>max ("+condString(conds)+")",
			"split guard "+condString(conds)+" differs from 'max>0 ∧ count>max' at "+w+": a batch above send_batch_max_size is exported whole, or a batch that fits is sent through the splitter (which hands back the live pending buffer when count ≤ size)")
	}
}

func c09_3(c *core.Ctx, p *core.Prog) {
	// Validate: method of a struct with uint32 size fields and a time.Duration, returning error
	pk := p.Pkg(core.CBPPath)
	if pk == nil {
		c.Undecided("validate", "?", "", "package not loaded")
		return
	}
	var cfgT *types.Named
	for _, name := range pk.Types.Scope().Names() {
		if tn, ok := pk.Types.Scope().Lookup(name).(*types.TypeName); ok {
			if n, ok := tn.Type().(*types.Named); ok {
				if st, ok := n.Underlying().(*types.Struct); ok {
					for i := 0; i < st.NumFields(); i++ {
						if strings.Contains(st.Tag(i), `mapstructure:"send_batch_max_size"`) {
							cfgT = n
						}
					}
				}
			}
		}
	}
	if cfgT == nil {
		c.Undecided("validate", "?", "", "configuration struct (mapstructure send_batch_max_size) not found")
		return
	}
	st := cfgT.Underlying().(*types.Struct)
	fieldByTag := func(tag string) *types.Var {
		for i := 0; i < st.NumFields(); i++ {
			if strings.Contains(st.Tag(i), `mapstructure:"`+tag+`"`) {
				return st.Field(i)
			}
		}
		return nil
	}
	fMax, fSize, fTimeout := fieldByTag("send_batch_max_size"), fieldByTag("send_batch_size"), fieldByTag("timeout")
	var validate *ssa.Function
	for _, t := range []types.Type{cfgT, types.NewPointer(cfgT)} {
		ms := p.SSA.MethodSets.MethodSet(t)
		for i := 0; i < ms.Len(); i++ {
			f := ms.At(i).Obj().(*types.Func)
			if sigIs(f, nil, []tp{isErr}) && f.Name() == "Validate" {
				validate = p.SSA.MethodValue(ms.At(i))
			}
		}
	}
	if validate == nil || fMax == nil || fSize == nil || fTimeout == nil {
		c.Undecided("validate", "?", "", "Validate() error or its fields not found")
		return
	}
	_, node := p.DeclOf(validate)
	fd, _ := node.(*ast.FuncDecl)
	_, file := p.FileOf(validate.Pos())
	if fd == nil || file == nil {
		c.Undecided("validate", p.Pos(validate.Pos()), core.FuncName(validate), "no syntax")
		return
	}
	g := &core.GuardEval{Pkg: pk}
	g.Roles = func(obj types.Object, e ast.Expr) (string, bool) {
		switch obj {
		case types.Object(fMax):
			return "max", true
		case types.Object(fSize):
			return "size", true
		case types.Object(fTimeout):
			return "timeout", true
		}
		return "", false
	}
	bad := func(env map[string]int64) bool {
		return (env["max"] > 0 && env["max"] < env["size"]) || env["timeout"] < 0
	}
	roles := []string{"max", "size", "timeout"}
	// unsigned fields: restrict max,size to >= 0 by spec-side domain filter
	dom := []int64{-1, 0, 1, 2, 3}
	filter := func(spec func(map[string]int64) bool, want bool) func(map[string]int64) bool {
		return func(env map[string]int64) bool {
			if env["max"] < 0 || env["size"] < 0 {
				return want // outside the domain of the unsigned fields: never a counter-example
			}
			return spec(env)
		}
	}
	nAccept, nReject := 0, 0
	ast.Inspect(fd.Body, func(n ast.Node) bool {
		if _, isLit := n.(*ast.FuncLit); isLit {
			return false
		}
		ret, ok := n.(*ast.ReturnStmt)
		if !ok || len(ret.Results) != 1 {
			return true
		}
		// complexity (the duplicate-key loop with its own return) only removes paths: a missing conjunct makes the
		// accepting condition weaker, which is the conservative direction for "accepted ⇒ valid"
		conds, _ := core.PathCond(file, fd.Body, ret.Pos())
		var usable []core.Cond
		for _, cd := range conds {
			if _, e := g.Terms([]core.Cond{cd}); e == nil {
				usable = append(usable, cd)
			}
		}
		pos := p.Pos(ret.Pos())
		isNil := false
		if tv, ok := pk.TypesInfo.Types[ret.Results[0]]; ok && tv.IsNil() {
			isNil = true
		}
		// is this return inside a loop? (duplicate-key rejection: not this rule's business)
		inLoop := false
		ast.Inspect(fd.Body, func(m ast.Node) bool {
			switch l := m.(type) {
			case *ast.RangeStmt:
				if l.Pos() <= ret.Pos() && ret.End() <= l.End() {
					inLoop = true
				}
			case *ast.ForStmt:
				if l.Pos() <= ret.Pos() && ret.End() <= l.End() {
					inLoop = true
				}
			}
			return true
		})
		if isNil {
			nAccept++
			ok, w, n, err := compareGuard(g, usable, roles, dom, filter(func(env map[string]int64) bool { return !bad(env) }, true), "implies")
			c.Stats["guard_valuations"] += n
			if err != nil {
				c.Undecided("validate|accept", pos, core.FuncName(validate), err.Error())
				return true
			}
			c.Check(ok, fmt.Sprintf("validate|accept#%d", nAccept), pos, core.FuncName(validate), "configuration accepted only when ¬(max>0 ∧ max<size) ∧ timeout≥0",
				"Validate accepts an invalid configuration ("+w+"): send_batch_max_size below send_batch_size, or a negative timeout, reaches the processor")
		} else if !inLoop {
			nReject++
			ok, w, n, err := compareGuard(g, usable, roles, dom, filter(bad, true), "implies")
			c.Stats["guard_valuations"] += n
			if err != nil {
				c.Undecided("validate|reject", pos, core.FuncName(validate), err.Error())
				return true
			}
			c.Check(ok, fmt.Sprintf("validate|reject#%d", nReject), pos, core.FuncName(validate), "rejection only for (max>0 ∧ max<size) ∨ timeout<0: "+condString(usable),
				"Validate rejects a valid configuration ("+w+"; guard "+condString(usable)+"), e.g. send_batch_max_size == send_batch_size")
		}
		return true
	})
	if nAccept == 0 {
		c.Undecided("validate|accept", p.Pos(validate.Pos()), core.FuncName(validate), "no accepting return found")
	}
}

func c09_4(c *core.Ctx, p *core.Prog) {
	a := newCBPAnchors(p)
	if !a.ok(c) {
		return
	}
	m := a.more()
	if !m.ok(c) {
		return
	}
	// fields of the processor struct by role: timeout (time.Duration), and the
	// size compared in the flush loop
	timerField := (*types.Var)(nil)
	st := core.FlatStruct(a.shard)
	for i := 0; i < st.NumFields(); i++ {
		if core.TypePkgPath(st.Field(i).Type()) == "time" && core.TypeName(st.Field(i).Type()) == "Timer" {
			timerField = st.Field(i)
		}
	}
	var timeoutF, sizeF *types.Var
	if m.procType != nil {
		ps := core.FlatStruct(m.procType)
		for i := 0; i < ps.NumFields(); i++ {
			f := ps.Field(i)
			if core.TypePkgPath(f.Type()) == "time" && core.TypeName(f.Type()) == "Duration" {
				timeoutF = f
			}
		}
		// size field: the int field stored from the config field tagged send_batch_size in the constructor.
		// The configured values must reach the processor as they are: a constructor that rewrites one of them
		// (a zero "meaning default") changes what the documented special values do — send_batch_size 0 stops
		// meaning "send at once", send_batch_max_size 0 stops meaning "no limit", timeout 0 "no timer".
		if m.ctorFn != nil {
			tagOf := func(v ssa.Value) string {
				f2 := core.LoadedField(v)
				if f2 == nil {
					return ""
				}
				if sst, ok := f2.X.Type().Underlying().(*types.Pointer); ok {
					if ss, ok := sst.Elem().Underlying().(*types.Struct); ok {
						tag := ss.Tag(f2.Field)
						for _, t := range []string{"send_batch_size", "send_batch_max_size", "timeout"} {
							if strings.Contains(tag, `mapstructure:"`+t+`"`) {
								return t
							}
						}
					}
				}
				return ""
			}
			// the constructor and the package helpers it calls (a settings struct embedded in the
			// processor may be filled by a helper that returns it): stores into any field the
			// processor has, directly or promoted from an embedded package struct
			procField := map[*types.Var]bool{}
			for i := 0; i < ps.NumFields(); i++ {
				procField[ps.Field(i)] = true
			}
			scan := []*ssa.Function{m.ctorFn}
			inScan := map[*ssa.Function]bool{m.ctorFn: true}
			for k := 0; k < len(scan) && k < 16; k++ {
				core.EachCall(scan[k], func(ci ssa.CallInstruction) {
					if sc := ci.Common().StaticCallee(); sc != nil && sc.Blocks != nil && core.FnPkgPath(sc) == core.CBPPath && !inScan[sc] && sc.Signature.Recv() == nil {
						inScan[sc] = true
						scan = append(scan, sc)
					}
				})
			}
			for _, ctor := range scan {
				ctor := ctor
				core.EachInstr(ctor, func(i ssa.Instruction) {
					s, ok := i.(*ssa.Store)
					if !ok {
						return
					}
					fa, ok := s.Addr.(*ssa.FieldAddr)
					if !ok || !procField[core.FieldVar(fa)] {
						return
					}
					if _, isNum := core.FieldVar(fa).Type().Underlying().(*types.Basic); !isNum {
						return
					}
					direct := tagOf(core.StripConv(s.Val))
					derived := ""
					core.BackSlice(s.Val, func(v ssa.Value) bool {
						if t := tagOf(v); t != "" && derived == "" {
							derived = t
						}
						return true
					})
					if derived == "" {
						return
					}
					if derived == "send_batch_size" {
						sizeF = core.FieldVar(fa)
					}
					c.Check(direct == derived, "config|verbatim|"+derived, p.Pos(s.Pos()), core.FuncName(ctor),
						"the processor uses the configured "+derived+" as it is",
						"the processor does not take the configured "+derived+" as it is (the constructor rewrites it, e.g. replaces 0 by a default): the documented meaning of the special value is lost — with send_batch_size 0 requests are no longer passed on at once but wait for the substituted size or the timer, and what Validate checked is not what runs")
				})
			}
		}
	}
	if timerField == nil || timeoutF == nil || sizeF == nil {
		c.Undecided("anchors", "?", "", "timer / timeout / send-batch-size fields not resolved")
		return
	}
	c.Note("C09.4 anchors: timer=%s timeout=%s size=%s", debugFieldName(timerField), debugFieldName(timeoutF), debugFieldName(sizeF))
	roles := func(obj types.Object, e ast.Expr) (string, bool) {
		switch obj {
		case types.Object(a.mCount):
			return "count", true
		case types.Object(sizeF):
			return "size", true
		case types.Object(timeoutF):
			return "timeout", true
		case types.Object(timerField):
			return "?timer", true
		}
		return "", false
	}
	// (a) flush loop
	var flushCalls []ssa.Instruction
	for _, fn := range cbpFuncs(c, p) {
		if fn == m.loopFn || nonEmptyFlushHelper(a, fn) {
			continue // the loop's own sends and "flush if non-empty" helpers (timer arm, shutdown) are not size-triggered
		}
		core.EachInstr(fn, func(i ssa.Instruction) {
			if isCallTo(i, a.sendFn) {
				flushCalls = append(flushCalls, i)
			}
		})
	}
	for k, ci := range flushCalls {
		fn := ci.Parent()
		key := fmt.Sprintf("flush#%d@%s", k+1, core.FuncName(fn))
		pos := p.Pos(ci.Pos())
		conds, g, cx, err := guardOfCall(p, ci)
		if err != nil || cx {
			c.Undecided(key, pos, core.FuncName(fn), fmt.Sprintf("path condition not recognised (%v)", err))
			continue
		}
		g.Roles = roles
		ok, w, n, err := compareGuard(g, conds, []string{"count", "size", "?timer"}, smallDom, func(env map[string]int64) bool {
			return env["count"] > 0 && (env["?timer"] == 0 || env["count"] >= env["size"])
		}, "equiv")
		c.Stats["guard_valuations"] += n
		if err != nil {
			c.Undecided(key, pos, core.FuncName(fn), err.Error())
			continue
		}
		c.Check(ok, key, pos, core.FuncName(fn), "flush sends iff count>0 ∧ (no timer ∨ count ≥ send_batch_size): "+condString(conds),
			"flush guard "+condString(conds)+" differs from 'count>0 ∧ (¬timer ∨ count≥size)' at "+w+": a full buffer is not sent until the timer fires, or sends happen below the size threshold")
	}
	if len(flushCalls) == 0 {
		c.Undecided("flush", "?", "", "no size-triggered send found outside the shard loop")
	}
	// (a') the flush function is itself reached under no further condition: a test in its caller (an early return
	// "nothing can be sent yet" before the call) is part of the send condition and is judged together with it
	seenCaller := map[ssa.Instruction]bool{}
	for _, ci := range flushCalls {
		F := ci.Parent()
		condsF, gF, cxF, errF := guardOfCall(p, ci)
		if errF != nil || cxF {
			continue // reported above
		}
		for _, G := range cbpFuncs(c, p) {
			if G == F {
				continue
			}
			G := G
			core.EachInstr(G, func(i ssa.Instruction) {
				if !isCallTo(i, F) || seenCaller[i] {
					return
				}
				seenCaller[i] = true
				condsG, _, cxG, errG := guardOfCall(p, i)
				if errG != nil || cxG {
					c.Undecided(fmt.Sprintf("flush-reach@%s", core.FuncName(G)), p.Pos(i.Pos()), core.FuncName(G), "path condition of the call of the flush function not recognised")
					return
				}
				if len(condsG) == 0 {
					return
				}
				// locals of the caller that hold the current count (`after := b.batch.itemCount()` with no add in between)
				pk, file := p.FileOf(i.Pos())
				body := core.FuncBodyAt(file, i.Pos())
				curCount := map[types.Object]bool{}
				if body != nil {
					var defs []*ast.AssignStmt
					var adds []token.Pos
					ast.Inspect(body, func(n ast.Node) bool {
						switch x := n.(type) {
						case *ast.AssignStmt:
							defs = append(defs, x)
						case *ast.CallExpr:
							if sel, ok := x.Fun.(*ast.SelectorExpr); ok {
								if o := pk.TypesInfo.Uses[sel.Sel]; o != nil && o != types.Object(a.mCount) {
									if fo, ok := o.(*types.Func); ok && fo.Type().(*types.Signature).Recv() != nil && core.NamedOf(fo.Type().(*types.Signature).Recv().Type()) == core.NamedOf(a.mCount.Type().(*types.Signature).Recv().Type()) {
										adds = append(adds, x.Pos())
									}
								}
							}
						}
						return true
					})
					for _, as := range defs {
						if len(as.Lhs) != 1 || len(as.Rhs) != 1 || as.Pos() > i.Pos() {
							continue
						}
						id, ok := as.Lhs[0].(*ast.Ident)
						call, ok2 := as.Rhs[0].(*ast.CallExpr)
						if !ok || !ok2 {
							continue
						}
						sel, ok := call.Fun.(*ast.SelectorExpr)
						if !ok || pk.TypesInfo.Uses[sel.Sel] != types.Object(a.mCount) {
							continue
						}
						stale := false
						for _, ap := range adds {
							if ap > as.Pos() && ap < i.Pos() {
								stale = true
							}
						}
						obj := pk.TypesInfo.Defs[id]
						if obj == nil {
							obj = pk.TypesInfo.Uses[id]
						}
						if obj != nil && !stale {
							curCount[obj] = true
						}
					}
				}
				gF.Roles = func(obj types.Object, e ast.Expr) (string, bool) {
					if obj != nil && curCount[obj] {
						return "count", true
					}
					return roles(obj, e)
				}
				all := append(append([]core.Cond{}, condsG...), condsF...)
				ok, w, n, err := compareGuard(gF, all, []string{"count", "size", "?timer"}, smallDom, func(env map[string]int64) bool {
					return env["count"] > 0 && (env["?timer"] == 0 || env["count"] >= env["size"])
				}, "equiv")
				c.Stats["guard_valuations"] += n
				key := fmt.Sprintf("flush-reach@%s", core.FuncName(G))
				if err != nil {
					c.Undecided(key, p.Pos(i.Pos()), core.FuncName(G), err.Error())
					return
				}
				c.Check(ok, key, p.Pos(i.Pos()), core.FuncName(G), "the flush test is reached under a condition that does not change when a send happens: "+condString(all),
					"the flush function is called only when "+condString(condsG)+": together with its own test the send condition "+condString(all)+" differs from 'count>0 ∧ (¬timer ∨ count≥size)' at "+w+": with no timer (timeout 0) a request below send_batch_size is not passed on at once but waits for later traffic or shutdown")
			})
		}
	}
	// (b) timer existence
	var newTimer ssa.Instruction
	findTimer := func(f *ssa.Function) {
		core.EachInstr(f, func(i ssa.Instruction) {
			if cl, ok := i.(*ssa.Call); ok {
				if fo := core.CalleeObj(cl); core.IsPkgFunc(fo, "time", "NewTimer") {
					newTimer = i
				}
			}
		})
	}
	findTimer(m.loopFn)
	if newTimer == nil {
		// created by a helper the loop calls (`timerCh := b.startTimer()`)
		core.EachInstr(m.loopFn, func(i ssa.Instruction) {
			if cl, ok := i.(*ssa.Call); ok && newTimer == nil {
				if h := cl.Call.StaticCallee(); h != nil && core.FnPkgPath(h) == core.CBPPath && len(h.Blocks) > 0 {
					findTimer(h)
				}
			}
		})
	}
	if newTimer == nil {
		c.Undecided("timer-exists", p.Pos(m.loopFn.Pos()), core.FuncName(m.loopFn), "no time.NewTimer in the shard loop")
		return
	}
	conds, g, cx, err := guardOfCall(p, newTimer)
	if err != nil || cx {
		c.Undecided("timer-exists", p.Pos(newTimer.Pos()), core.FuncName(m.loopFn), "path condition not recognised")
		return
	}
	g.Roles = roles
	ok, w, n, err := compareGuard(g, conds, []string{"timeout", "size"}, smallDom, func(env map[string]int64) bool {
		return env["timeout"] != 0 && env["size"] != 0
	}, "equiv")
	c.Stats["guard_valuations"] += n
	if err != nil {
		c.Undecided("timer-exists", p.Pos(newTimer.Pos()), core.FuncName(m.loopFn), err.Error())
		return
	}
	c.Check(ok, "timer-exists", p.Pos(newTimer.Pos()), core.FuncName(m.loopFn), "a flush timer exists iff timeout≠0 ∧ send_batch_size≠0",
		"timer-creation guard "+condString(conds)+" differs from 'timeout≠0 ∧ size≠0' at "+w+": items below the size threshold would never be flushed, or zero-timeout configurations would delay sends")
	// the timer is created with the configured timeout
	if cl, ok := newTimer.(*ssa.Call); ok {
		okT := isFieldLoad(cl.Call.Args[0], timeoutF)
		c.Check(okT, "timer-duration", p.Pos(newTimer.Pos()), core.FuncName(m.loopFn), "the timer is armed with the configured timeout", "the flush timer is not armed with the configured timeout")
	}
}

// resetsTimer reports whether every path of fn from entry to return either
// calls (*time.Timer).Reset (directly or through a same-package helper that
// does) or passes a test showing there is no timer.
func resetsTimer(fn *ssa.Function, timerField *types.Var, depth int) bool {
	if fn == nil || fn.Blocks == nil || depth > 2 {
		return false
	}
	isReset := func(i ssa.Instruction) bool {
		cl, ok := i.(*ssa.Call)
		if !ok {
			return false
		}
		if f := core.CalleeObj(cl); core.IsMethodOf(f, "time", "Timer", "Reset") {
			return true
		}
		if callee := cl.Call.StaticCallee(); callee != nil && callee != fn && core.FnPkgPath(callee) == core.CBPPath {
			return resetsTimer(callee, timerField, depth+1)
		}
		return false
	}
	cut := noTimerEdges(fn, timerField)
	ok, _ := core.PathQuery{Fn: fn, Avoid: isReset, CutEdges: cut, ExitReturnOnly: true}.Exists()
	return !ok
}

// noTimerEdges returns the CFG edges taken when the shard has no timer.
func noTimerEdges(fn *ssa.Function, timerField *types.Var) map[core.Edge]bool {
	cut := map[core.Edge]bool{}
	for _, b := range fn.Blocks {
		iff := core.IfOf(b)
		if iff == nil {
			continue
		}
		has, ok := hasTimerPolarity(iff.Cond, timerField, 0)
		if !ok {
			continue
		}
		// has==true: cond true means "has timer" → the no-timer edge is Succs[1]
		if has {
			cut[core.Edge{From: b, To: b.Succs[1]}] = true
		} else {
			cut[core.Edge{From: b, To: b.Succs[0]}] = true
		}
	}
	return cut
}

// hasTimerPolarity: cond ≡ (timer != nil) → (true, true); cond ≡ (timer == nil) → (false, true).
func hasTimerPolarity(v ssa.Value, timerField *types.Var, depth int) (bool, bool) {
	switch x := v.(type) {
	case *ssa.BinOp:
		if (x.Op == token.NEQ || x.Op == token.EQL) && core.IsNilConst(x.Y) && isFieldLoad(x.X, timerField) {
			return x.Op == token.NEQ, true
		}
		// the timer handed over as a parameter (`func resetTimer(t *time.Timer, d time.Duration)`)
		if (x.Op == token.NEQ || x.Op == token.EQL) && core.IsNilConst(x.Y) {
			if prm, ok := x.X.(*ssa.Parameter); ok {
				if pt, ok := prm.Type().(*types.Pointer); ok && core.TypePkgPath(pt.Elem()) == "time" && core.TypeName(pt.Elem()) == "Timer" {
					return x.Op == token.NEQ, true
				}
			}
		}
	case *ssa.UnOp:
		if x.Op == token.NOT {
			h, ok := hasTimerPolarity(x.X, timerField, depth)
			return !h, ok
		}
	case *ssa.Call:
		callee := x.Call.StaticCallee()
		if callee != nil && depth < 2 && core.FnPkgPath(callee) == core.CBPPath && len(callee.Blocks) == 1 {
			rets := core.Returns(callee)
			if len(rets) == 1 && len(rets[0].Results) == 1 {
				return hasTimerPolarity(rets[0].Results[0], timerField, depth+1)
			}
		}
	}
	return false, false
}

func c09_5(c *core.Ctx, p *core.Prog) {
	a := newCBPAnchors(p)
	if !a.ok(c) {
		return
	}
	m := a.more()
	if !m.ok(c) {
		return
	}
	var timerField *types.Var
	st := core.FlatStruct(a.shard)
	for i := 0; i < st.NumFields(); i++ {
		if core.TypePkgPath(st.Field(i).Type()) == "time" && core.TypeName(st.Field(i).Type()) == "Timer" {
			timerField = st.Field(i)
		}
	}
	if timerField == nil {
		c.Undecided("anchors", "?", "", "shard has no *time.Timer field")
		return
	}
	isReset := func(i ssa.Instruction) bool {
		cl, ok := i.(*ssa.Call)
		if !ok {
			return false
		}
		if f := core.CalleeObj(cl); core.IsMethodOf(f, "time", "Timer", "Reset") {
			return true
		}
		if callee := cl.Call.StaticCallee(); callee != nil && core.FnPkgPath(callee) == core.CBPPath {
			return resetsTimer(callee, timerField, 0)
		}
		return false
	}
	// (a) timer arm of the main select: every path back to the select re-arms
	fn := m.loopFn
	tk := -1
	for k, s := range m.mainSelect.States {
		if s.Dir == types.RecvOnly && core.TypePkgPath(chanElem(s.Chan.Type())) == "time" {
			tk = k
		}
	}
	if tk < 0 {
		c.Viol("timer-arm", p.Pos(m.mainSelect.Pos()), core.FuncName(fn), "the shard loop's select has no timer arm: buffered items below the size threshold are never flushed")
	} else if arm, ok := selectArm(m.mainSelect, tk); ok {
		first := arm.To.Instrs[0]
		bad := false
		if !isReset(first) {
			if ok, _ := (core.PathQuery{Fn: fn, From: first, To: m.mainSelect, Avoid: isReset, CutEdges: noTimerEdges(fn, timerField)}).Exists(); ok {
				bad = true
			}
		}
		c.Check(!bad, "timer-arm", p.Pos(first.Pos()), core.FuncName(fn), "every path through the timer arm re-arms the timer before waiting again",
			"a path through the timer arm returns to the select without re-arming the timer: after it, items that stay below send_batch_size are never flushed by timeout")
		// the timer arm sends when non-empty: from the arm, a path avoiding send must pass the false edge of count>0
		cut := map[core.Edge]bool{}
		for _, b := range fn.Blocks {
			iff := core.IfOf(b)
			if iff == nil {
				continue
			}
			if cmp, ok := iff.Cond.(*ssa.BinOp); ok && cmp.Op == token.GTR {
				if k, isC := core.ConstInt(cmp.Y); isC && k == 0 && core.DerivesFrom(cmp.X, func(v ssa.Value) bool {
					cl, ok := v.(*ssa.Call)
					return ok && cl.Call.IsInvoke() && cl.Call.Method == a.mCount
				}) {
					cut[core.Edge{From: b, To: b.Succs[1]}] = true
				}
			}
		}
		skips := false
		if !flushesNonEmpty(a, first) {
			if ok, _ := (core.PathQuery{Fn: fn, From: first, To: m.mainSelect, Avoid: func(i ssa.Instruction) bool { return flushesNonEmpty(a, i) }, CutEdges: cut}).Exists(); ok {
				skips = true
			}
		}
		c.Check(!skips, "timer-arm|send", p.Pos(first.Pos()), core.FuncName(fn), "the timer arm sends whenever the buffer is non-empty",
			"a path through the timer arm does not send a non-empty buffer: the flush deadline is missed")
	} else {
		c.Undecided("timer-arm", p.Pos(m.mainSelect.Pos()), core.FuncName(fn), "select lowering not recognised")
	}
	// (b) flush function: every path from a send to return re-arms
	n := 0
	for _, f := range cbpFuncs(c, p) {
		if f == m.loopFn || nonEmptyFlushHelper(a, f) {
			continue
		}
		core.EachInstr(f, func(i ssa.Instruction) {
			if !isCallTo(i, a.sendFn) {
				return
			}
			n++
			ok, _ := (core.PathQuery{Fn: f, From: i, Avoid: isReset, CutEdges: noTimerEdges(f, timerField), ExitReturnOnly: true}).Exists()
			c.Check(!ok, fmt.Sprintf("flush-rearm#%d@%s", n, core.FuncName(f)), p.Pos(i.Pos()), core.FuncName(f), "every path from a size-triggered send to return re-arms the timer",
				"after a size-triggered send a path returns without re-arming the timer: the next items wait for a stale (shorter or never-firing) deadline")
		})
	}
}

// C09.7 the deadline is not pushed back by arrivals. The flush timer may be re-armed by its own
// tick and after a send; a re-arm on a path that merely accepted an item (no send) measures the
// interval from the last arrival instead of the last flush, so a steady trickle below
// send_batch_size is never flushed by timeout.
func c09_7(c *core.Ctx, p *core.Prog) {
	a := newCBPAnchors(p)
	if !a.ok(c) {
		return
	}
	m := a.more()
	if !m.ok(c) {
		return
	}
	var timerField *types.Var
	st := core.FlatStruct(a.shard)
	for i := 0; i < st.NumFields(); i++ {
		if core.TypePkgPath(st.Field(i).Type()) == "time" && core.TypeName(st.Field(i).Type()) == "Timer" {
			timerField = st.Field(i)
		}
	}
	if timerField == nil {
		c.Undecided("anchors", "?", "", "shard has no *time.Timer field")
		return
	}
	directReset := func(i ssa.Instruction) bool {
		cl, ok := i.(*ssa.Call)
		return ok && core.IsMethodOf(core.CalleeObj(cl), "time", "Timer", "Reset")
	}
	canSend := map[*ssa.Function]bool{}
	var sends func(f *ssa.Function, depth int) bool
	sends = func(f *ssa.Function, depth int) bool {
		if v, ok := canSend[f]; ok {
			return v
		}
		canSend[f] = false
		r := false
		core.EachInstr(f, func(i ssa.Instruction) {
			if isCallTo(i, a.sendFn) {
				r = true
			}
			if cl, ok := i.(*ssa.Call); ok && depth < 3 {
				if callee := cl.Call.StaticCallee(); callee != nil && core.FnPkgPath(callee) == core.CBPPath && callee != f && sends(callee, depth+1) {
					r = true
				}
			}
		})
		canSend[f] = r
		return r
	}
	isReset := func(i ssa.Instruction) bool {
		if directReset(i) {
			return true
		}
		cl, ok := i.(*ssa.Call)
		if !ok {
			return false
		}
		if callee := cl.Call.StaticCallee(); callee != nil && core.FnPkgPath(callee) == core.CBPPath && !sends(callee, 0) {
			return resetsTimer(callee, timerField, 0)
		}
		return false
	}
	isSend := func(i ssa.Instruction) bool {
		if isCallTo(i, a.sendFn) {
			return true
		}
		return false
	}
	// the body of the timer arm moved into a helper (`case <-timerCh: b.onTimeout()`): its re-arm is the tick's own
	timerArmOnly := map[*ssa.Function]bool{}
	{
		tk := -1
		for k, st := range m.mainSelect.States {
			if st.Dir == types.RecvOnly && core.TypePkgPath(chanElem(st.Chan.Type())) == "time" {
				tk = k
			}
		}
		if arm, ok := selectArm(m.mainSelect, tk); ok && tk >= 0 {
			sitesIn, sitesOut := map[*ssa.Function]int{}, map[*ssa.Function]int{}
			for _, f := range cbpFuncs(c, p) {
				core.EachInstr(f, func(i ssa.Instruction) {
					cl, ok := i.(*ssa.Call)
					if !ok || cl.Call.StaticCallee() == nil || core.FnPkgPath(cl.Call.StaticCallee()) != core.CBPPath {
						return
					}
					if f == m.loopFn && core.EdgeGuards(f, arm, cl) {
						sitesIn[cl.Call.StaticCallee()]++
					} else {
						sitesOut[cl.Call.StaticCallee()]++
					}
				})
			}
			for h, k := range sitesIn {
				if k > 0 && sitesOut[h] == 0 {
					timerArmOnly[h] = true
				}
			}
		}
	}
	n := 0
	for _, f := range cbpFuncs(c, p) {
		if f == m.loopFn || f.Parent() != nil || timerArmOnly[f] || !sends(f, 0) && !containsDirectCallTo(f, isReset) {
			continue
		}
		// reset wrappers themselves (no send capability, only timer operations) are not arrival paths
		if !sends(f, 0) {
			pure := true
			core.EachInstr(f, func(i ssa.Instruction) {
				if ci, ok := i.(ssa.CallInstruction); ok && ci.Common().IsInvoke() && (ci.Common().Method == a.mAdd || ci.Common().Method == a.mCount) {
					pure = false
				}
			})
			if pure {
				continue
			}
		}
		core.EachInstr(f, func(i ssa.Instruction) {
			if !isReset(i) {
				return
			}
			n++
			noSend, _ := (core.PathQuery{Fn: f, To: i, Avoid: isSend}).Exists()
			c.Check(!noSend, fmt.Sprintf("rearm#%d@%s", n, core.FuncName(f)), p.Pos(i.Pos()), core.FuncName(f),
				"the timer is re-armed only on paths that sent a batch",
				"the flush timer is re-armed on a path that sent nothing (an item was merely accepted): every arrival pushes the deadline back, so a steady trickle of small requests waits far longer than the timeout")
		})
	}
	c.Stats["C09.7 re-arm sites outside the shard loop"] = n
}

func containsDirectCallTo(f *ssa.Function, pred func(ssa.Instruction) bool) bool {
	r := false
	core.EachInstr(f, func(i ssa.Instruction) {
		if pred(i) {
			r = true
		}
	})
	return r
}

func debugFieldName(v *types.Var) string {
	if v == nil {
		return "<nil>"
	}
	return v.Name()
}

// ---- helpers shared by the C09 rules: flushes that live in small helper functions ----

// countPositiveCut: the false edges of `itemCount() > 0` tests in f.
func countPositiveCut(a *cbpAnchors, f *ssa.Function) map[core.Edge]bool {
	cut := map[core.Edge]bool{}
	for _, b := range f.Blocks {
		iff := core.IfOf(b)
		if iff == nil {
			continue
		}
		if cmp, ok := iff.Cond.(*ssa.BinOp); ok && cmp.Op == token.GTR {
			if k, isC := core.ConstInt(cmp.Y); isC && k == 0 && core.DerivesFrom(cmp.X, func(v ssa.Value) bool {
				cl, ok := v.(*ssa.Call)
				return ok && cl.Call.IsInvoke() && cl.Call.Method == a.mCount
			}) {
				cut[core.Edge{From: b, To: b.Succs[1]}] = true
			}
		}
	}
	return cut
}

var nonEmptyFlushMemo = map[*ssa.Function]int{}

// nonEmptyFlushHelper: a package function every path of which sends unless the batch is empty ("flush if there is
// something": the body of the timer arm and of the shutdown flush when they are factored out).
func nonEmptyFlushHelper(a *cbpAnchors, h *ssa.Function) bool {
	if h == nil || h == a.sendFn || len(h.Blocks) == 0 || core.FnPkgPath(h) != core.CBPPath {
		return false
	}
	switch nonEmptyFlushMemo[h] {
	case 1:
		return false
	case 2:
		return true
	}
	nonEmptyFlushMemo[h] = 1
	sendsAtAll := false
	core.EachInstr(h, func(i ssa.Instruction) {
		if flushesNonEmpty(a, i) {
			sendsAtAll = true
		}
	})
	if !sendsAtAll {
		return false
	}
	miss, _ := (core.PathQuery{Fn: h, CutEdges: countPositiveCut(a, h), ExitReturnOnly: true, Avoid: func(i ssa.Instruction) bool { return flushesNonEmpty(a, i) }}).Exists()
	if miss {
		return false
	}
	nonEmptyFlushMemo[h] = 2
	return true
}

// flushesNonEmpty: the instruction is the send, or a call of a non-empty-flush helper.
func flushesNonEmpty(a *cbpAnchors, i ssa.Instruction) bool {
	if isCallTo(i, a.sendFn) {
		return true
	}
	cl, ok := i.(*ssa.Call)
	if !ok {
		return false
	}
	return nonEmptyFlushHelper(a, cl.Call.StaticCallee())
}

var itemHandlerMemo = map[*ssa.Function]int{}

// nilDataCut: the edges taken when the request carries no data (`item.data == nil`).
func nilDataCut(f *ssa.Function) map[core.Edge]bool {
	cut := map[core.Edge]bool{}
	for _, b := range f.Blocks {
		iff := core.IfOf(b)
		if iff == nil {
			continue
		}
		cmp, ok := iff.Cond.(*ssa.BinOp)
		if !ok || (cmp.Op != token.EQL && cmp.Op != token.NEQ) || !core.IsNilConst(cmp.Y) || !isAny(cmp.X.Type()) {
			continue
		}
		if cmp.Op == token.EQL {
			cut[core.Edge{From: b, To: b.Succs[0]}] = true
		} else {
			cut[core.Edge{From: b, To: b.Succs[1]}] = true
		}
	}
	return cut
}

// handlesItem: the instruction hands a request to the item handler — a call of it, or of a package helper every
// path of which does unless the request carries no data (`case item := <-b.newItem: b.onNewItem(item)`).
func handlesItem(m *cbpMore, i ssa.Instruction) bool {
	if isCallTo(i, m.processFn) {
		return true
	}
	cl, ok := i.(*ssa.Call)
	if !ok {
		return false
	}
	h := cl.Call.StaticCallee()
	if h == nil || h == m.processFn || len(h.Blocks) == 0 || core.FnPkgPath(h) != core.CBPPath {
		return false
	}
	switch itemHandlerMemo[h] {
	case 1:
		return false
	case 2:
		return true
	}
	itemHandlerMemo[h] = 1
	miss, _ := (core.PathQuery{Fn: h, CutEdges: nilDataCut(h), ExitReturnOnly: true, Avoid: func(j ssa.Instruction) bool { return handlesItem(m, j) }}).Exists()
	if miss {
		return false
	}
	itemHandlerMemo[h] = 2
	return true
}
