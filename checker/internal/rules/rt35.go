package rules

import (
	"fmt"
	"go/token"
	"go/types"
	"strings"

	"golang.org/x/tools/go/ssa"

	"otelcheck/internal/core"
)

// RT.35 — a column that carries a value of the row is null only because of
// that value.
//
// In the row loops of the encoders a column wrapper either receives the row's
// value or, when the value is absent / zero, a null.  The decoder reads the
// column on every row (or on the rows its own grouping selects), so a null that
// is written for another reason — "same scope as the previous row", "not the
// first row of the resource" — makes rows lose the value whenever the encoder's
// reason and the decoder's reading differ.
//
// Rule: for every `F.AppendNull()` in a row loop whose column F also receives,
// elsewhere in the same loop, a value read from the row (a field of the
// flattened row struct or a getter of a pdata entity), the null is guarded by a
// condition on that very source: the same row field, or a getter of the same
// pdata entity.  Id columns fed by local counters are the business of RT.16.

// rowSources: the row-struct fields and pdata receivers a value derives from.
func rowSources(v ssa.Value) (fields map[*types.Var]bool, entities map[ssa.Value]bool) {
	fields, entities = map[*types.Var]bool{}, map[ssa.Value]bool{}
	core.BackSlice(v, func(x ssa.Value) bool {
		switch y := x.(type) {
		case *ssa.UnOp:
			if y.Op == token.MUL {
				if fa, ok := y.X.(*ssa.FieldAddr); ok {
					if n := core.NamedOf(fa.X.Type()); n != nil && n.Obj().Pkg() != nil && core.InRepo(n.Obj().Pkg().Path()) {
						if fv := core.FieldVar(fa); fv != nil {
							fields[fv] = true
							return false // the field of the row, not what the row itself was read from
						}
					}
				}
			}
		case *ssa.Call:
			if f := pdataCallee(y); f != nil && len(y.Call.Args) >= 1 {
				entities[core.Canon(y.Call.Args[0])] = true
			}
		}
		return true
	})
	return
}

func rt_35(c *core.Ctx, p *core.Prog) {
	reach := encodeReach(p)
	for _, fn := range sortedFuncs(p, reach) {
		if fn.Synthetic != "" || !strings.HasSuffix(core.FnPkgPath(fn), "/arrow") || !strings.Contains(core.FnPkgPath(fn), "/pkg/otel/") {
			continue
		}
		type app struct {
			cl   *ssa.Call
			fld  *types.Var
			null bool
			val  ssa.Value
		}
		var apps []app
		core.EachInstr(fn, func(i ssa.Instruction) {
			cl, ok := i.(*ssa.Call)
			if !ok {
				return
			}
			f := core.CalleeObj(cl)
			if f == nil || f.Pkg() == nil || f.Pkg().Path() != pkgBuilder || !strings.HasPrefix(f.Name(), "Append") || len(cl.Call.Args) == 0 {
				return
			}
			fa := core.LoadedField(cl.Call.Args[0])
			if fa == nil {
				return
			}
			a := app{cl: cl, fld: core.FieldVar(fa), null: f.Name() == "AppendNull"}
			if !a.null && len(cl.Call.Args) >= 2 {
				a.val = cl.Call.Args[1]
			}
			apps = append(apps, a)
		})
		loops := loopsOf(fn)
		inner := func(b *ssa.BasicBlock) *ssa.BasicBlock {
			var h *ssa.BasicBlock
			n := 1 << 30
			for hh, bd := range loops {
				if bd[b] && len(bd) < n {
					h, n = hh, len(bd)
				}
			}
			return h
		}
		k := 0
		for _, nl := range apps {
			if !nl.null {
				continue
			}
			h := inner(nl.cl.Block())
			if h == nil {
				continue
			}
			// the row sources of the non-null appends of the same column in the same loop
			flds, ents := map[*types.Var]bool{}, map[ssa.Value]bool{}
			for _, o := range apps {
				if o.null || o.fld != nl.fld || o.val == nil || inner(o.cl.Block()) != h {
					continue
				}
				f2, e2 := rowSources(o.val)
				for x := range f2 {
					flds[x] = true
				}
				for x := range e2 {
					ents[x] = true
				}
			}
			if len(flds) == 0 && len(ents) == 0 {
				continue // no row value on this column (an id fed by a local counter, …)
			}
			k++
			key := fmt.Sprintf("null|fn=%s|col=%s#%d", core.FuncName(fn), nl.fld.Name(), k)
			pos := p.Pos(nl.cl.Pos())
			about := false
			nGuards := 0
			for _, b := range fn.Blocks {
				iff := core.IfOf(b)
				if iff == nil || inner(b) != h {
					continue
				}
				if !(core.GuardedBy(iff, true, nl.cl) || core.GuardedBy(iff, false, nl.cl)) {
					continue
				}
				nGuards++
				gf, ge := rowSources(iff.Cond)
				for x := range gf {
					if flds[x] {
						about = true
					}
				}
				for x := range ge {
					if ents[x] {
						about = true
					}
				}
			}
			c.Check(about, key, pos, core.FuncName(fn),
				"the null is written on a test of the value's own source",
				fmt.Sprintf("the column %s receives a value of the row on other paths, but this null is written under a condition that does not look at that value's source (%d guard(s) examined): rows lose the value whenever the decoder reads the column on a row for which the encoder wrote the null (e.g. 'same scope as the previous row' when the decoder starts a scope on every resource change)", nl.fld.Name(), nGuards))
		}
	}
}

func init() {
	for _, prop := range []string{"C01", "C02", "C03"} {
		register(prop, &core.Rule{ID: "RT.35", Title: "a column that carries a value of the row is null only on a test of that value's own source", Mod: core.ModRoot, Floor: 1, Run: rt_35})
	}
}
