package rules

import (
	"fmt"
	"go/token"
	"go/types"
	"sort"
	"strings"

	"golang.org/x/tools/go/ssa"

	"otelcheck/internal/core"
)

// RT.2 row discipline. Arrow record and struct builders require every column
// of a row to receive exactly one slot. In the encoders a "row" is either one
// iteration of the row loop of a TryBuild/Append method or one execution of a
// struct/list fill callback. The rule computes, by forward dataflow over the
// CFG of that region, the minimum and maximum number of appends every column
// builder field receives over all feasible non-failing paths and requires
// min == max. Paths taken when an error value is non-nil are failure paths
// (the batch is abandoned); the implicit default of a switch that covers every
// constant of its enumeration is infeasible.

const (
	pkgCommonArrowEnc = core.RepoPath + "/pkg/otel/common/arrow"
)

func encPkg(pp string) bool {
	switch pp {
	case pkgCommonArrowEnc, core.RepoPath + "/pkg/otel/traces/arrow", core.RepoPath + "/pkg/otel/logs/arrow", core.RepoPath + "/pkg/otel/metrics/arrow":
		return true
	}
	return false
}

// columnField: a struct field holding a column builder (a schema-builder wrapper or an entity builder).
func columnField(f *types.Var) bool {
	n := core.NamedOf(f.Type())
	if n == nil || n.Obj().Pkg() == nil {
		return false
	}
	pp := n.Obj().Pkg().Path()
	name := n.Obj().Name()
	if !strings.HasSuffix(name, "Builder") {
		return false
	}
	if pp == pkgBuilder {
		return name != "RecordBuilderExt"
	}
	return encPkg(pp) || core.IsCanaryPath(pp)
}

// appendEvent: i appends one slot to a column builder field; returns the field.
func appendEvent(i ssa.Instruction) *types.Var {
	ci, ok := i.(ssa.CallInstruction)
	if !ok {
		return nil
	}
	f := core.CalleeObj(ci)
	if f == nil || !strings.HasPrefix(f.Name(), "Append") {
		return nil
	}
	recv := core.CallRecv(ci)
	if recv == nil {
		return nil
	}
	fa := core.LoadedField(recv)
	if fa == nil {
		return nil
	}
	fv := core.FieldVar(fa)
	if fv == nil || !columnField(fv) {
		return nil
	}
	return fv
}

// entityAppend: fn is the Append… method of an entity builder of the encoder packages (callers count a call of it as
// one slot of the field that holds the builder).
func entityAppend(fn *ssa.Function) bool {
	if fn.Signature.Recv() == nil || !strings.HasPrefix(fn.Name(), "Append") || fn.Name() == "AppendNull" {
		return false
	}
	n := core.NamedOf(fn.Signature.Recv().Type())
	if n == nil || n.Obj().Pkg() == nil || !strings.HasSuffix(n.Obj().Name(), "Builder") {
		return false
	}
	pp := n.Obj().Pkg().Path()
	return encPkg(pp) || core.IsCanaryPath(pp)
}

// compositeNull: i appends a null to a struct or union builder; the library appends the matching slot to every child.
func compositeNull(i ssa.Instruction, fv *types.Var) bool {
	ci, ok := i.(ssa.CallInstruction)
	if !ok {
		return false
	}
	f := core.CalleeObj(ci)
	if f == nil || f.Name() != "AppendNull" {
		return false
	}
	n := core.NamedOf(fv.Type())
	if n == nil || n.Obj().Pkg() == nil || n.Obj().Pkg().Path() != pkgBuilder {
		return false
	}
	return n.Obj().Name() == "SparseUnionBuilder" || n.Obj().Name() == "StructBuilder"
}

// nullSlotOf: the pseudo column standing for "a null appended to composite builder fv" (kept apart from an
// ordinary append to fv, which leaves the children to the caller).
var nullSlots = map[*types.Var]*types.Var{}
var nullSlotBase = map[*types.Var]*types.Var{}

func nullSlotOf(fv *types.Var) *types.Var {
	if v := nullSlots[fv]; v != nil {
		return v
	}
	v := types.NewVar(fv.Pos(), fv.Pkg(), fv.Name()+"(null)", fv.Type())
	nullSlots[fv] = v
	nullSlotBase[v] = fv
	return v
}

// rowVec: appends per column builder field on one path; rowSet: the distinct vectors over all paths.
type rowVec map[*types.Var]int

func (v rowVec) key() string {
	var ks []string
	for k, n := range v {
		if n != 0 {
			ks = append(ks, fmt.Sprintf("%s@%d=%d", k.Name(), k.Pos(), n))
		}
	}
	sort.Strings(ks)
	return strings.Join(ks, ",")
}

func (v rowVec) plus(w rowVec) rowVec {
	o := rowVec{}
	for k, n := range v {
		o[k] = n
	}
	for k, n := range w {
		o[k] = min(o[k]+n, 3)
	}
	return o
}

type rowSet struct {
	vecs     map[string]rowVec
	overflow bool
}

func newRowSet() *rowSet { return &rowSet{vecs: map[string]rowVec{"": {}}} }

func (s *rowSet) clone() *rowSet {
	o := &rowSet{vecs: map[string]rowVec{}, overflow: s.overflow}
	for k, v := range s.vecs {
		o.vecs[k] = v
	}
	return o
}

func (s *rowSet) union(t *rowSet) {
	for k, v := range t.vecs {
		s.vecs[k] = v
	}
	s.overflow = s.overflow || t.overflow
	if len(s.vecs) > 256 {
		s.overflow = true
	}
}

// times: every vector of s extended by every vector of g.
func (s *rowSet) times(g *rowSet) *rowSet {
	o := &rowSet{vecs: map[string]rowVec{}, overflow: s.overflow || g.overflow}
	for _, v := range s.vecs {
		for _, w := range g.vecs {
			x := v.plus(w)
			o.vecs[x.key()] = x
		}
	}
	if len(o.vecs) > 256 {
		o.overflow = true
	}
	return o
}

// enumAllConsts: the constants declared with named type t in t's package.
func enumAllConsts(t *types.Named) map[int64]string {
	out := map[int64]string{}
	if t == nil || t.Obj().Pkg() == nil {
		return out
	}
	sc := t.Obj().Pkg().Scope()
	for _, name := range sc.Names() {
		if cst, ok := sc.Lookup(name).(*types.Const); ok && types.Identical(cst.Type(), t) {
			if v, ok := constantInt(cst); ok {
				out[v] = name
			}
		}
	}
	return out
}

// infeasibleEdges: (block, successor index) pairs that no execution takes:
// the final "no case matched" edge of an == chain over one SSA value that covers
// every constant of its enumeration type. When only the zero ("empty")
// constant is missing and emptyFiltered(x) holds, the edge is infeasible too.
func infeasibleEdges(fn *ssa.Function, emptyFiltered func(x ssa.Value) bool) map[*ssa.BasicBlock]int {
	out := map[*ssa.BasicBlock]int{}
	cmpOf := func(b *ssa.BasicBlock) (ssa.Value, int64, bool) {
		iff := core.IfOf(b)
		if iff == nil {
			return nil, 0, false
		}
		bo, ok := iff.Cond.(*ssa.BinOp)
		if !ok || bo.Op != token.EQL {
			return nil, 0, false
		}
		k, ok := core.ConstInt(bo.Y)
		if !ok {
			return nil, 0, false
		}
		if n := core.NamedOf(bo.X.Type()); n == nil || n.Obj().Pkg() == nil {
			return nil, 0, false
		}
		return bo.X, k, true
	}
	for _, b := range fn.Blocks {
		x, _, ok := cmpOf(b)
		if !ok {
			continue
		}
		// b must be the head of the chain (no predecessor compares the same x on its false edge)
		head := true
		for _, p := range b.Preds {
			if px, _, ok := cmpOf(p); ok && px == x && len(p.Succs) == 2 && p.Succs[1] == b {
				head = false
			}
		}
		if !head {
			continue
		}
		cov := map[int64]bool{}
		last := b
		for cur := b; ; {
			cx, k, ok := cmpOf(cur)
			if !ok || cx != x {
				break
			}
			cov[k] = true
			last = cur
			cur = cur.Succs[1]
		}
		all := enumAllConsts(core.NamedOf(x.Type()))
		if len(all) < 2 {
			continue
		}
		var missing []int64
		for v := range all {
			if !cov[v] {
				missing = append(missing, v)
			}
		}
		if len(missing) == 0 || (len(missing) == 1 && missing[0] == 0 && emptyFiltered != nil && emptyFiltered(x)) {
			out[last] = 1
		}
	}
	return out
}

// failEdge: successor index of b taken when an error value is non-nil (-1 if none).
func failEdge(b *ssa.BasicBlock) int {
	iff := core.IfOf(b)
	if iff == nil {
		return -1
	}
	bo, ok := iff.Cond.(*ssa.BinOp)
	if !ok || !core.IsNilConst(bo.Y) || !isErrorType(bo.X.Type()) {
		return -1
	}
	switch bo.Op {
	case token.NEQ:
		return 0
	case token.EQL:
		return 1
	}
	return -1
}

func isErrorType(t types.Type) bool {
	n, ok := t.(*types.Named)
	return ok && n.Obj().Pkg() == nil && n.Obj().Name() == "error"
}

// failReturn: the return hands out a freshly made / sentinel error (a failure exit).
func failReturn(r *ssa.Return) bool {
	for _, res := range r.Results {
		if !isErrorType(res.Type()) {
			continue
		}
		v := res
		if mi, ok := v.(*ssa.MakeInterface); ok {
			v = mi.X
		}
		if freshError(v, 0) {
			return true
		}
	}
	return false
}

// freshError: v is an error made on the spot — a sentinel, errors.New / fmt.Errorf, or werror.Wrap of one of those.
// `werror.Wrap(err)` of a variable that may be nil (the tail `return werror.Wrap(err)` shared by the arms of a
// switch) is no failure by itself: the paths on which err is non-nil are cut at their `err != nil` tests.
func freshError(v ssa.Value, depth int) bool {
	if mi, ok := v.(*ssa.MakeInterface); ok {
		v = mi.X
	}
	switch x := v.(type) {
	case *ssa.Call:
		f := core.CalleeObj(x)
		if f == nil || f.Pkg() == nil {
			return false
		}
		if f.Pkg().Path() == "fmt" || f.Pkg().Path() == "errors" {
			return true
		}
		if strings.HasSuffix(f.Pkg().Path(), "/werror") {
			if depth > 3 || len(x.Call.Args) == 0 {
				return true
			}
			for _, a := range x.Call.Args {
				if isErrorType(a.Type()) {
					return freshError(a, depth+1)
				}
			}
			return true
		}
	case *ssa.UnOp:
		if _, ok := x.X.(*ssa.Global); ok {
			return true
		}
	}
	return false
}

// failExit: every path from s ends in a return / panic (or leaves the region)
// without appending anything and without completing the row.
func failExit(s *ssa.BasicBlock, rg rowRegion, gen map[*ssa.BasicBlock][]*rowSet) bool {
	seen := map[*ssa.BasicBlock]bool{}
	var walk func(b *ssa.BasicBlock) bool
	walk = func(b *ssa.BasicBlock) bool {
		if seen[b] {
			return true
		}
		seen[b] = true
		if rg.kind == "loop" && b == rg.header {
			return false // the iteration completes
		}
		if !rg.blocks[b] {
			return true // left the row loop
		}
		if len(gen[b]) > 0 {
			return false
		}
		if len(b.Succs) == 0 {
			if rg.kind == "body" {
				if r, ok := b.Instrs[len(b.Instrs)-1].(*ssa.Return); ok {
					// a return shared with the ordinary flow counts as completion unless it is reached from the error arm only
					for _, p := range b.Preds {
						if !seen[p] {
							return true // shared return block: nothing is appended after the join, the row stays as it is
						}
					}
					_ = r
				}
			}
			return true
		}
		for _, n := range b.Succs {
			if !walk(n) {
				return false
			}
		}
		return true
	}
	return walk(s)
}

// errFeasible: the error value can be non-nil because of repository code — it
// derives from a sentinel, errors.New / fmt.Errorf, or the error result of a
// repository function that (transitively) hands out such an error.  An error
// that can only be propagated from a third-party call (the CBOR encoder writing
// into a bytes.Buffer, an Arrow builder) is taken as not occurring for pdata
// values: the recorded assumption under which the error arms that merely
// `break` out of a value switch in the attribute builders are dead.
var errFeasibleMemo = map[*ssa.Function]int{} // 0 unknown, 1 busy, 2 no, 3 yes

func errFeasible(v ssa.Value, depth int) bool {
	if depth > 6 {
		return true
	}
	res := false
	core.BackSlice(v, func(x ssa.Value) bool {
		if res {
			return false
		}
		switch y := x.(type) {
		case *ssa.UnOp:
			if g, ok := y.X.(*ssa.Global); ok && g.Pkg != nil && core.InRepo(g.Pkg.Pkg.Path()) && isErrorType(y.Type()) {
				res = true
				return false
			}
		case *ssa.Call:
			f := core.CalleeObj(y)
			if f != nil && f.Pkg() != nil && (f.Pkg().Path() == "errors" && f.Name() == "New" || f.Pkg().Path() == "fmt" && f.Name() == "Errorf") {
				res = true
				return false
			}
			if callee := y.Call.StaticCallee(); callee != nil && core.InRepo(core.FnPkgPath(callee)) && len(callee.Blocks) > 0 {
				if strings.HasSuffix(core.FnPkgPath(callee), "/werror") {
					return true // Wrap(err): look at what is wrapped
				}
				if fnMayFail(callee, depth+1) {
					res = true
				}
				return false
			}
			if y.Call.IsInvoke() && isErrorType(y.Type()) {
				// interface call returning an error: unknown implementation
				if n := core.NamedOf(y.Call.Value.Type()); n != nil && n.Obj().Pkg() != nil && core.InRepo(n.Obj().Pkg().Path()) {
					res = true
				}
				return false
			}
			return false // third-party call: not followed
		}
		return true
	})
	return res
}

func fnMayFail(fn *ssa.Function, depth int) bool {
	switch errFeasibleMemo[fn] {
	case 1, 2:
		return false
	case 3:
		return true
	}
	errFeasibleMemo[fn] = 1
	res := false
	for _, r := range core.Returns(fn) {
		for _, x := range r.Results {
			if isErrorType(x.Type()) && !core.IsNilConst(x) && errFeasible(x, depth) {
				res = true
			}
		}
	}
	if res {
		errFeasibleMemo[fn] = 3
	} else {
		errFeasibleMemo[fn] = 2
	}
	return res
}

type rowRegion struct {
	fn     *ssa.Function
	kind   string // loop | body
	header *ssa.BasicBlock
	blocks map[*ssa.BasicBlock]bool
}

// loopsOf returns the natural loops of fn (header → body blocks incl. header).
func loopsOf(fn *ssa.Function) map[*ssa.BasicBlock]map[*ssa.BasicBlock]bool {
	loops := map[*ssa.BasicBlock]map[*ssa.BasicBlock]bool{}
	for _, b := range fn.Blocks {
		for _, s := range b.Succs {
			if s.Dominates(b) { // back edge b → s
				body := loops[s]
				if body == nil {
					body = map[*ssa.BasicBlock]bool{s: true}
					loops[s] = body
				}
				var stack []*ssa.BasicBlock
				if !body[b] {
					body[b] = true
					stack = append(stack, b)
				}
				for len(stack) > 0 {
					x := stack[len(stack)-1]
					stack = stack[:len(stack)-1]
					for _, p := range x.Preds {
						if !body[p] {
							body[p] = true
							stack = append(stack, p)
						}
					}
				}
			}
		}
	}
	return loops
}

type rowFinding struct {
	field *types.Var
	vals  []int
	where token.Pos
}

// analyseRows runs the row dataflow on fn. summaries gives, for sibling methods
// called on the same receiver, their per-call effect.
func analyseRows(fn *ssa.Function, summaries func(*ssa.Function) *rowSet, emptyFiltered func(ssa.Value) bool) (regions int, checked []*types.Var, findings []rowFinding, result *rowSet, overflow bool) {
	if len(fn.Blocks) == 0 {
		return
	}
	// per block: sequence of effects (each a rowSet to multiply in)
	gen := map[*ssa.BasicBlock][]*rowSet{}
	genFields := map[*ssa.BasicBlock]map[*types.Var]bool{}
	note := func(b *ssa.BasicBlock, rs *rowSet) {
		gen[b] = append(gen[b], rs)
		if genFields[b] == nil {
			genFields[b] = map[*types.Var]bool{}
		}
		for _, v := range rs.vecs {
			for k := range v {
				genFields[b][k] = true
			}
		}
	}
	for _, b := range fn.Blocks {
		for _, i := range b.Instrs {
			if fv := appendEvent(i); fv != nil {
				if compositeNull(i, fv) {
					fv = nullSlotOf(fv)
				}
				v := rowVec{fv: 1}
				note(b, &rowSet{vecs: map[string]rowVec{v.key(): v}})
				continue
			}
			// sibling helper methods on the same builder: their summary
			if ci, ok := i.(ssa.CallInstruction); ok && summaries != nil {
				if callee := core.StaticCallee(ci); callee != nil && callee != fn && callee.Signature.Recv() != nil && fn.Signature.Recv() != nil &&
					types.Identical(callee.Signature.Recv().Type(), fn.Signature.Recv().Type()) {
					if s := summaries(callee); s != nil && !(len(s.vecs) == 1 && s.vecs[""] != nil) {
						note(b, s)
					}
				}
			}
		}
	}
	if len(gen) == 0 {
		return
	}
	infeasible := infeasibleEdges(fn, emptyFiltered)
	loops := loopsOf(fn)
	var regs []rowRegion
	inSomeLoop := map[*ssa.BasicBlock]bool{}
	for h, body := range loops {
		has := false
		for b := range body {
			if gen[b] != nil {
				has = true
			}
		}
		if !has {
			continue
		}
		outer := true
		for h2, body2 := range loops {
			if h2 != h && body2[h] && len(body2) > len(body) {
				outer = false
			}
		}
		if outer {
			regs = append(regs, rowRegion{fn, "loop", h, body})
			for b := range body {
				inSomeLoop[b] = true
			}
		}
	}
	sort.Slice(regs, func(i, j int) bool { return regs[i].header.Index < regs[j].header.Index })
	if len(regs) == 0 {
		all := map[*ssa.BasicBlock]bool{}
		for _, b := range fn.Blocks {
			all[b] = true
		}
		regs = append(regs, rowRegion{fn, "body", fn.Blocks[0], all})
	}
	order := rpo(fn)
	for _, rg := range regs {
		regions++
		// fields appended inside inner loops are not counted
		looped := map[*types.Var]bool{}
		for h2, body2 := range loops {
			if h2 == rg.header || !rg.blocks[h2] {
				continue
			}
			if rg.kind == "loop" && len(body2) >= len(rg.blocks) {
				continue
			}
			for b := range body2 {
				for k := range genFields[b] {
					looped[k] = true
					if b := nullSlotBase[k]; b != nil {
						looped[b] = true
					}
				}
			}
		}
		in := map[*ssa.BasicBlock]*rowSet{rg.header: newRowSet()}
		final := &rowSet{vecs: map[string]rowVec{}}
		haveFinal := false
		for _, b := range order {
			if !rg.blocks[b] || in[b] == nil {
				continue
			}
			out := in[b]
			for _, g := range gen[b] {
				out = out.times(g)
			}
			if len(b.Instrs) > 0 {
				if r, ok := b.Instrs[len(b.Instrs)-1].(*ssa.Return); ok {
					if rg.kind == "body" && !failReturn(r) {
						final.union(out)
						haveFinal = true
					}
					continue
				}
				if _, ok := b.Instrs[len(b.Instrs)-1].(*ssa.Panic); ok {
					continue
				}
			}
			fe := failEdge(b)
			for si, s := range b.Succs {
				if si == fe {
					// the error arm: a failure exit (leaves without completing the row), or an
					// arm that carries on with the row.  The latter is followed when the error
					// can actually be produced by repository code (see errFeasible).
					if failExit(s, rg, gen) || !errFeasible(core.IfOf(b).Cond.(*ssa.BinOp).X, 0) {
						continue
					}
				}
				if inf, ok := infeasible[b]; ok && inf == si {
					continue
				}
				if rg.kind == "loop" && s == rg.header {
					final.union(out) // completed iteration
					haveFinal = true
					continue
				}
				if !rg.blocks[s] {
					continue // leaves the loop (break / exit): not a completed row
				}
				if s.Dominates(b) {
					continue // inner back edge
				}
				if in[s] == nil {
					in[s] = out.clone()
				} else {
					in[s].union(out)
				}
			}
		}
		if !haveFinal {
			continue
		}
		if final.overflow {
			overflow = true
			continue
		}
		// project away looped fields, drop the all-zero vector (a skipped row), compare the rest
		// A path that does nothing but append a null to a struct / union builder (`b.builder.AppendNull()`: the library
		// fills the children) is a whole-row null: it is compared on that builder only.
		fieldSet := map[*types.Var]bool{}
		var vecs []rowVec
		wholeNull := map[int]bool{}
		emptyPath := false
		for _, v := range final.vecs {
			w := rowVec{}
			onlyNull := true
			for k, n := range v {
				base, isNull := k, false
				if b := nullSlotBase[k]; b != nil {
					base, isNull = b, true
				}
				if !looped[base] && n != 0 {
					w[base] = min(w[base]+n, 3)
					fieldSet[base] = true
					if !isNull {
						onlyNull = false
					}
				}
			}
			if len(w) > 0 {
				if onlyNull {
					wholeNull[len(vecs)] = true
				}
				vecs = append(vecs, w)
			} else if len(v) == 0 {
				emptyPath = true
			}
		}
		// The Append method of an entity builder stands for one slot of that builder at its call sites: a path on which
		// it reports success without having appended anything leaves the caller's row one slot short.
		if emptyPath && len(vecs) > 0 && rg.kind == "body" && entityAppend(fn) {
			findings = append(findings, rowFinding{types.NewVar(fn.Pos(), nil, "the builder as a whole (a path returns success without appending any slot)", types.Typ[types.Int]), []int{0, 1}, fn.Pos()})
		}
		var fields []*types.Var
		for k := range fieldSet {
			fields = append(fields, k)
		}
		sort.Slice(fields, func(i, j int) bool { return fields[i].Name() < fields[j].Name() })
		for _, k := range fields {
			checked = append(checked, k)
			vals := map[int]bool{}
			for vi, v := range vecs {
				if wholeNull[vi] && v[k] == 0 {
					continue
				}
				vals[v[k]] = true
			}
			if len(vals) > 1 {
				var vs []int
				for n := range vals {
					vs = append(vs, n)
				}
				sort.Ints(vs)
				where := fn.Pos()
				for _, hi := range rg.header.Instrs {
					if hi.Pos() != token.NoPos {
						where = hi.Pos()
						break
					}
				}
				findings = append(findings, rowFinding{k, vs, where})
			}
		}
		if rg.kind == "body" {
			result = final
		}
	}
	return
}

func rpo(fn *ssa.Function) []*ssa.BasicBlock {
	seen := map[*ssa.BasicBlock]bool{}
	var post []*ssa.BasicBlock
	var dfs func(b *ssa.BasicBlock)
	dfs = func(b *ssa.BasicBlock) {
		seen[b] = true
		for _, s := range b.Succs {
			if !seen[s] {
				dfs(s)
			}
		}
		post = append(post, b)
	}
	dfs(fn.Blocks[0])
	for i, j := 0, len(post)-1; i < j; i, j = i+1, j-1 {
		post[i], post[j] = post[j], post[i]
	}
	return post
}

// emptyFilteredTypes: repository struct types with a pcommon.Value-pointer field
// all of whose construction sites (in reach) are guarded by a test that skips
// ValueTypeEmpty values (RT.17 establishes this; RT.2 relies on it).
func emptyFilteredStructs(p *core.Prog, reach map[*ssa.Function]bool) (map[*types.Named]bool, []string) {
	type site struct {
		fn      *ssa.Function
		pos     token.Pos
		guarded bool
	}
	sites := map[*types.Named][]site{}
	for _, fn := range sortedFuncs(p, reach) {
		if !encPkg(core.FnPkgPath(fn)) {
			continue
		}
		fn := fn
		core.EachInstr(fn, func(i ssa.Instruction) {
			st, ok := i.(*ssa.Store)
			if !ok {
				return
			}
			fa, ok := st.Addr.(*ssa.FieldAddr)
			if !ok {
				return
			}
			fv := core.FieldVar(fa)
			if fv == nil || fv.Name() != "Value" {
				return
			}
			pt, ok := fv.Type().(*types.Pointer)
			if !ok || core.TypeName(pt.Elem()) != "Value" || !isPdataType(pt.Elem()) {
				return
			}
			n := core.NamedOf(fa.X.Type())
			if n == nil {
				return
			}
			// guarded: some If in fn tests X.Type() == ValueTypeEmpty (constant 0) and its false edge guards the store
			guarded := false
			for _, b := range fn.Blocks {
				iff := core.IfOf(b)
				if iff == nil {
					continue
				}
				bo, ok := iff.Cond.(*ssa.BinOp)
				if !ok {
					continue
				}
				k, isC := core.ConstInt(bo.Y)
				if !isC || k != 0 || core.TypeName(bo.X.Type()) != "ValueType" {
					continue
				}
				if (bo.Op == token.EQL && core.GuardedBy(iff, false, st)) || (bo.Op == token.NEQ && core.GuardedBy(iff, true, st)) {
					guarded = true
				}
			}
			sites[n] = append(sites[n], site{fn, st.Pos(), guarded})
		})
	}
	out := map[*types.Named]bool{}
	var notes []string
	for n, ss := range sites {
		ok := true
		for _, s := range ss {
			if !s.guarded {
				ok = false
				notes = append(notes, fmt.Sprintf("%s built at %s without an empty-value filter", n.Obj().Name(), p.Pos(s.pos)))
			}
		}
		out[n] = ok
	}
	sort.Strings(notes)
	return out, notes
}

func rt_2(c *core.Ctx, p *core.Prog) {
	reach := encodeReach(p)
	filtered, _ := emptyFilteredStructs(p, reach)
	emptyFiltered := func(x ssa.Value) bool {
		// x = V.Type() with V loaded from field Value of an empty-filtered struct
		cl, ok := x.(*ssa.Call)
		if !ok || len(cl.Call.Args) == 0 {
			return false
		}
		found := false
		core.BackSlice(cl.Call.Args[0], func(v ssa.Value) bool {
			if fa := core.LoadedField(v); fa != nil {
				if n := core.NamedOf(fa.X.Type()); n != nil && filtered[n] {
					found = true
				}
			}
			if fa, ok := v.(*ssa.FieldAddr); ok {
				if n := core.NamedOf(fa.X.Type()); n != nil && filtered[n] {
					found = true
				}
			}
			if f, ok := v.(*ssa.Field); ok {
				if n := core.NamedOf(f.X.Type()); n != nil && filtered[n] {
					found = true
				}
			}
			return !found
		})
		return found
	}
	memo := map[*ssa.Function]*rowSet{}
	busy := map[*ssa.Function]bool{}
	var summaries func(*ssa.Function) *rowSet
	summaries = func(f *ssa.Function) *rowSet {
		if s, ok := memo[f]; ok {
			return s
		}
		if busy[f] {
			return nil
		}
		busy[f] = true
		_, _, _, res, _ := analyseRows(f, summaries, emptyFiltered)
		busy[f] = false
		memo[f] = res
		return res
	}
	nReg, nFields := 0, 0
	fns := sortedFuncs(p, reach)
	fns = append(fns, p.FuncsIn(func(pp string) bool { return core.IsCanaryPath(pp) && c.InScope(pp) })...)
	for _, fn := range fns {
		pp := core.FnPkgPath(fn)
		if !(encPkg(pp) || (core.IsCanaryPath(pp) && c.InScope(pp))) {
			continue
		}
		if fn.Synthetic != "" {
			continue
		}
		regions, checked, findings, _, overflow := analyseRows(fn, summaries, emptyFiltered)
		if overflow {
			c.Undecided("fn="+core.FuncName(fn)+"|overflow", p.Pos(fn.Pos()), core.FuncName(fn), "more than 256 distinct append vectors: the row dataflow gave up")
		}
		if regions == 0 {
			continue
		}
		nReg += regions
		seenF := map[*types.Var]bool{}
		for _, k := range checked {
			if !seenF[k] {
				seenF[k] = true
				nFields++
			}
		}
		key := "fn=" + core.FuncName(fn)
		if len(findings) > 0 {
			var parts []string
			for _, f := range findings {
				parts = append(parts, fmt.Sprintf("%s receives %v slots", f.field.Name(), f.vals))
			}
			c.Viol(key, p.Pos(findings[0].where), core.FuncName(fn), "the columns written by "+fn.Name()+" do not receive the same number of slots on every feasible non-failing path of a row ("+strings.Join(parts, "; ")+" depending on the path, while sibling columns do not vary the same way): the columns of the record/struct no longer line up (arrow-go panics on the length mismatch, or rows are decoded with another row's values)")
		} else if !overflow {
			c.OK(key, p.Pos(fn.Pos()), core.FuncName(fn), fmt.Sprintf("%d column builders receive the same number of slots on every feasible non-failing path of a row", len(seenF)))
		}
	}
	c.Stats["RT.2 row regions"] = nReg
	c.Stats["RT.2 column fields"] = nFields
}

// RT.17: attribute values stored in the accumulators are never empty.
func rt_17(c *core.Ctx, p *core.Prog) {
	reach := encodeReach(p)
	filtered, _ := emptyFilteredStructs(p, reach)
	var ns []*types.Named
	for n := range filtered {
		ns = append(ns, n)
	}
	sort.Slice(ns, func(i, j int) bool { return ns[i].Obj().Name() < ns[j].Obj().Name() })
	for _, n := range ns {
		c.Check(filtered[n], "type="+n.Obj().Name(), p.Pos(n.Obj().Pos()), n.Obj().Name(),
			"every reachable construction of "+n.Obj().Name()+" is guarded by a test that skips ValueTypeEmpty values",
			n.Obj().Name()+" values are built from attribute values without the empty-value filter: the value-type switch of the attribute record builder has no arm for an empty value, so the row's type/value columns receive no slot while parent id and key do (column misalignment)")
	}
}

func init() {
	for _, prop := range []string{"C01", "C02", "C03", "C08"} {
		register(prop, &core.Rule{ID: "RT.2", Title: "row discipline: every column builder receives the same number of slots on every feasible path of a row", Mod: core.ModRoot, Floor: 40, FloorBy: map[string]int{"C01": 16, "C02": 18, "C03": 25}, Run: rt_2, Canary: rt2Canary})
		register(prop, &core.Rule{ID: "RT.17", Title: "attribute values stored in the accumulators are never empty (the record builder's value switch has no empty arm)", Mod: core.ModRoot, Floor: 2, Run: rt_17})
	}
}

const rt2Canary = `package c

type Int32Builder struct{ n int }

func (b *Int32Builder) Append(v int32)        { b.n++ }
func (b *Int32Builder) AppendNull()           { b.n++ }
func (b *Int32Builder) AppendNonZero(v int32) { b.n++ }

type RowBuilder struct {
	ab *Int32Builder
	bb *Int32Builder
}

type row struct {
	kind int
	a, b int32
}

// BadMissingNull forgets the null of column bb in one arm.
func (r *RowBuilder) BadMissingNull(rows []row) {
	for _, x := range rows {
		if x.kind == 1 {
			r.ab.Append(x.a)
			r.bb.AppendNull()
		} else {
			r.ab.Append(x.a)
		}
	}
}

// BadContinue skips the rest of the row after a partial append.
func (r *RowBuilder) BadContinue(rows []row) {
	for _, x := range rows {
		r.ab.Append(x.a)
		if x.b == 0 {
			continue
		}
		r.bb.Append(x.b)
	}
}

// GoodBalanced appends every column once on every path.
func (r *RowBuilder) GoodBalanced(rows []row) error {
	for _, x := range rows {
		if x.kind == 1 {
			r.ab.Append(x.a)
			r.bb.AppendNull()
		} else {
			r.ab.AppendNull()
			r.bb.AppendNonZero(x.b)
		}
	}
	return nil
}
`
