package rules

import (
	"golang.org/x/tools/go/ssa"

	"otelcheck/internal/core"
)

// C12.13 — what was written to the sub-streams is handed out.
//
// Produce writes every record message of a batch to the IPC writer of its sub-stream (schema
// message, dictionary deltas, record batch) and collects the bytes as payloads. The writers keep
// their state: the next batch continues each stream. Once all messages of the batch have been
// written, the batch must go out — a refusal after the per-message loop (a size limit checked at
// the end, a late validation) drops bytes the writers have already accounted for, and the next
// batches on those streams lack the schema or the dictionary entries that went with them; an
// independent Arrow reader fails on them although every emitted batch looks well formed.
//
// Rule: in the function that hosts the per-message loop of the producer, every return reachable
// after the last call of the per-message function returns a nil error.
func c12_13(c *core.Ctx, p *core.Prog) {
	a := newProdAnchors(p)
	if !a.ok(c) {
		return
	}
	host := a.produceIn.Parent()
	if host == nil {
		host = a.produce
	}
	// the calls of the per-message function in the host (an immediately invoked closure, or a named helper)
	var calls []ssa.Instruction
	core.EachInstr(host, func(i ssa.Instruction) {
		cl, ok := i.(*ssa.Call)
		if !ok {
			return
		}
		if mc, ok := cl.Call.Value.(*ssa.MakeClosure); ok && mc.Fn == ssa.Value(a.produceIn) {
			calls = append(calls, cl)
		}
		if cl.Call.StaticCallee() == a.produceIn {
			calls = append(calls, cl)
		}
	})
	if len(calls) == 0 || host == a.produceIn {
		c.Undecided("loop", p.Pos(host.Pos()), core.FuncName(host), "the call of the per-message function in Produce not found")
		return
	}
	// the error edge right after the call belongs to the message that failed (nothing of it was handed out either,
	// a weakness the property's authors accepted: C12 quantifies over batches that were emitted)
	cut := map[core.Edge]bool{}
	for _, b := range host.Blocks {
		if fe := failEdge(b); fe >= 0 {
			for _, cl := range calls {
				if cl.Block() == b {
					cut[core.Edge{From: b, To: b.Succs[fe]}] = true
				}
			}
		}
	}
	var bad []string
	for _, r := range core.Returns(host) {
		if len(r.Results) == 0 {
			continue
		}
		last := r.Results[len(r.Results)-1]
		if !isErr(last.Type()) || core.IsNilConst(last) {
			continue
		}
		for _, cl := range calls {
			if ok, _ := (core.PathQuery{Fn: host, From: cl, To: r, CutEdges: cut}).Exists(); ok {
				bad = append(bad, p.Pos(r.Pos()))
				break
			}
		}
	}
	c.Check(len(bad) == 0, "after-loop", p.Pos(calls[0].Pos()), core.FuncName(host), "once the messages of a batch were written to their sub-streams the batch is returned",
		"Produce can refuse the batch at "+joinMsgs(bad)+" after its messages were written to the IPC writers: the bytes (schema messages, dictionary deltas) are dropped while the writers keep their state, so the following batches are not valid continuations of their streams")
}

func init() {
	register("C12", &core.Rule{ID: "C12.13", Title: "no refusal after the per-message loop: what was written to the sub-streams is handed out", Mod: core.ModRoot, Floor: 1, Run: c12_13})
}
