package rules

import (
	"fmt"
	"go/ast"
	"go/token"
	"go/types"
	"sort"
	"strings"

	"golang.org/x/tools/go/ssa"

	"otelcheck/internal/core"
)

func init() {
	core.Describe("C07",
		"Static necessary conditions of 'the consumer decodes a batch completely or rejects it; never crashes', decided for every repo function reachable from Consumer.{TracesFrom,LogsFrom,MetricsFrom,Consume,Close} (call graph restricted to repository code): "+
			"C07.1 no error value dies unread: an error result is never discarded (except the frozen table of lookups whose error is impossible on a schema the Arrow reader accepted), never assigned and overwritten, and is looked at (compared, returned or passed on) on every path before the producing statement can run again or the function exits; "+
			"C07.2 a pointer field that is nil in the container after a failed initialisation (publish-before-init: streamConsumer.ipcReader) is dereferenced only where a nil test or a non-nil store of the same access path dominates; "+
			"C07.4 every success return of Consume is dominated by ¬(len(records) < len(payloads)) and failures release what was collected; "+
			"C07.5 each RelatedDataFrom rejects unknown payload types with a non-nil error and a second main record; "+
			"C07.7 a field id that may be AbsentFieldID (-1) — from a non-mandatory lookup, through id-struct fields, parameters and helper results — reaches an indexing call of arrow-go (Struct.Field, Record.Column, Schema.Field, StructType.Field) only where a comparison with AbsentFieldID guards it. "+
			"NOT decided: crashes inside arrow-go IPC decoding (excluded by the property's own text), index arithmetic on rows, the CBOR library.",
		"ipc.NewReader and (*ipc.Reader).Next recover panics into errors", "arrow.Schema.FieldIndices returns every index of a name")
	register("C07", &core.Rule{ID: "C07.1", Title: "no error dies unread on the decode path", Mod: core.ModRoot, Floor: 150, Run: c07_1, Canary: c07_1Canary})
	register("C07", &core.Rule{ID: "C07.2", Title: "publish-before-init fields are nil-tested before use", Mod: core.ModRoot, Floor: 3, Run: c07_2})
	register("C14", &core.Rule{ID: "C14.9", Title: "a stream whose reader could not be opened (possibly refused by the limit itself) is never dereferenced: publish-before-init fields are nil-tested before use", Mod: core.ModRoot, Floor: 3, Run: c07_2})
	register("C14", &core.Rule{ID: "C14.10", Title: "records collected before a failure of Consume are released (they do not stay counted against the limit after a refusal)", Mod: core.ModRoot, Floor: 2, Run: c07_4})
	register("C07", &core.Rule{ID: "C07.4", Title: "payload count check dominates success; failures release", Mod: core.ModRoot, Floor: 2, Run: c07_4})
	register("C07", &core.Rule{ID: "C07.5", Title: "RelatedDataFrom rejects unknown and duplicated payloads", Mod: core.ModRoot, Floor: 6, Run: c07_5})
	register("C07", &core.Rule{ID: "C07.7", Title: "possibly-absent field ids are guarded before indexing", Mod: core.ModRoot, Floor: 30, Run: c07_7, Canary: c07_7Canary})
	register("C03", &core.Rule{ID: "C03.7", Title: "absent-column tolerant decoding: possibly-absent field ids are guarded before indexing", Mod: core.ModRoot, Floor: 30, Run: c07_7, Canary: c07_7Canary})
	register("C01", &core.Rule{ID: "C01.7", Title: "absent-column tolerant decoding: possibly-absent field ids are guarded before indexing", Mod: core.ModRoot, Floor: 10, Run: c07_7, Canary: c07_7Canary})
	register("C02", &core.Rule{ID: "C02.7", Title: "absent-column tolerant decoding: possibly-absent field ids are guarded before indexing", Mod: core.ModRoot, Floor: 10, Run: c07_7, Canary: c07_7Canary})
}

const c07_1Canary = `package c

import "errors"

func f() (int, error) { return 0, errors.New("x") }
func g() error        { return nil }

// BadOverwritten assigns an error and overwrites it without reading it.
func BadOverwritten() (int, error) {
	a, err := f()
	err = nil
	return a, err
}

// BadLoop forgets the check inside a loop: a later iteration overwrites the error.
func BadLoop(n int) (err error) {
	for i := 0; i < n; i++ {
		err = g()
	}
	return
}

// BadDiscard discards an error that is not in the table.
func BadDiscard() int {
	a, _ := f()
	return a
}

func GoodChecked(n int) (int, error) {
	s := 0
	for i := 0; i < n; i++ {
		a, err := f()
		if err != nil {
			return 0, err
		}
		s += a
	}
	if err := g(); err != nil {
		return 0, err
	}
	return s, g()
}
`

// errDiscardAllowed: callees whose error may be discarded with `_`.
// One line of reason each (frozen table, DESIGN C07.1).
var errDiscardAllowed = map[string]string{
	pkgArrowUtils + ".FieldIDFromSchema":              "error = duplicated field name: impossible in a schema the Arrow IPC reader accepted",
	pkgArrowUtils + ".FieldIDFromStruct":              "error = duplicated field name in a struct type: same reason",
	pkgArrowUtils + ".StructFieldIDFromSchema":        "error = duplicate / not a struct: the id stays absent and every accessor tolerates an absent id",
	pkgArrowUtils + ".StructFieldIDFromStruct":        "same as StructFieldIDFromSchema",
	pkgArrowUtils + ".ListOfStructsFieldIDFromSchema": "same as StructFieldIDFromSchema",
	pkgArrowUtils + ".ListOfStructsFieldIDFromStruct": "same as StructFieldIDFromSchema",
}

func calleeKey(ci ssa.CallInstruction) string {
	f := core.CalleeObj(ci)
	if f == nil {
		return ""
	}
	if f.Pkg() == nil {
		return f.Name()
	}
	if n := core.RecvNamed(f); n != nil {
		return f.Pkg().Path() + "." + n.Obj().Name() + "." + f.Name()
	}
	return f.Pkg().Path() + "." + f.Name()
}

// blankErrAssign reports whether the call's error result is assigned to the
// blank identifier in the source (x, _ := f()).
func blankErrAssign(p *core.Prog, cl *ssa.Call, idx int) bool {
	_, file := p.FileOf(cl.Pos())
	if file == nil {
		return false
	}
	ce := core.CallExprAt(file, cl.Pos())
	if ce == nil {
		return false
	}
	blank := false
	ast.Inspect(file, func(n ast.Node) bool {
		switch s := n.(type) {
		case *ast.AssignStmt:
			if len(s.Rhs) == 1 && ast.Unparen(s.Rhs[0]) == ast.Expr(ce) && idx < len(s.Lhs) {
				if id, ok := s.Lhs[idx].(*ast.Ident); ok && id.Name == "_" {
					blank = true
				}
				return false
			}
		case *ast.ValueSpec:
			if len(s.Values) == 1 && ast.Unparen(s.Values[0]) == ast.Expr(ce) && idx < len(s.Names) {
				if s.Names[idx].Name == "_" {
					blank = true
				}
				return false
			}
		}
		return !blank
	})
	return blank
}

// errorLookedAt: every path from the definition of error value v to a function
// exit, or back to the defining instruction, executes an instruction that uses
// v directly (comparison, return, call argument, store, conversion) — a φ-merge
// alone does not count.
func errorLookedAt(fn *ssa.Function, def ssa.Instruction, v ssa.Value) (bool, string) {
	looks := map[ssa.Instruction]bool{}
	seenPhi := map[ssa.Value]bool{}
	var collect func(x ssa.Value, depth int)
	collect = func(x ssa.Value, depth int) {
		for _, r := range core.Referrers(x) {
			switch y := r.(type) {
			case *ssa.DebugRef:
			case *ssa.Phi:
				// a merge is not an examination, but what examines the merged value is
				if !seenPhi[y] && depth < 4 {
					seenPhi[y] = true
					collect(y, depth+1)
				}
			case *ssa.Store:
				// spilled into a local cell (named result / captured variable): what examines
				// the loads that this store reaches examines the error
				al, isLocal := y.Addr.(*ssa.Alloc)
				if !isLocal || y.Val != x {
					looks[r] = true
					continue
				}
				otherStore := func(i ssa.Instruction) bool {
					s2, ok := i.(*ssa.Store)
					return ok && s2 != y && s2.Addr == ssa.Value(al)
				}
				for _, r2 := range core.Referrers(al) {
					ld, ok := r2.(*ssa.UnOp)
					if !ok || ld.Op != token.MUL || seenPhi[ld] || depth > 4 {
						continue
					}
					if ok, _ := (core.PathQuery{Fn: fn, From: y, To: ld, Avoid: otherStore}).Exists(); ok {
						seenPhi[ld] = true
						collect(ld, depth+1)
					}
				}
			default:
				looks[r] = true
			}
		}
	}
	collect(v, 0)
	if len(looks) == 0 {
		return false, "the error is never examined (only merged or overwritten)"
	}
	avoid := func(i ssa.Instruction) bool { return looks[i] }
	if ok, _ := (core.PathQuery{Fn: fn, From: def, To: def, Avoid: avoid}).Exists(); ok {
		return false, "the producing statement can run again (loop) before the error is examined: a later iteration overwrites it"
	}
	if ok, _ := (core.PathQuery{Fn: fn, From: def, Avoid: avoid, ExitFilter: func(i ssa.Instruction) bool { return !looks[i] }}).Exists(); ok {
		return false, "a path leaves the function without the error being examined"
	}
	return true, ""
}

func c07_1(c *core.Ctx, p *core.Prog) {
	reach := repoReach(p, p.CHA(), consumerEntries(p))
	if len(reach) < 50 {
		c.Undecided("reach", "?", "", fmt.Sprintf("only %d repo functions reachable from the consumer entry points: anchors do not resolve", len(reach)))
		return
	}
	c.Stats["decode_path_functions"] = len(reach)
	fns := sortedFuncs(p, reach)
	for _, f := range rootFuncs(c, p) {
		if core.IsCanaryPath(core.FnPkgPath(f)) {
			fns = append(fns, f)
		}
	}
	seenKey := map[string]int{}
	for _, fn := range fns {
		if !prodPkg(core.FnPkgPath(fn)) && !core.IsCanaryPath(core.FnPkgPath(fn)) {
			continue
		}
		core.EachInstr(fn, func(i ssa.Instruction) {
			cl, ok := i.(*ssa.Call)
			if !ok {
				return
			}
			sig := cl.Call.Signature()
			idx, isE := lastResultIsError(sig)
			if !isE {
				return
			}
			ck := calleeKey(cl)
			base := fmt.Sprintf("fn=%s|callee=%s", core.FuncName(fn), strings.TrimPrefix(ck, core.RepoPath+"/"))
			seenKey[base]++
			key := base
			if seenKey[base] > 1 {
				key = fmt.Sprintf("%s#%d", base, seenKey[base])
			}
			pos := p.Pos(cl.Pos())
			var ev ssa.Value
			if sig.Results().Len() == 1 {
				ev = cl
				if !usedValue(cl) {
					c.Viol(key, pos, core.FuncName(fn), "the error returned by "+ck+" is dropped (call used as a statement)")
					return
				}
			} else {
				for _, r := range core.Referrers(cl) {
					if e, ok := r.(*ssa.Extract); ok && e.Index == idx {
						ev = e
					}
				}
				if ev == nil || blankErrAssign(p, cl, idx) {
					if why, ok := errDiscardAllowed[ck]; ok {
						c.OK(key, pos, core.FuncName(fn), "error discarded with _: allowed ("+why+")")
					} else {
						c.Viol(key, pos, core.FuncName(fn), "the error returned by "+ck+" is discarded with _ on the decode path: a damaged batch would be accepted silently")
					}
					return
				}
				if !usedValue(ev) {
					c.Viol(key, pos, core.FuncName(fn), "the error returned by "+ck+" is assigned but never read (overwritten by a later assignment): the failure is reported as success")
					return
				}
			}
			ok2, why := errorLookedAt(fn, cl, ev)
			c.Check(ok2, key, pos, core.FuncName(fn), "error examined on every path", "the error returned by "+ck+" is not examined on every path: "+why)
		})
	}
}

// ---------------- C07.2 ----------------

// nilableField: struct type T (in arrow_record) whose pointer field f is
// published unset: T is allocated in a function, stored into a map/field
// before f is assigned, with a function exit possible in between.
type nilableField struct {
	owner *types.Named
	field *types.Var
	why   string
}

func findNilableFields(p *core.Prog, pkgs ...string) []nilableField {
	var out []nilableField
	seen := map[*types.Var]bool{}
	for _, fn := range p.FuncsIn(func(pp string) bool {
		for _, x := range pkgs {
			if pp == x {
				return true
			}
		}
		return false
	}) {
		core.EachInstr(fn, func(i ssa.Instruction) {
			// the new object: a heap allocation here, or the result of a package constructor that returns one
			var al ssa.Value
			setInLit := map[int]bool{}
			litStores := func(a *ssa.Alloc) {
				for _, r := range core.Referrers(a) {
					if x, ok := r.(*ssa.FieldAddr); ok {
						for _, r2 := range core.Referrers(x) {
							if s, ok := r2.(*ssa.Store); ok && s.Addr == ssa.Value(x) {
								setInLit[x.Field] = true
							}
						}
					}
				}
			}
			switch x := i.(type) {
			case *ssa.Alloc:
				if !x.Heap {
					return
				}
				al = x
			case *ssa.Call:
				callee := x.Call.StaticCallee()
				if callee == nil || core.FnPkgPath(callee) != core.FnPkgPath(fn) || callee.Signature.Results().Len() != 1 {
					return
				}
				var inner *ssa.Alloc
				okAll := true
				for _, r := range core.Returns(callee) {
					a, ok := r.Results[0].(*ssa.Alloc)
					if !ok || !a.Heap || (inner != nil && inner != a) {
						okAll = false
					}
					inner = a
				}
				if !okAll || inner == nil {
					return
				}
				litStores(inner)
				al = x
			default:
				return
			}
			pt, ok := al.Type().(*types.Pointer)
			if !ok {
				return
			}
			named, _ := pt.Elem().(*types.Named)
			if named == nil {
				return
			}
			st, ok := named.Underlying().(*types.Struct)
			if !ok {
				return
			}
			// fields set in the literal (stores through FieldAddr of the alloc in the same block region before publication)
			var publish ssa.Instruction
			for _, r := range core.Referrers(al) {
				switch x := r.(type) {
				case *ssa.FieldAddr:
					for _, r2 := range core.Referrers(x) {
						if s, ok := r2.(*ssa.Store); ok && s.Addr == ssa.Value(x) {
							setInLit[x.Field] = true
						}
					}
				case *ssa.MapUpdate:
					if x.Value == ssa.Value(al) {
						publish = x
					}
				case *ssa.Store:
					if x.Val == ssa.Value(al) {
						if _, isField := x.Addr.(*ssa.FieldAddr); isField {
							publish = x
						}
					}
				}
			}
			if publish == nil {
				return
			}
			for k := 0; k < st.NumFields(); k++ {
				fv := st.Field(k)
				if _, isPtr := fv.Type().Underlying().(*types.Pointer); !isPtr || setInLit[k] || seen[fv] {
					continue
				}
				// is the field assigned later in this function, with an exit between publication and assignment?
				// assignment events after the publication: direct stores, and calls of package functions that
				// store the field (a helper that opens the reader); a helper counts as an assignment only when
				// every path to its normal return stores the field
				storesField := func(f *ssa.Function) (may, must bool) {
					if f == nil || len(f.Blocks) == 0 {
						return false, false
					}
					isSt := func(x ssa.Instruction) bool {
						s, ok := x.(*ssa.Store)
						if !ok {
							return false
						}
						fa, ok := s.Addr.(*ssa.FieldAddr)
						return ok && core.FieldVar(fa) == fv
					}
					core.EachInstr(f, func(x ssa.Instruction) {
						if isSt(x) {
							may = true
						}
					})
					if may {
						skip, _ := core.PathQuery{Fn: f, Avoid: isSt, ExitReturnOnly: true}.Exists()
						must = !skip
					}
					return
				}
				var later ssa.Instruction
				mustEv := map[ssa.Instruction]bool{}
				core.EachInstr(fn, func(j ssa.Instruction) {
					switch x := j.(type) {
					case *ssa.Store:
						if fa, ok := x.Addr.(*ssa.FieldAddr); ok && core.FieldVar(fa) == fv && core.Reachable(fn, publish, x) {
							later = x
							mustEv[x] = true
						}
					case *ssa.Call:
						callee := x.Call.StaticCallee()
						if callee != nil && callee != fn && core.FnPkgPath(callee) == core.FnPkgPath(fn) && core.Reachable(fn, publish, x) {
							if may, must := storesField(callee); may {
								later = x
								if must {
									mustEv[x] = true
								}
							}
						}
					}
				})
				if later == nil {
					// never assigned in the publishing function (e.g. a constructor-and-register helper that
					// returns the new object): published unset if some other function of the package assigns it
					var elsewhere ssa.Instruction
					for _, g := range p.FuncsIn(func(pp string) bool { return pp == core.FnPkgPath(fn) }) {
						if g == fn {
							continue
						}
						core.EachInstr(g, func(j ssa.Instruction) {
							if s, ok := j.(*ssa.Store); ok && elsewhere == nil && !core.IsNilConst(s.Val) {
								if fa, ok := s.Addr.(*ssa.FieldAddr); ok && core.FieldVar(fa) == fv {
									elsewhere = s
								}
							}
						})
					}
					// … unless every caller of this register-and-return helper completes the object before it can
					// return: from the call, every path to a return passes a non-nil store of the field or a call of a
					// package helper that ensures it (all of its normal returns are behind a non-nil store of the field
					// or the non-nil edge of a nil test of it: `if sp.w != nil { return }; sp.w = New…`)
					if elsewhere != nil {
						ensures := func(e *ssa.Function) bool {
							if e == nil || len(e.Blocks) == 0 || core.FnPkgPath(e) != core.FnPkgPath(fn) {
								return false
							}
							isSt := func(x ssa.Instruction) bool {
								st, ok := x.(*ssa.Store)
								if !ok || core.IsNilConst(st.Val) {
									return false
								}
								fa, ok := st.Addr.(*ssa.FieldAddr)
								return ok && core.FieldVar(fa) == fv
							}
							has := false
							cutE := map[core.Edge]bool{}
							for _, b := range e.Blocks {
								for _, x := range b.Instrs {
									if isSt(x) {
										has = true
									}
								}
								iff := core.IfOf(b)
								if iff == nil {
									continue
								}
								if cmp, ok := iff.Cond.(*ssa.BinOp); ok && core.IsNilConst(cmp.Y) {
									if f2 := core.LoadedField(cmp.X); f2 != nil && core.FieldVar(f2) == fv {
										if cmp.Op == token.NEQ {
											cutE[core.Edge{From: b, To: b.Succs[0]}] = true
										} else if cmp.Op == token.EQL {
											cutE[core.Edge{From: b, To: b.Succs[1]}] = true
										}
									}
								}
							}
							if !has {
								return false
							}
							skip, _ := core.PathQuery{Fn: e, Avoid: isSt, CutEdges: cutE, ExitReturnOnly: true}.Exists()
							return !skip
						}
						sites, completed := 0, true
						for _, g := range p.FuncsIn(func(pp string) bool { return pp == core.FnPkgPath(fn) }) {
							for _, host := range core.WithClosures(g) {
								core.EachCall(host, func(ci ssa.CallInstruction) {
									if ci.Common().StaticCallee() != fn {
										return
									}
									sites++
									ev := func(x ssa.Instruction) bool {
										if st, ok := x.(*ssa.Store); ok && !core.IsNilConst(st.Val) {
											if fa, ok := st.Addr.(*ssa.FieldAddr); ok && core.FieldVar(fa) == fv {
												return true
											}
										}
										if cl, ok := x.(*ssa.Call); ok && ensures(cl.Call.StaticCallee()) {
											return true
										}
										return false
									}
									// edges that do not count as leaving the object incomplete: the non-nil edge of a nil test of
									// the field (`if sp.w == nil { sp.w = New… }`), and the failure edge right after the call when
									// the helper cannot fail after it has published the object
									cutH := map[core.Edge]bool{}
									for _, hb := range host.Blocks {
										iff := core.IfOf(hb)
										if iff == nil {
											continue
										}
										if cmp, ok := iff.Cond.(*ssa.BinOp); ok && core.IsNilConst(cmp.Y) {
											if f2 := core.LoadedField(cmp.X); f2 != nil && core.FieldVar(f2) == fv {
												if cmp.Op == token.EQL {
													cutH[core.Edge{From: hb, To: hb.Succs[1]}] = true
												} else if cmp.Op == token.NEQ {
													cutH[core.Edge{From: hb, To: hb.Succs[0]}] = true
												}
											}
										}
										ownErr := false // the tested error is a result of this very call, not of something built from its result
										if cmp, ok := iff.Cond.(*ssa.BinOp); ok && ci.Value() != nil {
											for _, side := range []ssa.Value{cmp.X, cmp.Y} {
												if ex, ok := side.(*ssa.Extract); ok && ex.Tuple == ssa.Value(ci.Value()) {
													ownErr = true
												}
												if side == ssa.Value(ci.Value()) {
													ownErr = true
												}
											}
										}
										if fe := failEdge(hb); fe >= 0 && ownErr {
											failsAfterPublish := false
											for _, r := range core.Returns(fn) {
												last := r.Results[len(r.Results)-1]
												if isErrorType(last.Type()) && !core.IsNilConst(core.ResultValue(r, len(r.Results)-1)) && core.Reachable(fn, publish, r) {
													failsAfterPublish = true
												}
											}
											if !failsAfterPublish {
												cutH[core.Edge{From: hb, To: hb.Succs[fe]}] = true
											}
										}
									}
									if escape, _ := (core.PathQuery{Fn: host, From: ci, Avoid: ev, CutEdges: cutH, ExitReturnOnly: true}).Exists(); escape {
										completed = false
									}
								})
							}
						}
						if sites > 0 && completed {
							continue
						}
					}
					if elsewhere != nil {
						seen[fv] = true
						out = append(out, nilableField{named, fv, fmt.Sprintf("published at %s with %s unset; it is assigned only later, by %s at %s", p.Pos(publish.Pos()), fv.Name(), core.FuncName(elsewhere.Parent()), p.Pos(elsewhere.Pos()))})
					}
					continue
				}
				// right after allocation the field is nil: follow only the ==nil edges of tests on it
				cutNN := map[core.Edge]bool{}
				for _, b := range fn.Blocks {
					iff := core.IfOf(b)
					if iff == nil {
						continue
					}
					cmp, ok := iff.Cond.(*ssa.BinOp)
					if !ok || !core.IsNilConst(cmp.Y) {
						continue
					}
					if f2 := core.LoadedField(cmp.X); f2 != nil && core.FieldVar(f2) == fv {
						if cmp.Op == token.EQL {
							cutNN[core.Edge{From: b, To: b.Succs[1]}] = true
						} else if cmp.Op == token.NEQ {
							cutNN[core.Edge{From: b, To: b.Succs[0]}] = true
						}
					}
				}
				exitBetween, _ := core.PathQuery{Fn: fn, From: publish, CutEdges: cutNN, ExitReturnOnly: true, Avoid: func(x ssa.Instruction) bool { return mustEv[x] }}.Exists()
				if exitBetween {
					seen[fv] = true
					out = append(out, nilableField{named, fv, fmt.Sprintf("published at %s before %s is assigned at %s, and the function can return in between", p.Pos(publish.Pos()), fv.Name(), p.Pos(later.Pos()))})
				}
			}
		})
	}
	return out
}

func c07_2(c *core.Ctx, p *core.Prog) {
	nfs := findNilableFields(p, pkgArrowRecord)
	if len(nfs) == 0 {
		c.Undecided("nilable", "?", "", "no publish-before-init field found in arrow_record (expected streamConsumer.ipcReader): anchor does not resolve")
		return
	}
	for _, nf := range nfs {
		c.Note("C07.2 nilable in container: %s.%s (%s)", nf.owner.Obj().Name(), nf.field.Name(), nf.why)
		for _, fn := range p.FuncsIn(func(pp string) bool { return pp == pkgArrowRecord }) {
			core.EachInstr(fn, func(i ssa.Instruction) {
				ld, ok := i.(*ssa.UnOp)
				if !ok || ld.Op != token.MUL {
					return
				}
				fa, ok := ld.X.(*ssa.FieldAddr)
				if !ok || core.FieldVar(fa) != nf.field {
					return
				}
				basePath := core.AccessPath(fa.X)
				sameBase := func(x ssa.Value) bool {
					return x == fa.X || core.SameValue(x, fa.X) || (basePath != "" && core.AccessPath(x) == basePath)
				}
				// dereferencing uses of the loaded pointer: method calls with it as receiver, field access
				for _, r := range core.Referrers(ld) {
					deref := false
					switch x := r.(type) {
					case ssa.CallInstruction:
						if len(x.Common().Args) > 0 && x.Common().Args[0] == ssa.Value(ld) && !x.Common().IsInvoke() {
							deref = true
						}
					case *ssa.FieldAddr:
						deref = x.X == ssa.Value(ld)
					case *ssa.UnOp:
						deref = x.Op == token.MUL
					}
					if !deref {
						continue
					}
					use := r
					key := fmt.Sprintf("use|%s.%s@%s:%s", nf.owner.Obj().Name(), nf.field.Name(), core.FuncName(fn), p.Pos(use.Pos()))
					// safe edges: non-nil edge of a nil test on the same access path; safe instrs: non-nil store to same path
					cut := map[core.Edge]bool{}
					for _, b := range fn.Blocks {
						iff := core.IfOf(b)
						if iff == nil {
							continue
						}
						cmp, ok := iff.Cond.(*ssa.BinOp)
						if !ok || !core.IsNilConst(cmp.Y) {
							continue
						}
						f2 := core.LoadedField(cmp.X)
						if f2 == nil || core.FieldVar(f2) != nf.field || !sameBase(f2.X) {
							continue
						}
						if cmp.Op == token.NEQ {
							cut[core.Edge{From: b, To: b.Succs[0]}] = true
						} else if cmp.Op == token.EQL {
							cut[core.Edge{From: b, To: b.Succs[1]}] = true
						}
					}
					// helpers that store the field or fail: every return of the helper that is not preceded by a
					// store of the field returns a non-nil error; the caller's edge taken on that error is cut
					storeOrErr := func(h *ssa.Function) bool {
						if h == nil || len(h.Blocks) == 0 || h == fn || core.FnPkgPath(h) != core.FnPkgPath(fn) {
							return false
						}
						isSt := func(x ssa.Instruction) bool {
							s, ok := x.(*ssa.Store)
							if !ok {
								return false
							}
							f2, ok := s.Addr.(*ssa.FieldAddr)
							return ok && core.FieldVar(f2) == nf.field && !core.IsNilConst(s.Val)
						}
						has := false
						core.EachInstr(h, func(x ssa.Instruction) {
							if isSt(x) {
								has = true
							}
						})
						if !has {
							return false
						}
						nilRet := func(x ssa.Instruction) bool {
							r, ok := x.(*ssa.Return)
							if !ok {
								return false
							}
							for _, res := range r.Results {
								if isErrorType(res.Type()) && !core.IsNilConst(res) {
									return false // an error return
								}
							}
							return true
						}
						// inside the helper, the edge on which the field was found non-nil needs no store (`if sc.r != nil { return nil }`)
						known := map[core.Edge]bool{}
						for _, hb := range h.Blocks {
							iff := core.IfOf(hb)
							if iff == nil {
								continue
							}
							cmp, ok := iff.Cond.(*ssa.BinOp)
							if !ok || !core.IsNilConst(cmp.Y) {
								continue
							}
							f2 := core.LoadedField(cmp.X)
							if f2 == nil || core.FieldVar(f2) != nf.field {
								continue
							}
							if cmp.Op == token.NEQ {
								known[core.Edge{From: hb, To: hb.Succs[0]}] = true
							} else if cmp.Op == token.EQL {
								known[core.Edge{From: hb, To: hb.Succs[1]}] = true
							}
						}
						bad, _ := core.PathQuery{Fn: h, Avoid: isSt, CutEdges: known, ExitFilter: nilRet, ExitReturnOnly: true}.Exists()
						return !bad
					}
					helperCalls := map[ssa.Instruction]bool{}
					core.EachInstr(fn, func(x ssa.Instruction) {
						cl, ok := x.(*ssa.Call)
						if !ok || !storeOrErr(cl.Call.StaticCallee()) {
							return
						}
						helperCalls[cl] = true
						for _, b := range fn.Blocks {
							if fe := failEdge(b); fe >= 0 {
								iff := core.IfOf(b)
								if core.DerivesFrom(iff.Cond, func(v ssa.Value) bool { return v == ssa.Value(cl) }) {
									cut[core.Edge{From: b, To: b.Succs[fe]}] = true
								}
							}
						}
					})
					avoid := func(x ssa.Instruction) bool {
						if helperCalls[x] {
							return true
						}
						s, ok := x.(*ssa.Store)
						if !ok {
							return false
						}
						f2, ok := s.Addr.(*ssa.FieldAddr)
						if !ok || core.FieldVar(f2) != nf.field || !sameBase(f2.X) {
							return false
						}
						return !core.IsNilConst(s.Val)
					}
					exists, _ := core.PathQuery{Fn: fn, To: use, Avoid: avoid, CutEdges: cut}.Exists()
					c.Check(!exists, key, p.Pos(use.Pos()), core.FuncName(fn), "dereference dominated by a nil test or a non-nil store of "+basePath+"."+nf.field.Name(),
						fmt.Sprintf("%s.%s can be nil here (%s) and is dereferenced without a dominating nil test: a batch that follows a failed reader initialisation crashes the consumer", basePath, nf.field.Name(), nf.why))
				}
			})
		}
	}
}

// ---------------- C07.4 ----------------

func namedResult(fd *ast.FuncDecl, name string) bool {
	if fd.Type.Results == nil {
		return false
	}
	for _, f := range fd.Type.Results.List {
		for _, n := range f.Names {
			if n.Name == name {
				return true
			}
		}
	}
	return false
}

func c07_4(c *core.Ctx, p *core.Prog) {
	fn := p.Func(pkgArrowRecord, "Consumer", "Consume")
	if fn == nil {
		c.Undecided("consume", "?", "", "Consumer.Consume not found")
		return
	}
	pk, node := p.DeclOf(fn)
	fd, _ := node.(*ast.FuncDecl)
	_, file := p.FileOf(fn.Pos())
	if fd == nil || file == nil || fd.Type.Results == nil {
		c.Undecided("consume", p.Pos(fn.Pos()), core.FuncName(fn), "no syntax")
		return
	}
	// role objects: the result slice (first result) and the payload list (field of the parameter's type that is a slice of payloads)
	var recsObj types.Object
	if len(fd.Type.Results.List) > 0 && len(fd.Type.Results.List[0].Names) > 0 {
		recsObj = pk.TypesInfo.Defs[fd.Type.Results.List[0].Names[0]]
	}
	g := &core.GuardEval{Pkg: pk}
	g.Roles = func(obj types.Object, e ast.Expr) (string, bool) {
		if obj == nil {
			return "", false
		}
		if obj == recsObj {
			return "records", true
		}
		if v, ok := obj.(*types.Var); ok && v.IsField() {
			if sl, ok := v.Type().Underlying().(*types.Slice); ok && strings.Contains(sl.Elem().String(), "ArrowPayload") {
				return "payloads", true
			}
		}
		return "", false
	}
	n := 0
	ast.Inspect(fd.Body, func(nd ast.Node) bool {
		if _, isLit := nd.(*ast.FuncLit); isLit {
			return false
		}
		ret, ok := nd.(*ast.ReturnStmt)
		if !ok || len(ret.Results) != 2 {
			return true
		}
		tv, ok := pk.TypesInfo.Types[ret.Results[1]]
		if !ok || !tv.IsNil() {
			return true
		}
		n++
		conds, _ := core.PathCond(file, fd.Body, ret.Pos())
		var usable []core.Cond
		for _, cd := range conds {
			if _, e := g.Terms([]core.Cond{cd}); e == nil {
				usable = append(usable, cd)
			}
		}
		ok2, w, _, err := compareGuard(g, usable, []string{"len(records)", "len(payloads)"}, []int64{0, 1, 2, 3}, func(env map[string]int64) bool {
			return env["len(records)"] >= env["len(payloads)"]
		}, "implies")
		key := fmt.Sprintf("success#%d", n)
		if err != nil {
			c.Undecided(key, p.Pos(ret.Pos()), core.FuncName(fn), err.Error())
			return true
		}
		c.Check(ok2, key, p.Pos(ret.Pos()), core.FuncName(fn), "success only when no payload failed to yield a record: "+condString(usable),
			"Consume can return success although fewer records were decoded than payloads received ("+w+"): a main record that was present is silently discarded")
		return true
	})
	if n == 0 {
		c.Undecided("success", p.Pos(fn.Pos()), core.FuncName(fn), "no success return found")
	}
	// failures release what was collected: a deferred closure releases the records when the error result is non-nil
	okRel := false
	core.EachInstr(fn, func(i ssa.Instruction) {
		d, ok := i.(*ssa.Defer)
		if !ok {
			return
		}
		var clo *ssa.Function
		if mc, ok := d.Call.Value.(*ssa.MakeClosure); ok {
			clo, _ = mc.Fn.(*ssa.Function)
		} else if h := d.Call.StaticCallee(); h != nil && h.Pkg == fn.Pkg {
			// a named helper that is handed the addresses of the named results (records and error)
			gotErr, gotRecs := false, false
			for _, a := range d.Call.Args {
				al, ok := a.(*ssa.Alloc)
				if !ok || al.Parent() != fn {
					continue
				}
				el := al.Type().(*types.Pointer).Elem()
				if isErr(el) && namedResult(fd, al.Comment) {
					gotErr = true
				}
				if _, isSl := el.Underlying().(*types.Slice); isSl && recsObj != nil && al.Comment == recsObj.Name() {
					gotRecs = true
				}
			}
			if gotErr && gotRecs {
				clo = h
			}
		}
		if clo == nil {
			return
		}
		core.EachInstr(clo, func(j ssa.Instruction) {
			cl, ok := j.(*ssa.Call)
			if !ok {
				return
			}
			callee := cl.Call.StaticCallee()
			if callee == nil {
				return
			}
			releases := false
			core.EachCall(callee, func(ci ssa.CallInstruction) {
				if f := core.CalleeObj(ci); f != nil && f.Name() == "Release" {
					releases = true
				}
			})
			if f := core.CalleeObj(cl); f != nil && f.Name() == "Release" {
				releases = true
			}
			if !releases {
				return
			}
			// guarded by err != nil
			for _, b := range clo.Blocks {
				iff := core.IfOf(b)
				if iff == nil {
					continue
				}
				// `if err != nil { release }` or the guard-clause form `if err == nil { return }; release`
				if cmp, ok := iff.Cond.(*ssa.BinOp); ok && (cmp.Op == token.NEQ || cmp.Op == token.EQL) && core.IsNilConst(cmp.Y) && isErr(cmp.X.Type()) && core.GuardedBy(iff, cmp.Op == token.NEQ, cl) {
					okRel = true
				}
			}
		})
		// established before anything can return
		if okRel && !core.MustPassBetween(fn, nil, nil, func(x ssa.Instruction) bool { return x == ssa.Instruction(d) }) {
			okRel = false
		}
	})
	c.Check(okRel, "failure-release", p.Pos(fn.Pos()), core.FuncName(fn), "a deferred function releases the collected records when an error is returned", "records collected before a failure are not released by a deferred function on every error return (memory accounted to the consumer's limit leaks)")
	// the deferred release works on the named result: once a record was collected, no return may replace
	// the result by something else (`return nil, err` empties it before the deferred function runs)
	if okRel && recsObj != nil {
		var cell *ssa.Alloc
		core.EachInstr(fn, func(i ssa.Instruction) {
			if al, ok := i.(*ssa.Alloc); ok && al.Comment == recsObj.Name() && cell == nil {
				if _, isSl := al.Type().(*types.Pointer).Elem().Underlying().(*types.Slice); isSl {
					cell = al
				}
			}
		})
		if cell == nil {
			c.Undecided("failure-release|result", p.Pos(fn.Pos()), core.FuncName(fn), "named result holding the collected records not found")
		} else {
			var collects, replaces []*ssa.Store
			for _, r := range core.Referrers(cell) {
				st, ok := r.(*ssa.Store)
				if !ok || st.Addr != ssa.Value(cell) {
					continue
				}
				grows := core.DerivesFrom(st.Val, func(v ssa.Value) bool {
					cl, ok := v.(*ssa.Call)
					if !ok {
						return false
					}
					b, ok := cl.Call.Value.(*ssa.Builtin)
					return ok && b.Name() == "append"
				})
				keeps := core.DerivesFrom(st.Val, func(v ssa.Value) bool {
					u, ok := v.(*ssa.UnOp)
					return ok && u.Op == token.MUL && u.X == ssa.Value(cell)
				})
				switch {
				case grows:
					collects = append(collects, st)
				case !keeps:
					replaces = append(replaces, st)
				}
			}
			bad := ""
			for _, rp := range replaces {
				for _, cs := range collects {
					if core.Reachable(fn, cs, rp) {
						bad = p.Pos(rp.Pos())
					}
				}
			}
			c.Check(bad == "", "failure-release|result", p.Pos(fn.Pos()), core.FuncName(fn),
				"no return replaces the collected records before the deferred release runs",
				"a return at "+bad+" replaces the collected records (e.g. `return nil, err`) before the deferred release, which works on that named result, has run: the records retained for the earlier payloads of the batch are never released and stay counted against the memory limit, Close included")
		}
	}
}

// ---------------- C07.5 ----------------

func c07_5(c *core.Ctx, p *core.Prog) {
	n := 0
	for _, fn := range rootFuncs(c, p) {
		if fn.Parent() != nil || fn.Signature.Params().Len() == 0 {
			continue
		}
		sl, ok := fn.Signature.Params().At(0).Type().Underlying().(*types.Slice)
		if !ok || core.TypePkgPath(sl.Elem()) != pkgRecordMsg || !strings.HasSuffix(core.FnPkgPath(fn), "/otlp") {
			continue
		}
		if _, isE := lastResultIsError(fn.Signature); !isE {
			continue
		}
		n++
		base := "fn=" + core.FuncName(fn)
		// the switch: If chain on PayloadType() == K
		var tests []*ssa.If
		core.EachInstr(fn, func(i ssa.Instruction) {
			iff, ok := i.(*ssa.If)
			if !ok {
				return
			}
			cmp, ok := iff.Cond.(*ssa.BinOp)
			if !ok || cmp.Op != token.EQL || core.TypeName(cmp.X.Type()) != "ArrowPayloadType" {
				return
			}
			tests = append(tests, iff)
		})
		if len(tests) == 0 {
			c.Undecided(base, p.Pos(fn.Pos()), core.FuncName(fn), "no switch over the payload type")
			continue
		}
		// default: following only false edges from the first test, every path returns a non-nil error before looping
		cut := map[core.Edge]bool{}
		for _, t := range tests {
			cut[core.Edge{From: t.Block(), To: t.Block().Succs[0]}] = true
		}
		first := tests[0]
		for _, t := range tests {
			if t.Block().Index < first.Block().Index {
				first = t
			}
		}
		// the default arm may consult a lookup helper keyed by the payload type (`slot, ok := pending.slotFor(pt)`):
		// the `ok` edge is taken for the types the helper knows only — provided the helper's own default (every
		// payload test of its own false) answers false — so it is an arm, not part of the default
		switched := first.Cond.(*ssa.BinOp).X
		var slotCalls []ssa.Value
		for _, b := range fn.Blocks {
			iff := core.IfOf(b)
			if iff == nil {
				continue
			}
			ex, ok := iff.Cond.(*ssa.Extract)
			if !ok || !isBool(ex.Type()) {
				continue
			}
			if lk, ok := ex.Tuple.(*ssa.Lookup); ok && lk.CommaOk && ex.Index == 1 {
				// a table keyed by the payload type (`slot, found := uniqueRecords[payloadType]`): absent keys answer false
				if _, isMap := lk.X.Type().Underlying().(*types.Map); isMap && (lk.Index == switched || core.SameValue(lk.Index, switched)) {
					cut[core.Edge{From: b, To: b.Succs[0]}] = true
					slotCalls = append(slotCalls, lk)
				}
				continue
			}
			cl, ok := ex.Tuple.(*ssa.Call)
			if !ok {
				continue
			}
			h := cl.Call.StaticCallee()
			if h == nil || len(h.Blocks) == 0 || !core.InRepo(core.FnPkgPath(h)) {
				continue
			}
			takes := false
			for _, a := range cl.Call.Args {
				if a == switched || core.SameValue(a, switched) {
					takes = true
				}
			}
			if takes && lookupDefaultsToFalse(h, ex.Index) {
				cut[core.Edge{From: b, To: b.Succs[0]}] = true
				slotCalls = append(slotCalls, cl)
			}
		}
		// the loop header: the block of the range induction phi
		var loopPhi *ssa.Phi
		core.EachInstr(fn, func(i ssa.Instruction) {
			if ph, ok := i.(*ssa.Phi); ok && loopPhi == nil {
				if _, ok := core.InductionOf(ph); ok {
					loopPhi = ph
				}
			}
		})
		okDef := true
		msg := ""
		start := first.Cond.(ssa.Instruction)
		if loopPhi != nil {
			if ok, _ := (core.PathQuery{Fn: fn, From: start, To: loopPhi, CutEdges: cut}).Exists(); ok {
				okDef, msg = false, "an unknown payload type falls through the switch and the scan continues: the payload is ignored and the batch is reported as decoded"
			}
		}
		// returns reachable on the default path carry a non-nil error: (stores to the error result before rundefers) — check no `nil` error is returned
		for _, r := range core.Returns(fn) {
			if ok, _ := (core.PathQuery{Fn: fn, From: start, To: r, CutEdges: cut}).Exists(); ok {
				if returnsNilError(fn, r, start, cut) {
					okDef, msg = false, "the default arm returns without an error"
				}
			}
		}
		c.Check(okDef, base+"|default", p.Pos(first.Cond.Pos()), core.FuncName(fn), "unknown payload types are rejected with an error", msg)
		// every arm consumes the record it matched: on the way from the arm's entry back to the
		// loop head (or to a return) the current record is used (handed to a decoder or kept)
		var recElem ssa.Value // the loop element: load of &records[i]
		core.EachInstr(fn, func(i ssa.Instruction) {
			if u, ok := i.(*ssa.UnOp); ok && u.Op == token.MUL && recElem == nil {
				if acc, ok := core.ElemAccessOf(u.X); ok && acc.Phi != nil && (acc.Base == ssa.Value(fn.Params[0]) || core.Canon(acc.Base) == ssa.Value(fn.Params[0])) {
					recElem = u
				}
			}
		})
		if recElem != nil && loopPhi != nil {
			usesRec := func(i ssa.Instruction) bool {
				for _, op := range i.Operands(nil) {
					if op != nil && *op == recElem {
						// the PayloadType() call that feeds the switch does not count
						if cl, ok := i.(*ssa.Call); ok {
							if f := core.CalleeObj(cl); f != nil && f.Name() == "PayloadType" {
								return false
							}
						}
						return true
					}
				}
				return false
			}
			for k, t := range tests {
				first := t.Block().Succs[0].Instrs[0]
				ignored := false
				if t.Block().Succs[0] == loopPhi.Block() {
					ignored = true // empty arm: straight back to the loop head
				} else if !usesRec(first) {
					if ok, _ := (core.PathQuery{Fn: fn, From: first, To: loopPhi, Avoid: usesRec}).Exists(); ok {
						ignored = true
					}
				}
				kv, _ := core.ConstInt(t.Cond.(*ssa.BinOp).Y)
				c.Check(!ignored, fmt.Sprintf("%s|arm=%d", base, kv), p.Pos(t.Cond.Pos()), core.FuncName(fn), "the arm consumes the record it matched",
					fmt.Sprintf("the arm for payload type %d (arm #%d) accepts the payload and ignores it: a record relabelled with this type — the main record included — is discarded while the batch is reported as decoded", kv, k+1))
			}
		}
		// duplicate main record: the variable returned as the main record is assigned only after a
		// `!= nil` test of it that returns an error
		dup := 0
		var mainPhis []ssa.Value
		for _, r := range core.Returns(fn) {
			if len(r.Results) < 2 {
				continue
			}
			core.BackSlice(r.Results[1], func(v ssa.Value) bool {
				if ph, ok := v.(*ssa.Phi); ok {
					mainPhis = append(mainPhis, ph)
				}
				if _, isAl := v.(*ssa.Alloc); isAl {
					mainPhis = append(mainPhis, v)
				}
				return true
			})
		}
		isMain := func(v ssa.Value) bool {
			for _, m := range mainPhis {
				if v == m {
					return true
				}
				if u, ok := v.(*ssa.UnOp); ok && u.Op == token.MUL && u.X == m {
					return true
				}
			}
			return false
		}
		for _, b := range fn.Blocks {
			iff := core.IfOf(b)
			if iff == nil {
				continue
			}
			cmp, ok := iff.Cond.(*ssa.BinOp)
			if !ok || cmp.Op != token.NEQ || !core.IsNilConst(cmp.Y) || core.TypePkgPath(cmp.X.Type()) != pkgRecordMsg || !isMain(cmp.X) {
				continue
			}
			inArm := false
			for _, t := range tests {
				if core.GuardedBy(t, true, iff) {
					inArm = true
				}
			}
			if !inArm {
				continue
			}
			retOnly := true
			if loopPhi != nil {
				if ok, _ := (core.PathQuery{Fn: fn, From: b.Succs[0].Instrs[0], To: loopPhi}).Exists(); ok || b.Succs[0] == loopPhi.Block() {
					retOnly = false
				}
			}
			if retOnly {
				dup++
			}
		}
		// slot form: the record is kept through a pointer a lookup helper hands out (`*slot = record`), and every such
		// store is dominated by `*slot != nil → return error` on the same pointer
		for _, cl := range slotCalls {
			var slot ssa.Value
			for _, r := range *cl.Referrers() {
				if ex, ok := r.(*ssa.Extract); ok {
					if pt, ok := ex.Type().(*types.Pointer); ok {
						if _, ok := pt.Elem().(*types.Pointer); ok {
							slot = ex
						}
					}
				}
			}
			if slot == nil {
				continue
			}
			okAll, any := true, false
			for _, r := range core.Referrers(slot) {
				st, ok := r.(*ssa.Store)
				if !ok || st.Addr != slot {
					continue
				}
				any = true
				guarded := false
				for _, b := range fn.Blocks {
					iff := core.IfOf(b)
					if iff == nil {
						continue
					}
					cmp, ok := iff.Cond.(*ssa.BinOp)
					if !ok || cmp.Op != token.NEQ || !core.IsNilConst(cmp.Y) {
						continue
					}
					ld, ok := cmp.X.(*ssa.UnOp)
					if !ok || ld.Op != token.MUL || ld.X != slot {
						continue
					}
					retOnly := true
					if loopPhi != nil {
						if ok, _ := (core.PathQuery{Fn: fn, From: b.Succs[0].Instrs[0], To: loopPhi}).Exists(); ok || b.Succs[0] == loopPhi.Block() {
							retOnly = false
						}
					}
					if retOnly && core.GuardedBy(iff, false, st) {
						guarded = true
					}
				}
				if !guarded {
					okAll = false
				}
			}
			if any && okAll {
				dup++
			}
		}
		c.Check(dup >= 1, base+"|duplicate-main", p.Pos(fn.Pos()), core.FuncName(fn), "the arm that keeps the main record rejects a second one",
			"the arm that keeps the main record does not reject a second main record: with a duplicated main payload one of the two is silently discarded (and the kept one may already be released by its reader)")
	}
	if n < 3 {
		c.Undecided("count", "?", "", fmt.Sprintf("expected 3 RelatedDataFrom functions, found %d", n))
	}
}

// returnsNilError: on the default path the error result is (stored as) the nil constant.
func returnsNilError(fn *ssa.Function, r *ssa.Return, start ssa.Instruction, cut map[core.Edge]bool) bool {
	idx := len(r.Results) - 1
	v := r.Results[idx]
	if core.IsNilConst(v) {
		return true
	}
	// defer-spilled: load of the named result cell; find stores on the path
	if u, ok := v.(*ssa.UnOp); ok && u.Op == token.MUL {
		if al, ok := u.X.(*ssa.Alloc); ok {
			lastNil := false
			for _, ref := range core.Referrers(al) {
				s, ok := ref.(*ssa.Store)
				if !ok || s.Addr != ssa.Value(al) {
					continue
				}
				if ok2, _ := (core.PathQuery{Fn: fn, From: start, To: s, CutEdges: cut}).Exists(); ok2 && core.Reachable(fn, s, r) {
					lastNil = core.IsNilConst(s.Val)
					if !lastNil {
						return false
					}
				}
			}
			return lastNil
		}
	}
	return false
}

// ---------------- C07.7 ----------------

const c07_7Canary = `package c

import (
	"github.com/apache/arrow-go/v18/arrow"
	"github.com/apache/arrow-go/v18/arrow/array"
)

const absent = -1

func lookup(s *arrow.Schema, name string) (int, error) {
	ids := s.FieldIndices(name)
	if len(ids) == 0 {
		return absent, nil
	}
	return ids[0], nil
}

type ids struct{ A, B int }

func newIds(s *arrow.Schema) *ids {
	a, _ := lookup(s, "a")
	b, _ := lookup(s, "b")
	return &ids{A: a, B: b}
}

// BadUnguarded indexes with an id that may be -1.
func BadUnguarded(st *array.Struct, i *ids) arrow.Array {
	return st.Field(i.A)
}

func GoodGuarded(st *array.Struct, i *ids) arrow.Array {
	if i.B == absent {
		return nil
	}
	return st.Field(i.B)
}

func GoodGuardedNe(rec arrow.Record, i *ids) arrow.Array {
	if i.A != absent {
		return rec.Column(i.A)
	}
	return nil
}

var _ = newIds
`

type absentModel struct {
	producers map[*ssa.Function]map[int]bool // function → result indices that may be -1
	fields    map[*types.Var]bool            // struct fields that may hold -1
	params    map[*ssa.Parameter]bool
}

func isMinusOne(v ssa.Value) bool {
	k, ok := core.ConstInt(v)
	if !ok || k != -1 {
		return false
	}
	_, isC := core.StripConv(v).(*ssa.Const)
	return isC
}

func buildAbsentModel(fns []*ssa.Function) *absentModel {
	m := &absentModel{producers: map[*ssa.Function]map[int]bool{}, fields: map[*types.Var]bool{}, params: map[*ssa.Parameter]bool{}}
	isInt := func(t types.Type) bool {
		b, ok := t.Underlying().(*types.Basic)
		return ok && b.Info()&types.IsInteger != 0
	}
	tainted := func(v ssa.Value) bool { return m.taintedValue(v, 0) }
	for changed, iter := true, 0; changed && iter < 12; iter++ {
		changed = false
		for _, fn := range fns {
			// producers
			for _, r := range core.Returns(fn) {
				for idx, res := range r.Results {
					if !isInt(res.Type()) {
						continue
					}
					may := false
					var edges []ssa.Value
					if ph, ok := res.(*ssa.Phi); ok {
						edges = ph.Edges
					} else {
						edges = []ssa.Value{res}
					}
					for _, e := range edges {
						if isMinusOne(e) || tainted(e) {
							may = true
						}
					}
					if may {
						if m.producers[fn] == nil {
							m.producers[fn] = map[int]bool{}
						}
						if !m.producers[fn][idx] {
							m.producers[fn][idx] = true
							changed = true
						}
					}
				}
			}
			core.EachInstr(fn, func(i ssa.Instruction) {
				switch x := i.(type) {
				case *ssa.Store:
					if fa, ok := x.Addr.(*ssa.FieldAddr); ok && isInt(x.Val.Type()) {
						if (isMinusOne(x.Val) || tainted(x.Val)) && !m.fields[core.FieldVar(fa)] {
							m.fields[core.FieldVar(fa)] = true
							changed = true
						}
					}
				case ssa.CallInstruction:
					callee := x.Common().StaticCallee()
					if callee == nil || callee.Blocks == nil || !core.InRepo(core.FnPkgPath(callee)) {
						return
					}
					for k, arg := range x.Common().Args {
						if k < len(callee.Params) && isInt(arg.Type()) && (isMinusOne(arg) || tainted(arg)) && !m.params[callee.Params[k]] {
							m.params[callee.Params[k]] = true
							changed = true
						}
					}
				}
			})
		}
	}
	return m
}

func (m *absentModel) taintedValue(v ssa.Value, depth int) bool {
	if depth > 6 {
		return false
	}
	v = core.StripConv(v)
	switch x := v.(type) {
	case *ssa.Parameter:
		return m.params[x]
	case *ssa.Extract:
		if cl, ok := x.Tuple.(*ssa.Call); ok {
			if callee := cl.Call.StaticCallee(); callee != nil {
				if o := callee.Origin(); o != nil {
					callee = o
				}
				return m.producers[callee][x.Index] || m.producers[cl.Call.StaticCallee()][x.Index]
			}
		}
	case *ssa.Call:
		if callee := x.Call.StaticCallee(); callee != nil {
			return m.producers[callee][0]
		}
	case *ssa.UnOp:
		if x.Op == token.MUL {
			if fa, ok := x.X.(*ssa.FieldAddr); ok {
				return m.fields[core.FieldVar(fa)]
			}
		}
	case *ssa.Field:
		return m.fields[core.FieldVar(x)]
	case *ssa.Phi:
		for _, e := range x.Edges {
			if isMinusOne(e) || m.taintedValue(e, depth+1) {
				return true
			}
		}
	}
	return false
}

// indexSink: calls of arrow-go that index a field list by position.
func indexSink(ci ssa.CallInstruction) (ssa.Value, string, bool) {
	f := core.CalleeObj(ci)
	if f == nil || f.Pkg() == nil || !strings.HasPrefix(f.Pkg().Path(), core.ArrowPath) {
		return nil, "", false
	}
	n := core.RecvNamed(f)
	if n == nil {
		return nil, "", false
	}
	args := core.CallArgs(ci)
	if len(args) != 1 {
		return nil, "", false
	}
	switch n.Obj().Name() + "." + f.Name() {
	case "Struct.Field", "Record.Column", "Schema.Field", "StructType.Field", "Record.ColumnName", "simpleRecord.Column":
		return args[0], n.Obj().Name() + "." + f.Name(), true
	}
	return nil, "", false
}

func c07_7(c *core.Ctx, p *core.Prog) {
	fns := rootFuncs(c, p)
	m := buildAbsentModel(fns)
	c.Stats["absent_capable_functions"] = len(m.producers)
	c.Stats["absent_capable_fields"] = len(m.fields)
	c.Stats["absent_capable_params"] = len(m.params)
	seen := map[string]int{}
	for _, fn := range fns {
		core.EachCall(fn, func(ci ssa.CallInstruction) {
			idx, sink, ok := indexSink(ci)
			if !ok {
				return
			}
			if !m.taintedValue(idx, 0) {
				return
			}
			base := fmt.Sprintf("fn=%s|sink=%s|idx=%s", core.FuncName(fn), sink, core.AccessPath(core.StripConv(idx)))
			seen[base]++
			key := base
			if seen[base] > 1 {
				key = fmt.Sprintf("%s#%d", base, seen[base])
			}
			pos := p.Pos(ci.Pos())
			// guard: If on (X ==/!= -1) with X the same value / access path, use on the ≠ edge
			guarded := false
			idxPath := core.AccessPath(core.StripConv(idx))
			for _, b := range fn.Blocks {
				iff := core.IfOf(b)
				if iff == nil {
					continue
				}
				cmp, ok := iff.Cond.(*ssa.BinOp)
				if !ok || (cmp.Op != token.EQL && cmp.Op != token.NEQ) {
					continue
				}
				x, y := cmp.X, cmp.Y
				if isMinusOne(x) {
					x, y = y, x
				}
				if !isMinusOne(y) {
					continue
				}
				same := core.StripConv(x) == core.StripConv(idx) || core.SameValue(core.StripConv(x), core.StripConv(idx)) || (idxPath != "" && core.AccessPath(core.StripConv(x)) == idxPath)
				if !same {
					continue
				}
				if core.GuardedBy(iff, cmp.Op == token.NEQ, ci.(ssa.Instruction)) {
					guarded = true
				}
			}
			// `>= 0` style guards
			if !guarded {
				for _, b := range fn.Blocks {
					iff := core.IfOf(b)
					if iff == nil {
						continue
					}
					cmp, ok := iff.Cond.(*ssa.BinOp)
					if !ok {
						continue
					}
					k, isC := core.ConstInt(cmp.Y)
					if !isC {
						continue
					}
					same := core.StripConv(cmp.X) == core.StripConv(idx) || (idxPath != "" && core.AccessPath(core.StripConv(cmp.X)) == idxPath)
					if !same {
						continue
					}
					switch {
					case cmp.Op == token.GEQ && k == 0, cmp.Op == token.GTR && k == -1:
						guarded = guarded || core.GuardedBy(iff, true, ci.(ssa.Instruction))
					case cmp.Op == token.LSS && k == 0, cmp.Op == token.LEQ && k == -1:
						guarded = guarded || core.GuardedBy(iff, false, ci.(ssa.Instruction))
					}
				}
			}
			c.Check(guarded, key, pos, core.FuncName(fn), "possibly-absent id compared with AbsentFieldID before "+sink,
				fmt.Sprintf("%s is called with a field id that can be AbsentFieldID (-1: the optional column was not sent) without a guarding comparison: index out of range [-1] on a well-formed batch whose optional column is absent", sink))
		})
	}
	_ = sort.Strings
}

// ---------------- C07.6 ----------------

func init() {
	register("C07", &core.Rule{ID: "C07.6", Title: "decoder-side related-data stores are all initialised by their constructor", Mod: core.ModRoot, Floor: 3, Run: c07_6})
}

// c07_6: the decoders look related entities up in the stores of a RelatedData
// value without nil tests (a dropped payload simply leaves a store empty), so
// every pointer field of each */otlp.RelatedData must be set by the
// constructor that RelatedDataFrom uses.
func c07_6(c *core.Ctx, p *core.Prog) {
	n := 0
	for _, fn := range rootFuncs(c, p) {
		if fn.Parent() != nil || !strings.HasSuffix(core.FnPkgPath(fn), "/otlp") || fn.Signature.Results().Len() != 1 {
			continue
		}
		rt := fn.Signature.Results().At(0).Type()
		named := core.NamedOf(rt)
		if named == nil || named.Obj().Name() != "RelatedData" || named.Obj().Pkg().Path() != core.FnPkgPath(fn) {
			continue
		}
		st, ok := named.Underlying().(*types.Struct)
		if !ok {
			continue
		}
		var al *ssa.Alloc
		core.EachInstr(fn, func(i ssa.Instruction) {
			if a, ok := i.(*ssa.Alloc); ok && a.Heap && core.NamedOf(a.Type()) == named {
				al = a
			}
		})
		if al == nil {
			continue
		}
		n++
		set := map[int]bool{}
		for _, r := range core.Referrers(al) {
			if fa, ok := r.(*ssa.FieldAddr); ok {
				for _, r2 := range core.Referrers(fa) {
					if s, ok := r2.(*ssa.Store); ok && s.Addr == ssa.Value(fa) && !core.IsNilConst(s.Val) {
						set[fa.Field] = true
					}
				}
			}
		}
		var missing []string
		for k := 0; k < st.NumFields(); k++ {
			if _, isPtr := st.Field(k).Type().Underlying().(*types.Pointer); isPtr && !set[k] {
				missing = append(missing, st.Field(k).Name())
			}
		}
		c.Check(len(missing) == 0, "ctor="+core.FuncName(fn), p.Pos(fn.Pos()), core.FuncName(fn), "every store of the related data is initialised",
			fmt.Sprintf("store(s) %v of the decoder's related data are left nil by the constructor: when the corresponding payload is dropped from a batch the decoder dereferences the nil store and the consumer panics", missing))
	}
	if n < 3 {
		c.Undecided("count", "?", "", fmt.Sprintf("expected 3 decoder-side RelatedData constructors, found %d", n))
	}
}

// lookupDefaultsToFalse: h switches over a payload type; on the path on which none of its payload tests holds,
// every return gives the constant false for result idx ("no such slot").
func lookupDefaultsToFalse(h *ssa.Function, idx int) bool {
	cut := map[core.Edge]bool{}
	n := 0
	for _, b := range h.Blocks {
		iff := core.IfOf(b)
		if iff == nil {
			continue
		}
		cmp, ok := iff.Cond.(*ssa.BinOp)
		if !ok || cmp.Op != token.EQL || core.TypeName(cmp.X.Type()) != "ArrowPayloadType" {
			continue
		}
		cut[core.Edge{From: b, To: b.Succs[0]}] = true
		n++
	}
	if n == 0 {
		return false
	}
	okAll, any := true, false
	for _, r := range core.Returns(h) {
		if reach, _ := (core.PathQuery{Fn: h, To: r, CutEdges: cut}).Exists(); !reach {
			continue
		}
		any = true
		if idx >= len(r.Results) {
			return false
		}
		if b, isB := core.ConstBool(r.Results[idx]); !isB || b {
			okAll = false
		}
	}
	return any && okAll
}
