package rules

import (
	"fmt"
	"strings"

	"golang.org/x/tools/go/ssa"

	"otelcheck/internal/core"
)

// RT.27 a list column's length agrees with its fill. ListBuilder.Append(n, fill)
// writes a null list (and skips fill) when n == 0 and opens a list otherwise;
// fill appends the elements in a loop. The n handed over, the bound of the loop
// in fill and the list whose elements are appended must be one and the same:
// `x.Len()` of the list L whose `L.At(i)` the loop reads. A neighbouring length
// of the same type (bucket counts for explicit bounds) makes a non-empty list
// null when the other is empty, or opens an empty list for an empty one.
func rt_27(c *core.Ctx, p *core.Prog) {
	reach := encodeReach(p)
	n := 0
	for _, fn := range sortedFuncs(p, reach) {
		if !encPkg(core.FnPkgPath(fn)) || fn.Synthetic != "" {
			continue
		}
		fn := fn
		seen := 0
		core.EachInstr(fn, func(i ssa.Instruction) {
			cl, ok := i.(*ssa.Call)
			if !ok {
				return
			}
			f := core.CalleeObj(cl)
			if f == nil || f.Pkg() == nil || f.Pkg().Path() != pkgBuilder || f.Name() != "Append" || core.RecvNamed(f) == nil || core.RecvNamed(f).Obj().Name() != "ListBuilder" {
				return
			}
			args := core.CallArgs(cl)
			if len(args) != 2 {
				return
			}
			mc, ok := args[1].(*ssa.MakeClosure)
			if !ok {
				return
			}
			fill := mc.Fn.(*ssa.Function)
			n++
			seen++
			key := fmt.Sprintf("fn=%s|list#%d", core.FuncName(fn), seen)
			nv := core.Canon(core.StripConv(args[0]))
			// the loop bound(s) in fill
			var bounds []ssa.Value
			var lists []ssa.Value
			core.EachInstr(fill, func(j ssa.Instruction) {
				if ph, isPhi := j.(*ssa.Phi); isPhi {
					if ind, okI := core.InductionOf(ph); okI && ind.BoundV != nil {
						bounds = append(bounds, core.Canon(core.StripConv(ind.BoundV)))
					}
				}
				if at, isCall := j.(*ssa.Call); isCall {
					if af := pdataCallee(at); af != nil && af.Name() == "At" && len(at.Call.Args) == 2 {
						lists = append(lists, core.Canon(at.Call.Args[0]))
					}
				}
			})
			var msgs []string
			if len(bounds) == 0 {
				return // not a counted fill (struct lists filled by other means)
			}
			for _, b := range bounds {
				if b != nv && !core.SameValue(b, nv) && !samePdataRead(b, nv, 0) {
					msgs = append(msgs, fmt.Sprintf("the list is opened for %s elements but its fill loops to %s", valueLabel(args[0]), valueLabel(b)))
				}
			}
			// n is L.Len() of the list the fill reads
			if lc, isCall := nv.(*ssa.Call); isCall && pdataCallee(lc) != nil && pdataCallee(lc).Name() == "Len" && len(lists) > 0 {
				src := core.Canon(lc.Call.Args[0])
				for _, l := range lists {
					if l != src && !core.SameValue(l, src) && !samePdataRead(l, src, 0) {
						msgs = append(msgs, fmt.Sprintf("the length handed over is that of %s but the elements come from %s", valueLabel(lc.Call.Args[0]), valueLabel(l)))
					}
				}
			}
			c.Check(len(msgs) == 0, key, p.Pos(cl.Pos()), core.FuncName(fn),
				"the length handed to ListBuilder.Append, the bound of the fill loop and the list read are one and the same",
				"a list column's length does not agree with its fill: "+strings.Join(uniq(msgs), "; ")+" — when the two lengths differ the list is written null although it has elements (they are lost), or opened for the wrong number of elements")
		})
	}
	c.Stats["RT.27 counted list fills"] = n
}

func init() {
	register("C03", &core.Rule{ID: "RT.27", Title: "a list column's length, the bound of its fill loop and the list read are one and the same", Mod: core.ModRoot, Floor: 3, Run: rt_27})
}
