package rules

import (
	"fmt"
	"go/types"
	"sort"
	"strings"

	"golang.org/x/tools/go/ssa"

	"otelcheck/internal/core"
)

// RT.39 — an element that is re-filled gets every field a new one gets.
//
// The accumulators and flatteners of the encoders build one small struct per row (a Link, an
// Event, a data point, a flattened span). When such a function has two ways of producing the
// element — a fresh composite literal, and re-filling an element that is already there (kept in
// the spare capacity of a slice, taken from a pool) — the two must set the same fields: a field
// the re-fill skips keeps the value it had for a row of an earlier batch, and only streams with
// at least two batches (and differing values in exactly that field) show it.
//
// Rule (sibling agreement inside one function): for a repository struct type T that the
// function both constructs with a literal setting fields F and fills through a pointer that is
// not a fresh allocation, assigning fields G with G ⊆ F and |G| ≥ 2 and 2·|G| ≥ |F|: G = F.

const rt39Canary = `package c

type link struct {
	parent uint16
	trace  [16]byte
	state  string
	n      uint32
}

type acc struct{ links []*link }

func (a *acc) spare() *link {
	n := len(a.links)
	if n == cap(a.links) {
		return nil
	}
	a.links = a.links[:n+1]
	return a.links[n]
}

// BadAppend re-fills a kept element but forgets state.
func BadAppend(a *acc, parent uint16, trace [16]byte, state string, n uint32) {
	if l := a.spare(); l != nil {
		l.parent = parent
		l.trace = trace
		l.n = n
		return
	}
	a.links = append(a.links, &link{parent: parent, trace: trace, state: state, n: n})
}

// GoodAppend re-fills every field.
func GoodAppend(a *acc, parent uint16, trace [16]byte, state string, n uint32) {
	if l := a.spare(); l != nil {
		l.parent = parent
		l.trace = trace
		l.state = state
		l.n = n
		return
	}
	a.links = append(a.links, &link{parent: parent, trace: trace, state: state, n: n})
}
`

func rt_39(c *core.Ctx, p *core.Prog) {
	fns := sortedFuncs(p, encodeReach(p))
	fns = append(fns, p.FuncsIn(func(pp string) bool { return core.IsCanaryPath(pp) && c.InScope(pp) })...)
	for _, fn := range fns {
		if fn.Synthetic != "" {
			continue
		}
		fresh := map[*types.Named]map[string]bool{}
		reuse := map[*types.Named]map[ssa.Value]map[string]bool{}
		core.EachInstr(fn, func(i ssa.Instruction) {
			st, ok := i.(*ssa.Store)
			if !ok {
				return
			}
			fa, ok := st.Addr.(*ssa.FieldAddr)
			if !ok {
				return
			}
			n := core.NamedOf(fa.X.Type())
			if n == nil || n.Obj().Pkg() == nil || !(core.InRepo(n.Obj().Pkg().Path()) || core.IsCanaryPath(n.Obj().Pkg().Path())) {
				return
			}
			base := core.Strip(fa.X)
			if al, isAl := base.(*ssa.Alloc); isAl {
				if al.Comment == "complit" {
					if fresh[n] == nil {
						fresh[n] = map[string]bool{}
					}
					fresh[n][core.FieldName(fa)] = true
				}
				return
			}
			switch base.(type) {
			case *ssa.Parameter, *ssa.FreeVar:
				return // the receiver / an object handed in: ordinary state updates
			}
			if reuse[n] == nil {
				reuse[n] = map[ssa.Value]map[string]bool{}
			}
			if reuse[n][base] == nil {
				reuse[n][base] = map[string]bool{}
			}
			reuse[n][base][core.FieldName(fa)] = true
		})
		for n, F := range fresh {
			k := 0
			for base, G := range reuse[n] {
				subset := true
				for g := range G {
					if !F[g] {
						subset = false
					}
				}
				if !subset || len(G) < 2 || 2*len(G) < len(F) {
					continue
				}
				k++
				var missing []string
				for f := range F {
					if !G[f] {
						missing = append(missing, f)
					}
				}
				sort.Strings(missing)
				key := fmt.Sprintf("fn=%s|type=%s|refill#%d", core.FuncName(fn), n.Obj().Name(), k)
				c.Check(len(missing) == 0, key, p.Pos(base.Pos()), core.FuncName(fn), fmt.Sprintf("the re-filled %s gets the %d fields a new one gets", n.Obj().Name(), len(F)),
					fmt.Sprintf("%s builds a new %s with fields %v but re-fills an existing one without %s: a recycled element keeps that field from the row it held in an earlier batch, so from the second batch of a stream on rows are encoded with another row's %s", fn.Name(), n.Obj().Name(), keysOf(F), strings.Join(missing, ", "), strings.Join(missing, ", ")))
			}
		}
	}
}

func keysOf(m map[string]bool) []string {
	var out []string
	for k := range m {
		out = append(out, k)
	}
	sort.Strings(out)
	return out
}

func init() {
	for _, pr := range []string{"C01", "C02", "C03"} {
		register(pr, &core.Rule{ID: "RT.39", Title: "an element that is re-filled (recycled) gets every field a freshly constructed one gets", Mod: core.ModRoot, Floor: 0, Run: rt_39, Canary: rt39Canary})
	}
	register("C15", &core.Rule{ID: "C15.9", Title: "an element that is re-filled (recycled) gets every field a freshly constructed one gets: no reference to an earlier batch's input is kept", Mod: core.ModRoot, Floor: 0, Run: rt_39, Canary: rt39Canary})
}
