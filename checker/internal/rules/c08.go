package rules

import (
	"fmt"
	"go/constant"
	"go/token"
	"go/types"
	"sort"
	"strings"

	"golang.org/x/tools/go/ssa"

	"otelcheck/internal/core"
)

func init() {
	core.Describe("C08",
		"Static necessary conditions of 'the producer never crashes on valid OTLP input', decided for the repo functions reachable from Producer.BatchArrowRecordsFrom{Traces,Logs,Metrics} (call graph restricted to repository code): "+
			"C08.2 every increment of a counter that becomes a 16-bit id (a uint16 variable, or a wider one that is converted to uint16) is guarded by a comparison of that same variable with the type's maximum whose failing arm returns an error — not a panic, not a wrap-around; 32-bit counters are listed, not reported; "+
			"C08.3 results of the frozen table of nil-returning functions are nil-tested before being dereferenced; the list arm of the schema rebuild relies on RT.13; "+
			"RT.13 the item node of a list never starts optional on its own (RemoveOptional on the element node in the transform-tree constructor); "+
			"C08.6 when filling the column builders stops half-way with a non-retry error, the partially filled record builder is discarded before control returns to the caller; "+
			"C08.7 every schema-update request is accompanied on its path by a state change that is monotone in a well-founded order (an optional mark removed, the index width advanced, the dictionary disabled, a metadata value changed, or a one-shot latch) so the bounded rebuild loop terminates; "+
			"C08.8 delta-encoding state carried from row to row is re-initialised on the first row of every batch by every appending method; "+
			"C08.1 (thorough) explicit panics reachable on the encode path are inventoried against a category table. "+
			"NOT decided: panics inside arrow-go, pdata and the CBOR library; Append errors of arrow dictionary builders (recorded assumption).",
		"array.RecordBuilder.NewRecord resets every column builder", "arrow dictionary builders' Append does not fail for in-memory values")
	register("C08", &core.Rule{ID: "C08.2", Title: "16-bit id counters are guarded by an error return", Mod: core.ModRoot, Floor: 10, Run: c08_2, Canary: c08_2Canary})
	register("C08", &core.Rule{ID: "C08.3", Title: "nil-returning results are tested before use", Mod: core.ModRoot, Floor: 5, Run: c08_3})
	register("C08", &core.Rule{ID: "RT.13", Title: "list item nodes are never optional on their own", Mod: core.ModRoot, Floor: 1, Run: rt_13})
	register("C03", &core.Rule{ID: "RT.13", Title: "list item nodes are never optional on their own (all-zero lists survive)", Mod: core.ModRoot, Floor: 1, Run: rt_13})
	register("C08", &core.Rule{ID: "C08.6", Title: "a refused batch leaves no rows behind", Mod: core.ModRoot, Floor: 1, Run: c08_6})
	register("C08", &core.Rule{ID: "C08.7", Title: "every schema-update request makes progress", Mod: core.ModRoot, Floor: 30, Run: c08_7})
	register("C04", &core.Rule{ID: "C04.5", Title: "every schema-update request makes progress (rebuild loops terminate)", Mod: core.ModRoot, Floor: 30, Run: c08_7})
	register("C08", &core.Rule{ID: "C08.8", Title: "delta state is re-initialised on the first row of a batch", Mod: core.ModRoot, Floor: 4, Run: c08_8})
	for _, prop := range []string{"C01", "C02", "C03", "C04"} {
		register(prop, &core.Rule{ID: "RT.19", Title: "delta builders re-initialise their base on the first row of a batch (id columns do not depend on the previous batch)", Mod: core.ModRoot, Floor: 4, Run: c08_8})
	}
	register("C08", &core.Rule{ID: "C08.1", Title: "inventory of explicit panics reachable on the encode path", Mod: core.ModRoot, Floor: 20, Thorough: true, Run: c08_1})
}

func encodeReach(p *core.Prog) map[*ssa.Function]bool {
	roots := producerEntries(p)
	return repoReach(p, p.CHA(), roots)
}

const c08_2Canary = `package c

import "errors"

var errTooMany = errors.New("too many")

type acc struct{ n uint16 }

// BadWrap increments a 16-bit counter without a guard.
func (a *acc) BadWrap() uint16 {
	id := a.n
	a.n++
	return id
}

// BadPanic guards the counter with a panic.
func (a *acc) BadPanic() uint16 {
	if a.n == 65535 {
		panic("too many")
	}
	a.n++
	return a.n
}

// BadWrongVar guards a different variable than the one converted.
func BadWrongVar(xs []int) (uint16, error) {
	r, s := int64(-1), int64(-1)
	var last uint16
	for range xs {
		r++
		s++
		if r > 65535 {
			return 0, errTooMany
		}
		last = uint16(s) + uint16(len(xs)) + uint16(r&1)
	}
	return last, nil
}

func (a *acc) GoodError() (uint16, error) {
	if a.n == 65535 {
		return 0, errTooMany
	}
	a.n++
	return a.n, nil
}

func GoodWide(xs []int) (uint16, error) {
	r := int64(-1)
	var last uint16
	for range xs {
		r++
		if r > 65535 {
			return 0, errTooMany
		}
		last = uint16(r)
	}
	return last, nil
}
`

type counterSite struct {
	fn    *ssa.Function
	add   *ssa.BinOp
	bits  int    // width that matters (16 or 32)
	label string // variable label
	// identity of the variable
	phi   *ssa.Phi
	field *types.Var
	wide  bool // wider variable converted down
	// a field of a local struct, advanced by one in a method called on the struct (`res.enter(key)` … `res.id`)
	cellAl    *ssa.Alloc
	cellField int
	cellAt    ssa.Instruction // the first call that is handed the struct (where the counter advances)
}

// at: the instruction that stands for "the counter advances here".
func (cs *counterSite) at() ssa.Instruction {
	if cs.add != nil {
		return cs.add
	}
	return cs.cellAt
}

func intBits(t types.Type) (bits int, unsigned bool) {
	b, ok := t.Underlying().(*types.Basic)
	if !ok {
		return 0, false
	}
	switch b.Kind() {
	case types.Uint8, types.Int8:
		return 8, b.Kind() == types.Uint8
	case types.Uint16:
		return 16, true
	case types.Int16:
		return 16, false
	case types.Uint32:
		return 32, true
	case types.Int32:
		return 32, false
	case types.Uint64, types.Uint, types.Uintptr:
		return 64, true
	case types.Int64, types.Int:
		return 64, false
	}
	return 0, false
}

func findCounters(fn *ssa.Function) []counterSite {
	var out []counterSite
	core.EachInstr(fn, func(i ssa.Instruction) {
		add, ok := i.(*ssa.BinOp)
		if !ok || add.Op != token.ADD {
			return
		}
		k, isC := core.ConstInt(add.Y)
		if !isC || k != 1 {
			return
		}
		bits, _ := intBits(add.Type())
		if bits == 0 {
			return
		}
		cs := counterSite{fn: fn, add: add}
		switch x := add.X.(type) {
		case *ssa.Phi:
			// back edge must be the add itself (possibly through another phi)
			feeds := false
			for _, e := range x.Edges {
				if e == ssa.Value(add) || core.DerivesFrom(e, func(v ssa.Value) bool { return v == ssa.Value(add) }) {
					feeds = true
				}
			}
			if !feeds {
				return
			}
			cs.phi = x
			cs.label = x.Comment
		case *ssa.UnOp:
			fa := core.LoadedField(x)
			if fa == nil {
				return
			}
			stored := false
			for _, r := range core.Referrers(add) {
				if s, ok := r.(*ssa.Store); ok {
					if f2, ok := s.Addr.(*ssa.FieldAddr); ok && core.FieldVar(f2) == core.FieldVar(fa) {
						stored = true
					}
				}
			}
			if !stored {
				return
			}
			cs.field = core.FieldVar(fa)
			cs.label = core.TypeName(fa.X.Type()) + "." + cs.field.Name()
		default:
			return
		}
		cs.bits = bits
		if bits > 16 {
			// converted down to 16 (or 32) bits somewhere in the function?
			down := 0
			core.EachInstr(fn, func(j ssa.Instruction) {
				cv, ok := j.(*ssa.Convert)
				if !ok {
					return
				}
				tb, _ := intBits(cv.Type())
				if tb == 0 || tb >= bits {
					return
				}
				if cs.sameVar(cv.X) {
					if down == 0 || tb < down {
						down = tb
					}
				}
			})
			if down == 0 {
				return
			}
			cs.bits = down
			cs.wide = true
		}
		if cs.bits != 16 && cs.bits != 32 {
			return
		}
		out = append(out, cs)
	})
	// counters kept in a field of a local struct and advanced in a method called on it: found at the place where
	// the field is converted down to 16 (or 32) bits
	type cellKey struct {
		al *ssa.Alloc
		f  int
	}
	seenCell := map[cellKey]bool{}
	core.EachInstr(fn, func(j ssa.Instruction) {
		cv, ok := j.(*ssa.Convert)
		if !ok {
			return
		}
		tb, _ := intBits(cv.Type())
		u, ok := core.StripConv(cv.X).(*ssa.UnOp)
		if !ok || u.Op != token.MUL || (tb != 16 && tb != 32) {
			return
		}
		sb, _ := intBits(u.Type())
		fa, ok := u.X.(*ssa.FieldAddr)
		if !ok || sb <= tb {
			return
		}
		al, ok := core.Strip(fa.X).(*ssa.Alloc)
		if !ok || seenCell[cellKey{al, fa.Field}] {
			return
		}
		if _, inc, why := fieldCellDefs(al, fa.Field); !inc || why != "" {
			return
		}
		seenCell[cellKey{al, fa.Field}] = true
		cs := counterSite{fn: fn, bits: tb, wide: true, cellAl: al, cellField: fa.Field, label: al.Comment + "." + core.FieldName(fa)}
		// where it advances: the first call that is handed the struct
		core.EachInstr(fn, func(k ssa.Instruction) {
			ci, ok := k.(ssa.CallInstruction)
			if !ok || cs.cellAt != nil {
				return
			}
			if h := ci.Common().StaticCallee(); h == nil || len(h.Blocks) == 0 {
				return
			}
			for _, a := range ci.Common().Args {
				if core.Strip(a) == ssa.Value(al) {
					cs.cellAt = k
				}
			}
		})
		if cs.cellAt == nil {
			cs.cellAt = cv
		}
		out = append(out, cs)
	})
	return out
}

// sameVar: v denotes the counter variable (its φ, its incremented value, or a load of its field).
func (cs *counterSite) sameVar(v ssa.Value) bool {
	v = core.StripConv(v)
	if cs.cellAl != nil {
		u, ok := v.(*ssa.UnOp)
		if !ok || u.Op != token.MUL {
			return false
		}
		fa, ok := u.X.(*ssa.FieldAddr)
		return ok && fa.Field == cs.cellField && core.Strip(fa.X) == ssa.Value(cs.cellAl)
	}
	if cs.phi != nil {
		if v == ssa.Value(cs.phi) || v == ssa.Value(cs.add) {
			return true
		}
		// another φ merging the incremented value (if/else inside the loop)
		if ph, ok := v.(*ssa.Phi); ok {
			for _, e := range ph.Edges {
				if e == ssa.Value(cs.add) || e == ssa.Value(cs.phi) {
					return true
				}
			}
		}
		return false
	}
	if v == ssa.Value(cs.add) {
		return true
	}
	return isFieldLoad(v, cs.field)
}

// shadowedBy recognises a counter that is incremented exactly when a pdata map
// A is non-empty, while the same iteration hands (the counter's value, A) to a
// callee that increments a *guarded* 16-bit counter of its own exactly when its
// map argument is non-empty. Both advance in lockstep, so the callee's guard
// is reached before this counter can wrap; the callee's guard is itself an
// obligation of this rule.
func shadowedBy(fn *ssa.Function, cs *counterSite) string {
	if cs.phi == nil {
		return ""
	}
	// the increment executes only when Len(A) != 0
	var mapA ssa.Value
	for _, b := range fn.Blocks {
		iff := core.IfOf(b)
		if iff == nil {
			continue
		}
		cmp, ok := iff.Cond.(*ssa.BinOp)
		if !ok {
			continue
		}
		k, isC := core.ConstInt(cmp.Y)
		lc, isCall := cmp.X.(*ssa.Call)
		if !isC || k != 0 || !isCall || pdataCallee(lc) == nil || pdataCallee(lc).Name() != "Len" {
			continue
		}
		nonEmptyArm := false
		switch cmp.Op {
		case token.EQL:
			nonEmptyArm = core.GuardedBy(iff, false, cs.add)
		case token.NEQ, token.GTR:
			nonEmptyArm = core.GuardedBy(iff, true, cs.add)
		}
		if nonEmptyArm {
			mapA = lc.Call.Args[0]
		}
	}
	if mapA == nil {
		return ""
	}
	res := ""
	core.EachInstr(fn, func(i ssa.Instruction) {
		cl, ok := i.(*ssa.Call)
		if !ok {
			return
		}
		callee := cl.Call.StaticCallee()
		if callee == nil || callee.Blocks == nil {
			return
		}
		hasMap, hasCtr := false, false
		for _, a := range cl.Call.Args {
			if a == mapA || samePdataGetter(a, mapA) {
				hasMap = true
			}
			if core.StripConv(a) == ssa.Value(cs.phi) {
				hasCtr = true
			}
		}
		if !hasMap || !hasCtr {
			return
		}
		// the callee: early return on Len()==0 of its map parameter, and a guarded 16-bit field counter
		for _, inner := range findCounters(callee) {
			if inner.field == nil || inner.bits != 16 {
				continue
			}
			guarded := false
			for _, b := range callee.Blocks {
				iff := core.IfOf(b)
				if iff == nil {
					continue
				}
				if cmp, ok := iff.Cond.(*ssa.BinOp); ok {
					if k, isC := core.ConstInt(cmp.Y); isC && k == 65535 && inner.sameVar(cmp.X) {
						guarded = true
					}
				}
			}
			if guarded {
				res = inner.label + " in " + core.FuncName(callee)
			}
		}
	})
	return res
}

// samePdataGetter: both values are results of the same niladic pdata getter on the same receiver.
func samePdataGetter(a, b ssa.Value) bool {
	ca, ok1 := a.(*ssa.Call)
	cb, ok2 := b.(*ssa.Call)
	if !ok1 || !ok2 || pdataCallee(ca) == nil || pdataCallee(ca) != pdataCallee(cb) || len(ca.Call.Args) != 1 || len(cb.Call.Args) != 1 {
		return false
	}
	return ca.Call.Args[0] == cb.Call.Args[0] || core.StructEq(ca.Call.Args[0], cb.Call.Args[0], 0) || samePdataGetter(ca.Call.Args[0], cb.Call.Args[0])
}

// boundTestEdge: cmp compares the counter (sameVar) with the maximum of its width; the successor index of an If on cmp
// that is taken when the variable is at/over the maximum (-1: not such a test).
func boundTestEdge(cmp *ssa.BinOp, bits int, sameVar func(ssa.Value) bool) int {
	x, y, op := cmp.X, cmp.Y, cmp.Op
	if k, isC := core.ConstInt(x); isC && k == maxOf(bits) {
		x, y = y, x
		switch op {
		case token.LSS:
			op = token.GTR
		case token.GTR:
			op = token.LSS
		case token.LEQ:
			op = token.GEQ
		case token.GEQ:
			op = token.LEQ
		}
	}
	k, isC := core.ConstInt(y)
	if !isC || !sameVar(x) {
		return -1
	}
	mx := maxOf(bits)
	switch {
	case (op == token.EQL || op == token.GEQ) && k == mx, op == token.GTR && (k == mx || k == mx-1):
		return 0
	case (op == token.NEQ || op == token.LSS) && k == mx, op == token.LEQ && (k == mx || k == mx-1):
		return 1
	}
	return -1
}

// predicateImpliesWithin: h returns a bool; does the answer true (resp. false) imply that the counter (sameVar, read
// inside h) is within the maximum of its width? Decided over the paths of h (loop-free helpers only): on every path
// that can give the answer, a bound test of the counter is taken on — or the answer is — its "within" side.
func predicateImpliesWithin(h *ssa.Function, bits int, sameVar func(ssa.Value) bool) (onTrue, onFalse bool) {
	if h.Signature.Results().Len() != 1 || !isBool(h.Signature.Results().At(0).Type()) {
		return false, false
	}
	for _, b := range h.Blocks {
		for _, s := range b.Succs {
			if s.Dominates(b) {
				return false, false
			}
		}
	}
	// within(v, want): does "v evaluates to want" assert the within side of a bound test
	var lit func(v ssa.Value, want bool) bool
	lit = func(v ssa.Value, want bool) bool {
		switch x := v.(type) {
		case *ssa.UnOp:
			if x.Op == token.NOT {
				return lit(x.X, !want)
			}
		case *ssa.BinOp:
			if e := boundTestEdge(x, bits, sameVar); e >= 0 {
				// e == 1: the true edge is the within side
				return (e == 1) == want
			}
		}
		return false
	}
	onTrue, onFalse = true, true
	anyT, anyF := false, false
	nPaths := 0
	var walk func(b *ssa.BasicBlock, from *ssa.BasicBlock, within bool, env map[*ssa.Phi]ssa.Value)
	walk = func(b *ssa.BasicBlock, from *ssa.BasicBlock, within bool, env map[*ssa.Phi]ssa.Value) {
		nPaths++
		if nPaths > 256 {
			onTrue, onFalse = false, false
			return
		}
		for _, i := range b.Instrs {
			if ph, ok := i.(*ssa.Phi); ok && from != nil {
				for k, pr := range b.Preds {
					if pr == from {
						e := ph.Edges[k]
						if p2, ok := e.(*ssa.Phi); ok && env[p2] != nil {
							e = env[p2]
						}
						env[ph] = e
					}
				}
			}
		}
		switch last := b.Instrs[len(b.Instrs)-1].(type) {
		case *ssa.Return:
			r := last.Results[0]
			if ph, ok := r.(*ssa.Phi); ok && env[ph] != nil {
				r = env[ph]
			}
			if cst, ok := r.(*ssa.Const); ok {
				if cst.Value != nil && cst.Value.String() == "true" {
					anyT = true
					onTrue = onTrue && within
				} else {
					anyF = true
					onFalse = onFalse && within
				}
				return
			}
			anyT, anyF = true, true
			onTrue = onTrue && (within || lit(r, true))
			onFalse = onFalse && (within || lit(r, false))
		case *ssa.If:
			cond := last.Cond
			if ph, ok := cond.(*ssa.Phi); ok && env[ph] != nil {
				cond = env[ph]
			}
			for k, s := range b.Succs {
				e2 := map[*ssa.Phi]ssa.Value{}
				for a, v := range env {
					e2[a] = v
				}
				walk(s, b, within || lit(cond, k == 0), e2)
			}
		case *ssa.Jump:
			walk(b.Succs[0], b, within, env)
		}
	}
	walk(h.Blocks[0], nil, false, map[*ssa.Phi]ssa.Value{})
	return onTrue && anyT, onFalse && anyF
}

func maxOf(bits int) int64 {
	if bits == 16 {
		return 65535
	}
	return 4294967295
}

func c08_2(c *core.Ctx, p *core.Prog) {
	reach := encodeReach(p)
	if len(reach) < 100 {
		c.Undecided("reach", "?", "", fmt.Sprintf("only %d repo functions reachable from the producer entry points", len(reach)))
		return
	}
	c.Stats["encode_path_functions"] = len(reach)
	fns := sortedFuncs(p, reach)
	for _, f := range rootFuncs(c, p) {
		if core.IsCanaryPath(core.FnPkgPath(f)) {
			fns = append(fns, f)
		}
	}
	seen := map[string]int{}
	for _, fn := range fns {
		if !prodPkg(core.FnPkgPath(fn)) && !core.IsCanaryPath(core.FnPkgPath(fn)) {
			continue
		}
		for _, cs := range findCounters(fn) {
			cs := cs
			base := fmt.Sprintf("fn=%s|var=%s|bits=%d", core.FuncName(fn), cs.label, cs.bits)
			seen[base]++
			key := base
			if seen[base] > 1 {
				key = fmt.Sprintf("%s#%d", base, seen[base])
			}
			pos := p.Pos(cs.at().Pos())
			// guards: If comparing the same variable with max
			type guard struct {
				iff     *ssa.If
				maxEdge int // successor index taken when the variable is at/over the maximum
			}
			var guards []guard
			for _, b := range fn.Blocks {
				iff := core.IfOf(b)
				if iff == nil {
					continue
				}
				cmp, ok := iff.Cond.(*ssa.BinOp)
				if !ok {
					continue
				}
				if e := boundTestEdge(cmp, cs.bits, cs.sameVar); e >= 0 {
					guards = append(guards, guard{iff, e})
				}
			}
			// the comparison may sit in a predicate helper that is handed the struct holding the counter
			// (`if !res.isValid() { return err }`): the edge on which the helper's answer does not imply
			// "within the limit" is the max side
			if cs.cellAl != nil {
				for _, b := range fn.Blocks {
					iff := core.IfOf(b)
					if iff == nil {
						continue
					}
					cond, neg := iff.Cond, false
					for {
						u, ok := cond.(*ssa.UnOp)
						if !ok || u.Op != token.NOT {
							break
						}
						cond, neg = u.X, !neg
					}
					cl, ok := cond.(*ssa.Call)
					if !ok {
						continue
					}
					h := cl.Call.StaticCallee()
					if h == nil || len(h.Blocks) == 0 || !core.InRepo(core.FnPkgPath(h)) {
						continue
					}
					for k, a := range cl.Call.Args {
						if core.Strip(a) != ssa.Value(cs.cellAl) || k >= len(h.Params) {
							continue
						}
						prm := h.Params[k]
						inHelper := func(v ssa.Value) bool {
							u, ok := core.StripConv(v).(*ssa.UnOp)
							if !ok || u.Op != token.MUL {
								return false
							}
							fa, ok := u.X.(*ssa.FieldAddr)
							return ok && fa.Field == cs.cellField && fa.X == ssa.Value(prm)
						}
						tw, fw := predicateImpliesWithin(h, cs.bits, inHelper)
						switch {
						case tw && !fw: // true ⇒ within: the false answer is the max side
							if neg {
								guards = append(guards, guard{iff, 0})
							} else {
								guards = append(guards, guard{iff, 1})
							}
						case fw && !tw:
							if neg {
								guards = append(guards, guard{iff, 1})
							} else {
								guards = append(guards, guard{iff, 0})
							}
						}
					}
				}
			}
			if cs.bits == 32 {
				c.InfoOb(key, pos, core.FuncName(fn), fmt.Sprintf("32-bit counter %s (%d guard(s)): exceeding 2^32 parents needs an input that cannot be shown; listed, not reported", cs.label, len(guards)))
				continue
			}
			if len(guards) == 0 {
				if sh := shadowedBy(fn, &cs); sh != "" {
					c.OK(key, pos, core.FuncName(fn), "no guard of its own, but incremented in lockstep with "+sh+", whose guard is reached first")
					continue
				}
				what := "wraps around to 0"
				if cs.wide {
					what = "is truncated when converted to uint16"
				}
				c.Viol(key, pos, core.FuncName(fn), fmt.Sprintf("counter %s becomes a 16-bit id and is incremented with no comparison of that variable against 65535: with more than 65,535 parents in a batch it %s (ids collide / the delta encoder panics) instead of the batch being refused with an error", cs.label, what))
				continue
			}
			// the max side must return an error, not panic
			var msgs []string
			for _, g := range guards {
				tgt := g.iff.Block().Succs[g.maxEdge]
				panics, errs := false, false
				seenB := map[*ssa.BasicBlock]bool{}
				var walk func(b *ssa.BasicBlock, d int)
				walk = func(b *ssa.BasicBlock, d int) {
					if seenB[b] || d > 6 {
						return
					}
					seenB[b] = true
					last := b.Instrs[len(b.Instrs)-1]
					switch x := last.(type) {
					case *ssa.Panic:
						panics = true
						return
					case *ssa.Return:
						if n := len(x.Results); n > 0 && isErr(x.Results[n-1].Type()) && !core.IsNilConst(x.Results[n-1]) {
							errs = true
						}
						return
					}
					for _, s := range b.Succs {
						if s == g.iff.Block() {
							continue
						}
						walk(s, d+1)
					}
				}
				walk(tgt, 0)
				if panics {
					msgs = append(msgs, fmt.Sprintf("the guard at %s panics when the limit is reached", p.Pos(g.iff.Cond.Pos())))
				} else if !errs {
					msgs = append(msgs, fmt.Sprintf("the guard at %s does not return an error when the limit is reached", p.Pos(g.iff.Cond.Pos())))
				}
			}
			// a wide counter is checked before it is handed on as an id: from the increment, no path reaches an
			// Append of a column / sub-builder of the receiver that takes the variable without passing a guard
			// (the delta-encoded id columns panic on a value that went down after truncation; handing the value
			// to an accumulator first is harmless, the batch is refused before anything is built from it)
			if cs.wide {
				// past the limit every guard takes its max side: the within edges are closed for the query
				within := map[core.Edge]bool{}
				for _, g := range guards {
					gb := g.iff.Block()
					within[core.Edge{From: gb, To: gb.Succs[1-g.maxEdge]}] = true
				}
				core.EachInstr(fn, func(i ssa.Instruction) {
					ci, ok := i.(ssa.CallInstruction)
					if !ok || isAccumulate(ci) {
						return
					}
					f := core.CalleeObj(ci)
					if f == nil || !strings.HasPrefix(f.Name(), "Append") {
						return
					}
					recv := core.CallRecv(ci)
					if recv == nil || core.LoadedField(recv) == nil {
						return
					}
					uses := false
					for _, arg := range core.CallArgs(ci) {
						if cs.sameVar(core.StripConv(arg)) {
							uses = true
						}
					}
					if !uses {
						return
					}
					if unchecked, _ := (core.PathQuery{Fn: fn, From: cs.at(), To: i, CutEdges: within}).Exists(); unchecked {
						msgs = append(msgs, fmt.Sprintf("the id is handed to %s at %s before it was compared with 65535: past the limit the truncated id goes down and the delta-encoded id column panics before the guard is reached", f.Name(), p.Pos(i.Pos())))
					}
				})
			}
			c.Check(len(msgs) == 0, key, pos, core.FuncName(fn), fmt.Sprintf("counter %s is compared with 65535 and the batch refused with an error", cs.label),
				fmt.Sprintf("counter %s (16-bit id): %s — a batch with more parents than the id width allows crashes the producer instead of being refused with an error", cs.label, strings.Join(msgs, "; ")))
		}
	}
}

// ---------------- RT.13 ----------------

func rt_13(c *core.Ctx, p *core.Prog) {
	// the transform-tree constructor: the recursive function returning *TransformNode
	var ctor *ssa.Function
	for _, fn := range p.FuncsIn(func(pp string) bool { return pp == pkgSchema }) {
		if fn.Signature.Results().Len() != 1 || core.TypeName(fn.Signature.Results().At(0).Type()) != "TransformNode" {
			continue
		}
		rec := false
		core.EachCall(fn, func(ci ssa.CallInstruction) {
			if ci.Common().StaticCallee() == fn {
				rec = true
			}
		})
		if rec {
			ctor = fn
		}
	}
	if ctor == nil {
		c.Undecided("ctor", "?", "", "recursive transform-node constructor not found")
		return
	}
	// the list arm: typeassert to *arrow.ListType
	var armIf *ssa.If
	core.EachInstr(ctor, func(i ssa.Instruction) {
		ta, ok := i.(*ssa.TypeAssert)
		if !ok || !ta.CommaOk || core.TypeName(ta.AssertedType) != "ListType" {
			return
		}
		for _, r := range core.Referrers(ta) {
			if e, ok := r.(*ssa.Extract); ok && e.Index == 1 {
				for _, r2 := range core.Referrers(e) {
					if iff, ok := r2.(*ssa.If); ok {
						armIf = iff
					}
				}
			}
		}
	})
	if armIf == nil {
		c.Undecided("list-arm", p.Pos(ctor.Pos()), core.FuncName(ctor), "no *arrow.ListType arm in the transform-node constructor")
		return
	}
	n := 0
	core.EachInstr(ctor, func(i ssa.Instruction) {
		cl, ok := i.(*ssa.Call)
		if !ok || cl.Call.StaticCallee() != ctor || !core.GuardedBy(armIf, true, cl) {
			return
		}
		n++
		// RemoveOptional(cl) on every path from the call to a function exit
		isRO := func(j ssa.Instruction) bool {
			c2, ok := j.(*ssa.Call)
			if !ok {
				return false
			}
			f := core.CalleeObj(c2)
			return f != nil && f.Name() == "RemoveOptional" && core.IsMethodOf(f, pkgSchema, "TransformNode", "RemoveOptional") && len(c2.Call.Args) == 1 && c2.Call.Args[0] == ssa.Value(cl)
		}
		ok2 := core.MustPassBetween(ctor, cl, nil, isRO)
		c.Check(ok2, fmt.Sprintf("list-item#%d", n), p.Pos(cl.Pos()), core.FuncName(ctor), "the list's item node has its optional mark removed when the tree is built",
			"the item node of a list starts optional: item builders elide zero values, so a list whose first values are all zero never requests its item field and the schema rebuild dereferences a nil item field (producer panic) or silently loses the all-zero list")
	})
	if n == 0 {
		c.Undecided("list-arm", p.Pos(ctor.Pos()), core.FuncName(ctor), "the list arm does not build an item node")
	}
}

// ---------------- C08.3 ----------------

// nilResultTable: functions that can return a nil pointer with no error; every
// call site must nil-test the result before dereferencing it. One line of
// reason per entry (DESIGN C08.3).
var nilResultTable = map[string]string{
	pkgSchema + ".NewFieldFrom":                       "nil = the field is removed (still optional)",
	pkgCommonOtlp + ".AttributesStore.AttributesByID": "nil = no attributes recorded for this parent id",
	pkgCommonOtlp + ".AttributesStore.AttributesByDeltaID": "nil = no attributes recorded for this parent id",
}

func c08_3(c *core.Ctx, p *core.Prog) {
	// discover candidates (evidence only): repo functions with a pointer result that can be the nil constant together with a nil / no error
	cands := map[string]bool{}
	for _, fn := range rootFuncs(c, p) {
		if fn.Signature.Results().Len() == 0 || fn.Parent() != nil {
			continue
		}
		if _, isPtr := fn.Signature.Results().At(0).Type().Underlying().(*types.Pointer); !isPtr {
			continue
		}
		for _, r := range core.Returns(fn) {
			if !core.IsNilConst(r.Results[0]) {
				continue
			}
			errNil := true
			if n := len(r.Results); n > 1 && isErr(r.Results[n-1].Type()) {
				errNil = core.IsNilConst(r.Results[n-1])
			}
			if errNil {
				k := core.FnPkgPath(fn) + "."
				if fn.Signature.Recv() != nil {
					k += core.TypeName(fn.Signature.Recv().Type()) + "."
				}
				o := fn
				if o.Origin() != nil {
					o = o.Origin()
				}
				cands[k+o.Name()] = true
			}
		}
	}
	var unl []string
	for k := range cands {
		if _, ok := nilResultTable[k]; !ok {
			unl = append(unl, strings.TrimPrefix(k, core.RepoPath+"/"))
		}
	}
	sort.Strings(unl)
	c.Note("C08.3 nil-returning candidates not in the table (audit list): %s", strings.Join(unl, ", "))
	rt13ok := true
	for _, o := range c.Obs {
		if o.Rule == "RT.13" && o.Status != core.Discharged && !o.Canary {
			rt13ok = false
		}
	}
	seen := map[string]int{}
	for _, fn := range rootFuncs(c, p) {
		core.EachInstr(fn, func(i ssa.Instruction) {
			cl, ok := i.(*ssa.Call)
			if !ok {
				return
			}
			callee := cl.Call.StaticCallee()
			if callee == nil {
				return
			}
			if callee.Origin() != nil {
				callee = callee.Origin()
			}
			k := core.FnPkgPath(callee) + "."
			if callee.Signature.Recv() != nil {
				k += core.TypeName(callee.Signature.Recv().Type()) + "."
			}
			k += callee.Name()
			if _, ok := nilResultTable[k]; !ok {
				return
			}
			var res ssa.Value = cl
			if cl.Call.Signature().Results().Len() > 1 {
				res = nil
				for _, r := range core.Referrers(cl) {
					if e, ok := r.(*ssa.Extract); ok && e.Index == 0 {
						res = e
					}
				}
				if res == nil {
					return
				}
			}
			base := fmt.Sprintf("fn=%s|callee=%s", core.FuncName(fn), strings.TrimPrefix(k, core.RepoPath+"/"))
			seen[base]++
			key := base
			if seen[base] > 1 {
				key = fmt.Sprintf("%s#%d", base, seen[base])
			}
			pos := p.Pos(cl.Pos())
			// dereferencing uses
			var derefs []ssa.Instruction
			for _, r := range core.Referrers(res) {
				switch x := r.(type) {
				case *ssa.FieldAddr:
					if x.X == res {
						derefs = append(derefs, x)
					}
				case *ssa.UnOp:
					if x.Op == token.MUL && x.X == res {
						derefs = append(derefs, x)
					}
				case ssa.CallInstruction:
					if cc := x.Common(); !cc.IsInvoke() && len(cc.Args) > 0 && cc.Args[0] == res && cc.StaticCallee() != nil && cc.StaticCallee().Signature.Recv() != nil {
						// method with pointer receiver: nil-tolerant only if it tests its receiver first (not analysed): treat as deref
						derefs = append(derefs, x.(ssa.Instruction))
					}
				}
			}
			if len(derefs) == 0 {
				c.OK(key, pos, core.FuncName(fn), "result is not dereferenced here (passed on or tested)")
				return
			}
			cut := map[core.Edge]bool{}
			preTested := false
			for _, b := range fn.Blocks {
				iff := core.IfOf(b)
				if iff == nil {
					continue
				}
				cmp, ok := iff.Cond.(*ssa.BinOp)
				if !ok || !core.IsNilConst(cmp.Y) {
					continue
				}
				if cmp.X != res {
					// "test one call, use a second identical call" on a pure function:
					// this call is made only on the non-nil arm of a test of the same call
					if sameCallAgain(cmp.X, cl) && core.GuardedBy(iff, cmp.Op == token.NEQ, cl) {
						preTested = true
					}
					continue
				}
				if cmp.Op == token.NEQ {
					cut[core.Edge{From: b, To: b.Succs[0]}] = true
				} else if cmp.Op == token.EQL {
					cut[core.Edge{From: b, To: b.Succs[1]}] = true
				}
			}
			bad := false
			var where ssa.Instruction
			for _, d := range derefs {
				if ok, _ := (core.PathQuery{Fn: fn, From: cl, To: d, CutEdges: cut}).Exists(); ok {
					bad = true
					where = d
				}
			}
			if !bad || preTested {
				c.OK(key, pos, core.FuncName(fn), "result nil-tested before every dereference")
				return
			}
			// the list arm of the schema rebuild: discharged by RT.13
			if k == pkgSchema+".NewFieldFrom" && fn.Name() == callee.Name() && inListArm(fn, cl) {
				c.Check(rt13ok, key, pos, core.FuncName(fn), "unconditional dereference in the list arm is safe because list item nodes are never optional (RT.13 holds)",
					"the list arm dereferences the rebuilt item field unconditionally and RT.13 does not hold: nil dereference when a list's first values are all zero")
				return
			}
			c.Viol(key, p.Pos(where.Pos()), core.FuncName(fn), fmt.Sprintf("the result of %s can be nil (%s) and is dereferenced without a nil test", strings.TrimPrefix(k, core.RepoPath+"/"), nilResultTable[k]))
		})
	}
}

// sameCallAgain: v is the result of a call of the same callee with
// argument-wise identical access paths (the repo's "test one call, use a second
// identical call" idiom on a pure function).
func sameCallAgain(v ssa.Value, cl *ssa.Call) bool {
	c2, ok := v.(*ssa.Call)
	if !ok || c2 == cl || c2.Call.StaticCallee() == nil || c2.Call.StaticCallee() != cl.Call.StaticCallee() || len(c2.Call.Args) != len(cl.Call.Args) {
		return false
	}
	for i := range cl.Call.Args {
		if !core.StructEq(cl.Call.Args[i], c2.Call.Args[i], 0) {
			return false
		}
	}
	return true
}

func inListArm(fn *ssa.Function, ins ssa.Instruction) bool {
	res := false
	core.EachInstr(fn, func(i ssa.Instruction) {
		ta, ok := i.(*ssa.TypeAssert)
		if !ok || !ta.CommaOk || core.TypeName(ta.AssertedType) != "ListType" {
			return
		}
		for _, r := range core.Referrers(ta) {
			if e, ok := r.(*ssa.Extract); ok && e.Index == 1 {
				for _, r2 := range core.Referrers(e) {
					if iff, ok := r2.(*ssa.If); ok && core.GuardedBy(iff, true, ins) {
						res = true
					}
				}
			}
		}
	})
	return res
}

// ---------------- C08.6 ----------------

func c08_6(c *core.Ctx, p *core.Prog) {
	// the generic retry function of the producer: contains an invoke of Append(T) error and of Build() on the same builder, in a loop
	n := 0
	for _, fn := range p.FuncsIn(func(pp string) bool { return pp == pkgArrowRecord }) {
		if fn.Synthetic != "" {
			continue // instantiations are covered by the generic function's own body
		}
		var appendCall *ssa.Call
		hasBuild := false
		core.EachInstr(fn, func(i ssa.Instruction) {
			cl, ok := i.(*ssa.Call)
			if !ok || !cl.Call.IsInvoke() {
				return
			}
			switch cl.Call.Method.Name() {
			case "Append":
				if _, isE := lastResultIsError(cl.Call.Signature()); isE {
					appendCall = cl
				}
			case "Build":
				hasBuild = true
			}
		})
		if appendCall == nil || !hasBuild {
			continue
		}
		if fn.Origin() != nil && len(fn.TypeArgs()) > 0 {
			// analyse each instantiation once under the generic's name
		}
		n++
		key := "fn=" + core.FuncName(fn)
		pos := p.Pos(appendCall.Pos())
		// error returns reachable from the failing Append without passing Build: must pass a discard
		discards := func(i ssa.Instruction) bool {
			cl, ok := i.(*ssa.Call)
			if !ok {
				return false
			}
			return callReaches(p, cl, 3, func(f *types.Func) bool {
				return core.IsPkgFunc(f, arrowArray, "NewRecordBuilder") || core.IsMethodOf(f, arrowArray, "RecordBuilder", "NewRecord")
			})
		}
		leak := false
		for _, r := range core.Returns(fn) {
			nres := len(r.Results)
			if nres == 0 || !isErr(r.Results[nres-1].Type()) || core.IsNilConst(r.Results[nres-1]) {
				continue
			}
			if !core.DerivesFrom(r.Results[nres-1], func(v ssa.Value) bool { return v == ssa.Value(appendCall) }) {
				continue
			}
			if ok, _ := (core.PathQuery{Fn: fn, From: appendCall, To: r, Avoid: discards}).Exists(); ok {
				leak = true
			}
		}
		c.Check(!leak, key, pos, core.FuncName(fn), "an Append failure discards the partially filled record builder before returning",
			"when Append stops half-way with an error (id range checks) the rows already written stay in the column builders: the next batch meets non-empty delta builders and panics ('value is less than previous value')")
	}
	if n == 0 {
		c.Undecided("anchor", "?", "", "the producer's Append/Build retry function was not found")
	}
}

// callReaches: does the call (transitively through repo callees, bounded depth) call a function satisfying pred?
func callReaches(p *core.Prog, cl ssa.CallInstruction, depth int, pred func(*types.Func) bool) bool {
	if f := core.CalleeObj(cl); f != nil && pred(f) {
		return true
	}
	if depth == 0 {
		return false
	}
	var tgts []*ssa.Function
	if sc := cl.Common().StaticCallee(); sc != nil {
		tgts = append(tgts, sc)
	} else if cl.Common().IsInvoke() {
		if n := p.CHA().Nodes[cl.Parent()]; n != nil {
			for _, e := range n.Out {
				if e.Site == cl {
					tgts = append(tgts, e.Callee.Func)
				}
			}
		}
	}
	for _, t := range tgts {
		if t.Blocks == nil || !core.InRepo(core.FnPkgPath(t)) {
			continue
		}
		found := false
		core.EachCall(t, func(ci ssa.CallInstruction) {
			if !found && callReaches(p, ci, depth-1, pred) {
				found = true
			}
		})
		if found {
			return true
		}
	}
	return false
}

// ---------------- C08.7 ----------------

func c08_7(c *core.Ctx, p *core.Prog) {
	seen := map[string]int{}
	for _, fn := range rootFuncs(c, p) {
		core.EachInstr(fn, func(i ssa.Instruction) {
			cl, ok := i.(*ssa.Call)
			if !ok {
				return
			}
			f := core.CalleeObj(cl)
			if f == nil || f.Name() != "Inc" || core.RecvNamed(f) == nil || core.RecvNamed(f).Obj().Name() != "SchemaUpdateRequest" {
				return
			}
			// event type for the key
			ev := "?"
			if len(cl.Call.Args) > 1 {
				core.BackSlice(cl.Call.Args[1], func(v ssa.Value) bool {
					if al, ok := v.(*ssa.Alloc); ok {
						ev = core.TypeName(al.Type())
						return false
					}
					return true
				})
			}
			base := fmt.Sprintf("fn=%s|event=%s", core.FuncName(fn), ev)
			seen[base]++
			key := base
			if seen[base] > 1 {
				key = fmt.Sprintf("%s#%d", base, seen[base])
			}
			pos := p.Pos(cl.Pos())
			kind := progressKind(fn, cl, nil)
			if kind == "" && fn.Object() != nil && !fn.Object().Exported() && fn.Parent() == nil {
				// the request may sit in a small helper (`t.requestReset()`, `t.upgradeIndexType(…)`): what accompanies it
				// is then judged at every call site of the helper — the guard in the caller, the state change in
				// either of the two
				inHelper := func(pred func(ssa.Instruction) bool) bool { return core.MustPassBetween(fn, nil, cl, pred) }
				sites, all, first := 0, true, ""
				for _, g := range rootFuncs(c, p) {
					if core.FnPkgPath(g) != core.FnPkgPath(fn) {
						continue
					}
					core.EachInstr(g, func(j ssa.Instruction) {
						cs, ok := j.(*ssa.Call)
						if !ok || cs.Call.StaticCallee() != fn {
							return
						}
						sites++
						k := progressKind(g, cs, inHelper)
						if k == "" {
							all = false
						} else if first == "" {
							first = k
						}
					})
				}
				if sites > 0 && all {
					kind = first + " — judged at the " + fmt.Sprint(sites) + " call site(s) of " + fn.Name()
				}
			}
			note := ""
			if kind == "" && progressNote != "" {
				note = " [" + progressNote + "]"
			}
			progressNote = ""
			c.Check(kind != "", key, pos, core.FuncName(fn), "schema update requested together with: "+kind,
				"a schema update is requested on a path that changes nothing the rebuild depends on (no optional mark removed, no index width advanced, dictionary not disabled, no metadata change, no one-shot latch): the rebuild loop re-runs the same deterministic code, requests the same update again and ends in the 'Too many consecutive schema updates' panic"+note)
			// a request that sits in a package-level helper stands for each of the helper's call sites
			if fn.Parent() == nil && fn.Signature.Recv() == nil && fn.Object() != nil && !fn.Object().Exported() {
				sites := 0
				for _, g := range rootFuncs(c, p) {
					if core.FnPkgPath(g) != core.FnPkgPath(fn) {
						continue
					}
					core.EachCall(g, func(ci ssa.CallInstruction) {
						if ci.Common().StaticCallee() == fn {
							sites++
						}
					})
				}
				c.LastCovers(sites)
			}
		})
	}
}

// latchClearedElsewhere: a latch is a progress argument only while it stays set until the decision function itself
// finds a reason to clear it. A store into the field anywhere else in the package (other than the zero value of a
// literal under construction) — a counter-revert or builder-rebuild hook that clears "reset already requested" —
// makes the next attempt of the rebuild loop request the same update again. progressNote says so in the report.
var progressNote string

func latchClearedElsewhere(fn *ssa.Function, latch *types.Var) bool {
	if fn.Pkg == nil {
		return false
	}
	own := map[*ssa.Function]bool{fn: true}
	// small helpers of the decision function count as the function itself
	core.EachCall(fn, func(ci ssa.CallInstruction) {
		if h := ci.Common().StaticCallee(); h != nil && h.Pkg == fn.Pkg {
			own[h] = true
		}
	})
	for g := range ssautilAllOf(fn.Pkg) {
		if own[g] {
			continue
		}
		found := ""
		core.EachInstr(g, func(i ssa.Instruction) {
			st, ok := i.(*ssa.Store)
			if !ok {
				return
			}
			fa, ok := st.Addr.(*ssa.FieldAddr)
			if !ok || core.FieldVar(fa) != latch || litRoot(st.Addr) {
				return
			}
			found = core.FuncName(g)
		})
		if found != "" {
			progressNote = "the latch " + latch.Name() + " is also written in " + found + ": cleared there, the decision function requests the same update again on the next attempt"
			return true
		}
	}
	return false
}

// ssautilAllOf: the functions and methods declared in pkg (with their closures).
func ssautilAllOf(pkg *ssa.Package) map[*ssa.Function]bool {
	out := map[*ssa.Function]bool{}
	var add func(f *ssa.Function)
	add = func(f *ssa.Function) {
		if f == nil || out[f] {
			return
		}
		out[f] = true
		for _, a := range f.AnonFuncs {
			add(a)
		}
	}
	for _, m := range pkg.Members {
		switch x := m.(type) {
		case *ssa.Function:
			add(x)
		case *ssa.Type:
			for _, t := range []types.Type{x.Type(), types.NewPointer(x.Type())} {
				ms := pkg.Prog.MethodSets.MethodSet(t)
				for k := 0; k < ms.Len(); k++ {
					if f := pkg.Prog.MethodValue(ms.At(k)); f != nil && f.Pkg == pkg {
						add(f)
					}
				}
			}
		}
	}
	return out
}

// returnsOnlyWhenClear: every return of the constant k in h is under a test that found the bool field clear.
func returnsOnlyWhenClear(h *ssa.Function, k int64, latch *types.Var) bool {
	n := 0
	for _, r := range core.Returns(h) {
		if len(r.Results) != 1 {
			return false
		}
		v, isK := core.ConstInt(r.Results[0])
		if !isK {
			return false // not an enumeration of outcomes
		}
		if v != k {
			continue
		}
		n++
		ok := false
		for _, b := range h.Blocks {
			iff := core.IfOf(b)
			if iff == nil {
				continue
			}
			if isFieldLoad(iff.Cond, latch) && core.GuardedBy(iff, false, r) {
				ok = true
			}
			if u, isU := iff.Cond.(*ssa.UnOp); isU && u.Op == token.NOT && isFieldLoad(u.X, latch) && core.GuardedBy(iff, true, r) {
				ok = true
			}
		}
		if !ok {
			return false
		}
	}
	return n > 0
}

// progressKind classifies the state change that accompanies the request.
func progressKind(fn *ssa.Function, inc *ssa.Call, also func(pred func(ssa.Instruction) bool) bool) string {
	must := func(pred func(ssa.Instruction) bool) bool {
		return core.MustPassBetween(fn, nil, inc, pred) || (also != nil && also(pred))
	}
	// (a) RemoveOptional on the path
	if must(func(i ssa.Instruction) bool {
		c2, ok := i.(*ssa.Call)
		return ok && core.CalleeObj(c2) != nil && core.CalleeObj(c2).Name() == "RemoveOptional"
	}) {
		return "an optional mark removed (finite)"
	}
	// (c) dictionary disabled: nil stored into a slice field
	if must(func(i ssa.Instruction) bool {
		s, ok := i.(*ssa.Store)
		if !ok || !core.IsNilConst(s.Val) {
			return false
		}
		fa, ok := s.Addr.(*ssa.FieldAddr)
		if !ok {
			return false
		}
		_, isSl := core.FieldVar(fa).Type().Underlying().(*types.Slice)
		return isSl
	}) {
		return "the dictionary disabled (one-way)"
	}
	// (e) metadata change: map update on the path, conditional on a lookup of the same map (value absent or different)
	var mapField *types.Var
	if must(func(i ssa.Instruction) bool {
		mu, ok := i.(*ssa.MapUpdate)
		if !ok {
			return false
		}
		if fa := core.LoadedField(mu.Map); fa != nil {
			mapField = core.FieldVar(fa)
			return true
		}
		return false
	}) && mapField != nil {
		conditional, _ := core.PathQuery{Fn: fn, Avoid: func(i ssa.Instruction) bool { return i == ssa.Instruction(inc) }, ExitReturnOnly: true}.Exists()
		onLookup := false
		for _, b := range fn.Blocks {
			iff := core.IfOf(b)
			if iff == nil {
				continue
			}
			if core.DerivesFrom(iff.Cond, func(v ssa.Value) bool {
				lk, ok := v.(*ssa.Lookup)
				return ok && isFieldLoad(lk.X, mapField)
			}) {
				onLookup = true
			}
		}
		if conditional && onLookup {
			return "a metadata value that differs from the stored one"
		}
	}
	// (d) one-shot latch: true stored into a bool field on the path, and the request guarded by that field being false
	var latch *types.Var
	if must(func(i ssa.Instruction) bool {
		s, ok := i.(*ssa.Store)
		if !ok {
			return false
		}
		if b, isB := core.ConstBool(s.Val); !isB || !b {
			return false
		}
		fa, ok := s.Addr.(*ssa.FieldAddr)
		if !ok {
			return false
		}
		latch = core.FieldVar(fa)
		return true
	}) && latch != nil && !latchClearedElsewhere(fn, latch) {
		for _, b := range fn.Blocks {
			iff := core.IfOf(b)
			if iff == nil {
				continue
			}
			if isFieldLoad(iff.Cond, latch) && core.GuardedBy(iff, false, inc) {
				return "a one-shot latch (set here, request only when clear)"
			}
			if u, ok := iff.Cond.(*ssa.UnOp); ok && u.Op == token.NOT && isFieldLoad(u.X, latch) && core.GuardedBy(iff, true, inc) {
				return "a one-shot latch (set here, request only when clear)"
			}
			// the decision is taken by a helper that enumerates the outcomes: the request is under `h() == K`
			// and h returns K only where the latch is clear
			if cmp, ok := iff.Cond.(*ssa.BinOp); ok && cmp.Op == token.EQL && core.GuardedBy(iff, true, inc) {
				hc, isC := cmp.X.(*ssa.Call)
				k, isK := core.ConstInt(cmp.Y)
				if isC && isK && hc.Call.StaticCallee() != nil && hc.Call.StaticCallee().Blocks != nil && returnsOnlyWhenClear(hc.Call.StaticCallee(), k, latch) {
					return "a one-shot latch (set here, request only when the helper found it clear)"
				}
			}
		}
	}
	// (b) index width advanced: guarded by field != value of the same field loaded at entry
	for _, b := range fn.Blocks {
		iff := core.IfOf(b)
		if iff == nil {
			continue
		}
		cmp, ok := iff.Cond.(*ssa.BinOp)
		if !ok || (cmp.Op != token.NEQ && cmp.Op != token.EQL) {
			continue
		}
		fx, fy := core.LoadedField(cmp.X), core.LoadedField(cmp.Y)
		if fx == nil || fy == nil || core.FieldVar(fx) != core.FieldVar(fy) {
			continue
		}
		// one of the two loads happens before any store to the field (the value at entry); the request sits on the
		// "differs" side — the true edge of `!=`, or past the guard clause `if cur == entry { return }`
		if !core.GuardedBy(iff, cmp.Op == token.NEQ, inc) {
			continue
		}
		for _, ld := range []ssa.Value{cmp.X, cmp.Y} {
			li := ld.(ssa.Instruction)
			before := true
			core.EachInstr(fn, func(j ssa.Instruction) {
				if _, ok := storesTo(j, core.FieldVar(fx)); ok && core.Reachable(fn, j, li) {
					before = false
				}
			})
			if before {
				return "the index width advanced (bounded by the index-type table)"
			}
		}
	}
	return ""
}

// ---------------- C08.8 ----------------

func c08_8(c *core.Ctx, p *core.Prog) {
	// delta builders: struct types in schema/builder with a field written in an appending method and read in a subtraction
	n := 0
	for _, fn := range p.FuncsIn(func(pp string) bool { return pp == pkgBuilder }) {
		if fn.Signature.Recv() == nil || fn.Parent() != nil {
			continue
		}
		recv := core.NamedOf(fn.Signature.Recv().Type())
		if recv == nil {
			continue
		}
		st, ok := recv.Underlying().(*types.Struct)
		if !ok {
			continue
		}
		// delta state fields of this type: fields used as operand of SUB in some method of the type
		var stateFields []*types.Var
		for k := 0; k < st.NumFields(); k++ {
			fv := st.Field(k)
			if b, _ := intBits(fv.Type()); b == 0 {
				continue
			}
			used := false
			for _, m := range p.FuncsIn(func(pp string) bool { return pp == pkgBuilder }) {
				if m.Signature.Recv() == nil || core.NamedOf(m.Signature.Recv().Type()) != recv {
					continue
				}
				core.EachInstr(m, func(i ssa.Instruction) {
					if b, ok := i.(*ssa.BinOp); ok && b.Op == token.SUB && isFieldLoad(b.Y, fv) {
						used = true
					}
				})
			}
			if used {
				stateFields = append(stateFields, fv)
			}
		}
		if len(stateFields) == 0 {
			continue
		}
		// appending method: calls Append*/AppendNull of an arrow array builder
		var appends []ssa.Instruction
		core.EachInstr(fn, func(i ssa.Instruction) {
			cl, ok := i.(*ssa.Call)
			if !ok {
				return
			}
			f := core.CalleeObj(cl)
			if f == nil || f.Pkg() == nil || f.Pkg().Path() != arrowArray || !strings.HasPrefix(f.Name(), "Append") {
				return
			}
			appends = append(appends, cl)
		})
		if len(appends) == 0 {
			continue
		}
		for _, sf := range stateFields {
			n++
			key := fmt.Sprintf("method=%s|state=%s", core.FuncName(fn), sf.Name())
			pos := p.Pos(fn.Pos())
			// first-row edges: Len() == 0 true edges
			var firstRow []core.Edge
			lateTest := ""
			for _, b := range fn.Blocks {
				iff := core.IfOf(b)
				if iff == nil {
					continue
				}
				cmp, ok := iff.Cond.(*ssa.BinOp)
				if !ok || cmp.Op != token.EQL {
					continue
				}
				k, isC := core.ConstInt(cmp.Y)
				cl, isCall := cmp.X.(*ssa.Call)
				if !isC || k != 0 || !isCall || core.CalleeObj(cl) == nil || core.CalleeObj(cl).Name() != "Len" {
					continue
				}
				firstRow = append(firstRow, core.Edge{From: b, To: b.Succs[0]})
				// the test looks at the builder before this call appended anything: an append that can precede
				// the Len() makes the test false on the very row it is meant to catch
				for _, ap := range appends {
					if core.Reachable(fn, ap, cl) {
						lateTest = p.Pos(cl.Pos())
					}
				}
			}
			if lateTest != "" {
				c.Viol(key, pos, core.FuncName(fn), fmt.Sprintf("%s tests for the first row of a batch (builder.Len()==0 at %s) only after it has appended to the builder: the test never holds, so the delta base %s left by the previous batch leaks into this one", fn.Name(), lateTest, sf.Name()))
				continue
			}
			if len(firstRow) == 0 {
				// dictionary-only paths etc. are fine, but a plain builder path needs the test
				c.Viol(key, pos, core.FuncName(fn), fmt.Sprintf("%s appends rows but never tests for the first row of a batch (builder.Len()==0): the delta base %s left by the previous batch leaks into this one", fn.Name(), sf.Name()))
				continue
			}
			isStore := func(i ssa.Instruction) bool {
				_, ok := storesTo(i, sf)
				return ok
			}
			okAll := true
			for _, e := range firstRow {
				first := e.To.Instrs[0]
				if isStore(first) {
					continue
				}
				if ok, _ := (core.PathQuery{Fn: fn, From: first, Avoid: isStore, ExitReturnOnly: true}).Exists(); ok {
					okAll = false
				}
			}
			c.Check(okAll, key, pos, core.FuncName(fn), fmt.Sprintf("the first row of a batch (re)initialises %s", sf.Name()),
				fmt.Sprintf("on the first row of a batch %s does not re-initialise the delta base %s: the value left by the previous batch is used (encoder panic 'value is less than previous value', or wrong ids)", fn.Name(), sf.Name()))
		}
	}
	if n == 0 {
		c.Undecided("anchor", "?", "", "no delta builder found in schema/builder")
	}
}

// ---------------- C08.1 (thorough) ----------------

// panicCategory classifies a reachable explicit panic by the constant message
// or the shape of its argument.
func panicCategory(fn *ssa.Function, pn *ssa.Panic) (cat string, discharged string) {
	msg := ""
	core.BackSlice(pn.X, func(v ssa.Value) bool {
		if cst, ok := v.(*ssa.Const); ok && cst.Value != nil && cst.Value.Kind() == constant.String {
			msg = constant.StringVal(cst.Value)
			return false
		}
		return true
	})
	lm := strings.ToLower(msg)
	switch {
	case strings.Contains(lm, "builder type") || strings.Contains(lm, "unknown builder") || strings.Contains(lm, "invalid") && strings.Contains(lm, "builder"):
		return "wrapper-kind", "type-switch default of a builder wrapper: unreachable when wrapper kind matches column type (C08.4/RT.1)"
	case strings.Contains(lm, "maximum number") || strings.Contains(lm, "max is uint"):
		return "id-width", "reported by C08.2"
	case strings.Contains(lm, "less than previous") || strings.Contains(lm, "max delta"):
		return "delta-monotone", "unreachable when ids are assigned by a guarded counter in sorted order (C08.2, C08.8)"
	case strings.Contains(lm, "too many consecutive schema updates"):
		return "retry-cap", "unreachable when every request makes progress (C08.7)"
	case strings.HasSuffix(core.FnPkgPath(fn), "/pkg/arrow") && (strings.Contains(lm, "not supported") || strings.Contains(lm, "unsupported") || isErr(pn.X.Type())):
		return "debug-dump", "record pretty-printer, reachable only with the debugging options (record stats / dump rows): outside the claimed configurations"
	case strings.Contains(lm, "unknown") || strings.Contains(lm, "unsupported") || strings.Contains(lm, "not found") || strings.Contains(lm, "ambiguous") || strings.Contains(lm, "mincard") || strings.Contains(lm, "implement me"):
		return "enum-default", "default arm over a closed enumeration / schema lookups of declared names"
	case msg == "" && isErr(pn.X.Type()) || core.DerivesFrom(pn.X, func(v ssa.Value) bool { return isErr(v.Type()) }):
		return "panic(err)", "recorded assumption: Append of arrow dictionary builders / schema initialisation does not fail"
	}
	return "", ""
}

func c08_1(c *core.Ctx, p *core.Prog) {
	reach := repoReach(p, p.VTA(), producerEntries(p))
	c.Stats["encode_path_functions_vta"] = len(reach)
	cats := map[string]int{}
	seen := map[string]int{}
	for _, fn := range sortedFuncs(p, reach) {
		if !prodPkg(core.FnPkgPath(fn)) {
			continue
		}
		core.EachInstr(fn, func(i ssa.Instruction) {
			pn, ok := i.(*ssa.Panic)
			if !ok || pn.Pos() == token.NoPos {
				return // compiler-generated (select exhaustiveness)
			}
			cat, why := panicCategory(fn, pn)
			base := fmt.Sprintf("fn=%s|cat=%s", core.FuncName(fn), cat)
			seen[base]++
			key := base
			if seen[base] > 1 {
				key = fmt.Sprintf("%s#%d", base, seen[base])
			}
			if cat == "" {
				c.Viol(key, p.Pos(pn.Pos()), core.FuncName(fn), "an explicit panic reachable from BatchArrowRecordsFrom* falls in no discharged category: it must be shown unreachable for valid OTLP input or turned into an error")
				return
			}
			cats[cat]++
			c.OK(key, p.Pos(pn.Pos()), core.FuncName(fn), cat+": "+why)
		})
	}
	var parts []string
	for k, v := range cats {
		parts = append(parts, fmt.Sprintf("%s=%d", k, v))
	}
	sort.Strings(parts)
	c.Note("C08.1 reachable explicit panics by category: %s", strings.Join(parts, ", "))
}
