package rules

import (
	"fmt"
	"go/token"
	"go/types"
	"strings"

	"golang.org/x/tools/go/ssa"

	"otelcheck/internal/core"
)

// C15.6 — local Arrow references are given back.
//
// Arrow objects are reference counted: a constructor of the Arrow library
// (array.NewSlice, array.NewRecord, Builder.NewArray, RecordBuilder.NewRecord,
// array.MakeFromData, …) hands its caller one reference, and the buffers behind
// it go back to the allocator only when that reference is released.  The
// producer's Close cannot reach a reference that lived in a local variable, so
// a function on the encode side that obtains one must either
//
//   - release it on every path to its exits (call or defer of Release), or
//   - hand it on: return it, store it (field, global, slice, map, channel,
//     closure), in which case the receiver owns it (C15.2–C15.4 cover the
//     owners of the producer).
//
// A reference that is only *used* (method calls, passed as an argument: a
// borrow in Arrow's convention) and has a path to an exit without a Release is
// reported.  The rule decides the pairing, not the number of bytes.

// arrowOwnedResult: the call returns a fresh reference to a reference-counted Arrow object.
func arrowOwnedResult(cl *ssa.Call) bool {
	f := core.CalleeObj(cl)
	if f == nil || f.Pkg() == nil || !strings.HasPrefix(f.Pkg().Path(), core.ArrowPath) {
		return false
	}
	n := f.Name()
	if !(strings.HasPrefix(n, "New") || n == "MakeFromData" || n == "Concatenate") {
		return false
	}
	sig := f.Type().(*types.Signature)
	if sig.Results().Len() == 0 {
		return false
	}
	return hasRetainRelease(sig.Results().At(0).Type())
}

func hasRetainRelease(t types.Type) bool {
	ms := types.NewMethodSet(t)
	rel, ret := false, false
	for i := 0; i < ms.Len(); i++ {
		switch ms.At(i).Obj().Name() {
		case "Release":
			rel = true
		case "Retain":
			ret = true
		}
	}
	return rel && ret
}

// aliasesOf: v and the values that denote the same object (conversions, type
// assertions, tuple extraction, φ).
func aliasesOf(v ssa.Value) map[ssa.Value]bool {
	out := map[ssa.Value]bool{v: true}
	work := []ssa.Value{v}
	for len(work) > 0 {
		x := work[len(work)-1]
		work = work[:len(work)-1]
		for _, r := range core.Referrers(x) {
			var nv ssa.Value
			switch y := r.(type) {
			case *ssa.Extract:
				if y.Index == 0 {
					nv = y
				}
			case *ssa.ChangeInterface:
				nv = y
			case *ssa.MakeInterface:
				nv = y
			case *ssa.ChangeType:
				nv = y
			case *ssa.TypeAssert:
				nv = y
			case *ssa.Phi:
				nv = y
			}
			if nv != nil && !out[nv] {
				out[nv] = true
				work = append(work, nv)
			}
		}
	}
	return out
}

type refFate struct {
	escapes  string // "" or how
	released bool   // some Release on an alias exists
}

func c15_6(c *core.Ctx, p *core.Prog) {
	reach := encodeReach(p)
	fns := sortedFuncs(p, reach)
	for _, fn := range p.FuncsIn(func(pp string) bool { return core.IsCanaryPath(pp) && c.InScope(pp) }) {
		if !reach[fn] {
			fns = append(fns, fn)
		}
	}
	seenOrigin := map[*ssa.Function]bool{}
	for _, top := range fns {
		if top.Synthetic != "" {
			// instantiations of a generic function are analysed once (the generic body itself has no SSA)
			if top.Origin() == nil || seenOrigin[top.Origin()] {
				continue
			}
			seenOrigin[top.Origin()] = true
		}
		for _, fn := range core.WithClosures(top) {
			if fn != top && reach[fn] {
				continue // visited on its own
			}
			k := 0
			core.EachInstr(fn, func(i ssa.Instruction) {
				cl, ok := i.(*ssa.Call)
				if !ok || !(arrowOwnedResult(cl) || repoBuiltResult(cl)) {
					return
				}
				k++
				callee := core.CalleeObj(cl)
				key := fmt.Sprintf("ref|fn=%s|new=%s|#%d", core.FuncName(fn), callee.Name(), k)
				pos := p.Pos(cl.Pos())
				al := aliasesOf(cl)
				isRel := func(j ssa.Instruction) bool {
					ci, ok := j.(ssa.CallInstruction)
					if !ok {
						return false
					}
					if _, isGo := j.(*ssa.Go); isGo {
						return false
					}
					com := ci.Common()
					if com.IsInvoke() {
						return com.Method.Name() == "Release" && al[com.Value]
					}
					if f := core.CalleeObj(ci); f != nil && f.Name() == "Release" && len(com.Args) >= 1 && al[com.Args[0]] {
						return true
					}
					// defer func() { x.Release() }()
					if mc, ok := com.Value.(*ssa.MakeClosure); ok {
						inner, _ := mc.Fn.(*ssa.Function)
						for bi, b := range mc.Bindings {
							if !al[b] && !refCellOf(b, al) {
								continue
							}
							if inner != nil && bi < len(inner.FreeVars) && closureReleases(inner, inner.FreeVars[bi]) {
								return true
							}
						}
					}
					return false
				}
				fate := refFate{}
				for v := range al {
					for _, r := range core.Referrers(v) {
						switch y := r.(type) {
						case *ssa.Return:
							fate.escapes = "returned"
						case *ssa.Store:
							if al[y.Val] && !isVarargsSlot(y.Addr) {
								fate.escapes = "stored"
							}
						case *ssa.Send:
							if al[y.X] {
								fate.escapes = "sent"
							}
						case *ssa.MapUpdate:
							if al[y.Value] || al[y.Key] {
								fate.escapes = "stored in a map"
							}
						case *ssa.MakeClosure:
							fate.escapes = "captured by a closure"
						case *ssa.Call:
							if b, ok := y.Call.Value.(*ssa.Builtin); ok && b.Name() == "append" {
								fate.escapes = "appended"
							}
						}
						if ins, ok := r.(ssa.Instruction); ok && isRel(ins) {
							fate.released = true
						}
					}
				}
				// per return: the reference is returned by it, or released / handed on along every path that
				// reaches it.  Edges on which the reference is known to be nil are not followed: the nil arm of a
				// test of the reference itself, and the error arm of the error returned by the same call.
				isHandOn := func(j ssa.Instruction) bool {
					switch y := j.(type) {
					case *ssa.Store:
						return al[y.Val] && !isVarargsSlot(y.Addr)
					case *ssa.Send:
						return al[y.X]
					case *ssa.MapUpdate:
						return al[y.Value] || al[y.Key]
					case *ssa.MakeClosure:
						for _, b := range y.Bindings {
							if al[b] {
								return true
							}
						}
					case *ssa.Call:
						if b, ok := y.Call.Value.(*ssa.Builtin); ok && b.Name() == "append" {
							for _, a := range y.Call.Args[1:] {
								if al[a] {
									return true
								}
							}
						}
						// a repository function that keeps its argument (a message constructor storing the record)
						if callee := y.Call.StaticCallee(); callee != nil && core.InRepo(core.FnPkgPath(callee)) {
							for k, a := range y.Call.Args {
								if al[a] && paramKept(callee, k, 0) {
									return true
								}
							}
						}
					}
					return false
				}
				cut := map[core.Edge]bool{}
				var sibErr ssa.Value
				for _, r := range core.Referrers(cl) {
					if e, ok := r.(*ssa.Extract); ok && isErr(e.Type()) {
						sibErr = e
					}
				}
				for _, b := range fn.Blocks {
					iff := core.IfOf(b)
					if iff == nil {
						continue
					}
					cmp, ok := iff.Cond.(*ssa.BinOp)
					if !ok || (cmp.Op != token.NEQ && cmp.Op != token.EQL) || !core.IsNilConst(cmp.Y) {
						continue
					}
					nilEdge := 1 // successor taken when X == nil
					if cmp.Op == token.EQL {
						nilEdge = 0
					}
					switch {
					case al[cmp.X]:
						cut[core.Edge{From: b, To: b.Succs[nilEdge]}] = true
					case sibErr != nil && (cmp.X == sibErr || errAliasOf(cmp.X, sibErr)):
						cut[core.Edge{From: b, To: b.Succs[1-nilEdge]}] = true // err != nil: the reference is nil by convention
					}
				}
				leakAt, nRet := "", 0
				for _, r := range core.Returns(fn) {
					returnsIt := false
					for _, res := range r.Results {
						if al[res] {
							returnsIt = true
						}
					}
					if returnsIt {
						nRet++
						continue
					}
					if ok, _ := (core.PathQuery{Fn: fn, From: cl, To: r, CutEdges: cut, Avoid: func(j ssa.Instruction) bool { return isRel(j) || isHandOn(j) }}).Exists(); ok {
						leakAt = p.Pos(r.Pos())
					}
				}
				switch {
				case leakAt == "" && fate.escapes == "":
					c.OK(key, pos, core.FuncName(fn), "the reference obtained from "+callee.Name()+" is released on every path to a return")
				case leakAt == "":
					c.InfoOb(key, pos, core.FuncName(fn), "the reference obtained from "+callee.Name()+" is released or handed on ("+fate.escapes+") on every path: its receiver owns it")
				case fate.released || fate.escapes != "":
					c.Viol(key, pos, core.FuncName(fn), "the reference obtained from "+callee.Name()+" is released or handed on on some paths only: the return at "+leakAt+" is reached with the reference neither released, returned nor stored — its buffers never return to the allocator, and Close cannot reach them")
				default:
					c.Viol(key, pos, core.FuncName(fn), "the reference obtained from "+callee.Name()+" is never released, returned or stored: its buffers never return to the allocator, and Close cannot reach them")
				}
			})
		}
	}
}

// repoBuiltResult: a Build / TryBuild / NewRecord of the repository that hands its caller a record or array.
func repoBuiltResult(cl *ssa.Call) bool {
	var f *types.Func
	if cl.Call.IsInvoke() {
		f = cl.Call.Method
	} else {
		f = core.CalleeObj(cl)
	}
	if f == nil || f.Pkg() == nil || !core.InRepo(f.Pkg().Path()) {
		return false
	}
	switch f.Name() {
	case "Build", "TryBuild", "NewRecord", "BuildRecord":
	default:
		return false
	}
	sig := f.Type().(*types.Signature)
	return sig.Results().Len() >= 1 && hasRetainRelease(sig.Results().At(0).Type())
}

// paramKept: the callee stores its k-th parameter into an object, returns it, or passes it to a function that does.
func paramKept(fn *ssa.Function, k int, depth int) bool {
	if fn == nil || k >= len(fn.Params) || depth > 2 {
		return false
	}
	al := aliasesOf(fn.Params[k])
	kept := false
	for v := range al {
		for _, r := range core.Referrers(v) {
			switch y := r.(type) {
			case *ssa.Store:
				if al[y.Val] && !isVarargsSlot(y.Addr) {
					kept = true
				}
			case *ssa.Return:
				kept = true
			case *ssa.MapUpdate:
				if al[y.Value] {
					kept = true
				}
			case *ssa.Call:
				if callee := y.Call.StaticCallee(); callee != nil && core.InRepo(core.FnPkgPath(callee)) {
					for j, a := range y.Call.Args {
						if al[a] && paramKept(callee, j, depth+1) {
							kept = true
						}
					}
				}
			}
		}
	}
	return kept
}

// errAliasOf: v is the same error as e (through a φ or a wrapper call).
func errAliasOf(v, e ssa.Value) bool {
	return core.DerivesFrom(v, func(x ssa.Value) bool { return x == e })
}

// isVarargsSlot: addr is an element of the array the compiler allocates for a
// variadic call (fmt.Sprintf("%v", x)): passing a value that way is a borrow.
func isVarargsSlot(addr ssa.Value) bool {
	ia, ok := addr.(*ssa.IndexAddr)
	if !ok {
		return false
	}
	a, ok := ia.X.(*ssa.Alloc)
	return ok && a.Comment == "varargs"
}

// refCellOf: b is a local cell (Alloc) into which an alias was stored.
func refCellOf(b ssa.Value, al map[ssa.Value]bool) bool {
	a, ok := b.(*ssa.Alloc)
	if !ok {
		return false
	}
	for _, r := range core.Referrers(a) {
		if st, ok := r.(*ssa.Store); ok && st.Addr == ssa.Value(a) && al[st.Val] {
			return true
		}
	}
	return false
}

// closureReleases: the closure calls Release on the free variable (or what it holds).
func closureReleases(fn *ssa.Function, fv *ssa.FreeVar) bool {
	found := false
	core.EachCall(fn, func(ci ssa.CallInstruction) {
		com := ci.Common()
		name := ""
		var recv ssa.Value
		if com.IsInvoke() {
			name, recv = com.Method.Name(), com.Value
		} else if f := core.CalleeObj(ci); f != nil && len(com.Args) >= 1 {
			name, recv = f.Name(), com.Args[0]
		}
		if name != "Release" || recv == nil {
			return
		}
		if core.DerivesFrom(recv, func(v ssa.Value) bool { return v == ssa.Value(fv) }) {
			found = true
		}
	})
	return found
}

func init() {
	register("C15", &core.Rule{ID: "C15.6", Title: "a reference obtained from an Arrow constructor on the encode side is released on every path or handed on", Mod: core.ModRoot, Floor: 0, Run: c15_6, Canary: c15_6Canary})
}

const c15_6Canary = `package c

import (
	"fmt"

	"github.com/apache/arrow-go/v18/arrow"
	"github.com/apache/arrow-go/v18/arrow/array"
)

// BadSliceNeverReleased prints a slice of the list values and forgets it.
func BadSliceNeverReleased(c *array.List, row int) string {
	start, end := c.ValueOffsets(row)
	values := array.NewSlice(c.ListValues(), start, end)
	return fmt.Sprintf("%v", values)
}

// BadReleasedOnOnePath forgets the slice on the early return.
func BadReleasedOnOnePath(c *array.List, row int) int {
	start, end := c.ValueOffsets(row)
	values := array.NewSlice(c.ListValues(), start, end)
	if values.Len() == 0 {
		return 0
	}
	n := values.NullN()
	values.Release()
	return n
}

// GoodDeferred releases with a defer.
func GoodDeferred(c *array.List, row int) string {
	start, end := c.ValueOffsets(row)
	values := array.NewSlice(c.ListValues(), start, end)
	defer values.Release()
	return fmt.Sprintf("%v", values)
}

// GoodBuilt releases the array it built.
func GoodBuilt(b *array.Int64Builder) int {
	arr := b.NewArray()
	n := arr.Len()
	arr.Release()
	return n
}

var _ arrow.Array
`
