package rules

import (
	"fmt"
	"go/token"
	"go/types"
	"strings"

	"golang.org/x/tools/go/ssa"

	"otelcheck/internal/core"
)

// C11.8 — typestate of the shard's batch timer.
//
// The batch processor stops its timer with the classic idiom
//
//	if !t.Stop() { <-t.C }
//
// whose bare receive blocks for good when the timer's channel was already
// received from and the timer was not armed again since (Stop reports false,
// nothing will ever be sent).  The shard loop is the only goroutine touching
// the timer (C11.3), so the timer's state is a sequential typestate:
//
//	A  armed, or fired with the tick still in the channel
//	D  stopped / fired with the channel empty
//
//	NewTimer, Reset           → A
//	receive from t.C          → D     (a select arm, or a bare receive)
//	Stop() == true            → D     (stopped before firing)
//	Stop() == false           → unchanged
//	bare receive from t.C     requires A
//
// The rule runs this typestate over the package interprocedurally (function
// summaries per entry state, joined over all paths, loops to fixpoint).  The
// analysis is path-sensitive in exactly two respects, both needed on the
// pristine code: the result of Stop() is followed along the branch that tests
// it, and tests of "is there a timer" (field != nil, directly or through a
// one-line predicate method) are taken as true, because without a timer none of
// the events exists.  It reports, per root function (one no other function of
// the package calls), a bare receive that is reachable in state D, with the
// call chain.  Boolean fields of the struct that owns the timer are part of the
// state (assignments of constants set them, branches on them filter; their
// value on entry is unknown), so a design that remembers "the timer is parked"
// in a field and guards the drain with it is followed.  Every other condition is
// treated as free.
//
// A necessary condition of "timer expiries … never produce … a deadlock": a
// shard loop blocked in that receive never serves its queue again and never
// sees the shutdown channel, so Consume calls and Shutdown hang.

// A state is a pair (timer state, valuation of the tracked boolean flags):
// index = ts + 2*valuation with ts 0 = A, 1 = D.  Sets of states are bitmasks.
type tsSet = uint64

type tsErr struct {
	pos   token.Pos
	fn    *ssa.Function
	chain []string
}

type tsSum struct {
	out  tsSet
	err  *tsErr
	busy bool
	done bool
}

type tsAnalysis struct {
	p      *core.Prog
	fld    *types.Var // the *time.Timer field
	pkg    *ssa.Package
	flags  []*types.Var // boolean fields of package structs that are only ever assigned constants
	sums   map[*ssa.Function][]tsSum // indexed by entry state
	events map[*ssa.Function]bool
	recur  bool
	nilFn  map[*ssa.Function]int // +1: returns fld != nil, -1: returns fld == nil, 0: not a predicate
}

func (a *tsAnalysis) nStates() int { return 2 << uint(len(a.flags)) }

// mapTS applies f to the timer component of every state of the set.
func (a *tsAnalysis) mapTS(set tsSet, f func(ts int) int) tsSet {
	var out tsSet
	for s := 0; s < a.nStates(); s++ {
		if set&(1<<uint(s)) != 0 {
			out |= 1 << uint(f(s&1)|(s&^1))
		}
	}
	return out
}

func (a *tsAnalysis) anyD(set tsSet) bool {
	for s := 1; s < a.nStates(); s += 2 {
		if set&(1<<uint(s)) != 0 {
			return true
		}
	}
	return false
}

// setFlag / filterFlag act on flag k (val<0: unknown → both values).
func (a *tsAnalysis) setFlag(set tsSet, k int, val int) tsSet {
	var out tsSet
	bit := 2 << uint(k)
	for s := 0; s < a.nStates(); s++ {
		if set&(1<<uint(s)) == 0 {
			continue
		}
		if val != 0 {
			out |= 1 << uint(s|bit)
		}
		if val <= 0 {
			out |= 1 << uint(s&^bit)
		}
	}
	return out
}

func (a *tsAnalysis) filterFlag(set tsSet, k int, val bool) tsSet {
	var out tsSet
	bit := 2 << uint(k)
	for s := 0; s < a.nStates(); s++ {
		if set&(1<<uint(s)) != 0 && ((s&bit != 0) == val) {
			out |= 1 << uint(s)
		}
	}
	return out
}

func (a *tsAnalysis) flagIndex(v *types.Var) int {
	for k, f := range a.flags {
		if f == v {
			return k
		}
	}
	return -1
}

// flagTest: v is a read of tracked flag k (pol=+1) or its negation (pol=-1).
func (a *tsAnalysis) flagTest(v ssa.Value) (k int, pol int) {
	pol = 1
	for {
		u, ok := v.(*ssa.UnOp)
		if !ok || u.Op != token.NOT {
			break
		}
		v, pol = u.X, -pol
	}
	if fa := core.LoadedField(v); fa != nil {
		if k := a.flagIndex(core.FieldVar(fa)); k >= 0 {
			return k, pol
		}
	}
	return -1, 0
}

// isTimerLoad: v is a load of the timer field.
func (a *tsAnalysis) isTimerLoad(v ssa.Value) bool {
	fa := core.LoadedField(core.Strip(v))
	return fa != nil && core.FieldVar(fa) == a.fld
}

// isTimerChan: v is (derived from) the C field of the timer.
func (a *tsAnalysis) isTimerChan(v ssa.Value) bool {
	return a.isTimerChanD(v, 0)
}

func (a *tsAnalysis) isTimerChanD(v ssa.Value, depth int) bool {
	return core.DerivesFrom(v, func(w ssa.Value) bool {
		if fa := core.LoadedField(w); fa != nil && core.FieldName(fa) == "C" {
			return a.isTimerLoad(fa.X)
		}
		// the channel returned by a package helper (`timerCh := b.startTimer()`)
		if cl, ok := w.(*ssa.Call); ok && depth < 2 {
			if h := cl.Call.StaticCallee(); h != nil && h.Pkg == a.pkg && len(h.Blocks) > 0 {
				for _, r := range core.Returns(h) {
					for _, res := range r.Results {
						if _, isCh := res.Type().Underlying().(*types.Chan); isCh && a.isTimerChanD(res, depth+1) {
							return true
						}
					}
				}
			}
		}
		return false
	})
}

// nilTest: v is a test of "the timer exists"; pol=+1 when true means it exists.
func (a *tsAnalysis) nilTest(v ssa.Value) (pol int) {
	switch x := v.(type) {
	case *ssa.UnOp:
		if x.Op == token.NOT {
			return -a.nilTest(x.X)
		}
	case *ssa.BinOp:
		if x.Op != token.NEQ && x.Op != token.EQL {
			return 0
		}
		var other ssa.Value
		if core.IsNilConst(x.Y) {
			other = x.X
		} else if core.IsNilConst(x.X) {
			other = x.Y
		} else {
			return 0
		}
		if !a.isTimerLoad(other) {
			return 0
		}
		if x.Op == token.NEQ {
			return 1
		}
		return -1
	case *ssa.Call:
		g := x.Call.StaticCallee()
		if g == nil || g.Pkg != a.pkg {
			return 0
		}
		if pol, ok := a.nilFn[g]; ok {
			return pol
		}
		a.nilFn[g] = 0
		if len(g.Blocks) == 1 {
			if r, ok := g.Blocks[0].Instrs[len(g.Blocks[0].Instrs)-1].(*ssa.Return); ok && len(r.Results) == 1 {
				a.nilFn[g] = a.nilTest(r.Results[0])
			}
		}
		return a.nilFn[g]
	}
	return 0
}

func (a *tsAnalysis) timerMethod(ci ssa.CallInstruction) string {
	f := core.CalleeObj(ci)
	if f == nil || !core.IsMethodOf(f, "time", "Timer", f.Name()) {
		return ""
	}
	recv := core.CallRecv(ci)
	if recv == nil || !a.isTimerLoad(recv) {
		return ""
	}
	return f.Name()
}

// hasEvents: fn (or a package callee) touches the timer.
func (a *tsAnalysis) hasEvents(fn *ssa.Function, seen map[*ssa.Function]bool) bool {
	if v, ok := a.events[fn]; ok {
		return v
	}
	if seen[fn] {
		return false
	}
	seen[fn] = true
	res := false
	core.EachInstr(fn, func(i ssa.Instruction) {
		if res {
			return
		}
		switch x := i.(type) {
		case *ssa.FieldAddr:
			if core.FieldVar(x) == a.fld {
				res = true
			}
		case ssa.CallInstruction:
			if _, isGo := x.(*ssa.Go); isGo {
				return
			}
			if g := a.callee(x); g != nil && a.hasEvents(g, seen) {
				res = true
			}
		}
	})
	a.events[fn] = res
	return res
}

func (a *tsAnalysis) callee(ci ssa.CallInstruction) *ssa.Function {
	var g *ssa.Function
	if mc, ok := ci.Common().Value.(*ssa.MakeClosure); ok {
		g, _ = mc.Fn.(*ssa.Function)
	} else {
		g = ci.Common().StaticCallee()
	}
	if g == nil || len(g.Blocks) == 0 {
		return nil
	}
	if g.Pkg != a.pkg && (g.Parent() == nil || g.Parent().Pkg != a.pkg) {
		return nil
	}
	return g
}

// summary of fn entered in the single state `in` (a state index).
func (a *tsAnalysis) summary(fn *ssa.Function, in int) tsSum {
	slot := a.sums[fn]
	if slot == nil {
		slot = make([]tsSum, a.nStates())
		a.sums[fn] = slot
	}
	s := &slot[in]
	if s.done {
		return *s
	}
	if s.busy {
		a.recur = true
		return tsSum{out: 1 << uint(in)}
	}
	s.busy = true
	toD := func(int) int { return 1 }
	toA := func(int) int { return 0 }
	// edges on which the timer's channel was received from (select arms)
	consume := map[core.Edge]bool{}
	core.EachInstr(fn, func(i ssa.Instruction) {
		sel, ok := i.(*ssa.Select)
		if !ok {
			return
		}
		for k, st := range sel.States {
			if st.Dir == types.RecvOnly && a.isTimerChan(st.Chan) {
				if e, ok := selectArm(sel, k); ok {
					consume[e] = true
				} else {
					// arm not located: treat the whole select as consuming
					consume[core.Edge{From: sel.Block(), To: nil}] = true
				}
			}
		}
	})
	blockIn := make([]tsSet, len(fn.Blocks))
	blockIn[0] = 1 << uint(in)
	work := []*ssa.BasicBlock{fn.Blocks[0]}
	var out tsSet
	var firstErr *tsErr
	setErr := func(e *tsErr) {
		if firstErr == nil {
			firstErr = e
		}
	}
	for len(work) > 0 {
		b := work[len(work)-1]
		work = work[:len(work)-1]
		st := blockIn[b.Index]
		var stopCond ssa.Value
		stopTrue := false // Succs[0] is taken when Stop() == stopTrue
		for _, ins := range b.Instrs {
			switch x := ins.(type) {
			case *ssa.Store:
				if fa, ok := x.Addr.(*ssa.FieldAddr); ok {
					if core.FieldVar(fa) == a.fld && !core.IsNilConst(x.Val) {
						st = a.mapTS(st, toA)
					} else if k := a.flagIndex(core.FieldVar(fa)); k >= 0 {
						if bv, ok := core.ConstBool(x.Val); ok {
							v := 0
							if bv {
								v = 1
							}
							st = a.setFlag(st, k, v)
						} else {
							st = a.setFlag(st, k, -1)
						}
					}
				}
			case *ssa.UnOp:
				if x.Op == token.ARROW && a.isTimerChan(x.X) {
					if a.anyD(st) {
						setErr(&tsErr{pos: x.Pos(), fn: fn})
					}
					st = a.mapTS(st, toD)
				}
			case *ssa.Select:
				if consume[core.Edge{From: b, To: nil}] {
					st |= a.mapTS(st, toD)
				}
			case *ssa.Return:
				out |= st
			case ssa.CallInstruction:
				if _, isGo := x.(*ssa.Go); isGo {
					continue
				}
				if _, isDefer := x.(*ssa.Defer); isDefer {
					continue
				}
				switch a.timerMethod(x) {
				case "Reset":
					st = a.mapTS(st, toA)
					continue
				case "Stop":
					v, _ := x.(ssa.Value)
					tested := false
					if v != nil {
						if iff := core.IfOf(b); iff != nil {
							c := iff.Cond
							neg := false
							for {
								u, ok := c.(*ssa.UnOp)
								if !ok || u.Op != token.NOT {
									break
								}
								c, neg = u.X, !neg
							}
							if c == v {
								tested, stopCond, stopTrue = true, iff.Cond, !neg
							}
						}
					}
					if !tested {
						st |= a.mapTS(st, toD)
					}
					continue
				}
				g := a.callee(x)
				if g == nil || !a.hasEvents(g, map[*ssa.Function]bool{}) {
					continue
				}
				var nst tsSet
				for si := 0; si < a.nStates(); si++ {
					if st&(1<<uint(si)) == 0 {
						continue
					}
					sub := a.summary(g, si)
					nst |= sub.out
					if sub.err != nil {
						ch := append([]string{fmt.Sprintf("%s calls %s at %s", core.FuncName(fn), core.FuncName(g), a.p.Pos(x.Pos()))}, sub.err.chain...)
						setErr(&tsErr{pos: sub.err.pos, fn: sub.err.fn, chain: ch})
					}
				}
				st = nst
			}
		}
		// successors
		iff := core.IfOf(b)
		for k, succ := range b.Succs {
			sst := st
			e := core.Edge{From: b, To: succ}
			if consume[e] {
				sst = a.mapTS(sst, toD)
			}
			if iff != nil && len(b.Succs) == 2 && b.Succs[0] != b.Succs[1] {
				if stopCond != nil && iff.Cond == stopCond {
					// edge k==0 ⇔ cond true ⇔ Stop()==stopTrue ; k==1 ⇔ Stop()==!stopTrue
					if (k == 0) == stopTrue {
						sst = a.mapTS(sst, toD)
					}
				} else if pol := a.nilTest(iff.Cond); pol != 0 {
					// the world with a timer: prune the "no timer" edge
					if (pol > 0) != (k == 0) {
						continue
					}
				} else if fk, pol := a.flagTest(iff.Cond); fk >= 0 {
					sst = a.filterFlag(sst, fk, (pol > 0) == (k == 0))
				}
			}
			if sst == 0 {
				continue
			}
			if blockIn[succ.Index]|sst != blockIn[succ.Index] {
				blockIn[succ.Index] |= sst
				work = append(work, succ)
			}
		}
	}
	s.out, s.err, s.done, s.busy = out, firstErr, true, false
	return *s
}

func c11_8(c *core.Ctx, p *core.Prog) {
	fns := cbpFuncs(c, p)
	// timer fields of package structs
	type fieldAt struct {
		fld *types.Var
		pkg *ssa.Package
	}
	var fields []fieldAt
	seenF := map[*types.Var]bool{}
	for _, fn := range fns {
		for _, f := range core.WithClosures(fn) {
			core.EachInstr(f, func(i ssa.Instruction) {
				fa, ok := i.(*ssa.FieldAddr)
				if !ok {
					return
				}
				v := core.FieldVar(fa)
				if v == nil || seenF[v] {
					return
				}
				pt, ok := v.Type().(*types.Pointer)
				if !ok || core.TypePkgPath(pt.Elem()) != "time" || core.TypeName(pt.Elem()) != "Timer" {
					return
				}
				seenF[v] = true
				fields = append(fields, fieldAt{v, fn.Pkg})
			})
		}
	}
	if len(fields) == 0 {
		c.Note("no *time.Timer field is used in the batch-processor package")
		return
	}
	for _, ft := range fields {
		a := &tsAnalysis{p: p, fld: ft.fld, pkg: ft.pkg, sums: map[*ssa.Function][]tsSum{}, events: map[*ssa.Function]bool{}, nilFn: map[*ssa.Function]int{}}
		// boolean fields of the struct that holds the timer, tracked as part of the state (at most 4)
		if owner := timerOwner(ft.fld, fns); owner != nil {
			for k := 0; k < owner.NumFields() && len(a.flags) < 4; k++ {
				if b, ok := owner.Field(k).Type().Underlying().(*types.Basic); ok && b.Kind() == types.Bool {
					a.flags = append(a.flags, owner.Field(k))
				}
			}
		}
		// roots: package functions with timer events that no other package function calls
		called := map[*ssa.Function]bool{}
		var pkgFns []*ssa.Function
		for _, fn := range fns {
			if fn.Pkg != ft.pkg || fn.Synthetic != "" {
				continue
			}
			for _, f := range core.WithClosures(fn) {
				pkgFns = append(pkgFns, f)
				core.EachCall(f, func(ci ssa.CallInstruction) {
					if _, isGo := ci.(*ssa.Go); isGo {
						return
					}
					if g := a.callee(ci); g != nil && g != f {
						called[g] = true
					}
				})
			}
		}
		nRoots := 0
		for _, f := range pkgFns {
			if called[f] || !a.hasEvents(f, map[*ssa.Function]bool{}) {
				continue
			}
			// a root must see a receive or a Stop somewhere below it, otherwise there is nothing to decide
			nRoots++
			key := fmt.Sprintf("timer|field=%s|root=%s", ft.fld.Name(), core.FuncName(f))
			// entry: timer state A; flags unknown (all valuations are tried, the first error is reported)
			var sum tsSum
			for v := 0; v < a.nStates(); v += 2 {
				s1 := a.summary(f, v)
				sum.out |= s1.out
				if sum.err == nil {
					sum.err = s1.err
				}
			}
			pos := p.Pos(f.Pos())
			if a.recur {
				c.Undecided(key, pos, core.FuncName(f), "recursion among the functions that touch the timer: typestate summaries not computed")
				a.recur = false
				continue
			}
			if sum.err != nil {
				chain := append([]string{}, sum.err.chain...)
				c.Viol(key, p.Pos(sum.err.pos), core.FuncName(f), fmt.Sprintf(
					"the bare receive from %s.C in %s can run after the channel was already received from (or the timer stopped) and before the timer is armed again: Stop() then reports false and the receive blocks the shard loop for good [%s]",
					ft.fld.Name(), core.FuncName(sum.err.fn), strings.Join(chain, " → ")))
				continue
			}
			c.OK(key, pos, core.FuncName(f), fmt.Sprintf("every bare receive from %s.C reachable from here runs with the timer armed or its tick unread (typestate over %d functions)", ft.fld.Name(), len(a.sums)))
		}
		if nRoots == 0 {
			c.Undecided("timer|field="+ft.fld.Name(), "?", "", "no root function for the timer typestate")
		}
	}
}

// timerOwner: the struct type that declares the timer field.
func timerOwner(fld *types.Var, fns []*ssa.Function) *types.Struct {
	var res *types.Struct
	for _, fn := range fns {
		for _, f := range core.WithClosures(fn) {
			core.EachInstr(f, func(i ssa.Instruction) {
				fa, ok := i.(*ssa.FieldAddr)
				if !ok || res != nil || core.FieldVar(fa) != fld {
					return
				}
				if pt, ok := fa.X.Type().Underlying().(*types.Pointer); ok {
					res, _ = pt.Elem().Underlying().(*types.Struct)
				}
			})
		}
	}
	return res
}

func init() {
	register("C05", &core.Rule{ID: "C05.19", Title: "the shard loop never blocks for ever in the drain of its batch timer (a wedged shard delivers nothing it accepted afterwards, nor what it holds at Shutdown)", Mod: core.ModCBP, Floor: 1, Run: c11_8, Canary: c11_8Canary})
	register("C11", &core.Rule{ID: "C11.8", Title: "batch timer typestate: the drain after Stop() never runs on a timer whose channel is already empty and that was not re-armed", Mod: core.ModCBP, Floor: 1, Run: c11_8, Canary: c11_8Canary})
}

const c11_8Canary = `package c

import "time"

type S struct {
	timer  *time.Timer
	in     chan int
	n      int
	d      time.Duration
	parked bool
}

func (s *S) has() bool { return s.timer != nil }

func (s *S) stop() {
	if s.has() && !s.timer.Stop() {
		<-s.timer.C
	}
}

func (s *S) reset() {
	if s.has() {
		s.timer.Reset(s.d)
	}
}

func (s *S) flush() {
	sent := false
	for s.n > 10 {
		s.n -= 10
		sent = true
	}
	if sent {
		s.stop()
		s.reset()
	}
}

// GoodLoop re-arms after every tick.
func (s *S) GoodLoop() {
	var ch <-chan time.Time
	if s.d != 0 {
		s.timer = time.NewTimer(s.d)
		ch = s.timer.C
	}
	for {
		select {
		case v := <-s.in:
			s.n += v
			s.flush()
		case <-ch:
			if s.n > 0 {
				s.n = 0
			}
			s.reset()
		}
	}
}

// BadLoopParked leaves the timer unarmed after an idle tick.
func (s *S) BadLoopParked() {
	var ch <-chan time.Time
	if s.d != 0 {
		s.timer = time.NewTimer(s.d)
		ch = s.timer.C
	}
	for {
		select {
		case v := <-s.in:
			s.n += v
			s.flush()
		case <-ch:
			if s.n > 0 {
				s.n = 0
				s.reset()
			}
		}
	}
}

// GoodLoopParkedFlag parks the timer, remembers it in a field and skips the drain while parked.
func (s *S) GoodLoopParkedFlag() {
	s.parked = false
	s.timer = time.NewTimer(s.d)
	for {
		select {
		case v := <-s.in:
			s.n += v
			if s.n > 10 {
				s.n = 0
				if !s.parked {
					s.stop()
				}
				s.reset()
				s.parked = false
			}
		case <-s.timer.C:
			if s.n > 0 {
				s.n = 0
				s.reset()
			} else {
				s.parked = true
			}
		}
	}
}

// BadDoubleStop drains twice.
func (s *S) BadDoubleStop() {
	s.timer = time.NewTimer(s.d)
	s.stop()
	s.stop()
	s.reset()
}

// GoodStopReset stops and re-arms in turn.
func (s *S) GoodStopReset() {
	s.timer = time.NewTimer(s.d)
	s.stop()
	s.reset()
	s.stop()
}
`
