package rules

import (
	"fmt"
	"go/types"
	"sort"
	"strings"

	"golang.org/x/tools/go/ssa"

	"otelcheck/internal/core"
)

// RT.11 CBOR case agreement. Complex attribute values and bodies travel as
// CBOR. The library decodes into interface{} as one of nine Go types (frozen
// table below, one line of reason each); the repository's decode function must
// have a type-switch case for each, writing the matching pcommon.Value variant
// (recursing for maps and slices) and an error-returning default. The encode
// function must have an arm for every ValueType that reads the matching getter
// (recursing for maps and slices).
var cborGoTypes = []struct{ typ, writer, why string }{
	{"string", "SetStr", "CBOR text string"},
	{"int64", "SetInt", "CBOR negative integer"},
	{"uint64", "SetInt", "CBOR unsigned integer: every non-negative int the encoder wrote comes back as uint64"},
	{"float64", "SetDouble", "CBOR float"},
	{"bool", "SetBool", "CBOR simple value true/false"},
	{"[]byte", "SetEmptyBytes", "CBOR byte string"},
	{"map[interface{}]interface{}", "SetEmptyMap", "CBOR map decoded into interface{}"},
	{"[]interface{}", "SetEmptySlice", "CBOR array decoded into interface{}"},
}

func rt_11(c *core.Ctx, p *core.Prog) {
	pkgCommon := core.RepoPath + "/pkg/otel/common"
	var dec, enc *ssa.Function
	for _, fn := range p.FuncsIn(func(pp string) bool { return pp == pkgCommon }) {
		if fn.Parent() != nil || fn.Synthetic != "" {
			continue
		}
		sig := fn.Signature
		// decode(interface{}, pcommon.Value, …) error and encode(*cbor.Encoder, *pcommon.Value, …) error:
		// recognised by the parameter types they must have, whatever else they take
		hasAny, hasValue, hasEnc := false, false, false
		for k := 0; k < sig.Params().Len(); k++ {
			t := sig.Params().At(k).Type()
			switch {
			case isAny(t):
				hasAny = true
			case strings.Contains(t.String(), "cbor") && strings.HasSuffix(t.String(), ".Encoder"):
				hasEnc = true
			}
			if pt, ok := t.(*types.Pointer); ok {
				t = pt.Elem()
			}
			if core.TypeName(t) == "Value" && isPdataType(t) {
				hasValue = true
			}
		}
		if hasAny && hasValue && !hasEnc {
			dec = fn
		}
		if hasEnc && hasValue {
			enc = fn
		}
	}
	if dec == nil || enc == nil {
		c.Undecided("anchors", "?", "", "CBOR encode/decode functions not found")
		return
	}
	// limits: the encoder writes whatever depth and size the value has; a decoder built with limits below the
	// library's defaults (DecOptions{MaxNestedLevels: 8}) refuses batches whose values are inside the property's
	// domain — nothing of such a batch round-trips
	{
		var narrowed []string
		for _, fn := range p.FuncsIn(func(pp string) bool { return pp == pkgCommon }) {
			core.EachInstr(fn, func(i ssa.Instruction) {
				st, ok := i.(*ssa.Store)
				if !ok {
					return
				}
				fa, ok := st.Addr.(*ssa.FieldAddr)
				if !ok || !strings.Contains(core.TypePkgPath(fa.X.Type()), "cbor") || core.TypeName(fa.X.Type()) != "DecOptions" {
					return
				}
				switch core.FieldName(fa) {
				case "MaxNestedLevels", "MaxArrayElements", "MaxMapPairs":
					if _, isC := st.Val.(*ssa.Const); isC {
						narrowed = append(narrowed, fmt.Sprintf("%s: %s = %s", p.Pos(st.Pos()), core.FieldName(fa), st.Val.Name()))
					} else {
						narrowed = append(narrowed, fmt.Sprintf("%s: %s set", p.Pos(st.Pos()), core.FieldName(fa)))
					}
				}
			})
		}
		c.Check(len(narrowed) == 0, "decoder|limits", p.Pos(dec.Pos()), core.FuncName(dec), "the CBOR decoder runs with the library's default limits",
			fmt.Sprintf("the CBOR decoder is configured with its own limits (%v) while the encoder writes values of any depth and size: a list/map body or attribute value beyond them — still inside the property's domain — makes the consumer reject the whole batch", narrowed))
	}
	// decoder: asserted types and the pdata writers under each
	type arm struct {
		ta      *ssa.TypeAssert
		writers map[string]bool
		recurse bool
	}
	arms := map[string]*arm{}
	core.EachInstr(dec, func(i ssa.Instruction) {
		ta, ok := i.(*ssa.TypeAssert)
		if !ok || !ta.CommaOk || ta.X != ssa.Value(dec.Params[0]) {
			return
		}
		name := types.TypeString(ta.AssertedType, func(*types.Package) string { return "" })
		name = strings.ReplaceAll(name, "any", "interface{}")
		a := &arm{ta: ta, writers: map[string]bool{}}
		arms[name] = a
		// the ok extract and its If
		for _, r := range core.Referrers(ta) {
			ex, isEx := r.(*ssa.Extract)
			if !isEx || ex.Index != 1 {
				continue
			}
			for _, r2 := range core.Referrers(ex) {
				iff, isIf := r2.(*ssa.If)
				if !isIf {
					continue
				}
				for _, fn := range core.WithClosures(dec) {
					core.EachInstr(fn, func(j ssa.Instruction) {
						cl, isCl := j.(*ssa.Call)
						if !isCl {
							return
						}
						if fn == dec && !core.GuardedBy(iff, true, cl) {
							return
						}
						if f := pdataCallee(cl); f != nil && core.RecvNamed(f).Obj().Name() == "Value" {
							a.writers[f.Name()] = true
						}
						if core.StaticCallee(cl) == dec {
							a.recurse = true
						}
					})
				}
			}
		}
	})
	for _, t := range cborGoTypes {
		key := "dec|" + t.typ
		a := arms[t.typ]
		switch {
		case a == nil:
			c.Viol(key, p.Pos(dec.Pos()), core.FuncName(dec), fmt.Sprintf("decode has no case for %s (%s): such values inside a list or map attribute/body are rejected or lost", t.typ, t.why))
		case !a.writers[t.writer] && !(t.writer == "SetEmptyBytes" && a.writers["SetBytes"]):
			var ws []string
			for w := range a.writers {
				ws = append(ws, w)
			}
			sort.Strings(ws)
			c.Viol(key, p.Pos(a.ta.Pos()), core.FuncName(dec), fmt.Sprintf("the %s case of decode does not write the value with %s (writes: %v)", t.typ, t.writer, ws))
		case (strings.HasPrefix(t.typ, "map") || strings.HasPrefix(t.typ, "[]interface")) && !a.recurse:
			c.Viol(key, p.Pos(a.ta.Pos()), core.FuncName(dec), fmt.Sprintf("the %s case of decode does not recurse into the elements", t.typ))
		default:
			c.OK(key, p.Pos(a.ta.Pos()), core.FuncName(dec), fmt.Sprintf("case %s writes %s", t.typ, t.writer))
		}
	}
	// list arm: every element of the decoded list yields exactly one element of the target slice (an unset
	// element is an element: skipping it shifts the later ones)
	if a := arms["[]interface{}"]; a != nil {
		var app []*ssa.Call
		core.EachInstr(dec, func(i ssa.Instruction) {
			if cl, ok := i.(*ssa.Call); ok {
				if f := pdataCallee(cl); f != nil && f.Name() == "AppendEmpty" && core.RecvNamed(f).Obj().Name() == "Slice" {
					app = append(app, cl)
				}
			}
		})
		okOne := len(app) == 1
		msg := "the list case appends one element per decoded element"
		if okOne {
			var header *ssa.BasicBlock
			var body map[*ssa.BasicBlock]bool
			for h, bd := range loopsOf(dec) {
				if bd[app[0].Block()] && (body == nil || len(bd) < len(body)) {
					header, body = h, bd
				}
			}
			if header == nil {
				okOne, msg = false, "the list case does not append inside a loop over the decoded elements"
			} else {
				cut := map[core.Edge]bool{}
				for _, b := range dec.Blocks {
					if fe := failEdge(b); fe >= 0 {
						cut[core.Edge{From: b, To: b.Succs[fe]}] = true
					}
				}
				// a path from the loop header round to the header that avoids the append
				var first ssa.Instruction
				for _, s := range header.Succs {
					if body[s] && len(s.Instrs) > 0 {
						first = s.Instrs[0]
					}
				}
				if first != nil {
					isApp := func(i ssa.Instruction) bool { return i == ssa.Instruction(app[0]) }
					if isApp(first) {
						// trivially on the path
					} else if skip, _ := (core.PathQuery{Fn: dec, From: first, To: header.Instrs[0], Avoid: isApp, CutEdges: cut}).Exists(); skip {
						okOne, msg = false, "an iteration over the decoded list can finish without appending an element to the target slice (e.g. unset elements are skipped): the list comes back shorter and later elements shift"
					}
				}
			}
		} else {
			msg = fmt.Sprintf("expected one Slice.AppendEmpty in decode, found %d", len(app))
		}
		c.Check(okOne, "dec|list-elements", p.Pos(a.ta.Pos()), core.FuncName(dec), msg, msg)
	}
	// encoder: an arm per ValueType with the matching getter
	want := map[string]string{"ValueTypeStr": "Str", "ValueTypeInt": "Int", "ValueTypeDouble": "Double", "ValueTypeBool": "Bool", "ValueTypeBytes": "Bytes", "ValueTypeMap": "Map", "ValueTypeSlice": "Slice"}
	var vtT *types.Named
	if pk := p.Pkg(core.PdataPath + "/pcommon"); pk != nil {
		if o := pk.Types.Scope().Lookup("ValueType"); o != nil {
			vtT, _ = o.Type().(*types.Named)
		}
	}
	consts := enumAllConsts(vtT)
	byName := map[string]int64{}
	for k, n := range consts {
		byName[n] = k
	}
	var names []string
	for n := range want {
		names = append(names, n)
	}
	sort.Strings(names)
	for _, n := range names {
		k, okc := byName[n]
		key := "enc|" + n
		if !okc {
			c.Undecided(key, "?", "", "constant not found")
			continue
		}
		found := false
		for _, fn := range core.WithClosures(enc) {
			core.EachInstr(fn, func(i ssa.Instruction) {
				cl, isCl := i.(*ssa.Call)
				if !isCl {
					return
				}
				f := pdataCallee(cl)
				if f == nil || f.Name() != want[n] || core.RecvNamed(f).Obj().Name() != "Value" || len(cl.Call.Args) != 1 {
					return
				}
				if typeGuarded(fn, cl, cl.Call.Args[0], k, 0) {
					found = true
				}
			})
		}
		c.Check(found, key, p.Pos(enc.Pos()), core.FuncName(enc), "encode reads "+want[n]+"() under Type()=="+n, "encode has no arm that reads "+want[n]+"() under Type()=="+n+": values of that type nested in lists/maps are not serialised")
	}
}

func init() {
	for _, prop := range []string{"C01", "C02", "C03"} {
		register(prop, &core.Rule{ID: "RT.11", Title: "CBOR case agreement: decode has a case for every Go type the library yields, encode an arm for every value type", Mod: core.ModRoot, Floor: 13, Run: rt_11})
	}
}
