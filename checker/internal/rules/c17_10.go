package rules

import (
	"fmt"

	"golang.org/x/tools/go/ssa"

	"otelcheck/internal/core"
)

// C17.10 — work handed to goroutines is joined before the batch is forwarded.
//
// The processor rewrites the batch in place and returns it to the helper that
// forwards it.  If part of the rewrite runs in goroutines, the function that
// starts them must count each one before it starts (WaitGroup.Add on every
// path to the go statement — an Add made inside the goroutine races with the
// Wait) and wait for all of them on every path to its return.  Otherwise the
// next consumer reads strings that are still in clear, and the workers keep
// writing into data it already owns.  No goroutine exists today (expected
// count zero; the canary keeps the rule honest).

func c17_10(c *core.Ctx, p *core.Prog) {
	isWG := func(ci ssa.CallInstruction, name string) bool {
		f := core.CalleeObj(ci)
		return f != nil && core.IsMethodOf(f, "sync", "WaitGroup", name)
	}
	n := 0
	for _, top := range obfFuncs(c, p) {
		for _, fn := range core.WithClosures(top) {
			core.EachInstr(fn, func(i ssa.Instruction) {
				g, ok := i.(*ssa.Go)
				if !ok {
					return
				}
				n++
				key := fmt.Sprintf("go|fn=%s#%d", core.FuncName(fn), n)
				counted := core.MustPassBetween(fn, nil, g, func(j ssa.Instruction) bool {
					ci, ok := j.(ssa.CallInstruction)
					return ok && isWG(ci, "Add")
				})
				// an Add inside a loop before the go statement counts once per iteration: the Add must also lie
				// between two go statements of consecutive iterations
				if counted {
					if again, _ := (core.PathQuery{Fn: fn, From: g, To: g, Avoid: func(j ssa.Instruction) bool {
						ci, ok := j.(ssa.CallInstruction)
						return ok && isWG(ci, "Add")
					}}).Exists(); again {
						counted = false
					}
				}
				joined := core.MustPassBetween(fn, g, nil, func(j ssa.Instruction) bool {
					ci, ok := j.(ssa.CallInstruction)
					if !ok {
						return false
					}
					if _, isDefer := j.(*ssa.Defer); isDefer {
						return false
					}
					return isWG(ci, "Wait")
				})
				msg := ""
				switch {
				case !counted:
					msg = "a goroutine is started without a WaitGroup.Add before the go statement on every path (an Add made inside the goroutine races with Wait): Wait can see a zero counter"
				case !joined:
					msg = "a path from the go statement to the return of the function does not Wait for the goroutines"
				}
				c.Check(msg == "", key, p.Pos(g.Pos()), core.FuncName(fn), "the goroutine is counted before it starts and joined before the function returns",
					msg+" — the batch is forwarded while it is still being rewritten: the next consumer reads strings in clear text, and the workers write into data it already owns")
			})
		}
	}
}

func init() {
	register("C17", &core.Rule{ID: "C17.10", Title: "goroutines of the processing path are counted before they start and joined before the batch is forwarded", Mod: core.ModObf, Floor: 0, Run: c17_10, Canary: c17_10Canary})
}

const c17_10Canary = `package c

import "sync"

func work(i int) {}

// BadAddInside counts the goroutine from within.
func BadAddInside(n int) {
	var wg sync.WaitGroup
	for i := 0; i < n; i++ {
		go func(i int) {
			wg.Add(1)
			defer wg.Done()
			work(i)
		}(i)
	}
	wg.Wait()
}

// BadNoWait never joins.
func BadNoWait(n int) {
	var wg sync.WaitGroup
	for i := 0; i < n; i++ {
		wg.Add(1)
		go func(i int) {
			defer wg.Done()
			work(i)
		}(i)
	}
}

// GoodJoined counts first and joins.
func GoodJoined(n int) {
	var wg sync.WaitGroup
	for i := 0; i < n; i++ {
		wg.Add(1)
		go func(i int) {
			defer wg.Done()
			work(i)
		}(i)
	}
	wg.Wait()
}
`
