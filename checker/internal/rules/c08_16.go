package rules

import (
	"fmt"
	"go/token"
	"go/types"
	"strings"

	"golang.org/x/tools/go/ssa"

	"otelcheck/internal/core"
)

// C08.16 — ids written to a column with a maximum delta of 1 have no gaps.
//
// The `id` columns of the main and related records are delta encoded and their
// builders are told `SetMaxDelta(1)`: the builder panics ("delta is greater
// than max delta") when two consecutive non-null ids differ by more than one.
// Two idioms keep the ids dense and the rule accepts exactly these:
//
//   - the id is the position of the row (`for ID, x := range rows { ib.Append(ID) }`)
//     and *every* row gets an id — no `ib.AppendNull()` in that loop;
//   - rows without related data get a null id, and the id is a local counter
//     that is advanced by one (only ever `id++`).
//
// The position of the row combined with null ids (the seeded change) leaves a
// gap whenever a row without an id sits between two rows with one.

func c08_16(c *core.Ctx, p *core.Prog) {
	reach := encodeReach(p)
	fns := sortedFuncs(p, reach)
	// fields told SetMaxDelta(1)
	maxDelta1 := map[*types.Var]bool{}
	for _, fn := range p.FuncsIn(func(pp string) bool { return strings.Contains(pp, "/pkg/otel/") }) {
		core.EachInstr(fn, func(i ssa.Instruction) {
			cl, ok := i.(*ssa.Call)
			if !ok || core.CalleeObj(cl) == nil || core.CalleeObj(cl).Name() != "SetMaxDelta" || len(cl.Call.Args) != 2 {
				return
			}
			if k, isK := core.ConstInt(cl.Call.Args[1]); !isK || k != 1 {
				return
			}
			recv := cl.Call.Args[0]
			if fa := core.LoadedField(recv); fa != nil {
				maxDelta1[core.FieldVar(fa)] = true
				return
			}
			// a local later stored into a field
			for _, r := range core.Referrers(recv) {
				if st, ok := r.(*ssa.Store); ok && st.Val == recv {
					if fa, ok := st.Addr.(*ssa.FieldAddr); ok {
						maxDelta1[core.FieldVar(fa)] = true
					}
				}
			}
		})
	}
	c.Stats["C08.16 id fields with a maximum delta of 1"] = len(maxDelta1)
	if len(maxDelta1) < 8 {
		c.Undecided("fields", "?", "", fmt.Sprintf("only %d fields with SetMaxDelta(1) found (8+ confirmed by hand)", len(maxDelta1)))
		return
	}
	for _, fn := range fns {
		if fn.Synthetic != "" {
			continue
		}
		k := 0
		core.EachInstr(fn, func(i ssa.Instruction) {
			cl, ok := i.(*ssa.Call)
			if !ok || core.CalleeObj(cl) == nil || core.CalleeObj(cl).Name() != "Append" || len(cl.Call.Args) != 2 {
				return
			}
			fa := core.LoadedField(cl.Call.Args[0])
			if fa == nil || !maxDelta1[core.FieldVar(fa)] {
				return
			}
			fld := core.FieldVar(fa)
			k++
			key := fmt.Sprintf("dense|fn=%s|col=%s#%d", core.FuncName(fn), fld.Name(), k)
			pos := p.Pos(cl.Pos())
			// the innermost loop around the append
			var header *ssa.BasicBlock
			var body map[*ssa.BasicBlock]bool
			for h, bd := range loopsOf(fn) {
				if bd[cl.Block()] && (body == nil || len(bd) < len(body)) {
					header, body = h, bd
				}
			}
			if header == nil {
				c.InfoOb(key, pos, core.FuncName(fn), "single append outside a loop")
				return
			}
			nullInLoop := ""
			core.EachInstr(fn, func(j ssa.Instruction) {
				c2, ok := j.(*ssa.Call)
				if !ok || !body[c2.Block()] || core.CalleeObj(c2) == nil || core.CalleeObj(c2).Name() != "AppendNull" || len(c2.Call.Args) != 1 {
					return
				}
				if f2 := core.LoadedField(c2.Call.Args[0]); f2 != nil && core.FieldVar(f2) == fld {
					nullInLoop = p.Pos(c2.Pos())
				}
			})
			id := core.StripConv(cl.Call.Args[1])
			// (1) the position of the row
			if ph, off, ok := core.AffineIn(id); ok && ph.Block() == header {
				if ind, isInd := core.InductionOf(ph); isInd && ind.A == 1 {
					_ = off
					c.Check(nullInLoop == "", key, pos, core.FuncName(fn),
						"the id is the position of the row and every row gets one",
						"the id written to "+fld.Name()+" is the position of the row, but rows can get a null id instead (at "+nullInLoop+"): a row without an id between two rows with one leaves a gap, and the column's delta builder (maximum delta 1) panics on valid input")
					return
				}
			}
			// (2) a local counter advanced by one
			var bad []string
			seen := map[ssa.Value]bool{}
			nPhi := 0
			var walk func(v ssa.Value)
			walk = func(v ssa.Value) {
				v = core.StripConv(v)
				if seen[v] {
					return
				}
				seen[v] = true
				switch x := v.(type) {
				case *ssa.Phi:
					nPhi++
					for _, e := range x.Edges {
						walk(e)
					}
				case *ssa.Const:
				case *ssa.BinOp:
					if one, isK := core.ConstInt(x.Y); x.Op == token.ADD && isK && one == 1 {
						walk(x.X)
						return
					}
					bad = append(bad, x.String())
				case *ssa.UnOp:
					if al, ok := x.X.(*ssa.Alloc); ok && x.Op == token.MUL {
						for _, r := range core.Referrers(al) {
							if st, ok := r.(*ssa.Store); ok && st.Addr == ssa.Value(al) {
								walk(st.Val)
							}
						}
						return
					}
					bad = append(bad, x.String())
				default:
					bad = append(bad, strings.TrimSpace(v.String()))
				}
			}
			walk(id)
			c.Check(len(bad) == 0 && nPhi > 0, key, pos, core.FuncName(fn),
				"the id is a local counter advanced by one",
				"the id written to "+fld.Name()+" is neither the position of the row nor a local counter that only ever advances by one ("+strings.Join(bad, "; ")+"): the column's delta builder (maximum delta 1) panics on a gap")
		})
	}
}

func init() {
	register("C08", &core.Rule{ID: "C08.16", Title: "ids written to a column with a maximum delta of 1 are the row position (every row gets one) or a local counter advanced by one", Mod: core.ModRoot, Floor: 8, Run: c08_16})
}
