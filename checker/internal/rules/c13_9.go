package rules

import (
	"fmt"
	"go/token"
	"go/types"
	"sort"
	"strings"

	"golang.org/x/tools/go/ssa"

	"otelcheck/internal/core"
)

// C13.9 (= C04.12, RT.32) — a memo is dropped whenever what it was computed
// from changes.
//
// A field F of a schema-machinery type is a *memo* when some method stores into
// it a value computed from other fields G of the same object and some method
// tests it against nil in order to reuse it.  The dictionary field of the
// adaptive schema is the case in point: the Arrow field built by Transform
// depends on the current index width.  If a method changes G and leaves F in
// place, the next Transform hands out the stale value — a schema that still
// says uint8 while the builder moved on to uint16, so a dictionary outgrows the
// width the wire announces.
//
// Rule: for every memo field F with dependencies G, every store to a G in a
// method of the type (constructors, which allocate the object, excepted) is
// accompanied by a store to F on every path through that store: before it or
// after it.  On the pristine tree there is no memo field (expected count zero);
// the canary keeps the rule honest.

type memoInfo struct {
	owner *types.Named
	field *types.Var
	deps  map[*types.Var]bool
	at    token.Pos
}

// recvFieldLoad: v is a load of a field of fn's receiver; returns the field.
func recvFieldOf(fn *ssa.Function, addr ssa.Value) *types.Var {
	fa, ok := addr.(*ssa.FieldAddr)
	if !ok || len(fn.Params) == 0 || fn.Signature.Recv() == nil {
		return nil
	}
	if core.Canon(fa.X) != ssa.Value(fn.Params[0]) && fa.X != ssa.Value(fn.Params[0]) {
		return nil
	}
	return core.FieldVar(fa)
}

// fieldsReadBy: the receiver fields a method loads, itself or through methods of the same receiver it calls.
func fieldsReadBy(fn *ssa.Function, depth int) map[*types.Var]bool {
	out := map[*types.Var]bool{}
	if fn == nil || len(fn.Blocks) == 0 || depth > 2 || len(fn.Params) == 0 {
		return out
	}
	core.EachInstr(fn, func(i ssa.Instruction) {
		switch x := i.(type) {
		case *ssa.UnOp:
			if x.Op == token.MUL {
				if g := recvFieldOf(fn, x.X); g != nil {
					out[g] = true
				}
			}
		case *ssa.Call:
			if callee := x.Call.StaticCallee(); callee != nil && callee.Signature.Recv() != nil && len(x.Call.Args) > 0 && x.Call.Args[0] == ssa.Value(fn.Params[0]) {
				for g := range fieldsReadBy(callee, depth+1) {
					out[g] = true
				}
			}
		}
	})
	return out
}

func findMemos(fns []*ssa.Function) []memoInfo {
	type key struct {
		owner *types.Named
		f     *types.Var
	}
	stored := map[key]*memoInfo{}
	nilTested := map[*types.Var]bool{}
	for _, fn := range fns {
		if fn.Signature.Recv() == nil || len(fn.Params) == 0 {
			continue
		}
		owner := core.NamedOf(fn.Params[0].Type())
		if owner == nil {
			continue
		}
		core.EachInstr(fn, func(i ssa.Instruction) {
			switch x := i.(type) {
			case *ssa.Store:
				f := recvFieldOf(fn, x.Addr)
				if f == nil || core.IsNilConst(x.Val) {
					return
				}
				switch f.Type().Underlying().(type) {
				case *types.Pointer, *types.Interface, *types.Slice, *types.Map:
				default:
					return
				}
				deps := map[*types.Var]bool{}
				core.BackSlice(x.Val, func(v ssa.Value) bool {
					if u, ok := v.(*ssa.UnOp); ok && u.Op == token.MUL {
						if g := recvFieldOf(fn, u.X); g != nil && g != f {
							deps[g] = true
						}
					}
					// a method of the same object called on the way (t.IndexType()): the fields it reads
					if cl, ok := v.(*ssa.Call); ok {
						if callee := cl.Call.StaticCallee(); callee != nil && callee.Signature.Recv() != nil && len(cl.Call.Args) > 0 &&
							(cl.Call.Args[0] == ssa.Value(fn.Params[0]) || core.Canon(cl.Call.Args[0]) == ssa.Value(fn.Params[0])) {
							for g := range fieldsReadBy(callee, 0) {
								if g != f {
									deps[g] = true
								}
							}
						}
					}
					return true
				})
				if len(deps) == 0 {
					return
				}
				k := key{owner, f}
				if stored[k] == nil {
					stored[k] = &memoInfo{owner: owner, field: f, deps: map[*types.Var]bool{}, at: x.Pos()}
				}
				for g := range deps {
					stored[k].deps[g] = true
				}
			case *ssa.If:
				cmp, ok := x.Cond.(*ssa.BinOp)
				if !ok || (cmp.Op != token.NEQ && cmp.Op != token.EQL) || !core.IsNilConst(cmp.Y) {
					return
				}
				if u, ok := cmp.X.(*ssa.UnOp); ok && u.Op == token.MUL {
					if f := recvFieldOf(fn, u.X); f != nil {
						// reused: the nil test guards a return of the loaded field
						for _, r := range core.Returns(fn) {
							for _, res := range r.Results {
								if u2, ok := core.Strip(res).(*ssa.UnOp); ok && u2.Op == token.MUL && recvFieldOf(fn, u2.X) == f {
									nilTested[f] = true
								}
							}
						}
					}
				}
			}
		})
	}
	var out []memoInfo
	for k, m := range stored {
		if nilTested[k.f] {
			out = append(out, *m)
		}
	}
	sort.Slice(out, func(i, j int) bool { return out[i].field.Name() < out[j].field.Name() })
	return out
}

func c13_9(c *core.Ctx, p *core.Prog) {
	fns := p.FuncsIn(func(pp string) bool {
		return pp == pkgTransform || pp == pkgBuilder || strings.HasSuffix(pp, "/common/schema") || strings.HasSuffix(pp, "/schema/update") || (core.IsCanaryPath(pp) && c.InScope(pp))
	})
	memos := findMemos(fns)
	c.Stats[c.RuleID()+" memo fields found"] = len(memos)
	// construction-only methods: every static call site lies in a function that allocates the owner type
	// (or in another construction-only method) — the object is not shared yet and has no memo
	callers := map[*ssa.Function][]*ssa.Function{}
	for _, f := range fns {
		core.EachCall(f, func(ci ssa.CallInstruction) {
			if g := ci.Common().StaticCallee(); g != nil {
				callers[g] = append(callers[g], f)
			}
		})
	}
	allocates := func(f *ssa.Function, owner *types.Named) bool {
		res := false
		core.EachInstr(f, func(i ssa.Instruction) {
			if al, ok := i.(*ssa.Alloc); ok && core.NamedOf(al.Type()) == owner {
				res = true
			}
		})
		return res
	}
	var ctorOnly func(f *ssa.Function, owner *types.Named, depth int) bool
	ctorOnly = func(f *ssa.Function, owner *types.Named, depth int) bool {
		if depth > 3 || len(callers[f]) == 0 {
			return false
		}
		for _, cf := range callers[f] {
			if !allocates(cf, owner) && !ctorOnly(cf, owner, depth+1) {
				return false
			}
		}
		return true
	}
	for _, m := range memos {
		var depNames []string
		for g := range m.deps {
			depNames = append(depNames, g.Name())
		}
		sort.Strings(depNames)
		for _, fn := range fns {
			if fn.Signature.Recv() == nil || len(fn.Params) == 0 || core.NamedOf(fn.Params[0].Type()) != m.owner {
				continue
			}
			if ctorOnly(fn, m.owner, 0) {
				continue
			}
			isMemoStore := func(i ssa.Instruction) bool {
				st, ok := i.(*ssa.Store)
				return ok && recvFieldOf(fn, st.Addr) == m.field
			}
			k := 0
			core.EachInstr(fn, func(i ssa.Instruction) {
				st, ok := i.(*ssa.Store)
				if !ok {
					return
				}
				g := recvFieldOf(fn, st.Addr)
				if g == nil || !m.deps[g] {
					return
				}
				k++
				key := fmt.Sprintf("memo=%s.%s|dep=%s|fn=%s#%d", m.owner.Obj().Name(), m.field.Name(), g.Name(), core.FuncName(fn), k)
				before := core.MustPassBetween(fn, nil, st, isMemoStore)
				// after a self-increment (g = g + c, c ≠ 0) the value differs from any copy of g saved before the
				// first store to g: the "unchanged" edge of a later `g != saved` test is infeasible
				cut := map[core.Edge]bool{}
				if inc, ok := st.Val.(*ssa.BinOp); ok && (inc.Op == token.ADD || inc.Op == token.SUB) {
					if k, isK := core.ConstInt(inc.Y); isK && k != 0 {
						if u, ok := inc.X.(*ssa.UnOp); ok && u.Op == token.MUL && recvFieldOf(fn, u.X) == g {
							isGStore := func(i ssa.Instruction) bool {
								s2, ok := i.(*ssa.Store)
								return ok && recvFieldOf(fn, s2.Addr) == g
							}
							saved := func(v ssa.Value) bool {
								l, ok := v.(*ssa.UnOp)
								if !ok || l.Op != token.MUL || recvFieldOf(fn, l.X) != g {
									return false
								}
								return func() bool { // no store to g can precede the load
										reach := false
										core.EachInstr(fn, func(i ssa.Instruction) {
											if isGStore(i) && core.Reachable(fn, i, l) {
												reach = true
											}
										})
										return !reach
									}()
							}
							for _, b := range fn.Blocks {
								iff := core.IfOf(b)
								if iff == nil {
									continue
								}
								cmp, ok := iff.Cond.(*ssa.BinOp)
								if !ok || (cmp.Op != token.NEQ && cmp.Op != token.EQL) {
									continue
								}
								cur := func(v ssa.Value) bool {
									l, ok := v.(*ssa.UnOp)
									return ok && l.Op == token.MUL && recvFieldOf(fn, l.X) == g
								}
								if (cur(cmp.X) && saved(cmp.Y)) || (cur(cmp.Y) && saved(cmp.X)) {
									if cmp.Op == token.NEQ {
										cut[core.Edge{From: b, To: b.Succs[1]}] = true
									} else {
										cut[core.Edge{From: b, To: b.Succs[0]}] = true
									}
								}
							}
						}
					}
				}
				leak, _ := (core.PathQuery{Fn: fn, From: st, Avoid: isMemoStore, CutEdges: cut}).Exists()
				after := !leak
				c.Check(before || after, key, p.Pos(st.Pos()), core.FuncName(fn),
					"the memo is rewritten or dropped on every path through this change of "+g.Name(),
					fmt.Sprintf("%s.%s is computed from %s (at %s) and reused while non-nil, but this assignment of %s leaves it in place on some path: the next user gets the value computed for the old %s (for the dictionary field: a schema that still announces the old index width, so the dictionary outgrows what its index type can address)",
						m.owner.Obj().Name(), m.field.Name(), strings.Join(depNames, ", "), p.Pos(m.at), g.Name(), g.Name()))
			})
		}
	}
}

func init() {
	register("C13", &core.Rule{ID: "C13.9", Title: "a memoised field is dropped whenever a field it was computed from changes", Mod: core.ModRoot, Floor: 0, Run: c13_9, Canary: c13_9Canary})
	register("C04", &core.Rule{ID: "C04.12", Title: "a memoised field is dropped whenever a field it was computed from changes", Mod: core.ModRoot, Floor: 0, Run: c13_9, Canary: c13_9Canary})
}

const c13_9Canary = `package c

type Field struct {
	Name  string
	Width int
}

type Dict struct {
	widths []int
	cur    int
	memo   *Field
}

// Transform reuses the memo while it is there.
func (d *Dict) Transform(name string) *Field {
	if d.memo != nil {
		return d.memo
	}
	d.memo = &Field{Name: name, Width: d.widths[d.cur]}
	return d.memo
}

// GoodUpgrade drops the memo after the change.
func (d *Dict) GoodUpgrade() {
	d.cur++
	d.memo = nil
}

// GoodDisable drops it before.
func (d *Dict) GoodDisable() {
	d.memo = nil
	d.cur = 0
}

// BadReset forgets to.
func (d *Dict) BadReset(to int) {
	d.cur = to
}

// BadClamp drops it on one arm only.
func (d *Dict) BadClamp(max int) {
	d.cur = max
	if max > 0 {
		d.memo = nil
	}
}
`
