package rules

import (
	"fmt"
	"go/types"
	"sort"
	"strings"

	"golang.org/x/tools/go/ssa"

	"otelcheck/internal/core"
)

// RT.24 flattened rows carry their own identity. The optimizers flatten
// resource/scope/record trees into rows that hold the resource and scope
// containers together with identity values (the ResourceID/ScopeID strings, or
// dense ints looked up from them) which the builders use to detect a change of
// resource/scope between consecutive rows. In every row literal: an identity
// field derives from the identity function applied to the very container stored
// in a sibling field of the same literal, and two identity fields never derive
// from the same identity call. Dense-id maps follow the idiom
// `v, ok := M[k]; if !ok { v = len(M); M[k] = v }` on one map and one key.
// isInternHelper: h(m map[K]int, key K) int looks key up in m and, when absent, inserts len(m) under it.
func isInternHelper(h *ssa.Function) bool {
	if len(h.Params) != 2 || h.Signature.Results().Len() != 1 || !isInt(h.Signature.Results().At(0).Type()) {
		return false
	}
	if _, isMap := h.Params[0].Type().Underlying().(*types.Map); !isMap {
		return false
	}
	look, upd := false, false
	core.EachInstr(h, func(i ssa.Instruction) {
		switch x := i.(type) {
		case *ssa.Lookup:
			if x.CommaOk && x.X == ssa.Value(h.Params[0]) && x.Index == ssa.Value(h.Params[1]) {
				look = true
			}
		case *ssa.MapUpdate:
			if x.Map == ssa.Value(h.Params[0]) && x.Key == ssa.Value(h.Params[1]) {
				upd = true
			}
		}
	})
	return look && upd
}

var identityMemo []*ssa.Lookup
var identityPartial []*ssa.Call
var identityBusy = map[*ssa.Function]bool{}

func identityCalls(v ssa.Value) []*ssa.Call {
	var out []*ssa.Call
	core.BackSlice(v, func(x ssa.Value) bool {
		if cl, ok := x.(*ssa.Call); ok {
			if f := core.CalleeObj(cl); f != nil && f.Pkg() != nil && f.Pkg().Path() == pkgCommonOtlp && strings.HasSuffix(f.Name(), "ID") && len(cl.Call.Args) >= 1 && isPdataType(cl.Call.Args[0].Type()) {
				out = append(out, cl)
				return false
			}
		}
		// a helper of the encoder packages that is handed the container: an identity function of its own if every value it
		// returns comes from the identity function applied to that parameter; a path that builds the value from fewer
		// fields (a fast path for attribute-less scopes) gives two entities one identity
		if cl, ok := x.(*ssa.Call); ok {
			if h := cl.Call.StaticCallee(); h != nil && len(h.Blocks) > 0 && encPkg(core.FnPkgPath(h)) && len(cl.Call.Args) >= 1 && isPdataType(cl.Call.Args[0].Type()) && h.Signature.Results().Len() == 1 && !identityBusy[h] {
				identityBusy[h] = true
				all, any := true, false
				for _, r := range core.Returns(h) {
					sub := identityCalls(r.Results[0])
					okR := false
					for _, c2 := range sub {
						if len(h.Params) > 0 && core.Canon(c2.Call.Args[0]) == ssa.Value(h.Params[0]) {
							okR = true
						}
					}
					if okR {
						any = true
					} else {
						all = false
					}
				}
				identityBusy[h] = false
				if any {
					out = append(out, cl)
					if !all {
						identityPartial = append(identityPartial, cl)
					}
					return false
				}
			}
		}
		// through an interning helper `internID(ids map[K]int, key K) int`: the key argument
		if cl, ok := x.(*ssa.Call); ok {
			if h := cl.Call.StaticCallee(); h != nil && len(h.Blocks) > 0 && encPkg(core.FnPkgPath(h)) && len(cl.Call.Args) == 2 && isInternHelper(h) {
				for _, c2 := range identityCalls(cl.Call.Args[1]) {
					out = append(out, c2)
				}
				return false
			}
		}
		// through a dense-id map: the looked-up key
		if lk, ok := x.(*ssa.Lookup); ok {
			viaKey := identityCalls(lk.Index)
			for _, c2 := range viaKey {
				out = append(out, c2)
			}
			if _, isMap := lk.X.Type().Underlying().(*types.Map); isMap && len(viaKey) == 0 {
				// a table of identity values looked up by something that is not the identity (a memo keyed by a few
				// fields of the entity): entities that agree on the key share one identity
				identityMemo = append(identityMemo, lk)
			}
			return false
		}
		return true
	})
	return out
}

func rt_24(c *core.Ctx, p *core.Prog) {
	reach := encodeReach(p)
	n := 0
	seenOrigin24 := map[*ssa.Function]bool{}
	for _, fn := range sortedFuncs(p, reach) {
		if !encPkg(core.FnPkgPath(fn)) || (fn.Synthetic != "" && fn.Origin() == nil) {
			continue
		}
		if o := fn.Origin(); o != nil {
			if seenOrigin24[o] {
				continue
			}
			seenOrigin24[o] = true
		}
		fn := fn
		core.EachInstr(fn, func(i ssa.Instruction) {
			al, ok := i.(*ssa.Alloc)
			if !ok || !al.Heap {
				return
			}
			named, _ := al.Type().(*types.Pointer).Elem().(*types.Named)
			if named == nil || !core.InRepo(named.Obj().Pkg().Path()) {
				return
			}
			pdataVals := map[ssa.Value]string{}
			type idf struct {
				name  string
				calls []*ssa.Call
			}
			var ids []idf
			var memoMsgs []string
			for _, r := range core.Referrers(al) {
				fa, ok := r.(*ssa.FieldAddr)
				if !ok {
					continue
				}
				for _, r2 := range core.Referrers(fa) {
					st, ok := r2.(*ssa.Store)
					if !ok || st.Addr != ssa.Value(fa) {
						continue
					}
					if isPdataType(st.Val.Type()) {
						pdataVals[core.Canon(st.Val)] = core.FieldName(fa)
						continue
					}
					if b, isB := st.Val.Type().Underlying().(*types.Basic); isB && (b.Kind() == types.String || b.Info()&types.IsInteger != 0) {
						identityMemo = nil
						identityPartial = nil
						if cs := identityCalls(st.Val); len(cs) > 0 {
							ids = append(ids, idf{core.FieldName(fa), cs})
							for _, pc := range identityPartial {
								memoMsgs = append(memoMsgs, fmt.Sprintf("identity field %s is computed by %s, which on some path returns a value that is not the identity function's (built from fewer fields): entities that differ only in what is left out get one identity and are merged", core.FieldName(fa), core.CalleeObj(pc).Name()))
							}
							for _, lk := range identityMemo {
								memoMsgs = append(memoMsgs, fmt.Sprintf("identity field %s can be taken from the table %s looked up by a key that is not the identity (%s): entities that agree on that key but differ elsewhere (attributes, dropped count) get one identity and are merged", core.FieldName(fa), valueLabel(lk.X), p.Pos(lk.Pos())))
							}
						}
					}
				}
			}
			if len(ids) == 0 {
				return
			}
			sort.Slice(ids, func(a, b int) bool { return ids[a].name < ids[b].name })
			n++
			msgs := append([]string{}, memoMsgs...)
			seenCall := map[*ssa.Call]string{}
			for _, f := range ids {
				if len(f.calls) != 1 {
					msgs = append(msgs, fmt.Sprintf("identity field %s derives from %d identity calls", f.name, len(f.calls)))
					continue
				}
				cl := f.calls[0]
				if other, dup := seenCall[cl]; dup {
					msgs = append(msgs, fmt.Sprintf("identity fields %s and %s hold the same identity value (%s): a change of the one entity is detected through the identity of the other", other, f.name, core.CalleeObj(cl).Name()))
				}
				seenCall[cl] = f.name
				arg := core.Canon(cl.Call.Args[0])
				if _, ok := pdataVals[arg]; !ok {
					found := false
					for v := range pdataVals {
						if core.SameValue(v, arg) {
							found = true
						}
					}
					if !found {
						msgs = append(msgs, fmt.Sprintf("identity field %s is computed by %s from %s, which is not a container stored in this row", f.name, core.CalleeObj(cl).Name(), valueLabel(cl.Call.Args[0])))
					}
				}
			}
			c.Check(len(msgs) == 0, fmt.Sprintf("fn=%s|row=%s", core.FuncName(fn), named.Obj().Name()), p.Pos(al.Pos()), core.FuncName(fn),
				fmt.Sprintf("%d identity field(s) computed from the containers stored in the same row", len(ids)),
				"a flattened row's identity does not belong to its own containers: "+strings.Join(msgs, "; ")+" — the builder starts a new resource/scope when another entity changes (or fails to), so records are attached to a resource or scope with other content")
		})
		// dense-id maps
		core.EachInstr(fn, func(i ssa.Instruction) {
			lk, ok := i.(*ssa.Lookup)
			if !ok || !lk.CommaOk {
				return
			}
			if _, isMap := lk.X.Type().Underlying().(*types.Map); !isMap {
				return
			}
			if len(identityCalls(lk.Index)) == 0 {
				// the idiom inside an interning helper: the key is a parameter; it counts when a call site hands it an identity
				prm, isP := lk.Index.(*ssa.Parameter)
				if !isP || !isInternHelper(fn) || prm != fn.Params[1] {
					return
				}
				fed := false
				for g := range reach {
					core.EachCall(g, func(ci ssa.CallInstruction) {
						if ci.Common().StaticCallee() == fn && len(ci.Common().Args) == 2 && len(identityCalls(ci.Common().Args[1])) > 0 {
							fed = true
						}
					})
				}
				if !fed {
					return
				}
			}
			n++
			var msgs []string
			var upd *ssa.MapUpdate
			core.EachInstr(fn, func(j ssa.Instruction) {
				mu, ok := j.(*ssa.MapUpdate)
				if !ok {
					return
				}
				if core.SameValue(mu.Key, lk.Index) || mu.Key == lk.Index {
					upd = mu
				}
			})
			switch {
			case upd == nil:
				msgs = append(msgs, "the looked-up key is never inserted")
			case !(upd.Map == lk.X || core.SameValue(upd.Map, lk.X)):
				msgs = append(msgs, "the id is inserted into another map than the one it is looked up in")
			default:
				lenOK := core.DerivesFrom(upd.Value, func(v ssa.Value) bool {
					cl, ok := v.(*ssa.Call)
					if !ok {
						return false
					}
					bi, ok := cl.Call.Value.(*ssa.Builtin)
					return ok && bi.Name() == "len" && (cl.Call.Args[0] == lk.X || core.SameValue(cl.Call.Args[0], lk.X))
				})
				if !lenOK {
					msgs = append(msgs, "the new id is not the size of the map it is inserted into (ids of two entities can collide)")
				}
			}
			c.Check(len(msgs) == 0, fmt.Sprintf("fn=%s|map@%s", core.FuncName(fn), valueLabel(lk.X)), p.Pos(lk.Pos()), core.FuncName(fn),
				"dense ids: looked up, sized and inserted on one map with one key",
				"dense-id map misuse: "+strings.Join(msgs, "; "))
		})
	}
	c.Stats["RT.24 row literals and id maps"] = n
}

func init() {
	for _, prop := range []string{"C01", "C02", "C03"} {
		register(prop, &core.Rule{ID: "RT.24", Title: "flattened rows carry the identity of their own containers; dense-id maps are used on one map and key", Mod: core.ModRoot, Floor: 1, FloorBy: map[string]int{"C01": 1, "C02": 3, "C03": 1}, Run: rt_24})
	}
}
