package rules

import (
	"go/types"
	"sort"
	"strings"

	"golang.org/x/tools/go/ssa"

	"otelcheck/internal/core"
)

func isPdataType(t types.Type) bool {
	return strings.HasPrefix(core.TypePkgPath(t), core.PdataPath)
}

// pdataCallee returns the pdata method called by ci (nil otherwise).
func pdataCallee(ci ssa.CallInstruction) *types.Func {
	f := core.CalleeObj(ci)
	if f == nil {
		return nil
	}
	n := core.RecvNamed(f)
	if n == nil || n.Obj().Pkg() == nil || !strings.HasPrefix(n.Obj().Pkg().Path(), core.PdataPath) {
		return nil
	}
	return f
}

func methodOf(t types.Type, name string) *types.Func {
	ms := types.NewMethodSet(t)
	for i := 0; i < ms.Len(); i++ {
		if ms.At(i).Obj().Name() == name {
			return ms.At(i).Obj().(*types.Func)
		}
	}
	return nil
}

// identityFields derives, from the method set of pdata message type T, the
// fields that make up the container's identity: scalars (F + SetF) and
// sub-messages (F returns a pdata type with CopyTo that is neither an item
// slice nor a oneof variant).
func identityFields(T types.Type) []string {
	var out []string
	ms := types.NewMethodSet(T)
	for i := 0; i < ms.Len(); i++ {
		f := ms.At(i).Obj().(*types.Func)
		if !f.Exported() {
			continue
		}
		sig := f.Type().(*types.Signature)
		name := f.Name()
		if sig.Params().Len() != 0 || sig.Results().Len() != 1 {
			continue
		}
		rt := sig.Results().At(0).Type()
		if methodOf(T, "Set"+name) != nil {
			out = append(out, name)
			continue
		}
		if isPdataType(rt) && methodOf(rt, "CopyTo") != nil {
			if methodOf(rt, "AppendEmpty") != nil || methodOf(rt, "DataPoints") != nil {
				continue // item slices and oneof variants holding data points
			}
			if methodOf(T, "SetEmpty"+name) != nil {
				continue // oneof accessor
			}
			out = append(out, name)
		}
	}
	sort.Strings(out)
	return out
}

// pdataChain renders v as root + chain of niladic pdata getters:
// ms.Sum().AggregationTemporality() → (ms, ["Sum","AggregationTemporality"]).
func pdataChain(v ssa.Value) (ssa.Value, []string) {
	var chain []string
	for {
		c, ok := v.(*ssa.Call)
		if !ok {
			return v, chain
		}
		f := pdataCallee(c)
		if f == nil || len(c.Call.Args) != 1 || c.Call.IsInvoke() {
			return v, chain
		}
		chain = append([]string{f.Name()}, chain...)
		v = c.Call.Args[0]
	}
}

// valueLabel gives a stable label to an SSA value for keys/messages.
func valueLabel(v ssa.Value) string {
	root, chain := pdataChain(v)
	s := core.AccessPath(root)
	if s == "" {
		if c, ok := root.(*ssa.Call); ok {
			if f := core.CalleeObj(c); f != nil && len(c.Call.Args) > 0 {
				r2, ch2 := pdataChain(c.Call.Args[0])
				s = core.AccessPath(r2)
				for _, m := range ch2 {
					s += "." + m + "()"
				}
				s += "." + f.Name() + "()"
			}
		}
	}
	if s == "" {
		s = root.Name()
	}
	for _, m := range chain {
		s += "." + m + "()"
	}
	return s
}
