package rules

import (
	"fmt"
	"go/types"
	"sort"
	"strings"

	"golang.org/x/tools/go/ssa"

	"otelcheck/internal/core"
)

// RT.41 — a Reset of a decoder-side store restores everything its other methods change.
//
// The decoder builds its stores (attributes by id, the running sum of delta-encoded ids, …) afresh for every batch.
// Recycling a store across batches is only the same thing if its Reset takes back every field that the store's other
// methods write: a Reset that clears the map and keeps `lastID` makes the next batch look its delta-encoded ids up at
// shifted positions — attributes attached to the wrong resource or lost, silently, from the second batch on.
// Rule: for a struct type of a decoder package (…/otlp) that has a Reset method, every field written by another method
// of the type (a store, a map update, a clear) is written by Reset too (or Reset calls Reset on it).
func rt_41(c *core.Ctx, p *core.Prog) {
	inScope := func(pp string) bool {
		return (strings.HasSuffix(pp, "/otlp") && core.InRepo(pp)) || (core.IsCanaryPath(pp) && c.InScope(pp))
	}
	type tinfo struct {
		resets []*ssa.Function
		others []*ssa.Function
	}
	byType := map[*types.TypeName]*tinfo{}
	recvType := func(fn *ssa.Function) *types.TypeName {
		if fn.Signature.Recv() == nil {
			return nil
		}
		n := core.NamedOf(fn.Signature.Recv().Type())
		if n == nil {
			return nil
		}
		return n.Origin().Obj()
	}
	for _, fn := range p.FuncsIn(inScope) {
		if fn.Parent() != nil || (fn.Synthetic != "" && fn.Origin() == nil) {
			continue
		}
		tn := recvType(fn)
		if tn == nil {
			continue
		}
		ti := byType[tn]
		if ti == nil {
			ti = &tinfo{}
			byType[tn] = ti
		}
		base := fn.Name()
		if k := strings.Index(base, "["); k >= 0 {
			base = base[:k] // an instance of a generic type's method: Reset[uint16]
		}
		if base == "Reset" || (core.IsCanaryPath(core.FnPkgPath(fn)) && strings.HasSuffix(base, "Reset")) {
			ti.resets = append(ti.resets, fn)
		} else {
			ti.others = append(ti.others, fn)
		}
	}
	// fields of the receiver written by fn: name → true
	writes := func(fn *ssa.Function) map[string]bool {
		out := map[string]bool{}
		if len(fn.Params) == 0 {
			return out
		}
		recv := ssa.Value(fn.Params[0])
		fieldOf := func(v ssa.Value) string {
			// &recv.f, or a load of it (map / slice header held in the field)
			if fa, ok := v.(*ssa.FieldAddr); ok && core.Strip(fa.X) == recv {
				return core.FieldName(fa)
			}
			if fa := core.LoadedField(v); fa != nil && core.Strip(fa.X) == recv {
				return core.FieldName(fa)
			}
			return ""
		}
		core.EachInstr(fn, func(i ssa.Instruction) {
			switch x := i.(type) {
			case *ssa.Store:
				if f := fieldOf(x.Addr); f != "" {
					out[f] = true
				}
			case *ssa.MapUpdate:
				if f := fieldOf(x.Map); f != "" {
					out[f] = true
				}
			case *ssa.Call:
				if b, ok := x.Call.Value.(*ssa.Builtin); ok && (b.Name() == "clear" || b.Name() == "delete") && len(x.Call.Args) > 0 {
					if f := fieldOf(x.Call.Args[0]); f != "" {
						out[f] = true
					}
				}
				// a method named Reset called on the field's value restores that field
				if fo := core.CalleeObj(x); fo != nil && fo.Name() == "Reset" && len(x.Call.Args) > 0 {
					if f := fieldOf(x.Call.Args[0]); f != "" {
						out[f] = true
					}
				}
			}
		})
		return out
	}
	var tns []*types.TypeName
	for tn, ti := range byType {
		if len(ti.resets) > 0 {
			tns = append(tns, tn)
		}
	}
	sort.Slice(tns, func(i, j int) bool { return tns[i].Name() < tns[j].Name() })
	n := 0
	seenFn := map[string]bool{}
	for _, tn := range tns {
		ti := byType[tn]
		changed := map[string]string{}
		for _, o := range ti.others {
			if strings.HasPrefix(o.Name(), "New") {
				continue
			}
			for f := range writes(o) {
				if changed[f] == "" {
					changed[f] = o.Name()
				}
			}
		}
		for _, r := range ti.resets {
			key := "reset=" + core.FuncName(r)
			if r.Origin() != nil {
				key = "reset=" + core.FuncName(r.Origin())
			}
			if seenFn[key] {
				continue
			}
			seenFn[key] = true
			n++
			w := writes(r)
			var missing []string
			for f, by := range changed {
				if !w[f] {
					missing = append(missing, fmt.Sprintf("%s (written by %s)", f, by))
				}
			}
			sort.Strings(missing)
			c.Check(len(missing) == 0, key, p.Pos(r.Pos()), core.FuncName(r), "Reset restores every field the type's other methods write",
				fmt.Sprintf("%s.%s does not restore %s: a store recycled for the next batch starts from the state the previous batch left — delta-encoded ids are resolved against a stale running sum, so attributes are attached to the wrong entity or lost from the second batch on", tn.Name(), r.Name(), strings.Join(missing, ", ")))
		}
	}
	c.Stats["RT.41 Reset methods of decoder-side stores"] = n
}

const rt41Canary = `package c

// Store is a decoder-side store with a running sum.
type Store struct {
	byID   map[uint16]string
	lastID uint16
}

func (s *Store) Put(id uint16, v string) { s.byID[id] = v }

func (s *Store) ByDeltaID(d uint16) string {
	s.lastID += d
	return s.byID[s.lastID]
}

// GoodReset restores both fields.
func (s *Store) GoodReset() {
	clear(s.byID)
	s.lastID = 0
}

// BadReset keeps the running sum.
func (s *Store) BadReset() {
	clear(s.byID)
}
`

func init() {
	for _, prop := range []string{"C01", "C02", "C03"} {
		register(prop, &core.Rule{ID: "RT.41", Title: "a Reset of a decoder-side store restores every field its other methods write", Mod: core.ModRoot, Floor: 0, Run: rt_41, Canary: rt41Canary})
	}
}
