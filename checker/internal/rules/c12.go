package rules

import (
	"fmt"
	"go/constant"
	"go/token"
	"go/types"
	"sort"
	"strings"

	"golang.org/x/tools/go/ssa"

	"otelcheck/internal/core"
)

func init() {
	core.Describe("C12",
		"Static necessary conditions of 'every emitted BatchArrowRecords is a well-framed continuation of its stream', decided on the producer's code for all paths: "+
			"C12.1 the batch id has one writer, starts at the literal 0, is read and then incremented exactly once on every success path of Produce; "+
			"C12.2 the slice handed to Produce has at index 0 a message built by the main-message constructor of that signal; "+
			"C12.3 the payload-type table has pairwise distinct, non-empty prefixes and pairwise distinct payload types; a related message's schema key is the prefix of its own payload type + the builder's schema id, and carries that payload type; "+
			"C12.4 a related builder is built only on the false arm of IsEmpty() of the same builder; "+
			"C12.5 the next-schema-id counter has one writer (++ on the new-entry path only); a new stream producer takes its id from it and its payload type from the message; on the new-entry path the stream producers of the same payload type are closed and deleted first; "+
			"C12.6 one ipc.NewWriter per stream producer with WithSchema(record schema); on the success path Write → Bytes → copy into a fresh slice → Reset, and the payload's Record never aliases the reusable buffer; "+
			"C12.7 within one related-data constructor no payload type is declared twice; "+
			"C12.8 every field of the stream-producer / record-message structs that is read is written at construction. "+
			"NOT decided: that the bytes arrow-go writes form a valid IPC stream.",
		"ipc.Writer emits the schema message on its first Write", "bytes.Buffer.Bytes aliases the buffer until the next write")
	for _, r := range []*core.Rule{
		{ID: "C12.1", Title: "batch id: single writer, starts at 0, +1 per emitted batch", Mod: core.ModRoot, Floor: 3, Run: c12_1},
		{ID: "C12.2", Title: "main record message is first", Mod: core.ModRoot, Floor: 3, Run: c12_2},
		{ID: "C12.3", Title: "payload-type table: distinct prefixes and types; related schema keys", Mod: core.ModRoot, Floor: 4, Run: c12_3},
		{ID: "C12.4", Title: "empty related builders are skipped", Mod: core.ModRoot, Floor: 1, Run: c12_4},
		{ID: "C12.5", Title: "schema ids: single counter, new entry closes same-type writers first", Mod: core.ModRoot, Floor: 5, Run: c12_5},
		{ID: "C12.6", Title: "IPC writer per stream; payload bytes are a fresh copy", Mod: core.ModRoot, Floor: 4, Run: c12_6},
		{ID: "C12.7", Title: "no payload type declared twice per signal", Mod: core.ModRoot, Floor: 3, Run: c12_7},
		{ID: "C12.8", Title: "stream bookkeeping fields are written before they are read", Mod: core.ModRoot, Floor: 5, Run: c12_8},
	} {
		register("C12", r)
	}
	register("C04", &core.Rule{ID: "C04.15", Title: "payload bytes are a fresh copy: whatever the options, a batch that is still held when the next one is produced keeps its bytes", Mod: core.ModRoot, Floor: 4, Run: c12_6})
	register("C01", &core.Rule{ID: "C01.6", Title: "payload bytes are a fresh copy (a later batch cannot clobber an earlier one)", Mod: core.ModRoot, Floor: 4, Run: c12_6})
	register("C02", &core.Rule{ID: "C02.6", Title: "payload bytes are a fresh copy (a later batch cannot clobber an earlier one)", Mod: core.ModRoot, Floor: 4, Run: c12_6})
	register("C03", &core.Rule{ID: "C03.6", Title: "payload bytes are a fresh copy (a later batch cannot clobber an earlier one)", Mod: core.ModRoot, Floor: 4, Run: c12_6})
}

type prodAnchors struct {
	p         *core.Prog
	producer  *types.Named
	sp        *types.Named // streamProducer
	produce   *ssa.Function
	produceIn *ssa.Function // the per-message closure
	batchF    *types.Var
	nextF     *types.Var
	mapF      *types.Var
	errs      []string
	// set when the batch id of the emitted message derives from a package-level variable instead of a producer field
	batchFromGlobal string
}

func newProdAnchors(p *core.Prog) *prodAnchors {
	a := &prodAnchors{p: p}
	pk := p.Pkg(pkgArrowRecord)
	if pk == nil {
		a.errs = append(a.errs, "arrow_record not loaded")
		return a
	}
	if tn, ok := pk.Types.Scope().Lookup("Producer").(*types.TypeName); ok {
		a.producer, _ = tn.Type().(*types.Named)
	}
	if a.producer == nil {
		a.errs = append(a.errs, "Producer type not found")
		return a
	}
	a.produce = p.Func(pkgArrowRecord, "Producer", "Produce")
	if a.produce == nil {
		a.errs = append(a.errs, "Producer.Produce not found")
		return a
	}
	st := a.producer.Underlying().(*types.Struct)
	for i := 0; i < st.NumFields(); i++ {
		f := st.Field(i)
		if m, ok := f.Type().Underlying().(*types.Map); ok {
			if n := core.NamedOf(m.Elem()); n != nil && n.Obj().Pkg() != nil && n.Obj().Pkg().Path() == pkgArrowRecord {
				a.mapF, a.sp = f, n
			}
		}
	}
	// batch id: the int64 field that flows into the BatchId of the returned message
	for _, fn := range core.WithClosures(a.produce) {
		core.EachInstr(fn, func(i ssa.Instruction) {
			s, ok := i.(*ssa.Store)
			if !ok {
				return
			}
			fa, ok := s.Addr.(*ssa.FieldAddr)
			if !ok {
				return
			}
			if core.FieldName(fa) == "BatchId" {
				core.BackSlice(s.Val, func(v ssa.Value) bool {
					if g, ok := v.(*ssa.Global); ok && a.batchFromGlobal == "" {
						a.batchFromGlobal = g.Name()
					}
					if f2 := core.LoadedField(v); f2 != nil && core.NamedOf(f2.X.Type()) == a.producer {
						a.batchF = core.FieldVar(f2)
						return false
					}
					return true
				})
			}
		})
		// the per-message function: the one that writes to an IPC writer
		core.EachCall(fn, func(ci ssa.CallInstruction) {
			if core.IsMethodOf(core.CalleeObj(ci), arrowIPC, "Writer", "Write") {
				a.produceIn = fn
			}
		})
	}
	// next schema id: the other 64-bit counter of the producer that is incremented somewhere in the package
	for _, fn := range p.FuncsIn(func(pp string) bool { return pp == pkgArrowRecord }) {
		core.EachInstr(fn, func(i ssa.Instruction) {
			s, ok := i.(*ssa.Store)
			if !ok {
				return
			}
			fa, ok := s.Addr.(*ssa.FieldAddr)
			if !ok || core.NamedOf(fa.X.Type()) != a.producer || core.FieldVar(fa) == a.batchF {
				return
			}
			if b, ok := s.Val.(*ssa.BinOp); ok && b.Op == token.ADD && isFieldLoad(b.X, core.FieldVar(fa)) {
				if bt, _ := intBits(core.FieldVar(fa).Type()); bt == 64 {
					a.nextF = core.FieldVar(fa)
				}
			}
		})
	}
	// semantic resolution (preferred): the integer field from which the schema id stored into a new
	// stream producer derives — whichever struct it lives in
	if a.sp != nil {
		for _, fn := range p.FuncsIn(func(pp string) bool { return pp == pkgArrowRecord }) {
			core.EachInstr(fn, func(i ssa.Instruction) {
				al, ok := i.(*ssa.Alloc)
				if !ok || !al.Heap {
					return
				}
				if n, _ := al.Type().(*types.Pointer).Elem().(*types.Named); n != a.sp {
					return
				}
				for _, r := range core.Referrers(al) {
					fa, ok := r.(*ssa.FieldAddr)
					if !ok {
						continue
					}
					if b, ok := core.FieldVar(fa).Type().Underlying().(*types.Basic); !ok || b.Kind() != types.String {
						continue
					}
					for _, r2 := range core.Referrers(fa) {
						st, ok := r2.(*ssa.Store)
						if !ok || st.Addr != ssa.Value(fa) {
							continue
						}
						core.BackSlice(st.Val, func(v ssa.Value) bool {
							if f2 := core.LoadedField(v); f2 != nil {
								if bits, _ := intBits(core.FieldVar(f2).Type()); bits > 0 {
									a.nextF = core.FieldVar(f2)
									return false
								}
							}
							return true
						})
					}
				}
			})
		}
	}
	for k, ok := range map[string]bool{"stream-producer map": a.mapF != nil, "batch id field": a.batchF != nil, "next schema id field": a.nextF != nil, "per-message closure": a.produceIn != nil} {
		if !ok {
			a.errs = append(a.errs, k+" not resolved")
		}
	}
	sort.Strings(a.errs)
	return a
}

func (a *prodAnchors) ok(c *core.Ctx) bool {
	if a.batchF == nil && a.batchFromGlobal != "" && a.produce != nil {
		c.Viol("batch-id|source", a.p.Pos(a.produce.Pos()), core.FuncName(a.produce), "the batch id of the emitted message comes from the package-level variable "+a.batchFromGlobal+", not from a field of the producer: with two producers in one process the ids of each have gaps and a producer created later does not start at zero")
		return false
	}
	if len(a.errs) > 0 {
		c.Undecided("anchors", "?", "", "cannot resolve producer anchors: "+strings.Join(a.errs, "; "))
		return false
	}
	return true
}

func arrowRecordFuncs(p *core.Prog) []*ssa.Function {
	return p.FuncsIn(func(pp string) bool { return pp == pkgArrowRecord })
}

func c12_1(c *core.Ctx, p *core.Prog) {
	a := newProdAnchors(p)
	if !a.ok(c) {
		return
	}
	// writers of the batch id field
	var writers []string
	var incStore *ssa.Store
	for _, fn := range arrowRecordFuncs(p) {
		core.EachInstr(fn, func(i ssa.Instruction) {
			s, ok := storesTo(i, a.batchF)
			if !ok {
				return
			}
			if _, isLit := s.Addr.(*ssa.FieldAddr).X.(*ssa.Alloc); isLit {
				// constructor literal: must be the constant 0
				k, isC := core.ConstInt(s.Val)
				c.Check(isC && k == 0, "init@"+core.FuncName(fn), p.Pos(s.Pos()), core.FuncName(fn), "batch ids start at the literal 0", "the batch id is not initialised to the literal 0")
				return
			}
			writers = append(writers, core.FuncName(fn)+"@"+p.Pos(s.Pos()))
			if fn == a.produce {
				incStore = s
			}
		})
	}
	// every batch message of the package is made by Produce (where the id is taken and advanced): a short-cut
	// that builds its own message ("nothing to encode") emits an id twice and a batch without a main record
	var strays []string
	for _, fn := range arrowRecordFuncs(p) {
		if fn == a.produce || fn.Parent() == a.produce {
			continue
		}
		core.EachInstr(fn, func(i ssa.Instruction) {
			al, ok := i.(*ssa.Alloc)
			if !ok || core.TypeName(al.Type()) != "BatchArrowRecords" {
				return
			}
			// only messages the producer side hands out: the function returns it
			returned := false
			for _, r := range core.Returns(fn) {
				for _, res := range r.Results {
					if core.DerivesFrom(res, func(v ssa.Value) bool { return v == ssa.Value(al) }) {
						returned = true
					}
				}
			}
			if returned && fn.Signature.Recv() != nil && core.NamedOf(fn.Signature.Recv().Type()) == a.producer {
				strays = append(strays, core.FuncName(fn)+"@"+p.Pos(al.Pos()))
			}
		})
	}
	sort.Strings(strays)
	c.Check(len(strays) == 0, "single-maker", p.Pos(a.produce.Pos()), core.FuncName(a.produce), "every BatchArrowRecords the producer returns is made by Produce", fmt.Sprintf("the producer returns a BatchArrowRecords that was not made by Produce (%v): its batch id is not advanced (the next batch repeats it) and it carries no main record", strays))
	okW := len(writers) == 1 && incStore != nil
	c.Check(okW, "single-writer", p.Pos(a.produce.Pos()), core.FuncName(a.produce), "the batch id is written only by Produce", fmt.Sprintf("the batch id has writers other than the single increment in Produce: %v", writers))
	if incStore == nil {
		return
	}
	b, ok := incStore.Val.(*ssa.BinOp)
	k, isC := int64(0), false
	if ok {
		k, isC = core.ConstInt(b.Y)
	}
	okInc := ok && b.Op == token.ADD && isC && k == 1 && isFieldLoad(b.X, a.batchF)
	// exactly once on every success path; the value sent is the pre-increment load
	isInc := func(i ssa.Instruction) bool { return i == ssa.Instruction(incStore) }
	var msgs []string
	if !okInc {
		msgs = append(msgs, "the batch id is not advanced by exactly 1")
	}
	// an id is consumed only by an emitted batch: no error return is reachable after the increment
	for _, r := range core.Returns(a.produce) {
		if len(r.Results) == 2 && !core.IsNilConst(r.Results[1]) && incStore != nil && core.Reachable(a.produce, incStore, r) {
			msgs = append(msgs, fmt.Sprintf("%s: an error return is reachable after the batch id was advanced: a request that fails inside Produce consumes an id although nothing is emitted, so the ids of the emitted batches skip a number", p.Pos(r.Pos())))
			break
		}
	}
	for r, k := range countOnPaths(a.produce, isInc) {
		if len(r.Results) == 2 && core.IsNilConst(r.Results[1]) {
			if k.min != 1 || k.max != 1 {
				msgs = append(msgs, fmt.Sprintf("%s: a success return passes the increment between %d and %d times", p.Pos(r.Pos()), k.min, k.max))
			}
			// the BatchId stored in the returned message is loaded before the increment
			core.BackSlice(r.Results[0], func(v ssa.Value) bool {
				al, ok := v.(*ssa.Alloc)
				if !ok {
					return true
				}
				for _, ref := range core.Referrers(al) {
					fa, ok := ref.(*ssa.FieldAddr)
					if !ok || core.FieldName(fa) != "BatchId" {
						continue
					}
					for _, r2 := range core.Referrers(fa) {
						if s, ok := r2.(*ssa.Store); ok && s.Addr == ssa.Value(fa) {
							ld := core.LoadedField(core.StripConv(s.Val))
							if ld == nil || core.FieldVar(ld) != a.batchF {
								msgs = append(msgs, "the emitted BatchId is not the producer's batch counter")
							} else if core.Reachable(a.produce, incStore, core.StripConv(s.Val).(ssa.Instruction)) {
								msgs = append(msgs, "the emitted BatchId is read after the increment (ids would start at 1)")
							}
						}
					}
				}
				return false
			})
		}
	}
	c.Check(len(msgs) == 0, "increment", p.Pos(incStore.Pos()), core.FuncName(a.produce), "read, then +1, exactly once on every success path", strings.Join(msgs, "; "))
}

// mainPayloadOf maps the pdata entity type name to the protobuf payload constant name.
var mainPayloadOf = map[string]string{"Traces": "ArrowPayloadType_SPANS", "Logs": "ArrowPayloadType_LOGS", "Metrics": "ArrowPayloadType_UNIVARIATE_METRICS"}

func payloadConstName(p *core.Prog, v int64) string {
	pk := p.Pkg(core.RepoPath + "/api/experimental/arrow/v1")
	if pk == nil {
		return fmt.Sprint(v)
	}
	for _, name := range pk.Types.Scope().Names() {
		if cst, ok := pk.Types.Scope().Lookup(name).(*types.Const); ok && core.TypeName(cst.Type()) == "ArrowPayloadType" {
			if k, ok := constantInt(cst); ok && k == v {
				return name
			}
		}
	}
	return fmt.Sprint(v)
}

func c12_2(c *core.Ctx, p *core.Prog) {
	a := newProdAnchors(p)
	if !a.ok(c) {
		return
	}
	n := 0
	for _, fn := range arrowRecordFuncs(p) {
		if fn.Parent() != nil || fn.Signature.Recv() == nil || core.NamedOf(fn.Signature.Recv().Type()) != a.producer || fn.Signature.Params().Len() != 1 {
			continue
		}
		ent := fn.Signature.Params().At(0).Type()
		want, ok := mainPayloadOf[core.TypeName(ent)]
		if !ok || !isPdataType(ent) {
			continue
		}
		// the entry point may hand its work to a (generic) helper that calls Produce: one call site per instantiation
		callsProduce := func(f *ssa.Function) bool {
			found := false
			core.EachCall(f, func(ci ssa.CallInstruction) {
				if ci.Common().StaticCallee() == a.produce {
					found = true
				}
			})
			return found
		}
		body := fn
		if d := delegateOf(p, fn, callsProduce); d != nil {
			body = d
		}
		var call *ssa.Call
		core.EachInstr(body, func(i ssa.Instruction) {
			if cl, ok := i.(*ssa.Call); ok && cl.Call.StaticCallee() == a.produce {
				call = cl
			}
		})
		if call == nil {
			continue
		}
		n++
		key := "fn=" + core.FuncName(fn)
		pos := p.Pos(call.Pos())
		arg := core.CallArgs(call)[0]
		// accepted idiom: append([]T{main}, rest...)
		var first ssa.Value
		if ap, ok := arg.(*ssa.Call); ok {
			if b, ok := ap.Call.Value.(*ssa.Builtin); ok && b.Name() == "append" {
				if sl, ok := ap.Call.Args[0].(*ssa.Slice); ok {
					if al, ok := sl.X.(*ssa.Alloc); ok {
						for _, r := range core.Referrers(al) {
							if ia, ok := r.(*ssa.IndexAddr); ok {
								if k, isC := core.ConstInt(ia.Index); isC && k == 0 {
									for _, r2 := range core.Referrers(ia) {
										if s, ok := r2.(*ssa.Store); ok && s.Addr == ssa.Value(ia) {
											first = s.Val
										}
									}
								}
							}
						}
					}
				}
			}
		}
		if first == nil {
			c.Undecided(key, pos, core.FuncName(fn), "construction of the message list not recognised (expected append([]T{main}, related...))")
			continue
		}
		mk, ok := first.(*ssa.Call)
		if !ok || core.StaticCallee(mk) == nil || core.FnPkgPath(core.StaticCallee(mk)) != pkgRecordMsg {
			c.Viol(key, pos, core.FuncName(fn), "the first message handed to Produce is not built by a record_message constructor")
			continue
		}
		// the constructor's payload type constant (the constructor may reach a shared helper as a function value)
		got := ""
		core.EachInstr(core.StaticCallee(mk), func(i ssa.Instruction) {
			if s, ok := i.(*ssa.Store); ok {
				if fa, ok := s.Addr.(*ssa.FieldAddr); ok && core.TypeName(core.FieldVar(fa).Type()) == "ArrowPayloadType" {
					if k, isC := core.ConstInt(s.Val); isC {
						got = payloadConstName(p, k)
					}
				}
			}
		})
		c.Check(got == want, key, pos, core.FuncName(fn), "the first payload is the "+want+" main record",
			fmt.Sprintf("the first message handed to Produce is built by %s, whose payload type is %s, not the main type %s of this signal: consumers take the first payload as the main record", core.StaticCallee(mk).Name(), got, want))
	}
	if n < 3 {
		c.Undecided("count", "?", "", fmt.Sprintf("expected 3 BatchArrowRecordsFrom* functions calling Produce, found %d", n))
	}
}

type ptEntry struct {
	field  string
	prefix string
	ptype  int64
	pos    token.Pos
}

// payloadTable reads the package-level PayloadTypes literal from the init function of common/arrow.
func payloadTable(p *core.Prog) []ptEntry {
	sp := p.SSAPkg(pkgCommonArrow)
	if sp == nil {
		return nil
	}
	initFn := sp.Func("init")
	if initFn == nil {
		return nil
	}
	byAlloc := map[*ssa.Alloc]*ptEntry{}
	var order []*ssa.Alloc
	core.EachInstr(initFn, func(i ssa.Instruction) {
		s, ok := i.(*ssa.Store)
		if !ok {
			return
		}
		fa, ok := s.Addr.(*ssa.FieldAddr)
		if !ok {
			return
		}
		if al, ok := fa.X.(*ssa.Alloc); ok && core.TypeName(al.Type()) == "PayloadType" {
			e := byAlloc[al]
			if e == nil {
				e = &ptEntry{ptype: -1, pos: al.Pos()}
				byAlloc[al] = e
				order = append(order, al)
			}
			if cst, ok := s.Val.(*ssa.Const); ok && cst.Value != nil {
				if cst.Value.Kind() == constant.String {
					e.prefix = constant.StringVal(cst.Value)
				} else if k, isC := core.ConstInt(s.Val); isC {
					e.ptype = k
				}
			}
			return
		}
		// the store of the alloc into the table struct: field name
		if al, ok := s.Val.(*ssa.Alloc); ok && byAlloc[al] != nil {
			byAlloc[al].field = core.FieldName(fa)
		}
	})
	var out []ptEntry
	for _, al := range order {
		e := byAlloc[al]
		if e.ptype == -1 {
			e.ptype = 0 // zero value when the literal omits it
		}
		out = append(out, *e)
	}
	return out
}

func c12_3(c *core.Ctx, p *core.Prog) {
	tab := payloadTable(p)
	if len(tab) < 20 {
		c.Undecided("table", "?", "", fmt.Sprintf("payload-type table not recognised (%d entries)", len(tab)))
		return
	}
	c.Stats["payload_table_entries"] = len(tab)
	byPrefix, byType := map[string][]string{}, map[int64][]string{}
	for _, e := range tab {
		byPrefix[e.prefix] = append(byPrefix[e.prefix], e.field)
		byType[e.ptype] = append(byType[e.ptype], e.field)
	}
	var bad []string
	for pre, fs := range byPrefix {
		if pre == "" {
			bad = append(bad, fmt.Sprintf("empty prefix for %v", fs))
		} else if len(fs) > 1 {
			sort.Strings(fs)
			bad = append(bad, fmt.Sprintf("prefix %q shared by %v", pre, fs))
		}
	}
	sort.Strings(bad)
	pos := p.Pos(tab[0].pos)
	c.Check(len(bad) == 0, "prefixes", pos, "PayloadTypes", fmt.Sprintf("%d pairwise distinct, non-empty prefixes", len(byPrefix)),
		"payload-type table: "+strings.Join(bad, "; ")+" — two payload types with the same Arrow schema share one schema key, hence one stream producer, IPC writer and schema id")
	bad = nil
	for t, fs := range byType {
		if len(fs) > 1 {
			sort.Strings(fs)
			bad = append(bad, fmt.Sprintf("payload type %s shared by %v", payloadConstName(p, t), fs))
		}
		if t == 0 {
			bad = append(bad, fmt.Sprintf("payload type UNKNOWN for %v", fs))
		}
	}
	sort.Strings(bad)
	c.Check(len(bad) == 0, "types", pos, "PayloadTypes", fmt.Sprintf("%d pairwise distinct payload types", len(byType)), "payload-type table: "+strings.Join(bad, "; ")+" — a payload type would appear twice in a batch or be undecodable")
	// accessors return their own field
	for _, acc := range []struct{ name, want string }{{"SchemaPrefix", "string"}, {"PayloadType", "enum"}} {
		fn := p.Func(pkgCommonArrow, "PayloadType", acc.name)
		if fn == nil {
			c.Undecided("accessor="+acc.name, "?", "", "accessor not found")
			continue
		}
		ok := true
		for _, r := range core.Returns(fn) {
			fa := core.LoadedField(r.Results[0])
			if fa == nil || fa.X != ssa.Value(fn.Params[0]) {
				ok = false
				continue
			}
			isStr := false
			if b, okb := core.FieldVar(fa).Type().Underlying().(*types.Basic); okb && b.Kind() == types.String {
				isStr = true
			}
			if (acc.want == "string") != isStr {
				ok = false
			}
		}
		c.Check(ok, "accessor="+acc.name, p.Pos(fn.Pos()), core.FuncName(fn), "returns the entry's own field", acc.name+" does not return the entry's own field")
	}
	// related schema key: prefix of the builder's own payload type + ":" + its own schema id; message carries its payload type
	fn := p.Func(pkgCommonArrow, "RelatedRecordsManager", "BuildRecordMessages")
	if fn == nil {
		c.Undecided("schema-key", "?", "", "BuildRecordMessages not found")
		return
	}
	var mk *ssa.Call
	core.EachInstr(fn, func(i ssa.Instruction) {
		if cl, ok := i.(*ssa.Call); ok && cl.Call.StaticCallee() != nil && core.FnPkgPath(cl.Call.StaticCallee()) == pkgRecordMsg {
			mk = cl
		}
	})
	if mk == nil {
		c.Undecided("schema-key", p.Pos(fn.Pos()), core.FuncName(fn), "no record_message constructor call")
		return
	}
	// which invokes on which receiver feed each argument
	recvOf := func(v ssa.Value, method string) ssa.Value {
		var res ssa.Value
		core.BackSlice(v, func(x ssa.Value) bool {
			if cl, ok := x.(*ssa.Call); ok && cl.Call.IsInvoke() && cl.Call.Method.Name() == method {
				res = cl.Call.Value
				return false
			}
			return true
		})
		return res
	}
	var msgs []string
	keyArg, typeArg := mk.Call.Args[0], mk.Call.Args[len(mk.Call.Args)-1]
	b1, b2, b3 := recvOf(keyArg, "PayloadType"), recvOf(keyArg, "SchemaID"), recvOf(typeArg, "PayloadType")
	if b1 == nil || b2 == nil || b3 == nil {
		msgs = append(msgs, "schema key / payload type are not taken from the builder's PayloadType() and SchemaID()")
	} else if b1 != b2 || b1 != b3 {
		msgs = append(msgs, "schema key and payload type are taken from different builders")
	}
	// the schema id is read after the builder was built (building is where a related record's schema evolves)
	var buildCall, sidCall *ssa.Call
	core.EachInstr(fn, func(i ssa.Instruction) {
		if cl, ok := i.(*ssa.Call); ok && cl.Call.IsInvoke() {
			switch cl.Call.Method.Name() {
			case "Build":
				buildCall = cl
			case "SchemaID":
				sidCall = cl
			}
		}
	})
	if buildCall != nil && sidCall != nil {
		before := false
		if buildCall.Block() == sidCall.Block() {
			before = core.InstrIndex(sidCall) < core.InstrIndex(buildCall)
		} else {
			before = !core.MustPassBetween(fn, nil, sidCall, func(i ssa.Instruction) bool { return i == ssa.Instruction(buildCall) })
		}
		if before {
			msgs = append(msgs, "the builder's schema id is read before Build(): Build is where the related record's schema evolves, so the message carries the pre-evolution id and the new-schema record is written to the old sub-stream's IPC writer")
		}
	}
	usesPrefix, usesColon := false, false
	core.BackSlice(keyArg, func(x ssa.Value) bool {
		if cl, ok := x.(*ssa.Call); ok && cl.Call.StaticCallee() != nil && cl.Call.StaticCallee().Name() == "SchemaPrefix" {
			usesPrefix = true
		}
		if cst, ok := x.(*ssa.Const); ok && cst.Value != nil && cst.Value.Kind() == constant.String && constant.StringVal(cst.Value) != "" {
			usesColon = true
		}
		return true
	})
	if !usesPrefix || !usesColon {
		msgs = append(msgs, "the schema key of a related message is not <prefix> + separator + <schema id>")
	}
	c.Check(len(msgs) == 0, "schema-key", p.Pos(mk.Pos()), core.FuncName(fn), "related schema key = own prefix + ':' + own schema id; message carries its own payload type", strings.Join(msgs, "; "))
}

func c12_4(c *core.Ctx, p *core.Prog) {
	fn := p.Func(pkgCommonArrow, "RelatedRecordsManager", "BuildRecordMessages")
	if fn == nil {
		c.Undecided("build", "?", "", "BuildRecordMessages not found")
		return
	}
	n := 0
	core.EachInstr(fn, func(i ssa.Instruction) {
		cl, ok := i.(*ssa.Call)
		if !ok || !cl.Call.IsInvoke() || cl.Call.Method.Name() != "Build" {
			return
		}
		n++
		guarded := false
		for _, b := range fn.Blocks {
			iff := core.IfOf(b)
			if iff == nil {
				continue
			}
			ce, ok := iff.Cond.(*ssa.Call)
			if ok && ce.Call.IsInvoke() && ce.Call.Method.Name() == "IsEmpty" && ce.Call.Value == cl.Call.Value && core.GuardedBy(iff, false, cl) {
				guarded = true
			}
		}
		c.Check(guarded, fmt.Sprintf("build#%d", n), p.Pos(cl.Pos()), core.FuncName(fn), "Build() only on the false arm of IsEmpty() of the same builder",
			"a related builder is built without the IsEmpty() test of that same builder: empty related payloads would be emitted")
	})
	if n == 0 {
		c.Undecided("build", p.Pos(fn.Pos()), core.FuncName(fn), "no Build() call")
	}
}

func c12_5(c *core.Ctx, p *core.Prog) {
	a := newProdAnchors(p)
	if !a.ok(c) {
		return
	}
	// single writer of the counter
	var writers []string
	var inc *ssa.Store
	for _, f := range rootFuncs(c, p) {
		core.EachInstr(f, func(i ssa.Instruction) {
			if s, ok := storesTo(i, a.nextF); ok {
				if _, isLit := s.Addr.(*ssa.FieldAddr).X.(*ssa.Alloc); isLit {
					return
				}
				writers = append(writers, p.Pos(s.Pos()))
				if core.FnPkgPath(f) == pkgArrowRecord || inc == nil {
					inc = s
				}
			}
		})
	}
	sort.Strings(writers)
	c.Check(len(writers) == 1 && inc != nil, "counter|single-writer", p.Pos(a.produce.Pos()), core.FuncName(a.produce), "the schema-id counter has one writer", fmt.Sprintf("the counter the schema ids are taken from (%s) is written at %v: a second writer (e.g. a statistics reset) makes the numbering start again, so a later sub-stream gets the id of a live or retired one", a.nextF.Name(), writers))
	// width: ids are never reused only as long as the counter cannot wrap within the life of a producer — a
	// shared attribute sub-stream that flips between two schemas burns one id per batch
	bits, _ := intBits(a.nextF.Type())
	c.Check(bits == 64, "counter|width", p.Pos(a.nextF.Pos()), core.FuncName(a.produce), "the schema-id counter is 64 bits wide",
		fmt.Sprintf("the counter the schema ids are taken from (%s) is %d bits wide: after 2^%d stream producers it wraps and hands out the id of a live (or retired) sub-stream again — one id then denotes two payload types and schemas", a.nextF.Name(), bits, bits))
	// the construction of a new stream producer (in the per-message function or a helper)
	var al *ssa.Alloc
	for _, f := range arrowRecordFuncs(p) {
		core.EachInstr(f, func(i ssa.Instruction) {
			if x, ok := i.(*ssa.Alloc); ok && x.Heap {
				if n, _ := x.Type().(*types.Pointer).Elem().(*types.Named); n == a.sp {
					al = x
				}
			}
		})
	}
	if al == nil || inc == nil {
		c.Undecided("new-entry", p.Pos(a.produce.Pos()), core.FuncName(a.produce), "construction of a new stream producer not found")
		return
	}
	ctor := al.Parent()
	pos := p.Pos(al.Pos())
	okInc, okOnly := false, false
	if inc.Parent() == ctor {
		isInc := func(i ssa.Instruction) bool { return i == ssa.Instruction(inc) }
		isAl := func(i ssa.Instruction) bool { return i == ssa.Instruction(al) }
		okInc = core.MustPassBetween(ctor, al, nil, isInc) || core.MustPassBetween(ctor, nil, al, isInc)
		okOnly = core.MustPassBetween(ctor, nil, inc, isAl) || core.MustPassBetween(ctor, inc, nil, isAl)
	}
	if b, ok := inc.Val.(*ssa.BinOp); !ok || b.Op != token.ADD || !isFieldLoad(b.X, a.nextF) {
		okInc = false
	} else if k, isC := core.ConstInt(b.Y); !isC || k != 1 {
		okInc = false
	}
	c.Check(okInc && okOnly, "counter|new-entry-only", p.Pos(inc.Pos()), core.FuncName(ctor), "the counter advances by 1 exactly when a new stream producer is created", "the schema-id counter does not advance by 1 exactly once per new stream producer: two sub-streams can get the same schema id")
	// fields
	var idFrom ssa.Value
	for _, r := range core.Referrers(al) {
		fa, ok := r.(*ssa.FieldAddr)
		if !ok {
			continue
		}
		for _, r2 := range core.Referrers(fa) {
			s, ok := r2.(*ssa.Store)
			if !ok || s.Addr != ssa.Value(fa) {
				continue
			}
			if b, ok := core.FieldVar(fa).Type().Underlying().(*types.Basic); ok && b.Kind() == types.String {
				idFrom = s.Val
			}
		}
	}
	okID := idFrom != nil && core.DerivesFrom(idFrom, func(v ssa.Value) bool { return isFieldLoad(v, a.nextF) })
	c.Check(okID, "new-entry|id", pos, core.FuncName(ctor), "the new stream producer's schema id derives from the counter", "the schema id of a new stream producer does not derive from the schema-id counter")
	// the id announced on the wire is that id: every ArrowPayload literal takes its SchemaId from the
	// string field of a stream producer (the one the counter-derived id was stored in), nothing else
	{
		var idF *types.Var
		st0 := a.sp.Underlying().(*types.Struct)
		for k := 0; k < st0.NumFields(); k++ {
			if b, ok := st0.Field(k).Type().Underlying().(*types.Basic); ok && b.Kind() == types.String {
				idF = st0.Field(k)
			}
		}
		nLit := 0
		for _, f := range arrowRecordFuncs(p) {
			core.EachInstr(f, func(i ssa.Instruction) {
				s, ok := i.(*ssa.Store)
				if !ok {
					return
				}
				fa, ok := s.Addr.(*ssa.FieldAddr)
				if !ok || core.FieldName(fa) != "SchemaId" || core.TypeName(fa.X.Type()) != "ArrowPayload" {
					return
				}
				nLit++
				okW := idF != nil && isFieldLoad(core.Strip(s.Val), idF)
				c.Check(okW, fmt.Sprintf("payload|schema-id#%d", nLit), p.Pos(s.Pos()), core.FuncName(f),
					"the payload announces the schema id of the stream producer that wrote it",
					"the SchemaId of the payload is not the id kept by the stream producer (the number allocated when its IPC stream was opened): an id computed from the schema or the message comes back when a payload type returns to an earlier schema, so a retired id is reused for a new IPC stream")
			})
		}
		if nLit == 0 {
			c.Undecided("payload|schema-id", pos, core.FuncName(ctor), "no ArrowPayload literal with a SchemaId found")
		}
	}
	// payload type: some store to the stream producer's payload-type field takes the message's PayloadType()
	// (directly, or through a parameter of the constructing helper whose call sites pass it)
	var ptF *types.Var
	st := a.sp.Underlying().(*types.Struct)
	for k := 0; k < st.NumFields(); k++ {
		if tn := core.TypeName(st.Field(k).Type()); tn == "ArrowPayloadType" || tn == "PayloadType" {
			ptF = st.Field(k)
		}
	}
	fromMsg := func(v ssa.Value) bool {
		cl, ok := v.(*ssa.Call)
		return ok && core.CalleeObj(cl) != nil && core.CalleeObj(cl).Name() == "PayloadType" && len(cl.Call.Args) == 1 && core.TypePkgPath(cl.Call.Args[0].Type()) == pkgRecordMsg
	}
	okT := false
	if ptF != nil {
		for _, f := range arrowRecordFuncs(p) {
			core.EachInstr(f, func(i ssa.Instruction) {
				s, ok := storesTo(i, ptF)
				if !ok {
					return
				}
				if fromMsg(s.Val) {
					okT = true
				}
				if prm, ok := s.Val.(*ssa.Parameter); ok {
					idx := -1
					for k, q := range f.Params {
						if q == prm {
							idx = k
						}
					}
					all, n := true, 0
					for _, g := range arrowRecordFuncs(p) {
						core.EachCall(g, func(ci ssa.CallInstruction) {
							if ci.Common().StaticCallee() == f && idx >= 0 && idx < len(ci.Common().Args) {
								n++
								if !fromMsg(ci.Common().Args[idx]) {
									all = false
								}
							}
						})
					}
					if all && n > 0 {
						okT = true
					}
				}
			})
		}
	}
	c.Check(okT, "new-entry|payload-type", pos, core.FuncName(ctor), "the new stream producer records the message's payload type", "the new stream producer does not record the payload type of the message it is created for: the clean-up of same-type stream producers never matches, retired schema ids stay alive and are continued later without a schema message")
	// clean-up loop in the function that registers the new entry
	var pub *ssa.MapUpdate
	for _, f := range arrowRecordFuncs(p) {
		core.EachInstr(f, func(i ssa.Instruction) {
			if mu, ok := i.(*ssa.MapUpdate); ok && isFieldLoad(mu.Map, a.mapF) {
				pub = mu
			}
		})
	}
	if pub == nil {
		c.Viol("new-entry|cleanup", pos, core.FuncName(ctor), "a new stream producer is never registered in the producer's map")
		return
	}
	fn := pub.Parent()
	// the retiring loop may live in a helper of its own (`p.retireStreamProducers(payloadType)`): it is judged where
	// the delete is, and ordered against the registration in the function that calls both
	cleanFn := fn
	for _, f := range arrowRecordFuncs(p) {
		core.EachInstr(f, func(i ssa.Instruction) {
			if cl, ok := i.(*ssa.Call); ok {
				if b, ok := cl.Call.Value.(*ssa.Builtin); ok && b.Name() == "delete" && isFieldLoad(cl.Call.Args[0], a.mapF) && core.FuncName(f) != core.FuncName(fn) {
					// a delete outside the registering function: the retiring helper, unless it is the producer's Close
					hasCmp := false
					core.EachInstr(f, func(j ssa.Instruction) {
						if iff, ok := j.(*ssa.If); ok {
							if cmp, ok := iff.Cond.(*ssa.BinOp); ok && cmp.Op == token.EQL && (core.TypeName(cmp.X.Type()) == "ArrowPayloadType" || core.TypeName(cmp.X.Type()) == "PayloadType") {
								hasCmp = true
							}
						}
					})
					if hasCmp {
						cleanFn = f
					}
				}
			}
		})
	}
	// a value that is the message's payload type: the call itself, or a parameter of the helper that every call site
	// binds to it
	fromMsgOrParam := func(host *ssa.Function, v ssa.Value) bool {
		if fromMsg(v) {
			return true
		}
		prm, ok := v.(*ssa.Parameter)
		if !ok {
			return false
		}
		idx := -1
		for k, q := range host.Params {
			if q == prm {
				idx = k
			}
		}
		all, n := true, 0
		for _, g := range arrowRecordFuncs(p) {
			for _, g2 := range core.WithClosures(g) {
				core.EachCall(g2, func(ci ssa.CallInstruction) {
					if ci.Common().StaticCallee() == host && idx >= 0 && idx < len(ci.Common().Args) {
						n++
						if !fromMsg(ci.Common().Args[idx]) {
							all = false
						}
					}
				})
			}
		}
		return all && n > 0
	}
	var del, closeC *ssa.Call
	var cmpIf *ssa.If
	core.EachInstr(cleanFn, func(i ssa.Instruction) {
		cl, ok := i.(*ssa.Call)
		if ok {
			if b, ok := cl.Call.Value.(*ssa.Builtin); ok && b.Name() == "delete" && isFieldLoad(cl.Call.Args[0], a.mapF) {
				del = cl
			}
			if f := core.CalleeObj(cl); core.IsMethodOf(f, arrowIPC, "Writer", "Close") {
				closeC = cl
			} else if h := cl.Call.StaticCallee(); h != nil && h.Blocks != nil && h.Signature.Recv() != nil && core.NamedOf(h.Signature.Recv().Type()) == a.sp {
				// a method of the stream producer that closes its writer
				core.EachInstr(h, func(j ssa.Instruction) {
					if c2, ok := j.(*ssa.Call); ok && core.IsMethodOf(core.CalleeObj(c2), arrowIPC, "Writer", "Close") {
						closeC = cl
					}
				})
			}
		}
		if iff, ok := i.(*ssa.If); ok {
			if cmp, ok := iff.Cond.(*ssa.BinOp); ok && cmp.Op == token.EQL && (core.TypeName(cmp.X.Type()) == "ArrowPayloadType" || core.TypeName(cmp.X.Type()) == "PayloadType") {
				cmpIf = iff
			}
		}
	})
	var msgs []string
	if del == nil || closeC == nil || cmpIf == nil {
		msgs = append(msgs, "no loop that closes and deletes the stream producers of the same payload type")
	} else {
		if !core.GuardedBy(cmpIf, true, del) || !core.GuardedBy(cmpIf, true, closeC) {
			msgs = append(msgs, "Close/delete are not guarded by the payload-type comparison")
		}
		if !core.Reachable(cleanFn, closeC, del) {
			msgs = append(msgs, "the old writer is not closed before its entry is deleted")
		}
		cmp := cmpIf.Cond.(*ssa.BinOp)
		sideField, sideMsg := false, false
		for _, sd := range []ssa.Value{cmp.X, cmp.Y} {
			if fa := core.LoadedField(sd); fa != nil && core.FieldVar(fa) == ptF {
				sideField = true
			}
			if fromMsgOrParam(cleanFn, sd) {
				sideMsg = true
			}
		}
		if !sideField || !sideMsg {
			msgs = append(msgs, "the comparison is not between a registered stream producer's payload type and the message's payload type")
		}
		if cleanFn == fn {
			if !core.Reachable(fn, cmpIf, pub) || core.Reachable(fn, pub, cmpIf) {
				msgs = append(msgs, "the clean-up does not run before the new stream producer is registered")
			}
		} else {
			// both in helpers: in the function that calls the two, the retiring call comes first and, between it and the
			// registering call, only its own failure leaves
			ordered := false
			for _, g := range arrowRecordFuncs(p) {
				for _, host := range core.WithClosures(g) {
					var callClean, callPub ssa.Instruction
					core.EachCall(host, func(ci ssa.CallInstruction) {
						switch ci.Common().StaticCallee() {
						case cleanFn:
							callClean = ci
						case fn:
							callPub = ci
						}
					})
					if fn == host {
						callPub = pub
					}
					if callClean != nil && callPub != nil && core.Reachable(host, callClean, callPub) && !core.Reachable(host, callPub, callClean) {
						skip, _ := (core.PathQuery{Fn: host, To: callPub, Avoid: func(i ssa.Instruction) bool { return i == callClean }}).Exists()
						if !skip {
							ordered = true
						}
					}
				}
			}
			if !ordered {
				msgs = append(msgs, "the clean-up (in "+cleanFn.Name()+") does not run before the new stream producer is registered (in "+fn.Name()+")")
			}
		}
		if ex, ok := del.Call.Args[1].(*ssa.Extract); !ok || ex.Index != 1 {
			msgs = append(msgs, "the deleted key is not the key of the matching entry")
		}
	}
	c.Check(len(msgs) == 0, "new-entry|cleanup", p.Pos(pub.Pos()), core.FuncName(fn), "same-type stream producers are closed and deleted before the new one is registered", strings.Join(msgs, "; ")+" — a retired schema id would be used again")
}

func c12_6(c *core.Ctx, p *core.Prog) {
	a := newProdAnchors(p)
	if !a.ok(c) {
		return
	}
	fn := a.produceIn
	var newW, write, bytesC, reset *ssa.Call
	var cp *ssa.Call
	// site: where an anchored call happens as seen from the per-message function — the call itself, or the call of
	// the package helper that contains it (writer construction or the copy of the output moved into a helper;
	// helpers with one call site have their parameters bound and their results followed)
	site := map[*ssa.Call]*ssa.Call{}
	scan := func(f *ssa.Function, via *ssa.Call) {
		core.EachInstr(f, func(i ssa.Instruction) {
			cl, ok := i.(*ssa.Call)
			if !ok {
				return
			}
			at := cl
			if via != nil {
				at = via
			}
			fo := core.CalleeObj(cl)
			switch {
			case core.IsPkgFunc(fo, arrowIPC, "NewWriter"):
				newW, site[cl] = cl, at
			case core.IsMethodOf(fo, arrowIPC, "Writer", "Write"):
				write, site[cl] = cl, at
			case core.IsMethodOf(fo, "bytes", "Buffer", "Bytes"):
				bytesC, site[cl] = cl, at
			case core.IsMethodOf(fo, "bytes", "Buffer", "Reset"):
				reset, site[cl] = cl, at
			}
			if b, ok := cl.Call.Value.(*ssa.Builtin); ok && b.Name() == "copy" {
				cp, site[cl] = cl, at
			}
		})
	}
	scan(fn, nil)
	{
		calls := map[*ssa.Function][]*ssa.Call{}
		core.EachInstr(fn, func(i ssa.Instruction) {
			if cl, ok := i.(*ssa.Call); ok {
				if h := cl.Call.StaticCallee(); h != nil && core.FnPkgPath(h) == pkgArrowRecord && len(h.Blocks) > 0 && h != fn {
					calls[h] = append(calls[h], cl)
				}
			}
		})
		for h, cs := range calls {
			if len(cs) != 1 {
				continue
			}
			before := [5]*ssa.Call{newW, write, bytesC, reset, cp}
			scan(h, cs[0])
			if before != [5]*ssa.Call{newW, write, bytesC, reset, cp} {
				for k, prm := range h.Params {
					if k < len(cs[0].Call.Args) {
						core.BindParam(prm, cs[0].Call.Args[k])
					}
				}
				core.MarkTransparent(h)
			}
		}
	}
	at := func(cl *ssa.Call) *ssa.Call {
		if s, ok := site[cl]; ok {
			return s
		}
		return cl
	}
	pos := p.Pos(fn.Pos())
	if newW == nil || write == nil || bytesC == nil {
		c.Undecided("writer", pos, core.FuncName(fn), "ipc.NewWriter / Write / Bytes not found in the per-message closure")
		return
	}
	// NewWriter: into the stream producer's own buffer, WithSchema(record schema), stored in its writer field, under writer==nil
	var msgs []string
	withSchema := false
	core.BackSlice(newW.Call.Args[1], func(v ssa.Value) bool {
		if cl, ok := v.(*ssa.Call); ok && core.IsPkgFunc(core.CalleeObj(cl), arrowIPC, "WithSchema") {
			if sc, ok := core.ResolveParam(cl.Call.Args[0]).(*ssa.Call); ok && sc.Call.IsInvoke() && sc.Call.Method.Name() == "Schema" {
				withSchema = true
			}
		}
		return true
	})
	if !withSchema {
		msgs = append(msgs, "the writer is not created with WithSchema(record.Schema())")
	}
	storedIn := false
	for _, w := range []*ssa.Call{at(newW), newW} { // at the site, or inside the helper that creates it
		for _, r := range core.Referrers(w) {
			if s, ok := r.(*ssa.Store); ok {
				if fa, ok := s.Addr.(*ssa.FieldAddr); ok && core.NamedOf(fa.X.Type()) == a.sp {
					storedIn = true
				}
			}
		}
	}
	if !storedIn {
		msgs = append(msgs, "the writer is not kept in the stream producer")
	}
	guardedNil := false
	for _, w := range []*ssa.Call{at(newW), newW} { // the nil test may sit in the helper (`if sp.ipcWriter != nil { return }`)
		for _, b := range w.Parent().Blocks {
			iff := core.IfOf(b)
			if iff == nil {
				continue
			}
			cmp, ok := iff.Cond.(*ssa.BinOp)
			if !ok || !core.IsNilConst(cmp.Y) || (cmp.Op != token.EQL && cmp.Op != token.NEQ) {
				continue
			}
			fa := core.LoadedField(cmp.X)
			if fa == nil || core.NamedOf(fa.X.Type()) != a.sp {
				continue
			}
			if core.GuardedBy(iff, cmp.Op == token.EQL, w) {
				guardedNil = true
			}
		}
	}
	if !guardedNil {
		msgs = append(msgs, "a writer is created although the stream producer already has one (a second schema message would be emitted on the sub-stream)")
	}
	if fa, ok := newW.Call.Args[0].(*ssa.MakeInterface); !ok || core.AccessPath(fa.X) == "" {
		// accept any buffer that belongs to the stream producer
	}
	c.Check(len(msgs) == 0, "writer|create", p.Pos(newW.Pos()), core.FuncName(fn), "one IPC writer per stream producer, created with the record's schema", strings.Join(msgs, "; "))
	// order on the success path
	order := core.Reachable(fn, at(write), at(bytesC)) && !core.Reachable(fn, at(bytesC), at(write))
	c.Check(order, "order|write-bytes", p.Pos(write.Pos()), core.FuncName(fn), "Write precedes Bytes", "the buffer is read before the record is written")
	// the payload's Record derives from a fresh slice that is the copy target, never directly from Bytes()
	var recVal ssa.Value
	core.EachInstr(fn, func(i ssa.Instruction) {
		s, ok := i.(*ssa.Store)
		if !ok {
			return
		}
		if fa, ok := s.Addr.(*ssa.FieldAddr); ok && core.FieldName(fa) == "Record" {
			recVal = s.Val
		}
	})
	msgs = nil
	if recVal == nil {
		msgs = append(msgs, "the payload's Record is never set")
	} else {
		fresh, _ := core.Canon(recVal).(*ssa.MakeSlice)
		if fresh == nil {
			if _, isM := recVal.(*ssa.MakeSlice); isM {
				fresh = recVal.(*ssa.MakeSlice)
			}
		}
		if fresh == nil {
			// the copy helper: every return of the helper hands out the slice it made
			if hc, ok := core.Canon(recVal).(*ssa.Call); ok && hc == at(bytesC) && hc != bytesC {
				for _, r := range core.Returns(hc.Call.StaticCallee()) {
					if len(r.Results) == 1 {
						if mk, ok := core.Canon(r.Results[0]).(*ssa.MakeSlice); ok {
							fresh = mk
						} else if mk, ok := r.Results[0].(*ssa.MakeSlice); ok {
							fresh = mk
						}
					}
				}
			}
		}
		aliases := core.DerivesFrom(recVal, func(v ssa.Value) bool { return v == ssa.Value(bytesC) }) && fresh == nil
		if aliases || fresh == nil {
			msgs = append(msgs, "the payload's Record is (a window into) the stream producer's reusable buffer, not a fresh copy: producing the next batch overwrites the bytes of a batch that has not been consumed or marshalled yet")
		} else {
			if cp == nil || cp.Call.Args[0] != ssa.Value(fresh) && core.Canon(cp.Call.Args[0]) != ssa.Value(fresh) || !core.DerivesFrom(cp.Call.Args[1], func(v ssa.Value) bool { return v == ssa.Value(bytesC) }) {
				msgs = append(msgs, "the fresh slice is not filled by copy(dst, buffer.Bytes())")
			}
			if ln, ok := fresh.Len.(*ssa.Call); !ok || !core.DerivesFrom(ln, func(v ssa.Value) bool { return v == ssa.Value(bytesC) }) {
				msgs = append(msgs, "the fresh slice does not have the length of the written bytes")
			}
		}
	}
	c.Check(len(msgs) == 0, "payload|fresh-copy", p.Pos(bytesC.Pos()), core.FuncName(fn), "the payload's Record is a fresh slice filled by copy from the buffer", strings.Join(msgs, "; "))
	// Reset after the copy on every success path
	msgs = nil
	deferredReset := false
	core.EachInstr(fn, func(i ssa.Instruction) {
		if d, ok := i.(*ssa.Defer); ok {
			if f := core.CalleeObj(d); core.IsMethodOf(f, "bytes", "Buffer", "Reset") {
				deferredReset = true
			}
		}
	})
	if reset == nil && deferredReset {
		msgs = append(msgs, "the buffer is reset by a defer, i.e. also when the IPC write fails: bytes the writer already produced (the Schema message of a new stream) are discarded and never written again, so the next payload of that schema id starts with a dictionary or record batch and cannot be decoded")
	} else if reset == nil {
		msgs = append(msgs, "the buffer is never reset: every payload would repeat all earlier bytes of the sub-stream")
	} else {
		if cp != nil && at(cp) != at(reset) && !core.Reachable(fn, at(cp), at(reset)) {
			msgs = append(msgs, "the buffer is reset before its bytes are copied")
		}
		for _, r := range core.Returns(fn) {
			if len(r.Results) == 1 && core.Reachable(fn, at(bytesC), r) {
				// success return = path that does not go through an error wrap: approximate with reachability from reset
				if ok, _ := (core.PathQuery{Fn: fn, From: at(bytesC), To: r, Avoid: func(i ssa.Instruction) bool {
					if i == ssa.Instruction(at(reset)) {
						return true
					}
					// error returns store a non-nil error first
					if s, ok := i.(*ssa.Store); ok && isErr(s.Val.Type()) && !core.IsNilConst(s.Val) {
						return true
					}
					return false
				}}).Exists(); ok {
					msgs = append(msgs, fmt.Sprintf("%s: a success path does not reset the buffer", p.Pos(r.Pos())))
				}
			}
		}
	}
	c.Check(len(msgs) == 0, "order|reset", p.Pos(bytesC.Pos()), core.FuncName(fn), "the buffer is reset after the copy on every success path", strings.Join(msgs, "; "))
}

func c12_7(c *core.Ctx, p *core.Prog) {
	n := 0
	for _, fn := range rootFuncs(c, p) {
		var decls []string
		core.EachInstr(fn, func(i ssa.Instruction) {
			cl, ok := i.(*ssa.Call)
			if !ok || cl.Call.StaticCallee() == nil || cl.Call.StaticCallee().Name() != "Declare" || core.FnPkgPath(cl.Call.StaticCallee()) != pkgCommonArrow {
				return
			}
			args := core.CallArgs(cl)
			if fa := core.LoadedField(args[0]); fa != nil {
				decls = append(decls, core.FieldName(fa))
			} else {
				decls = append(decls, "?"+p.Pos(cl.Pos()))
			}
		})
		if len(decls) == 0 {
			continue
		}
		n++
		seen := map[string]int{}
		var dups []string
		for _, d := range decls {
			seen[d]++
			if seen[d] == 2 {
				dups = append(dups, d)
			}
			if strings.HasPrefix(d, "?") {
				dups = append(dups, "unrecognised payload type argument at "+d[1:])
			}
		}
		c.Check(len(dups) == 0, "fn="+core.FuncName(fn), p.Pos(fn.Pos()), core.FuncName(fn), fmt.Sprintf("%d related payload types declared, pairwise distinct", len(decls)),
			fmt.Sprintf("payload type(s) %v declared twice for one signal: the same payload type would appear twice in a batch", dups))
	}
	if n < 3 {
		c.Undecided("count", "?", "", fmt.Sprintf("expected 3 related-data constructors with Declare calls, found %d", n))
	}
}

// c12_8: unexported fields of the stream bookkeeping structs that are read somewhere must be written somewhere.
func init() {
	register("C14", &core.Rule{ID: "C14.11", Title: "stream bookkeeping fields of the consumer are written before they are read (a payload type that is never recorded never matches: superseded stream readers are never evicted and their memory stays counted against the limit)", Mod: core.ModRoot, Floor: 5, Run: c12_8})
	register("C07", &core.Rule{ID: "C07.12", Title: "stream bookkeeping fields of the consumer are written before they are read (a payload type that is never recorded never matches: stale stream readers are not evicted and decode later payloads)", Mod: core.ModRoot, Floor: 5, Run: c12_8})
}

func c12_8(c *core.Ctx, p *core.Prog) {
	a := newProdAnchors(p)
	if !a.ok(c) {
		return
	}
	targets := []*types.Named{a.sp}
	if pk := p.Pkg(pkgRecordMsg); pk != nil {
		if tn, ok := pk.Types.Scope().Lookup("RecordMessage").(*types.TypeName); ok {
			if n, ok := tn.Type().(*types.Named); ok {
				targets = append(targets, n)
			}
		}
	}
	if pk := p.Pkg(pkgArrowRecord); pk != nil {
		if tn, ok := pk.Types.Scope().Lookup("streamConsumer").(*types.TypeName); ok {
			if n, ok := tn.Type().(*types.Named); ok {
				targets = append(targets, n)
			}
		}
	}
	reads, writes := map[*types.Var]bool{}, map[*types.Var]bool{}
	for _, fn := range rootFuncs(c, p) {
		core.EachInstr(fn, func(i ssa.Instruction) {
			fa, ok := i.(*ssa.FieldAddr)
			if !ok {
				return
			}
			for _, r := range core.Referrers(fa) {
				switch x := r.(type) {
				case *ssa.Store:
					if x.Addr == ssa.Value(fa) {
						writes[core.FieldVar(fa)] = true
					}
				case *ssa.UnOp:
					reads[core.FieldVar(fa)] = true
				default:
					// address taken (e.g. &sp.output handed to the writer): counts as written
					writes[core.FieldVar(fa)] = true
				}
			}
		})
	}
	for _, t := range targets {
		st := t.Underlying().(*types.Struct)
		for k := 0; k < st.NumFields(); k++ {
			fv := st.Field(k)
			if !reads[fv] {
				continue
			}
			c.Check(writes[fv], "field="+t.Obj().Name()+"."+fv.Name(), p.Pos(fv.Pos()), t.Obj().Name(), "read and written",
				fmt.Sprintf("field %s.%s is read but never written: it always holds its zero value (e.g. a payload type that never matches, a schema id that is always empty)", t.Obj().Name(), fv.Name()))
		}
	}
}
