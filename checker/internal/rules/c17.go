package rules

import (
	"fmt"
	"go/token"
	"go/types"
	"sort"
	"strings"

	"golang.org/x/tools/go/ssa"

	"otelcheck/internal/core"
)

func init() {
	core.Describe("C17",
		"Static necessary conditions of 'obfuscation preserves structure and is a deterministic injection', decided on the obfuscation processor's code for all paths: "+
			"C17.1 wherever attributes/list values are rebuilt into a fresh pcommon.Map/Slice that is copied back over the source, every path of the per-element callback/loop body inserts exactly one element and never stops the iteration early; "+
			"C17.2 no structural mutator (AppendEmpty, RemoveIf, MoveTo, MoveAndAppendTo, Sort, …) is applied to any ptrace/plog/pmetric slice or message; "+
			"C17.3 the cipher is created only in the constructors, once per processor instance, and its field is assigned nowhere else; "+
			"C17.4 both value switches treat every value type that can contain a string (Str, Bytes, Slice, Map) with the matching typed writer, pass Str/Bytes content through the cipher, recurse into Slice/Map, and copy every other type verbatim; "+
			"C17.5 every scalar rewrite has the shape x.SetF(enc(x.F())) — same receiver, same field; "+
			"C17.6 nothing reachable from the process functions draws on randomness or time; the encrypt helpers return the cipher's output or (on error) the input; "+
			"C17.7 the traversal visits every element of every container level and every data-bearing metric type. "+
			"NOT decided: that the Feistel library is length-preserving and injective (third party), the error fallback's effect on injectivity.",
		"github.com/cyrildever/feistel FPECipher.Encrypt is a deterministic, length-preserving permutation for a fixed key")
	for _, r := range []*core.Rule{
		{ID: "C17.1", Title: "rebuilt maps/slices receive exactly one element per source element", Mod: core.ModObf, Floor: 2, Run: c17_1, Canary: c17_1Canary},
		{ID: "C17.2", Title: "no structural mutation of telemetry containers", Mod: core.ModObf, Floor: 1, Run: c17_2},
		{ID: "C17.3", Title: "cipher created once per instance, in the constructors only", Mod: core.ModObf, Floor: 1, Run: c17_3},
		{ID: "C17.4", Title: "value switches: typed writers, cipher on Str/Bytes, recursion, verbatim default", Mod: core.ModObf, Floor: 8, Run: c17_4},
		{ID: "C17.5", Title: "scalar rewrites are x.SetF(enc(x.F()))", Mod: core.ModObf, Floor: 5, Run: c17_5},
		{ID: "C17.6", Title: "no randomness/time on the processing path; encrypt helpers are pure in the cipher", Mod: core.ModObf, Floor: 3, Run: c17_6},
		{ID: "C17.7", Title: "traversal covers every container element and metric type", Mod: core.ModObf, Floor: 10, Run: c17_7},
	} {
		register("C17", r)
	}
}

const c17_1Canary = `package c

import "go.opentelemetry.io/collector/pdata/pcommon"

// BadDrop loses the elements that are not strings.
func BadDrop(m pcommon.Map) {
	cpy := pcommon.NewMap()
	m.Range(func(k string, v pcommon.Value) bool {
		if v.Type() != pcommon.ValueTypeStr {
			return true
		}
		cpy.PutStr(k, v.Str())
		return true
	})
	cpy.CopyTo(m)
}

// BadStop ends the iteration early.
func BadStop(m pcommon.Map) {
	cpy := pcommon.NewMap()
	m.Range(func(k string, v pcommon.Value) bool {
		v.CopyTo(cpy.PutEmpty(k))
		return v.Type() != pcommon.ValueTypeEmpty
	})
	cpy.CopyTo(m)
}

func GoodAll(m pcommon.Map) {
	cpy := pcommon.NewMap()
	m.Range(func(k string, v pcommon.Value) bool {
		if v.Type() == pcommon.ValueTypeStr {
			cpy.PutStr(k, v.Str()+"x")
			return true
		}
		v.CopyTo(cpy.PutEmpty(k))
		return true
	})
	cpy.CopyTo(m)
}
`

func obfFuncs(c *core.Ctx, p *core.Prog) []*ssa.Function {
	return p.FuncsIn(func(pp string) bool {
		return pp == core.ObfPath || (core.IsCanaryPath(pp) && c.InScope(pp))
	})
}

type cnt struct{ min, max int }

// countOnPaths computes, for every return of fn, the minimum and maximum
// number of event instructions executed on a path from entry (max capped at 2;
// loops containing an event give max 2).
func countOnPaths(fn *ssa.Function, isEvent func(ssa.Instruction) bool) map[*ssa.Return]cnt {
	gen := map[*ssa.BasicBlock]int{}
	for _, b := range fn.Blocks {
		for _, i := range b.Instrs {
			if isEvent(i) {
				gen[b]++
			}
		}
	}
	const inf = 1 << 20
	out := map[*ssa.BasicBlock]cnt{}
	for _, b := range fn.Blocks {
		out[b] = cnt{inf, -1}
	}
	cap2 := func(x int) int {
		if x > 2 {
			return 2
		}
		return x
	}
	for changed, iter := true, 0; changed && iter < 100; iter++ {
		changed = false
		for _, b := range fn.Blocks {
			in := cnt{inf, -1}
			if len(b.Preds) == 0 {
				in = cnt{0, 0}
			}
			for _, p := range b.Preds {
				o := out[p]
				if o.max < 0 {
					continue
				}
				if o.min < in.min {
					in.min = o.min
				}
				if o.max > in.max {
					in.max = o.max
				}
			}
			if in.max < 0 {
				continue
			}
			o := cnt{cap2(in.min + gen[b]), cap2(in.max + gen[b])}
			if o != out[b] {
				out[b] = o
				changed = true
			}
		}
	}
	res := map[*ssa.Return]cnt{}
	for _, r := range core.Returns(fn) {
		res[r] = out[r.Block()]
	}
	return res
}

// rebuildSites finds `cpy := pcommon.NewMap()/NewSlice(); …; cpy.CopyTo(src)`.
type rebuildSite struct {
	fn      *ssa.Function
	newCall *ssa.Call
	copyTo  *ssa.Call
	src     ssa.Value
	isMap   bool
	// dstField: when the rebuilt container is kept in a field of a local struct (whose method is the
	// callback), that field
	dstField *types.Var
}

// resolveCallback: the function behind a callback argument — a function literal, a function, or a method
// value (the compiler's bound-method wrapper is looked through).
func resolveCallback(v ssa.Value) *ssa.Function {
	var fn *ssa.Function
	switch x := v.(type) {
	case *ssa.MakeClosure:
		fn, _ = x.Fn.(*ssa.Function)
	case *ssa.Function:
		fn = x
	case *ssa.Call:
		// a closure factory: every return of the callee hands out a closure over the same function literal
		if callee := x.Call.StaticCallee(); callee != nil && len(callee.Blocks) > 0 {
			var lit *ssa.Function
			same := true
			for _, r := range core.Returns(callee) {
				if len(r.Results) != 1 {
					same = false
					continue
				}
				mc, ok := r.Results[0].(*ssa.MakeClosure)
				if !ok {
					same = false
					continue
				}
				f2, _ := mc.Fn.(*ssa.Function)
				if lit != nil && lit != f2 {
					same = false
				}
				lit = f2
			}
			if same {
				fn = lit
			}
		}
	}
	if fn != nil && fn.Synthetic != "" && strings.Contains(fn.Synthetic, "bound") {
		var target *ssa.Function
		core.EachCall(fn, func(ci ssa.CallInstruction) {
			if callee := ci.Common().StaticCallee(); callee != nil {
				target = callee
			}
		})
		if target != nil {
			return target
		}
	}
	return fn
}

// localFieldInit: v is a load of field f of a local struct; returns f and the value the struct was built with.
func localFieldInit(v ssa.Value) (*types.Var, ssa.Value) {
	u, ok := v.(*ssa.UnOp)
	if !ok || u.Op != token.MUL {
		return nil, nil
	}
	fa, ok := u.X.(*ssa.FieldAddr)
	if !ok {
		return nil, nil
	}
	al, ok := fa.X.(*ssa.Alloc)
	if !ok {
		return nil, nil
	}
	var init ssa.Value
	n := 0
	for _, r := range core.Referrers(al) {
		fa2, ok := r.(*ssa.FieldAddr)
		if !ok || fa2.Field != fa.Field {
			continue
		}
		for _, r2 := range core.Referrers(fa2) {
			if st, ok := r2.(*ssa.Store); ok && st.Addr == ssa.Value(fa2) {
				init = st.Val
				n++
			}
		}
	}
	if n != 1 {
		return nil, nil
	}
	return core.FieldVar(fa), init
}

func rebuildSites(fns []*ssa.Function) []rebuildSite {
	var out []rebuildSite
	for _, fn := range fns {
		core.EachInstr(fn, func(i ssa.Instruction) {
			cl, ok := i.(*ssa.Call)
			if !ok {
				return
			}
			f := pdataCallee(cl)
			if f == nil || f.Name() != "CopyTo" || len(cl.Call.Args) != 2 {
				return
			}
			tn := core.TypeName(cl.Call.Args[0].Type())
			if tn != "Map" && tn != "Slice" {
				return
			}
			var dstField *types.Var
			nc, ok := core.Canon(cl.Call.Args[0]).(*ssa.Call)
			if !ok {
				// the rebuilt container lives in a field of a local struct (`rw := rewriter{dst: NewMap()} … rw.dst.CopyTo(m)`)
				f, init := localFieldInit(cl.Call.Args[0])
				if f == nil {
					return
				}
				nc, ok = core.Canon(init).(*ssa.Call)
				if !ok {
					return
				}
				dstField = f
			}
			g := core.CalleeObj(nc)
			if g == nil || g.Pkg() == nil || g.Pkg().Path() != core.PdataPath+"/pcommon" || (g.Name() != "NewMap" && g.Name() != "NewSlice") {
				return
			}
			out = append(out, rebuildSite{fn, nc, cl, cl.Call.Args[1], tn == "Map", dstField})
		})
	}
	return out
}

// isInsertInto: ins inserts one element into the rebuilt container whose
// creation call is nc (Put*/PutEmpty* on a Map, AppendEmpty on a Slice).
func isInsertInto(ins ssa.Instruction, nc *ssa.Call) bool {
	cl, ok := ins.(*ssa.Call)
	if !ok {
		return false
	}
	f := pdataCallee(cl)
	if f == nil || len(cl.Call.Args) == 0 {
		return false
	}
	if !strings.HasPrefix(f.Name(), "Put") && f.Name() != "AppendEmpty" {
		return false
	}
	return core.Canon(cl.Call.Args[0]) == ssa.Value(nc)
}

func c17_1(c *core.Ctx, p *core.Prog) {
	sites := rebuildSites(obfFuncs(c, p))
	for _, s := range sites {
		key := "rebuild@" + core.FuncName(s.fn)
		pos := p.Pos(s.copyTo.Pos())
		isIns := func(i ssa.Instruction) bool {
			if isInsertInto(i, s.newCall) {
				return true
			}
			// method form: the destination is the field of the callback's receiver
			if s.dstField == nil {
				return false
			}
			cl, ok := i.(*ssa.Call)
			if !ok {
				return false
			}
			f := pdataCallee(cl)
			if f == nil || len(cl.Call.Args) == 0 || (!strings.HasPrefix(f.Name(), "Put") && f.Name() != "AppendEmpty") {
				return false
			}
			return core.DerivesFrom(cl.Call.Args[0], func(v ssa.Value) bool {
				switch y := v.(type) {
				case *ssa.Field:
					st, ok := y.X.Type().Underlying().(*types.Struct)
					return ok && st.Field(y.Field) == s.dstField
				case *ssa.FieldAddr:
					return core.FieldVar(y) == s.dstField
				}
				return false
			})
		}
		// iteration form: Range callback (maps) or index loop in the same function (slices)
		var rangeCall *ssa.Call
		core.EachInstr(s.fn, func(i ssa.Instruction) {
			if cl, ok := i.(*ssa.Call); ok {
				if f := pdataCallee(cl); f != nil && f.Name() == "Range" && len(cl.Call.Args) == 2 && cl.Call.Args[0] == s.src {
					rangeCall = cl
				}
			}
		})
		var msgs []string
		if rangeCall != nil {
			clo := resolveCallback(rangeCall.Call.Args[1])
			if clo == nil {
				c.Undecided(key, pos, core.FuncName(s.fn), "Range callback is not a function literal")
				continue
			}
			for r, k := range countOnPaths(clo, isIns) {
				if k.min != 1 || k.max != 1 {
					msgs = append(msgs, fmt.Sprintf("%s: a path of the callback inserts between %d and %d elements for one source attribute (expected exactly 1)", p.Pos(r.Pos()), k.min, k.max))
				}
				if b, ok := core.ConstBool(r.Results[0]); !ok || !b {
					msgs = append(msgs, fmt.Sprintf("%s: the callback can return false and stop the iteration: the remaining attributes are dropped when the copy is written back", p.Pos(r.Pos())))
				}
			}
			// Range must precede CopyTo
			if !core.MustPassBetween(s.fn, nil, s.copyTo, func(i ssa.Instruction) bool { return i == ssa.Instruction(rangeCall) }) {
				msgs = append(msgs, "the copy is written back on a path that did not range over the source")
			}
		} else {
			// index loop: per iteration exactly one insertion: insertion count between two evaluations of the loop header
			var hdr *ssa.BasicBlock
			core.EachInstr(s.fn, func(i ssa.Instruction) {
				if ph, ok := i.(*ssa.Phi); ok {
					if ind, ok := core.InductionOf(ph); ok && ind.Cond != nil {
						// bound is src.Len()
						if cl, ok := core.StripConv(ind.BoundV).(*ssa.Call); ok {
							if f := pdataCallee(cl); f != nil && f.Name() == "Len" && cl.Call.Args[0] == s.src {
								hdr = ph.Block()
							}
						}
					}
				}
			})
			if hdr == nil {
				c.Undecided(key, pos, core.FuncName(s.fn), "iteration over the source not recognised")
				continue
			}
			// per-iteration counts: paths from the loop body entry back to the header
			ind, _ := core.InductionOf(hdr.Instrs[0].(*ssa.Phi))
			for _, ph := range hdr.Instrs {
				if pp, ok := ph.(*ssa.Phi); ok {
					if i2, ok := core.InductionOf(pp); ok {
						ind = i2
					}
				}
			}
			body := ind.Cond.Block().Succs[0]
			if !ind.BodyArm {
				body = ind.Cond.Block().Succs[1]
			}
			mn, mx := iterCount(s.fn, body, hdr, isIns)
			if mn != 1 || mx != 1 {
				msgs = append(msgs, fmt.Sprintf("one loop iteration inserts between %d and %d elements (expected exactly 1)", mn, mx))
			}
			lo := ind.Init + ind.A
			if lo > 0 {
				msgs = append(msgs, fmt.Sprintf("the loop starts at element %d", lo))
			}
			if cmp, ok := ind.Cond.Cond.(*ssa.BinOp); ok && cmp.Op != token.LSS {
				msgs = append(msgs, "loop condition is not i < Len()")
			}
		}
		c.Check(len(msgs) == 0, key, pos, core.FuncName(s.fn), "every source element yields exactly one element of the copy that is written back", strings.Join(msgs, "; "))
	}
}

// iterCount: min/max number of events on paths from `from` to `to` (one loop iteration).
func iterCount(fn *ssa.Function, from, to *ssa.BasicBlock, isEvent func(ssa.Instruction) bool) (int, int) {
	type st struct{ min, max int }
	const inf = 1 << 20
	gen := map[*ssa.BasicBlock]int{}
	for _, b := range fn.Blocks {
		for _, i := range b.Instrs {
			if isEvent(i) {
				gen[b]++
			}
		}
	}
	best := map[*ssa.BasicBlock]st{from: {0, 0}}
	res := st{inf, -1}
	// DFS with memo over acyclic region (inner loops: cap iterations)
	var walk func(b *ssa.BasicBlock, n int, depth int)
	seenPath := map[*ssa.BasicBlock]int{}
	walk = func(b *ssa.BasicBlock, n int, depth int) {
		if depth > 200 || seenPath[b] > 1 {
			return
		}
		n += gen[b]
		if n > 2 {
			n = 2
		}
		seenPath[b]++
		defer func() { seenPath[b]-- }()
		for _, s := range b.Succs {
			if s == to {
				if n < res.min {
					res.min = n
				}
				if n > res.max {
					res.max = n
				}
				continue
			}
			walk(s, n, depth+1)
		}
	}
	_ = best
	walk(from, 0, 0)
	if res.max < 0 {
		return 0, 0
	}
	return res.min, res.max
}

var structuralMutators = map[string]bool{"AppendEmpty": true, "RemoveIf": true, "MoveTo": true, "MoveAndAppendTo": true, "Sort": true, "EnsureCapacity": true}

func c17_2(c *core.Ctx, p *core.Prog) {
	n := 0
	var bad []string
	for _, fn := range obfFuncs(c, p) {
		if core.IsCanaryPath(core.FnPkgPath(fn)) {
			continue
		}
		core.EachCall(fn, func(ci ssa.CallInstruction) {
			f := pdataCallee(ci)
			if f == nil {
				return
			}
			n++
			rp := core.RecvNamed(f).Obj().Pkg().Path()
			tele := strings.HasSuffix(rp, "/ptrace") || strings.HasSuffix(rp, "/plog") || strings.HasSuffix(rp, "/pmetric")
			if !tele {
				return
			}
			name := f.Name()
			if structuralMutators[name] || name == "CopyTo" || name == "FromRaw" || strings.HasPrefix(name, "SetEmpty") {
				bad = append(bad, fmt.Sprintf("%s: %s.%s", p.Pos(ci.Pos()), core.RecvNamed(f).Obj().Name(), name))
			}
		})
	}
	sort.Strings(bad)
	c.Stats["pdata_calls_inspected"] = n
	c.Check(len(bad) == 0, "structure", "collector/processor/obfuscationprocessor", "", fmt.Sprintf("none of the %d pdata calls in the package restructures a ptrace/plog/pmetric container", n),
		"the obfuscation processor restructures telemetry containers (adds, drops, moves or reorders elements): "+strings.Join(bad, ", "))
}

type obfAnchors struct {
	typ         *types.Named
	cipherF     *types.Var
	encHelpers  []*ssa.Function // functions calling Encrypt
	encWrappers []*ssa.Function // functions whose every result is a helper's (or wrapper's) result for their own argument, or that argument
	encSrcIdx   map[*ssa.Function]int // helper/wrapper -> index (in Params / call Args) of the string that is encrypted
	entries     []*ssa.Function // process{Traces,Logs,Metrics}
	errs        []string
}

func newObfAnchors(p *core.Prog) *obfAnchors {
	a := &obfAnchors{encSrcIdx: map[*ssa.Function]int{}}
	pk := p.Pkg(core.ObfPath)
	if pk == nil {
		a.errs = append(a.errs, "package not loaded")
		return a
	}
	for _, name := range pk.Types.Scope().Names() {
		tn, ok := pk.Types.Scope().Lookup(name).(*types.TypeName)
		if !ok {
			continue
		}
		st, ok := tn.Type().Underlying().(*types.Struct)
		if !ok {
			continue
		}
		for i := 0; i < st.NumFields(); i++ {
			if core.TypePkgPath(st.Field(i).Type()) == "github.com/cyrildever/feistel" {
				a.typ, _ = tn.Type().(*types.Named)
				a.cipherF = st.Field(i)
			}
		}
	}
	if a.typ == nil {
		a.errs = append(a.errs, "no struct with a feistel cipher field")
		return a
	}
	all := p.FuncsIn(func(pp string) bool { return pp == core.ObfPath })
	// the helpers that apply the cipher: methods of the instance, or package functions that are handed the cipher
	for _, fn := range all {
		if fn.Synthetic != "" || fn.Parent() != nil {
			continue
		}
		callsEnc := false
		core.EachCall(fn, func(ci ssa.CallInstruction) {
			if f := core.CalleeObj(ci); core.IsMethodOf(f, "github.com/cyrildever/feistel", "", "Encrypt") {
				callsEnc = true
			}
		})
		if callsEnc {
			a.encHelpers = append(a.encHelpers, fn)
			idx := len(fn.Params) - 1
			core.EachInstr(fn, func(i ssa.Instruction) {
				if cl, ok := i.(*ssa.Call); ok && core.IsMethodOf(core.CalleeObj(cl), "github.com/cyrildever/feistel", "", "Encrypt") && len(cl.Call.Args) > 0 {
					for k, q := range fn.Params {
						if core.Canon(cl.Call.Args[len(cl.Call.Args)-1]) == ssa.Value(q) {
							idx = k
						}
					}
				}
			})
			a.encSrcIdx[fn] = idx
		}
	}
	// wrappers: functions with one result, every return of which is, for one string parameter q of theirs, either q
	// itself (the fallback) or derived — through accessors of the cipher's result type, conversions and tuple
	// extraction only — from a helper/wrapper applied to q; a result of a (value, ok) or (value, err) helper is used
	// only under the success test of that very call. Iterated, so wrappers of wrappers are found.
	for round := 0; round < 3; round++ {
		for _, fn := range all {
			if fn.Synthetic != "" || fn.Parent() != nil || len(fn.Params) == 0 || fn.Signature.Results().Len() != 1 {
				continue
			}
			if _, known := a.encSrcIdx[fn]; known {
				continue
			}
			for qi, q := range fn.Params {
				if b, ok := q.Type().Underlying().(*types.Basic); !ok || b.Kind() != types.String {
					continue
				}
				rets := core.Returns(fn)
				wraps, usesEnc := len(rets) > 0, false
				for _, r := range rets {
					okRet := true
					core.BackSlice(r.Results[0], func(v ssa.Value) bool {
						switch x := v.(type) {
						case *ssa.Parameter:
							if x != q {
								okRet = false
							}
							return false
						case *ssa.Call:
							callee := x.Call.StaticCallee()
							if idx, isEnc := a.encSrcIdx[callee]; isEnc && callee != nil {
								if idx >= len(x.Call.Args) || core.Canon(x.Call.Args[idx]) != ssa.Value(q) {
									okRet = false
								} else if callee.Signature.Results().Len() >= 2 && !underSuccessOf(x, r) {
									okRet = false
								} else {
									usesEnc = true
								}
								return false
							}
							f := core.CalleeObj(x)
							if f != nil && f.Pkg() != nil && strings.HasPrefix(f.Pkg().Path(), "github.com/cyrildever/feistel") {
								return true
							}
							okRet = false
							return false
						case *ssa.Alloc:
							if x.Comment != "varargs" { // String(true): the argument list of a variadic accessor
								okRet = false
							}
							return false
						case *ssa.Global, *ssa.Lookup, *ssa.MakeClosure:
							okRet = false
							return false
						}
						return true
					})
					if !okRet {
						wraps = false
						break
					}
				}
				if wraps && usesEnc {
					a.encWrappers = append(a.encWrappers, fn)
					a.encSrcIdx[fn] = qi
					break
				}
			}
		}
	}
	for _, fn := range all {
		if fn.Signature.Recv() == nil || core.NamedOf(fn.Signature.Recv().Type()) == nil || core.NamedOf(fn.Signature.Recv().Type()).Obj() != a.typ.Obj() {
			continue
		}
		sig := fn.Signature
		if sig.Params().Len() == 2 && sig.Results().Len() == 2 && isCtx(sig.Params().At(0).Type()) && isPdataType(sig.Params().At(1).Type()) && types.Identical(sig.Params().At(1).Type(), sig.Results().At(0).Type()) {
			a.entries = append(a.entries, fn)
		}
	}
	if len(a.encHelpers) == 0 {
		a.errs = append(a.errs, "no method calling the cipher's Encrypt")
	}
	if len(a.entries) < 3 {
		a.errs = append(a.errs, fmt.Sprintf("expected 3 process functions (ctx, T) (T, error), found %d", len(a.entries)))
	}
	return a
}

func (a *obfAnchors) ok(c *core.Ctx) bool {
	if len(a.errs) > 0 {
		c.Undecided("anchors", "?", "", "cannot resolve obfuscation anchors: "+strings.Join(a.errs, "; "))
		return false
	}
	return true
}

// underSuccessOf: instruction at is reached only on the success edge of a test of call's second result
// (`ok` true, `err == nil`).
func underSuccessOf(call *ssa.Call, at ssa.Instruction) bool {
	fn := call.Parent()
	for _, b := range fn.Blocks {
		iff := core.IfOf(b)
		if iff == nil {
			continue
		}
		isSecond := func(v ssa.Value) bool {
			ex, ok := core.Strip(v).(*ssa.Extract)
			return ok && ex.Tuple == ssa.Value(call) && ex.Index >= 1
		}
		switch c := iff.Cond.(type) {
		case *ssa.Extract:
			if isSecond(c) && core.GuardedBy(iff, true, at) {
				return true
			}
		case *ssa.BinOp:
			if (isSecond(c.X) && core.IsNilConst(c.Y)) || (isSecond(c.Y) && core.IsNilConst(c.X)) {
				if c.Op == token.EQL && core.GuardedBy(iff, true, at) || c.Op == token.NEQ && core.GuardedBy(iff, false, at) {
					return true
				}
			}
		case *ssa.UnOp:
			if c.Op == token.NOT && isSecond(c.X) && core.GuardedBy(iff, false, at) {
				return true
			}
		}
	}
	return false
}

// encSrc: the argument of a cipher helper/wrapper call that is encrypted.
func (a *obfAnchors) encSrc(cl *ssa.Call) ssa.Value {
	if idx, ok := a.encSrcIdx[cl.Call.StaticCallee()]; ok && idx < len(cl.Call.Args) {
		return cl.Call.Args[idx]
	}
	return cl.Call.Args[len(cl.Call.Args)-1]
}

func (a *obfAnchors) isEncCall(v ssa.Value) (*ssa.Call, bool) {
	cl, ok := v.(*ssa.Call)
	if !ok {
		return nil, false
	}
	for _, h := range a.encHelpers {
		if cl.Call.StaticCallee() == h {
			return cl, true
		}
	}
	for _, h := range a.encWrappers {
		if cl.Call.StaticCallee() == h {
			return cl, true
		}
	}
	return nil, false
}

func c17_3(c *core.Ctx, p *core.Prog) {
	a := newObfAnchors(p)
	if !a.ok(c) {
		return
	}
	n := 0
	for _, fn := range obfFuncs(c, p) {
		core.EachInstr(fn, func(i ssa.Instruction) {
			switch x := i.(type) {
			case *ssa.Store:
				fa, ok := x.Addr.(*ssa.FieldAddr)
				if !ok || core.FieldVar(fa) != a.cipherF {
					return
				}
				n++
				_, local := fa.X.(*ssa.Alloc)
				isNew := false
				if cl, ok := x.Val.(*ssa.Call); ok {
					isNew = core.IsPkgFunc(core.CalleeObj(cl), "github.com/cyrildever/feistel", "NewFPECipher")
				}
				inEntryPath := false
				for _, e := range a.entries {
					if e == fn || fn.Parent() == e {
						inEntryPath = true
					}
				}
				c.Check(local && isNew && !inEntryPath, fmt.Sprintf("cipher-store#%d@%s", n, core.FuncName(fn)), p.Pos(x.Pos()), core.FuncName(fn),
					"the cipher is created with the instance (composite literal in a constructor)",
					"the cipher field is assigned outside the construction of the processor instance: equal inputs would stop giving equal outputs during the instance's lifetime")
			case *ssa.Call:
				if core.IsPkgFunc(core.CalleeObj(x), "github.com/cyrildever/feistel", "NewFPECipher") {
					stored := false
					for _, r := range core.Referrers(x) {
						if s, ok := r.(*ssa.Store); ok {
							if fa, ok := s.Addr.(*ssa.FieldAddr); ok && core.FieldVar(fa) == a.cipherF {
								stored = true
							}
						}
					}
					if !stored {
						n++
						c.Viol(fmt.Sprintf("cipher-new#%d@%s", n, core.FuncName(fn)), p.Pos(x.Pos()), core.FuncName(fn), "a cipher is created outside the instance's cipher field (e.g. per call): substitutes stop being stable for the lifetime of the instance")
					}
				}
			}
		})
	}
}

// valueTypeConsts maps pcommon.ValueType constant values to names.
func valueTypeConsts(p *core.Prog) map[int64]string {
	out := map[int64]string{}
	pk := p.Pkg(core.PdataPath + "/pcommon")
	if pk == nil {
		return out
	}
	for _, name := range pk.Types.Scope().Names() {
		if cst, ok := pk.Types.Scope().Lookup(name).(*types.Const); ok && core.TypeName(cst.Type()) == "ValueType" {
			if v, ok := constantInt(cst); ok {
				out[v] = strings.TrimPrefix(name, "ValueType")
			}
		}
	}
	return out
}

func c17_4(c *core.Ctx, p *core.Prog) {
	a := newObfAnchors(p)
	if !a.ok(c) {
		return
	}
	vt := valueTypeConsts(p)
	for _, s := range rebuildSites(obfFuncs(c, p)) {
		if core.IsCanaryPath(core.FnPkgPath(s.fn)) {
			continue
		}
		// the function holding the switch: Range callback or the function itself
		host := s.fn
		core.EachInstr(s.fn, func(i ssa.Instruction) {
			if cl, ok := i.(*ssa.Call); ok {
				if f := pdataCallee(cl); f != nil && f.Name() == "Range" && len(cl.Call.Args) == 2 && cl.Call.Args[0] == s.src {
					if h := resolveCallback(cl.Call.Args[1]); h != nil {
						host = h
					}
				}
			}
		})
		base := "switch@" + core.FuncName(s.fn)
		// type tests:  Type(v) == K
		type arm struct {
			k   int64
			iff *ssa.If
		}
		var arms []arm
		var srcVal ssa.Value
		findArms := func() {
			core.EachInstr(host, func(i ssa.Instruction) {
				iff, ok := i.(*ssa.If)
				if !ok {
					return
				}
				cmp, ok := iff.Cond.(*ssa.BinOp)
				if !ok || cmp.Op != token.EQL || core.TypeName(cmp.X.Type()) != "ValueType" {
					return
				}
				k, ok := core.ConstInt(cmp.Y)
				if !ok {
					return
				}
				if tc, ok := cmp.X.(*ssa.Call); ok {
					srcVal = tc.Call.Args[0]
				}
				arms = append(arms, arm{k, iff})
			})
		}
		findArms()
		inHelper := false
		if len(arms) == 0 {
			// the switch is shared: the site hands the source element and a fresh element of the copy to a
			// package function that switches over the type of the element it was given
			var hcall *ssa.Call
			core.EachInstr(host, func(i ssa.Instruction) {
				cl, ok := i.(*ssa.Call)
				if !ok || hcall != nil {
					return
				}
				h := cl.Call.StaticCallee()
				if h == nil || h.Blocks == nil || core.FnPkgPath(h) != core.ObfPath {
					return
				}
				srcOK, dstOK := false, false
				for _, arg := range cl.Call.Args {
					if core.TypeName(arg.Type()) != "Value" {
						continue
					}
					ca := core.Canon(arg)
					if g, ok := ca.(*ssa.Call); ok {
						if f := pdataCallee(g); f != nil && f.Name() == "At" && core.Canon(g.Call.Args[0]) == core.Canon(s.src) {
							srcOK = true
						}
						if isInsertInto(g, s.newCall) {
							dstOK = true
						}
					}
					if pr, ok := ca.(*ssa.Parameter); ok && host != s.fn && pr.Parent() == host {
						srcOK = true // the value the Range callback was given
					}
				}
				if srcOK && dstOK {
					hcall = cl
				}
			})
			if hcall != nil {
				host = hcall.Call.StaticCallee()
				inHelper = true
				findArms()
				if _, isP := srcVal.(*ssa.Parameter); !isP {
					srcVal = nil
				} else {
					// the element switched over is the one the site passed as source
					idx := -1
					for k, q := range host.Params {
						if ssa.Value(q) == srcVal {
							idx = k
						}
					}
					ca := core.Canon(hcall.Call.Args[idx])
					_, fromPar := ca.(*ssa.Parameter)
					g, isCall := ca.(*ssa.Call)
					if !(fromPar || (isCall && pdataCallee(g) != nil && pdataCallee(g).Name() == "At")) {
						srcVal = nil
					}
				}
			}
		}
		if len(arms) == 0 || srcVal == nil {
			c.Undecided(base, p.Pos(host.Pos()), core.FuncName(host), "no switch over the value type found")
			continue
		}
		have := map[string]*ssa.If{}
		for _, ar := range arms {
			have[vt[ar.k]] = ar.iff
		}
		for _, need := range []string{"Str", "Bytes", "Slice", "Map"} {
			iff := have[need]
			key := base + "|type=" + need
			if iff == nil {
				c.Viol(key, p.Pos(host.Pos()), core.FuncName(host), "values of type "+need+" have no arm of their own: strings inside them reach the output un-obfuscated (copied verbatim by the default arm)")
				continue
			}
			// instructions guarded by the true arm
			var armCalls []*ssa.Call
			core.EachInstr(host, func(i ssa.Instruction) {
				if cl, ok := i.(*ssa.Call); ok && core.GuardedBy(iff, true, cl) {
					armCalls = append(armCalls, cl)
				}
			})
			getter := func(name string) ssa.Value {
				for _, cl := range armCalls {
					if f := pdataCallee(cl); f != nil && f.Name() == name && len(cl.Call.Args) == 1 && cl.Call.Args[0] == srcVal {
						return cl
					}
				}
				return nil
			}
			var msgs []string
			switch need {
			case "Str":
				okW := false
				for _, cl := range armCalls {
					f := pdataCallee(cl)
					if f == nil || (f.Name() != "PutStr" && f.Name() != "SetStr") {
						continue
					}
					val := cl.Call.Args[len(cl.Call.Args)-1]
					enc, isEnc := a.isEncCall(val)
					if !isEnc {
						msgs = append(msgs, "the string written is not the result of the cipher helper")
						continue
					}
					in := a.encSrc(enc)
					if g, ok := in.(*ssa.Call); !ok || pdataCallee(g) == nil || pdataCallee(g).Name() != "Str" || g.Call.Args[0] != srcVal {
						msgs = append(msgs, "the cipher is not applied to this element's own string")
						continue
					}
					okW = true
				}
				if !okW && len(msgs) == 0 {
					msgs = append(msgs, "no PutStr/SetStr of the obfuscated string")
				}
			case "Bytes":
				okW := false
				for _, cl := range armCalls {
					f := pdataCallee(cl)
					if f == nil || f.Name() != "FromRaw" {
						continue
					}
					tgt, ok := cl.Call.Args[0].(*ssa.Call)
					if !ok || pdataCallee(tgt) == nil || !strings.HasSuffix(pdataCallee(tgt).Name(), "EmptyBytes") {
						msgs = append(msgs, "bytes are not written into a fresh byte slice of the copy")
						continue
					}
					enc, isEnc := a.isEncCall(cl.Call.Args[1])
					if !isEnc {
						msgs = append(msgs, "the bytes written are not the result of the cipher helper")
						continue
					}
					if g := getter("Bytes"); g == nil || !core.DerivesFrom(a.encSrc(enc), func(v ssa.Value) bool { return v == g }) {
						msgs = append(msgs, "the cipher is not applied to this element's own bytes")
						continue
					}
					okW = true
				}
				if !okW && len(msgs) == 0 {
					msgs = append(msgs, "no FromRaw of the obfuscated bytes")
				}
			case "Slice", "Map":
				okCopy, okRec := false, false
				var recCall, copyCall *ssa.Call
				for _, cl := range armCalls {
					f := pdataCallee(cl)
					if f != nil && f.Name() == "CopyTo" && len(cl.Call.Args) == 2 {
						sg, ok1 := cl.Call.Args[0].(*ssa.Call)
						tg, ok2 := cl.Call.Args[1].(*ssa.Call)
						if ok1 && ok2 && pdataCallee(sg) != nil && pdataCallee(sg).Name() == need && sg.Call.Args[0] == srcVal && pdataCallee(tg) != nil && strings.HasSuffix(pdataCallee(tg).Name(), "Empty"+need) {
							okCopy = true
							copyCall = cl
						}
					}
					if callee := cl.Call.StaticCallee(); callee != nil && core.FnPkgPath(callee) == core.ObfPath {
						for _, arg := range cl.Call.Args {
							if g, ok := arg.(*ssa.Call); ok && pdataCallee(g) != nil && pdataCallee(g).Name() == need && g.Call.Args[0] == srcVal {
								// callee must be a rebuild function for that container type
								okRec = true
								recCall = cl
							}
						}
					}
				}
				if !okRec {
					msgs = append(msgs, "the nested "+strings.ToLower(need)+" is not processed recursively: strings inside it stay readable")
				}
				if !okCopy {
					msgs = append(msgs, "the nested "+strings.ToLower(need)+" is not copied into a fresh "+strings.ToLower(need)+" of the copy")
				}
				wrongOrder := false
				if recCall != nil && copyCall != nil {
					if recCall.Block() == copyCall.Block() {
						wrongOrder = core.InstrIndex(copyCall) < core.InstrIndex(recCall)
					} else {
						wrongOrder = !core.Reachable(host, recCall, copyCall)
					}
				}
				if wrongOrder {
					msgs = append(msgs, "the nested "+strings.ToLower(need)+" is copied into the result before it is processed: the copy keeps the clear-text strings and the processed source element is overwritten when the result is written back")
				}
			}
			c.Check(len(msgs) == 0, key, p.Pos(iff.Cond.Pos()), core.FuncName(host), need+" arm uses the matching typed writer and the cipher/recursion", need+" arm: "+strings.Join(msgs, "; "))
		}
		// any other explicit arm must copy verbatim
		for _, ar := range arms {
			name := vt[ar.k]
			if name == "Str" || name == "Bytes" || name == "Slice" || name == "Map" {
				continue
			}
			verb := false
			core.EachInstr(host, func(i ssa.Instruction) {
				if cl, ok := i.(*ssa.Call); ok && core.GuardedBy(ar.iff, true, cl) {
					if f := pdataCallee(cl); f != nil && f.Name() == "CopyTo" && cl.Call.Args[0] == srcVal {
						verb = true
					}
				}
			})
			c.Check(verb, base+"|type="+name, p.Pos(ar.iff.Cond.Pos()), core.FuncName(host), name+" values are copied verbatim", "values of type "+name+" (which cannot contain a string) are not copied verbatim")
		}
		// default arm: reached when every test fails: must CopyTo verbatim
		cut := map[core.Edge]bool{}
		for _, ar := range arms {
			cut[core.Edge{From: ar.iff.Block(), To: ar.iff.Block().Succs[0]}] = true
		}
		first := arms[0].iff
		isVerb := func(i ssa.Instruction) bool {
			cl, ok := i.(*ssa.Call)
			if !ok {
				return false
			}
			f := pdataCallee(cl)
			return f != nil && f.Name() == "CopyTo" && len(cl.Call.Args) == 2 && cl.Call.Args[0] == srcVal
		}
		// from the first test, following only false edges, every path to a return / loop back passes a verbatim copy
		okDef := true
		if ok, _ := (core.PathQuery{Fn: host, From: firstInstrOfChain(first), Avoid: isVerb, CutEdges: cut, ExitReturnOnly: true}).Exists(); ok {
			okDef = false
		}
		if !s.isMap && !inHelper {
			// loop form: path back to the loop header instead of a return
			okDef = true
			for _, b := range host.Blocks {
				for _, i := range b.Instrs {
					if ph, ok := i.(*ssa.Phi); ok {
						if _, isInd := core.InductionOf(ph); isInd {
							if ok, _ := (core.PathQuery{Fn: host, From: firstInstrOfChain(first), To: ph, Avoid: isVerb, CutEdges: cut}).Exists(); ok {
								okDef = false
							}
						}
					}
				}
			}
		}
		c.Check(okDef, base+"|default", p.Pos(first.Cond.Pos()), core.FuncName(host), "values of every other type are copied verbatim", "a value whose type has no arm is not copied verbatim into the copy: it is lost or altered when the copy is written back")
	}
}

func firstInstrOfChain(iff *ssa.If) ssa.Instruction {
	// the comparison feeding the first If of the switch chain
	if v, ok := iff.Cond.(ssa.Instruction); ok {
		return v
	}
	return iff
}

func c17_5(c *core.Ctx, p *core.Prog) {
	a := newObfAnchors(p)
	if !a.ok(c) {
		return
	}
	n := 0
	for _, fn := range obfFuncs(c, p) {
		if core.IsCanaryPath(core.FnPkgPath(fn)) {
			continue
		}
		core.EachInstr(fn, func(i ssa.Instruction) {
			cl, ok := i.(*ssa.Call)
			if !ok {
				return
			}
			f := pdataCallee(cl)
			if f == nil || !strings.HasPrefix(f.Name(), "Set") || strings.HasPrefix(f.Name(), "SetEmpty") || len(cl.Call.Args) != 2 {
				return
			}
			rp := core.RecvNamed(f).Obj().Pkg().Path()
			recvName := core.RecvNamed(f).Obj().Name()
			tele := strings.HasSuffix(rp, "/ptrace") || strings.HasSuffix(rp, "/plog") || strings.HasSuffix(rp, "/pmetric") || recvName == "InstrumentationScope" || recvName == "Resource"
			if !tele {
				return // writes into the rebuilt copies (pcommon.Value/Map) are C17.4's
			}
			n++
			field := strings.TrimPrefix(f.Name(), "Set")
			key := fmt.Sprintf("rewrite#%d|%s.%s@%s", n, recvName, field, core.FuncName(fn))
			pos := p.Pos(cl.Pos())
			b, isStr := cl.Call.Args[1].Type().Underlying().(*types.Basic)
			if !isStr || b.Kind() != types.String {
				c.Viol(key, pos, core.FuncName(fn), fmt.Sprintf("the processor rewrites non-string field %s.%s: numeric/boolean values must stay unchanged", recvName, field))
				return
			}
			enc, isEnc := a.isEncCall(cl.Call.Args[1])
			if !isEnc {
				c.Viol(key, pos, core.FuncName(fn), fmt.Sprintf("%s.%s is overwritten with something other than the cipher helper's result", recvName, field))
				return
			}
			get, ok := a.encSrc(enc).(*ssa.Call)
			if !ok || pdataCallee(get) == nil {
				c.Viol(key, pos, core.FuncName(fn), "the cipher is not applied to a field of the telemetry")
				return
			}
			sameField := pdataCallee(get).Name() == field
			sameRecv := valueLabel(get.Call.Args[0]) == valueLabel(cl.Call.Args[0])
			c.Check(sameField && sameRecv, key, pos, core.FuncName(fn), fmt.Sprintf("%s.Set%s(enc(%s.%s()))", valueLabel(cl.Call.Args[0]), field, valueLabel(get.Call.Args[0]), field),
				fmt.Sprintf("%s.Set%s is given enc(%s.%s()): a different field or element than the one overwritten", valueLabel(cl.Call.Args[0]), field, valueLabel(get.Call.Args[0]), pdataCallee(get).Name()))
		})
	}
}

func c17_6(c *core.Ctx, p *core.Prog) {
	a := newObfAnchors(p)
	if !a.ok(c) {
		return
	}
	// package-local reachability from the entries
	reach := map[*ssa.Function]bool{}
	var walk func(f *ssa.Function)
	walk = func(f *ssa.Function) {
		if reach[f] || f == nil || f.Blocks == nil {
			return
		}
		reach[f] = true
		core.EachInstr(f, func(i ssa.Instruction) {
			if ci, ok := i.(ssa.CallInstruction); ok {
				if callee := ci.Common().StaticCallee(); callee != nil && core.FnPkgPath(callee) == core.ObfPath {
					walk(callee)
				}
				for _, arg := range ci.Common().Args {
					if mc, ok := arg.(*ssa.MakeClosure); ok {
						if t, ok := mc.Fn.(*ssa.Function); ok {
							walk(t)
						}
					}
				}
			}
		})
	}
	for _, e := range a.entries {
		walk(e)
	}
	var bad []string
	for f := range reach {
		core.EachCall(f, func(ci ssa.CallInstruction) {
			fo := core.CalleeObj(ci)
			if fo == nil || fo.Pkg() == nil {
				return
			}
			switch pp := fo.Pkg().Path(); {
			case pp == "math/rand" || pp == "math/rand/v2" || pp == "crypto/rand":
				bad = append(bad, fmt.Sprintf("%s: %s.%s", p.Pos(ci.Pos()), pp, fo.Name()))
			case pp == "time" && (fo.Name() == "Now" || fo.Name() == "Since"):
				bad = append(bad, fmt.Sprintf("%s: time.%s", p.Pos(ci.Pos()), fo.Name()))
			case pp == "github.com/cyrildever/feistel" && strings.HasPrefix(fo.Name(), "New"):
				bad = append(bad, fmt.Sprintf("%s: a new cipher per call", p.Pos(ci.Pos())))
			}
		})
		// package-level variables on the processing path (state shared by all instances)
		core.EachInstr(f, func(i ssa.Instruction) {
			for _, op := range i.Operands(nil) {
				if op == nil || *op == nil {
					continue
				}
				if g, ok := (*op).(*ssa.Global); ok && g.Pkg != nil && g.Pkg.Pkg.Path() == core.ObfPath {
					if isErr(g.Type().(*types.Pointer).Elem()) {
						continue
					}
					bad = append(bad, fmt.Sprintf("%s: package-level variable %s used while processing (shared by every processor instance, each with its own key)", p.Pos(i.Pos()), g.Name()))
				}
			}
		})
		// writes to instance fields on the processing path (state carried between calls)
		core.EachInstr(f, func(i ssa.Instruction) {
			if s, ok := i.(*ssa.Store); ok {
				if fa, ok := s.Addr.(*ssa.FieldAddr); ok {
					if n := core.NamedOf(fa.X.Type()); n != nil && n.Obj() == a.typ.Obj() {
						bad = append(bad, fmt.Sprintf("%s: instance field %s written while processing", p.Pos(s.Pos()), core.FieldName(fa)))
					}
				}
			}
			if mu, ok := i.(*ssa.MapUpdate); ok {
				if fa := core.LoadedField(mu.Map); fa != nil {
					if n := core.NamedOf(fa.X.Type()); n != nil && n.Obj() == a.typ.Obj() {
						bad = append(bad, fmt.Sprintf("%s: instance map %s updated while processing", p.Pos(mu.Pos()), core.FieldName(fa)))
					}
				}
			}
		})
	}
	sort.Strings(bad)
	c.Check(len(bad) == 0, "deterministic", p.Pos(a.entries[0].Pos()), "", fmt.Sprintf("%d functions reachable from the process functions use no randomness, clock or per-call cipher and keep no state", len(reach)),
		"the processing path is not a pure function of (instance, input): "+strings.Join(bad, ", ")+" — equal inputs can give different substitutes")
	// helpers: result derives from Encrypt(source) or from source itself
	for _, h := range a.encHelpers {
		src := h.Params[a.encSrcIdx[h]]
		var encCall *ssa.Call
		core.EachInstr(h, func(i ssa.Instruction) {
			if cl, ok := i.(*ssa.Call); ok && core.IsMethodOf(core.CalleeObj(cl), "github.com/cyrildever/feistel", "", "Encrypt") {
				encCall = cl
			}
		})
		var msgs []string
		if encCall == nil || encCall.Call.Args[len(encCall.Call.Args)-1] != ssa.Value(src) {
			msgs = append(msgs, "Encrypt is not applied to the helper's own argument")
		}
		if encCall != nil {
			isCipher := func(v ssa.Value) bool {
				fa, ok := v.(*ssa.FieldAddr)
				return ok && core.FieldVar(fa) == a.cipherF
			}
			onInstance := core.DerivesFrom(encCall.Call.Args[0], isCipher)
			recv := core.Canon(encCall.Call.Args[0])
			if u, ok := recv.(*ssa.UnOp); ok && u.Op == token.MUL {
				recv = core.Canon(u.X) // a value receiver: the cipher is loaded through the pointer parameter
			}
			if par, isP := recv.(*ssa.Parameter); !onInstance && isP {
				// a package function that is handed the cipher: every call site passes the instance's
				idx, sites := -1, 0
				for k, q := range h.Params {
					if q == par {
						idx = k
					}
				}
				onInstance = idx >= 0
				for _, g := range obfFuncs(c, p) {
					core.EachInstr(g, func(i ssa.Instruction) {
						if cl, ok := i.(*ssa.Call); ok && cl.Call.StaticCallee() == h && idx >= 0 {
							sites++
							if !core.DerivesFrom(cl.Call.Args[idx], isCipher) {
								onInstance = false
							}
						}
					})
				}
				if sites == 0 {
					onInstance = false
				}
			}
			if !onInstance {
				msgs = append(msgs, "Encrypt is not called on the instance's cipher")
			}
		}
		for _, r := range core.Returns(h) {
			if len(r.Results) >= 2 {
				// a (value, ok) / (value, err) helper: on its failure returns the value is not meant to be used,
				// and the wrappers are held to use it only under the success test (see newObfAnchors)
				if k, isC := r.Results[1].(*ssa.Const); isC && !k.IsNil() && k.Value != nil && k.Value.ExactString() == "false" {
					continue
				}
				if isErr(r.Results[1].Type()) && !core.IsNilConst(r.Results[1]) {
					continue
				}
			}
			fromEnc, fromSrc, other := false, false, ""
			core.BackSlice(r.Results[0], func(v ssa.Value) bool {
				switch x := v.(type) {
				case *ssa.Parameter:
					if x == src {
						fromSrc = true
					}
					return false
				case *ssa.Call:
					if x == encCall {
						fromEnc = true
						return false
					}
					f := core.CalleeObj(x)
					if f != nil && f.Pkg() != nil && strings.HasPrefix(f.Pkg().Path(), "github.com/cyrildever/feistel") {
						return true // accessors of the cipher's result type
					}
					if _, isB := x.Call.Value.(*ssa.Builtin); isB {
						return true
					}
					other = fmt.Sprint(f)
					return false
				case *ssa.Global, *ssa.Lookup:
					other = "a stored value"
					return false
				}
				return true
			})
			if other != "" {
				msgs = append(msgs, fmt.Sprintf("%s: the result can come from %s rather than from this instance's cipher applied to the argument", p.Pos(r.Pos()), other))
			}
			if !fromEnc && !fromSrc {
				msgs = append(msgs, fmt.Sprintf("%s: returns something that is neither the cipher's output nor the input", p.Pos(r.Pos())))
			}
			if fromEnc {
				// no further transformation by package code: only methods of the feistel result type
				core.BackSlice(r.Results[0], func(v ssa.Value) bool {
					if cl, ok := v.(*ssa.Call); ok && cl != encCall {
						f := core.CalleeObj(cl)
						if f == nil || f.Pkg() == nil || !strings.HasPrefix(f.Pkg().Path(), "github.com/cyrildever/feistel") {
							msgs = append(msgs, fmt.Sprintf("%s: the cipher's output is post-processed by %v (may break length preservation/injectivity)", p.Pos(cl.Pos()), f))
						}
						return true
					}
					return true
				})
			}
		}
		c.Check(len(msgs) == 0, "helper="+core.FuncName(h), p.Pos(h.Pos()), core.FuncName(h), "returns the cipher's output for its argument, or the argument itself on error", strings.Join(msgs, "; "))
	}
	// wrappers were admitted by the same criterion (newObfAnchors): one obligation each, so that the evidence lists them
	for _, w := range a.encWrappers {
		c.OK("wrapper="+core.FuncName(w), p.Pos(w.Pos()), core.FuncName(w), "every result is a cipher helper's result for the wrapper's own argument (used under the helper's success test) or that argument")
	}
}

// yieldProcessesAttrs: the loop body (a yield closure) hands Attributes() of its element to a package function.
func yieldProcessesAttrs(yield *ssa.Function) bool {
	res := false
	for _, f := range core.WithClosures(yield) {
		core.EachInstr(f, func(i ssa.Instruction) {
			cl, ok := i.(*ssa.Call)
			if !ok {
				return
			}
			callee := cl.Call.StaticCallee()
			if callee == nil || core.FnPkgPath(callee) != core.ObfPath {
				return
			}
			for _, arg := range cl.Call.Args {
				if g, ok := core.Canon(arg).(*ssa.Call); ok && pdataCallee(g) != nil && pdataCallee(g).Name() == "Attributes" {
					res = true
				}
			}
		})
	}
	return res
}

func c17_7(c *core.Ctx, p *core.Prog) {
	a := newObfAnchors(p)
	if !a.ok(c) {
		return
	}
	// the traversal is unconditional: every path of an entry point to a return reads the top-level resource list
	// of its argument (no "nothing to do" shortcut keyed on record counts: resource and scope attributes are
	// targets whether or not records sit below them)
	for _, e := range a.entries {
		var top *ssa.Call
		core.EachInstr(e, func(i ssa.Instruction) {
			cl, ok := i.(*ssa.Call)
			if !ok || top != nil {
				return
			}
			if f := pdataCallee(cl); f != nil && strings.HasPrefix(f.Name(), "Resource") && len(cl.Call.Args) == 1 {
				for _, pr := range e.Params {
					if cl.Call.Args[0] == ssa.Value(pr) || core.Canon(cl.Call.Args[0]) == ssa.Value(pr) {
						top = cl
					}
				}
			}
		})
		key := "entry|" + core.FuncName(e)
		if top == nil {
			c.Undecided(key, p.Pos(e.Pos()), core.FuncName(e), "top-level resource list of the argument not found")
			continue
		}
		skip, _ := (core.PathQuery{Fn: e, Avoid: func(i ssa.Instruction) bool { return i == ssa.Instruction(top) }, ExitReturnOnly: true}).Exists()
		c.Check(!skip, key, p.Pos(top.Pos()), core.FuncName(e), "every path through the entry point traverses the resources",
			"the entry point can return without traversing the resources of its argument (an early 'nothing to obfuscate' return): resource and scope attributes of a batch without records go out in clear text, and one instance maps the same string to its substitute in one call and to itself in the next")
	}
	// the rewriters are unconditional too: a function that rebuilds a container it was given and writes the
	// rebuilt copy back (cpy.CopyTo(param)) does so on every path to a return — an early return (cancelled
	// context, "nothing listed", …) forwards the original strings with a nil error
	for _, fn := range obfFuncs(c, p) {
		if core.IsCanaryPath(core.FnPkgPath(fn)) || fn.Parent() != nil {
			continue
		}
		for _, pr := range fn.Params {
			if !isPdataType(pr.Type()) || (core.TypeName(pr.Type()) != "Map" && core.TypeName(pr.Type()) != "Slice") {
				continue
			}
			var wb *ssa.Call
			core.EachInstr(fn, func(i ssa.Instruction) {
				cl, ok := i.(*ssa.Call)
				if !ok {
					return
				}
				if f := pdataCallee(cl); f != nil && f.Name() == "CopyTo" && len(cl.Call.Args) == 2 && core.Canon(cl.Call.Args[1]) == ssa.Value(pr) {
					wb = cl
				}
			})
			if wb == nil {
				continue
			}
			key := "rewriter|" + core.FuncName(fn)
			skip, _ := (core.PathQuery{Fn: fn, Avoid: func(i ssa.Instruction) bool { return i == ssa.Instruction(wb) }, ExitReturnOnly: true}).Exists()
			c.Check(!skip, key, p.Pos(wb.Pos()), core.FuncName(fn), "every path through the rewriter writes the rebuilt container back",
				"the rewriter can return without rebuilding the container it was given (an early return in front of the rewrite): the original strings are forwarded unobfuscated, with no error, and the same instance maps one string to its substitute in one call and to itself in another")
		}
	}
	// every X.At(i) in the package: i ranges over [0, X.Len())
	n := 0
	for _, fn := range obfFuncs(c, p) {
		if core.IsCanaryPath(core.FnPkgPath(fn)) {
			continue
		}
		core.EachInstr(fn, func(i ssa.Instruction) {
			cl, ok := i.(*ssa.Call)
			if !ok {
				return
			}
			f := pdataCallee(cl)
			if f == nil || f.Name() != "At" || len(cl.Call.Args) != 2 {
				return
			}
			n++
			lbl := valueLabel(cl.Call.Args[0])
			key := fmt.Sprintf("at#%d|%s@%s", n, lbl, core.FuncName(fn))
			pos := p.Pos(cl.Pos())
			phi, off, ok := core.AffineIn(cl.Call.Args[1])
			if !ok {
				c.Undecided(key, pos, core.FuncName(fn), "index form not recognised")
				return
			}
			ind, ok := core.InductionOf(phi)
			if !ok {
				c.Undecided(key, pos, core.FuncName(fn), "loop form not recognised")
				return
			}
			bl, isLen := core.StripConv(ind.BoundV).(*ssa.Call)
			if !isLen || pdataCallee(bl) == nil || pdataCallee(bl).Name() != "Len" || valueLabel(bl.Call.Args[0]) != lbl {
				c.Viol(key, pos, core.FuncName(fn), fmt.Sprintf("the loop over %s is not bounded by %s.Len(): some elements are not visited (or the index runs past the end)", lbl, lbl))
				return
			}
			lo := ind.Init + off
			hi := -ind.A + off
			cmp, _ := ind.Cond.Cond.(*ssa.BinOp)
			okOp := cmp != nil && (cmp.Op == token.LSS || cmp.Op == token.GTR || cmp.Op == token.NEQ)
			c.Check(lo == 0 && hi == 0 && okOp && ind.BodyArm, key, pos, core.FuncName(fn), "visits elements [0, Len())",
				fmt.Sprintf("the loop over %s visits elements [%d, Len()%+d): the strings of the other elements are not obfuscated", lbl, lo, hi))
		})
	}
	// metric type switch covers all data-bearing types and applies the attribute processor to each
	var all = map[int64]string{}
	if mt := p.Pkg(core.PdataPath + "/pmetric"); mt != nil {
		for _, name := range mt.Types.Scope().Names() {
			if cst, ok := mt.Types.Scope().Lookup(name).(*types.Const); ok && core.TypeName(cst.Type()) == "MetricType" {
				if v, ok := constantInt(cst); ok && v != 0 {
					all[v] = strings.TrimPrefix(name, "MetricType")
				}
			}
		}
	}
	for _, fn := range obfFuncs(c, p) {
		cases := map[int64]*ssa.If{}
		core.EachInstr(fn, func(i ssa.Instruction) {
			iff, ok := i.(*ssa.If)
			if !ok {
				return
			}
			b, ok := iff.Cond.(*ssa.BinOp)
			if !ok || b.Op != token.EQL || core.TypeName(b.X.Type()) != "MetricType" {
				return
			}
			if k, ok := core.ConstInt(b.Y); ok {
				cases[k] = iff
			}
		})
		if len(cases) == 0 {
			continue
		}
		for k, name := range all {
			key := "metrictype=" + name + "@" + core.FuncName(fn)
			iff := cases[k]
			if iff == nil {
				c.Viol(key, p.Pos(fn.Pos()), core.FuncName(fn), "data points of metric type "+name+" are not visited: their attribute strings are not obfuscated")
				continue
			}
			// the arm processes dp.Attributes() of this type's data points
			okArm := false
			core.EachInstr(fn, func(i ssa.Instruction) {
				cl, ok := i.(*ssa.Call)
				if !ok || !core.GuardedBy(iff, true, cl) {
					return
				}
				callee := cl.Call.StaticCallee()
				if callee == nil || core.FnPkgPath(callee) != core.ObfPath {
					return
				}
				for _, arg := range cl.Call.Args {
					if g, ok := arg.(*ssa.Call); ok && pdataCallee(g) != nil && pdataCallee(g).Name() == "Attributes" {
						_, chain := pdataChain(g)
						for _, m := range chain {
							if m == name {
								okArm = true
							}
						}
						if strings.Contains(valueLabel(g), "."+name+"()") {
							okArm = true
						}
					}
				}
			})
			// delegated form: the arm hands this type's data points (or the metric's X() value) to a package helper —
			// possibly one generic helper for all five types — that processes the attributes of what it is handed
			if !okArm {
				core.EachInstr(fn, func(i ssa.Instruction) {
					cl, ok := i.(*ssa.Call)
					if !ok || okArm || !core.GuardedBy(iff, true, cl) {
						return
					}
					callee := cl.Call.StaticCallee()
					if callee == nil || core.FnPkgPath(callee) != core.ObfPath || len(callee.Blocks) == 0 {
						return
					}
					for k, arg := range cl.Call.Args {
						g, ok := core.Canon(arg).(*ssa.Call)
						if !ok || pdataCallee(g) == nil || !strings.Contains(valueLabel(g)+"()", "."+name+"()") || k >= len(callee.Params) {
							continue
						}
						if processesAttrsOf(callee, callee.Params[k], 0) {
							okArm = true
						}
					}
				})
			}
			// iterator form: `for _, dp := range metric.X().DataPoints().All() { … dp.Attributes() … }` — the body is a
			// yield closure handed to the iterator
			if !okArm {
				core.EachInstr(fn, func(i ssa.Instruction) {
					cl, ok := i.(*ssa.Call)
					if !ok || !core.GuardedBy(iff, true, cl) || len(cl.Call.Args) != 1 {
						return
					}
					it, ok := cl.Call.Value.(*ssa.Call)
					if !ok || pdataCallee(it) == nil || pdataCallee(it).Name() != "All" {
						return
					}
					if !strings.Contains(valueLabel(it), "."+name+"()") {
						return
					}
					mc, ok := cl.Call.Args[0].(*ssa.MakeClosure)
					if !ok {
						return
					}
					yield, _ := mc.Fn.(*ssa.Function)
					if yield != nil && yieldProcessesAttrs(yield) {
						okArm = true
					}
				})
			}
			c.Check(okArm, key, p.Pos(iff.Cond.Pos()), core.FuncName(fn), name+" data points have their attributes processed", "the "+name+" arm does not process the attributes of "+name+" data points")
		}
	}
	// every attribute map of the data model is handed to the attribute processor: count call sites by owner type
	owners := map[string]bool{}
	var allFns []*ssa.Function
	seenFn := map[*ssa.Function]bool{}
	for _, top := range obfFuncs(c, p) {
		for _, f := range core.WithClosures(top) { // bodies of range-over-func loops are closures
			if !seenFn[f] {
				seenFn[f] = true
				allFns = append(allFns, f)
			}
		}
	}
	for _, fn := range allFns {
		core.EachInstr(fn, func(i ssa.Instruction) {
			cl, ok := i.(*ssa.Call)
			if !ok {
				return
			}
			callee := cl.Call.StaticCallee()
			if callee == nil || core.FnPkgPath(callee) != core.ObfPath {
				return
			}
			for _, arg := range cl.Call.Args {
				if g, ok := core.Canon(arg).(*ssa.Call); ok && pdataCallee(g) != nil && pdataCallee(g).Name() == "Attributes" {
					owners[core.RecvNamed(pdataCallee(g)).Obj().Name()] = true
				}
			}
		})
	}
	for _, need := range []string{"Resource", "InstrumentationScope", "Span", "SpanEvent", "SpanLink", "LogRecord", "NumberDataPoint", "HistogramDataPoint", "ExponentialHistogramDataPoint", "SummaryDataPoint"} {
		c.Check(owners[need], "attrs-of="+need, "collector/processor/obfuscationprocessor", "", "attributes of "+need+" are processed", "attributes of "+need+" are never handed to the attribute processor: their strings stay readable")
	}
}

// processesAttrsOf: h (or a package function it hands prm on to) passes X.Attributes() to a function of the
// obfuscation package, with X derived from parameter prm (an element of the slice, the value itself).
func processesAttrsOf(h *ssa.Function, prm *ssa.Parameter, depth int) bool {
	found := false
	for _, f := range core.WithClosures(h) {
		core.EachInstr(f, func(i ssa.Instruction) {
			cl, ok := i.(*ssa.Call)
			if !ok || found {
				return
			}
			callee := cl.Call.StaticCallee()
			if callee == nil || core.FnPkgPath(callee) != core.ObfPath {
				return
			}
			fromPrm := func(v ssa.Value) bool {
				return core.DerivesFrom(v, func(x ssa.Value) bool { return x == ssa.Value(prm) })
			}
			for k, arg := range cl.Call.Args {
				if g, ok := core.Canon(arg).(*ssa.Call); ok && pdataCallee(g) != nil && pdataCallee(g).Name() == "Attributes" && len(g.Call.Args) > 0 && fromPrm(g.Call.Args[0]) {
					found = true
					return
				}
				if depth < 2 && k < len(callee.Params) && len(callee.Blocks) > 0 && fromPrm(arg) && isPdataType(arg.Type()) && processesAttrsOf(callee, callee.Params[k], depth+1) {
					found = true
					return
				}
			}
		})
	}
	return found
}
