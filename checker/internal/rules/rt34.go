package rules

import (
	"fmt"
	"go/types"
	"sort"
	"strings"

	"golang.org/x/tools/go/ssa"

	"otelcheck/internal/core"
)

// RT.34 — every related-data store of a decoder is filled by one payload and
// read by its consumers.
//
// The decoder of a batch keeps one store per related payload type in its
// RelatedData struct (attribute stores per entity, event / link / data point /
// exemplar stores).  Each store is created by the constructor, filled from the
// payload of its own type (`…StoreFrom(record, relatedData.X)` in the dispatch
// on the payload type) and read when the main record is decoded.  A store
// filled from two payload types mixes the rows of both under ids that are only
// unique per payload (an exemplar of a histogram picks up the attributes of an
// exponential histogram's exemplar); a store that nothing reads means its
// payload is decoded into another one.  Sibling fields of one type make both
// mistakes type-check.
//
// Rule: per field of a RelatedData struct whose type is a pointer to a store:
// at most one fill site (a call of a `…StoreFrom` function with the field as
// argument) and at least one load outside the constructor.

func rt_34(c *core.Ctx, p *core.Prog) {
	for path, pk := range p.ByPath {
		if !strings.HasSuffix(path, "/otlp") || !core.InRepo(path) || core.IsCanaryPath(path) {
			continue
		}
		tn, ok := pk.Types.Scope().Lookup("RelatedData").(*types.TypeName)
		if !ok {
			continue
		}
		named, _ := tn.Type().(*types.Named)
		st, ok := named.Underlying().(*types.Struct)
		if !ok {
			continue
		}
		fns := p.FuncsIn(func(pp string) bool { return pp == path })
		type use struct{ fills, loads []string }
		uses := map[*types.Var]*use{}
		var fields []*types.Var
		for k := 0; k < st.NumFields(); k++ {
			f := st.Field(k)
			pt, ok := f.Type().(*types.Pointer)
			if !ok || !strings.Contains(core.TypeName(pt.Elem()), "Store") {
				continue
			}
			uses[f] = &use{}
			fields = append(fields, f)
		}
		for _, top := range fns {
			for _, fn := range core.WithClosures(top) {
				core.EachInstr(fn, func(i ssa.Instruction) {
					u, ok := i.(*ssa.UnOp)
					if !ok {
						return
					}
					fa := core.LoadedField(u)
					if fa == nil || uses[core.FieldVar(fa)] == nil {
						return
					}
					us := uses[core.FieldVar(fa)]
					us.loads = append(us.loads, p.Pos(u.Pos()))
					for _, r := range core.Referrers(u) {
						cl, ok := r.(*ssa.Call)
						if !ok {
							continue
						}
						f := core.CalleeObj(cl)
						if f == nil || !strings.HasSuffix(f.Name(), "StoreFrom") {
							continue
						}
						// the destination of an attribute fill: AttributesStoreFrom(record, store); a store passed to the
						// builder of another store (ExemplarsStoreFrom(record, attrsStore)) is a read
						sig := f.Type().(*types.Signature)
						if sig.Results().Len() == 1 && isErr(sig.Results().At(0).Type()) {
							us.fills = append(us.fills, p.Pos(cl.Pos()))
						}
					}
				})
			}
		}
		sort.Slice(fields, func(i, j int) bool { return fields[i].Name() < fields[j].Name() })
		for _, f := range fields {
			us := uses[f]
			key := fmt.Sprintf("store=%s.%s", strings.TrimPrefix(path, core.RepoPath+"/"), f.Name())
			pos := p.Pos(f.Pos())
			switch {
			case len(us.fills) > 1:
				c.Viol(key, pos, "RelatedData", fmt.Sprintf("the store %s is filled from %d payload arms (%s): rows of two payload types are mixed under ids that are unique per payload only, so an entity picks up the related rows of another kind of entity", f.Name(), len(us.fills), strings.Join(us.fills, ", ")))
			case len(us.loads) == 0:
				c.Viol(key, pos, "RelatedData", fmt.Sprintf("the store %s is created but nothing reads it: the payload meant for it is decoded into another store (or not at all)", f.Name()))
			default:
				c.OK(key, pos, "RelatedData", fmt.Sprintf("filled at %d site(s), read at %d", len(us.fills), len(us.loads)))
			}
		}
	}
}

func init() {
	for _, prop := range []string{"C01", "C02", "C03"} {
		register(prop, &core.Rule{ID: "RT.34", Title: "every related-data store of a decoder is filled from one payload type and read by its consumers", Mod: core.ModRoot, Floor: 3, FloorBy: map[string]int{"C03": 10}, Run: rt_34})
	}
}
