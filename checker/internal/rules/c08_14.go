package rules

import (
	"fmt"
	"go/types"

	"golang.org/x/tools/go/ssa"

	"otelcheck/internal/core"
)

// C08.14 (= RT.31) — every attempt of the rebuild loop starts from empty
// related-data accumulators.
//
// The producer converts one OTLP value in a loop: obtain the entity builder,
// Append the value, Build; when Build answers "schema not up to date" the loop
// runs again on the same value.  Append feeds the related-data accumulators
// (attributes, events, links, data points), so each attempt must begin by
// resetting them: an attempt that starts on the leftovers of the previous one
// appends every row twice, the 16-bit id counters are consumed once per attempt
// (a batch within the protocol limit is refused or crashes after a retry) and,
// where the decoder does not collapse the duplicates, rows come back twice.
//
// Rule: in the function that calls Append and Build of an entity builder inside
// a loop, every path from the loop header to the Append passes a reset of the
// related data — directly, or by calling the builder factory it was given, in
// which case every function value passed for that parameter resets the related
// data on every path to its return.

func isRelatedReset(i ssa.Instruction) bool {
	ci, ok := i.(ssa.CallInstruction)
	if !ok {
		return false
	}
	com := ci.Common()
	name := ""
	var recv ssa.Value
	if com.IsInvoke() {
		name, recv = com.Method.Name(), com.Value
	} else if f := core.CalleeObj(ci); f != nil && len(com.Args) > 0 {
		name, recv = f.Name(), com.Args[0]
	}
	if name != "Reset" || recv == nil {
		return false
	}
	return isRelatedDataValue(recv, 0)
}

// relResetProg: the program under analysis (set by the rule; used to find the call sites of a helper).
var relResetProg *core.Prog

// isRelatedDataValue: v is what a RelatedData() accessor returned — directly, or as the parameter of a helper
// every call site of which passes such a value.
func isRelatedDataValue(v ssa.Value, depth int) bool {
	return core.DerivesFrom(v, func(x ssa.Value) bool {
		switch y := x.(type) {
		case *ssa.Call:
			if y.Call.IsInvoke() {
				return y.Call.Method.Name() == "RelatedData"
			}
			f := core.CalleeObj(y)
			return f != nil && f.Name() == "RelatedData"
		case *ssa.Parameter:
			if relResetProg == nil || depth > 2 || y.Parent() == nil {
				return false
			}
			idx := -1
			for k, q := range y.Parent().Params {
				if q == y {
					idx = k
				}
			}
			sites, all := 0, true
			for _, g := range arrowRecordFuncs(relResetProg) {
				core.EachCall(g, func(ci ssa.CallInstruction) {
					callee := ci.Common().StaticCallee()
					// the body of a generic helper is looked at once, uninstantiated: its call sites name its instances
					if callee == nil || (callee != y.Parent() && callee.Origin() != y.Parent()) || idx < 0 || idx >= len(ci.Common().Args) {
						return
					}
					sites++
					if !isRelatedDataValue(ci.Common().Args[idx], depth+1) {
						all = false
					}
				})
			}
			return sites > 0 && all
		}
		return false
	})
}

// alwaysResetsRelated: every path of fn to a return resets the related data, itself or
// through a repository function it calls (a bound method value, a helper).
func alwaysResetsRelated(fn *ssa.Function, depth int) bool {
	if fn == nil || len(fn.Blocks) == 0 || depth > 3 {
		return false
	}
	miss, _ := (core.PathQuery{Fn: fn, ExitReturnOnly: true, Avoid: func(i ssa.Instruction) bool {
		if isRelatedReset(i) {
			return true
		}
		ci, ok := i.(ssa.CallInstruction)
		if !ok {
			return false
		}
		if _, isGo := i.(*ssa.Go); isGo {
			return false
		}
		callee := ci.Common().StaticCallee()
		return callee != nil && core.InRepo(core.FnPkgPath(callee)) && alwaysResetsRelated(callee, depth+1)
	}}).Exists()
	return !miss
}

func c08_14(c *core.Ctx, p *core.Prog) {
	n := 0
	relResetProg = p
	for _, fn := range arrowRecordFuncs(p) {
		if fn.Synthetic != "" && fn.Origin() == nil {
			continue
		}
		// the rebuild loop: an invoke of Append and an invoke of Build on the same interface value inside a loop
		var app *ssa.Call
		core.EachInstr(fn, func(i ssa.Instruction) {
			cl, ok := i.(*ssa.Call)
			if !ok || !cl.Call.IsInvoke() || cl.Call.Method.Name() != "Append" {
				return
			}
			hasBuild := false
			for _, r := range core.Referrers(cl.Call.Value) {
				if b, ok := r.(*ssa.Call); ok && b.Call.IsInvoke() && b.Call.Method.Name() == "Build" {
					hasBuild = true
				}
			}
			if hasBuild {
				app = cl
			}
		})
		if app == nil {
			continue
		}
		var header *ssa.BasicBlock
		var body map[*ssa.BasicBlock]bool
		for h, bd := range loopsOf(fn) {
			if bd[app.Block()] && (body == nil || len(bd) > len(body)) {
				header, body = h, bd
			}
		}
		if header == nil {
			continue
		}
		if fn.Origin() != nil && n > 0 {
			continue // one instantiation of the generic function is enough
		}
		n++
		key := "attempt|fn=" + core.FuncName(fn)
		pos := p.Pos(app.Pos())
		// factory parameters (function-typed) called on the way
		var factory *ssa.Parameter
		isFactoryCall := func(i ssa.Instruction) bool {
			cl, ok := i.(*ssa.Call)
			if !ok {
				return false
			}
			prm, ok := cl.Call.Value.(*ssa.Parameter)
			if !ok {
				return false
			}
			if _, isSig := prm.Type().Underlying().(*types.Signature); !isSig {
				return false
			}
			factory = prm
			return true
		}
		first := header.Instrs[0]
		skip, _ := (core.PathQuery{Fn: fn, From: first, To: app, Avoid: func(i ssa.Instruction) bool { return isRelatedReset(i) || isFactoryCall(i) }}).Exists()
		if first == ssa.Instruction(app) {
			skip = true
		}
		if skip {
			c.Viol(key, pos, core.FuncName(fn), "an attempt of the rebuild loop can reach Append without the related data having been reset in that attempt: after a 'schema not up to date' answer every related row is appended a second time (ids consumed twice, duplicated rows)")
			continue
		}
		if factory == nil {
			c.OK(key, pos, core.FuncName(fn), "every attempt resets the related data before Append")
			continue
		}
		// every function value passed for the factory parameter resets on every path
		idx := -1
		for k, q := range fn.Params {
			if q == factory {
				idx = k
			}
		}
		orig := fn
		if fn.Origin() != nil {
			orig = fn.Origin()
		}
		sites, bad := 0, ""
		for _, g := range arrowRecordFuncs(p) {
			core.EachCall(g, func(ci ssa.CallInstruction) {
				callee := ci.Common().StaticCallee()
				if callee == nil || (callee != fn && callee.Origin() != orig) || idx < 0 || idx >= len(ci.Common().Args) {
					return
				}
				sites++
				var clo *ssa.Function
				switch a := ci.Common().Args[idx].(type) {
				case *ssa.MakeClosure:
					clo, _ = a.Fn.(*ssa.Function)
				case *ssa.Function:
					clo = a
				}
				if clo == nil {
					bad = fmt.Sprintf("%s: the builder factory passed here is not a function literal", p.Pos(ci.Pos()))
					return
				}
				if !alwaysResetsRelated(clo, 0) {
					bad = fmt.Sprintf("%s: the builder factory passed here can return without resetting the related data (a reset made once before the loop does not cover the retries)", p.Pos(ci.Pos()))
				}
			})
		}
		c.Check(bad == "" && sites > 0, key, pos, core.FuncName(fn),
			fmt.Sprintf("every attempt obtains its builder from a factory that resets the related data (%d call sites)", sites),
			bad+": after a 'schema not up to date' answer the next attempt appends every related row again — the 16-bit id counters are consumed once per attempt, so a batch within the protocol limit is refused or crashes, and rows the decoder does not collapse come back twice")
	}
	if n == 0 {
		c.Undecided("attempt", "?", "", "rebuild loop (Append and Build of an entity builder inside a loop) not found")
	}
}

func init() {
	register("C08", &core.Rule{ID: "C08.14", Title: "every attempt of the rebuild loop starts by resetting the related-data accumulators", Mod: core.ModRoot, Floor: 1, Run: c08_14})
	for _, prop := range []string{"C01", "C02", "C03", "C04"} {
		register(prop, &core.Rule{ID: "RT.31", Title: "every attempt of the rebuild loop starts by resetting the related-data accumulators (a retry does not append the related rows twice)", Mod: core.ModRoot, Floor: 1, Run: c08_14})
	}
}
