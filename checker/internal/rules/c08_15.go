package rules

import (
	"fmt"
	"go/token"
	"go/types"
	"strings"

	"golang.org/x/tools/go/ssa"

	"otelcheck/internal/core"
)

// C08.15 — resource and scope ids are dense.
//
// The `id` columns of the resource and scope structs are delta encoded with a
// maximum delta of 1: the delta builder panics ("delta is greater than max
// delta") on a gap.  The main-record builders therefore number resources and
// scopes with a local counter that starts at -1 and is advanced by one each
// time the sorted rows move to a new resource / scope.  Any other source of
// the id (an index computed elsewhere, e.g. by the optimizer, which also
// numbers resources that contribute no row) can skip a number on valid input.
//
// Rule: every id handed to ResourceBuilder.Append / ScopeBuilder.Append (the
// int64 first parameter) is a loop-carried local whose only definitions are a
// constant initial value and itself plus one.

func c08_15(c *core.Ctx, p *core.Prog) {
	reach := encodeReach(p)
	for _, fn := range sortedFuncs(p, reach) {
		if fn.Synthetic != "" {
			continue
		}
		k := 0
		core.EachInstr(fn, func(i ssa.Instruction) {
			cl, ok := i.(*ssa.Call)
			if !ok {
				return
			}
			f := core.CalleeObj(cl)
			if f == nil || f.Pkg() == nil || f.Pkg().Path() != pkgCommonArrow || f.Name() != "Append" {
				return
			}
			rn := core.RecvNamed(f)
			if rn == nil || (rn.Obj().Name() != "ResourceBuilder" && rn.Obj().Name() != "ScopeBuilder") {
				return
			}
			sig := f.Type().(*types.Signature)
			if sig.Params().Len() == 0 || basicKind(sig.Params().At(0).Type()) != types.Int64 || len(cl.Call.Args) < 2 {
				return
			}
			k++
			key := fmt.Sprintf("dense|fn=%s|%s#%d", core.FuncName(fn), rn.Obj().Name(), k)
			id := cl.Call.Args[1]
			var bad []string
			seen := map[ssa.Value]bool{}
			var phis []*ssa.Phi
			var walk func(v ssa.Value)
			walk = func(v ssa.Value) {
				if seen[v] {
					return
				}
				seen[v] = true
				switch x := v.(type) {
				case *ssa.Phi:
					phis = append(phis, x)
					for _, e := range x.Edges {
						walk(e)
					}
				case *ssa.Const:
				case *ssa.BinOp:
					one, isK := core.ConstInt(x.Y)
					if x.Op == token.ADD && isK && one == 1 {
						walk(x.X)
						return
					}
					bad = append(bad, fmt.Sprintf("%s: computed as %s", p.Pos(x.Pos()), x.String()))
				case *ssa.UnOp:
					// a local kept in a cell (captured by a closure): its stores
					if al, ok := x.X.(*ssa.Alloc); ok && x.Op == token.MUL {
						for _, r := range core.Referrers(al) {
							if st, ok := r.(*ssa.Store); ok && st.Addr == ssa.Value(al) {
								walk(st.Val)
							}
						}
						return
					}
					bad = append(bad, fmt.Sprintf("%s: read from %s", p.Pos(x.Pos()), core.AccessPath(x)))
				default:
					pos := "?"
					if ins, ok := v.(ssa.Instruction); ok {
						pos = p.Pos(ins.Pos())
					}
					bad = append(bad, fmt.Sprintf("%s: taken from %s", pos, strings.TrimSpace(v.String())))
				}
			}
			walk(id)
			c.Check(len(bad) == 0 && len(phis) > 0, key, p.Pos(cl.Pos()), core.FuncName(fn),
				"the id is a local counter advanced by one",
				"the id handed to "+rn.Obj().Name()+".Append is not a local counter that only ever advances by one ("+strings.Join(bad, "; ")+"): its column is delta encoded with a maximum delta of 1, so a skipped number — e.g. an index that also counts resources or scopes without rows — makes the producer panic on valid input")
		})
	}
}

func init() {
	register("C08", &core.Rule{ID: "C08.15", Title: "resource and scope ids come from a local counter advanced by one (their columns allow a delta of at most 1)", Mod: core.ModRoot, Floor: 6, Run: c08_15})
}
