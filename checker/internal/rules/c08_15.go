package rules

import (
	"fmt"
	"go/token"
	"go/types"
	"strings"

	"golang.org/x/tools/go/ssa"

	"otelcheck/internal/core"
)

// C08.15 — resource and scope ids are dense.
//
// The `id` columns of the resource and scope structs are delta encoded with a
// maximum delta of 1: the delta builder panics ("delta is greater than max
// delta") on a gap.  The main-record builders therefore number resources and
// scopes with a local counter that starts at -1 and is advanced by one each
// time the sorted rows move to a new resource / scope.  Any other source of
// the id (an index computed elsewhere, e.g. by the optimizer, which also
// numbers resources that contribute no row) can skip a number on valid input.
//
// Rule: every id handed to ResourceBuilder.Append / ScopeBuilder.Append (the
// int64 first parameter) is a loop-carried local whose only definitions are a
// constant initial value and itself plus one.

func c08_15(c *core.Ctx, p *core.Prog) {
	reach := encodeReach(p)
	for _, fn := range sortedFuncs(p, reach) {
		if fn.Synthetic != "" {
			continue
		}
		k := 0
		core.EachInstr(fn, func(i ssa.Instruction) {
			cl, ok := i.(*ssa.Call)
			if !ok {
				return
			}
			f := core.CalleeObj(cl)
			if f == nil || f.Pkg() == nil || f.Pkg().Path() != pkgCommonArrow || f.Name() != "Append" {
				return
			}
			rn := core.RecvNamed(f)
			if rn == nil || (rn.Obj().Name() != "ResourceBuilder" && rn.Obj().Name() != "ScopeBuilder") {
				return
			}
			sig := f.Type().(*types.Signature)
			if sig.Params().Len() == 0 || basicKind(sig.Params().At(0).Type()) != types.Int64 || len(cl.Call.Args) < 2 {
				return
			}
			k++
			key := fmt.Sprintf("dense|fn=%s|%s#%d", core.FuncName(fn), rn.Obj().Name(), k)
			id := cl.Call.Args[1]
			var bad []string
			seen := map[ssa.Value]bool{}
			var phis []*ssa.Phi
			cellInc := false
			var walk func(v ssa.Value)
			walk = func(v ssa.Value) {
				if seen[v] {
					return
				}
				seen[v] = true
				switch x := v.(type) {
				case *ssa.Phi:
					phis = append(phis, x)
					for _, e := range x.Edges {
						walk(e)
					}
				case *ssa.Const:
				case *ssa.BinOp:
					one, isK := core.ConstInt(x.Y)
					if x.Op == token.ADD && isK && one == 1 {
						walk(x.X)
						return
					}
					bad = append(bad, fmt.Sprintf("%s: computed as %s", p.Pos(x.Pos()), x.String()))
				case *ssa.UnOp:
					// a field of a local struct (`res := newTracker(); … res.enter(key) …; res.id`): its definitions are the
					// field stores in this function, the literal of the constructor the struct was made with, and the
					// stores in the methods called on it (where a load of the same field is the counter itself)
					if fa, ok := x.X.(*ssa.FieldAddr); ok && x.Op == token.MUL {
						if al, ok := core.Strip(fa.X).(*ssa.Alloc); ok {
							defs, inc, why := fieldCellDefs(al, fa.Field)
							if why != "" {
								bad = append(bad, fmt.Sprintf("%s: %s", p.Pos(x.Pos()), why))
								return
							}
							if inc {
								cellInc = true
							}
							for _, d := range defs {
								walk(d)
							}
							return
						}
					}
					// a local kept in a cell (captured by a closure): its stores
					if al, ok := x.X.(*ssa.Alloc); ok && x.Op == token.MUL {
						for _, r := range core.Referrers(al) {
							if st, ok := r.(*ssa.Store); ok && st.Addr == ssa.Value(al) {
								walk(st.Val)
							}
						}
						return
					}
					bad = append(bad, fmt.Sprintf("%s: read from %s", p.Pos(x.Pos()), core.AccessPath(x)))
				default:
					pos := "?"
					if ins, ok := v.(ssa.Instruction); ok {
						pos = p.Pos(ins.Pos())
					}
					bad = append(bad, fmt.Sprintf("%s: taken from %s", pos, strings.TrimSpace(v.String())))
				}
			}
			walk(id)
			c.Check(len(bad) == 0 && (len(phis) > 0 || cellInc), key, p.Pos(cl.Pos()), core.FuncName(fn),
				"the id is a local counter advanced by one",
				"the id handed to "+rn.Obj().Name()+".Append is not a local counter that only ever advances by one ("+strings.Join(bad, "; ")+"): its column is delta encoded with a maximum delta of 1, so a skipped number — e.g. an index that also counts resources or scopes without rows — makes the producer panic on valid input")
		})
	}
}

func init() {
	register("C08", &core.Rule{ID: "C08.15", Title: "resource and scope ids come from a local counter advanced by one (their columns allow a delta of at most 1)", Mod: core.ModRoot, Floor: 6, Run: c08_15})
}

// fieldCellDefs: the values that field #field of the local struct al can be given, other than "itself plus one":
// constants of the constructor literal, values stored in this function. inc reports that some definition is the
// field itself plus one (here or in a method called on the struct). why is non-empty when a definition has another form.
func fieldCellDefs(al *ssa.Alloc, field int) (defs []ssa.Value, inc bool, why string) {
	isSelfPlusOne := func(v ssa.Value, self func(ssa.Value) bool) bool {
		b, ok := v.(*ssa.BinOp)
		if !ok || b.Op != token.ADD {
			return false
		}
		one, isK := core.ConstInt(b.Y)
		return isK && one == 1 && self(b.X)
	}
	selfHere := func(v ssa.Value) bool {
		u, ok := v.(*ssa.UnOp)
		if !ok || u.Op != token.MUL {
			return false
		}
		fa, ok := u.X.(*ssa.FieldAddr)
		return ok && fa.Field == field && core.Strip(fa.X) == ssa.Value(al)
	}
	for _, r := range core.Referrers(al) {
		switch x := r.(type) {
		case *ssa.FieldAddr:
			if x.Field != field {
				continue
			}
			for _, r2 := range core.Referrers(x) {
				if st, ok := r2.(*ssa.Store); ok && st.Addr == ssa.Value(x) {
					if isSelfPlusOne(st.Val, selfHere) {
						inc = true
					} else {
						defs = append(defs, st.Val)
					}
				}
			}
		case *ssa.Store:
			if x.Addr != ssa.Value(al) {
				continue
			}
			// the whole struct: a constructor's literal
			cl, ok := x.Val.(*ssa.Call)
			if !ok || cl.Call.StaticCallee() == nil || len(cl.Call.StaticCallee().Blocks) == 0 {
				if _, isC := x.Val.(*ssa.Const); isC {
					continue // zero value
				}
				return nil, false, "the struct holding the counter is assigned as a whole from something other than a constructor"
			}
			h := cl.Call.StaticCallee()
			for _, ret := range core.Returns(h) {
				ld, ok := ret.Results[0].(*ssa.UnOp)
				if !ok {
					return nil, false, "the constructor " + h.Name() + " does not return a literal"
				}
				lit, ok := ld.X.(*ssa.Alloc)
				if !ok {
					return nil, false, "the constructor " + h.Name() + " does not return a literal"
				}
				for _, r2 := range core.Referrers(lit) {
					if fa, ok := r2.(*ssa.FieldAddr); ok && fa.Field == field {
						for _, r3 := range core.Referrers(fa) {
							if st, ok := r3.(*ssa.Store); ok && st.Addr == ssa.Value(fa) {
								if _, isC := st.Val.(*ssa.Const); !isC {
									return nil, false, "the constructor " + h.Name() + " initialises the counter with a non-constant"
								}
								defs = append(defs, st.Val)
							}
						}
					}
				}
			}
		case ssa.CallInstruction:
			// a method called on the struct: stores to the field through the parameter that stands for it
			h := x.Common().StaticCallee()
			if h == nil || len(h.Blocks) == 0 {
				for _, a := range x.Common().Args {
					if core.Strip(a) == ssa.Value(al) {
						return nil, false, "the struct holding the counter is handed to a function that cannot be inspected"
					}
				}
				continue
			}
			for k, a := range x.Common().Args {
				if core.Strip(a) != ssa.Value(al) || k >= len(h.Params) {
					continue
				}
				prm := h.Params[k]
				selfThere := func(v ssa.Value) bool {
					u, ok := v.(*ssa.UnOp)
					if !ok || u.Op != token.MUL {
						return false
					}
					fa, ok := u.X.(*ssa.FieldAddr)
					return ok && fa.Field == field && fa.X == ssa.Value(prm)
				}
				bad := ""
				core.EachInstr(h, func(i ssa.Instruction) {
					st, ok := i.(*ssa.Store)
					if !ok {
						return
					}
					fa, ok := st.Addr.(*ssa.FieldAddr)
					if !ok || fa.Field != field || fa.X != ssa.Value(prm) {
						return
					}
					if isSelfPlusOne(st.Val, selfThere) {
						inc = true
					} else if _, isC := st.Val.(*ssa.Const); !isC {
						bad = h.Name() + " assigns the counter something other than itself plus one"
					}
				})
				if bad != "" {
					return nil, false, bad
				}
			}
		}
	}
	return defs, inc, ""
}
