package rules

import (
	"fmt"
	"go/types"
	"os"
	"sort"
	"strings"

	"golang.org/x/tools/go/ssa"

	"otelcheck/internal/core"
)

// C08.11 reset completeness. A per-batch state holder (accumulator, sorter)
// with a Reset method must re-initialise, in Reset, every field its other
// methods write: a field that survives Reset carries the previous batch into
// the next one (a group counter that keeps growing turns the per-batch id limit
// into a per-stream limit; a kept "previous key" corrupts the first delta).
func c08_11(c *core.Ctx, p *core.Prog) {
	reach := encodeReach(p)
	byType := map[*types.Named][]*ssa.Function{}
	for _, fn := range sortedFuncs(p, reach) {
		if fn.Synthetic != "" || fn.Parent() != nil || fn.Signature.Recv() == nil || !encPkg(core.FnPkgPath(fn)) {
			continue
		}
		if n := core.NamedOf(fn.Signature.Recv().Type()); n != nil {
			byType[n] = append(byType[n], fn)
		}
	}
	var ts []*types.Named
	for t := range byType {
		ts = append(ts, t)
	}
	sort.Slice(ts, func(i, j int) bool { return ts[i].Obj().Name() < ts[j].Obj().Name() })
	n := 0
	for _, T := range ts {
		name := T.Obj().Name()
		if !(strings.HasSuffix(name, "Accumulator") || isSorterType(T)) {
			continue
		}
		var reset *ssa.Function
		for _, m := range byType[T] {
			if m.Name() == "Reset" && m.Signature.Params().Len() == 0 {
				reset = m
			}
		}
		if reset == nil {
			continue
		}
		// fields written by the receiver's other methods
		fieldsWritten := func(fn *ssa.Function, depth int) map[*types.Var]bool { return nil }
		var fw func(fn *ssa.Function, depth int, out map[*types.Var]bool)
		fw = func(fn *ssa.Function, depth int, out map[*types.Var]bool) {
			for _, f := range core.WithClosures(fn) {
				core.EachInstr(f, func(i ssa.Instruction) {
					switch x := i.(type) {
					case *ssa.Store:
						if fa, ok := x.Addr.(*ssa.FieldAddr); ok && core.NamedOf(fa.X.Type()) == T {
							out[core.FieldVar(fa)] = true
						}
					case *ssa.Call:
						// a call on a field value (sub-object Reset/clear) re-initialises that field; a call of a sibling method is followed
						if callee := core.StaticCallee(x); callee != nil && depth < 2 && callee.Signature.Recv() != nil && core.NamedOf(callee.Signature.Recv().Type()) == T {
							fw(callee, depth+1, out)
						}
						if recv := core.CallRecv(x); recv != nil {
							if fa := core.LoadedField(recv); fa != nil && core.NamedOf(fa.X.Type()) == T {
								if f := core.CalleeObj(x); f != nil && (f.Name() == "Reset" || f.Name() == "Clear") {
									out[core.FieldVar(fa)] = true
								}
							}
						}
					}
				})
			}
		}
		_ = fieldsWritten
		inReset := map[*types.Var]bool{}
		fw(reset, 0, inReset)
		written := map[*types.Var]string{}
		for _, m := range byType[T] {
			if m == reset {
				continue
			}
			w := map[*types.Var]bool{}
			// only direct stores (no sub-object calls) count as "written"
			for _, f := range core.WithClosures(m) {
				core.EachInstr(f, func(i ssa.Instruction) {
					if st, ok := i.(*ssa.Store); ok {
						if fa, ok := st.Addr.(*ssa.FieldAddr); ok && core.NamedOf(fa.X.Type()) == T {
							w[core.FieldVar(fa)] = true
						}
					}
				})
			}
			for f := range w {
				if _, ok := written[f]; !ok {
					written[f] = m.Name()
				}
			}
		}
		var fs []*types.Var
		for f := range written {
			fs = append(fs, f)
		}
		sort.Slice(fs, func(i, j int) bool { return fs[i].Name() < fs[j].Name() })
		for _, f := range fs {
			n++
			if os.Getenv("OTELCHECK_DEBUG") != "" && !inReset[f] {
				fmt.Println("C08.11", name, f.Name(), "written by", written[f])
			}
			c.Check(inReset[f], fmt.Sprintf("type=%s|field=%s", name, f.Name()), p.Pos(reset.Pos()), core.FuncName(reset),
				fmt.Sprintf("%s.%s (written by %s) is re-initialised by Reset", name, f.Name(), written[f]),
				fmt.Sprintf("%s.Reset does not re-initialise %s, which %s writes: the value of the previous batch survives into the next one (a counter keeps growing until its per-batch limit trips for the whole stream; a kept previous key/value/id corrupts the first delta)", name, f.Name(), written[f]))
		}
	}
	c.Stats["C08.11 reset fields"] = n
}

func isSorterType(T *types.Named) bool {
	has := map[string]bool{}
	ms := types.NewMethodSet(types.NewPointer(T))
	for i := 0; i < ms.Len(); i++ {
		has[ms.At(i).Obj().Name()] = true
	}
	return has["Encode"] && has["Reset"] && has["Sort"]
}

func init() {
	register("C08", &core.Rule{ID: "C08.11", Title: "reset completeness: every field a per-batch accumulator or sorter writes is re-initialised by its Reset", Mod: core.ModRoot, Floor: 20, Run: c08_11})
	for _, prop := range []string{"C01", "C02", "C03"} {
		register(prop, &core.Rule{ID: "RT.21", Title: "reset completeness: every field a per-batch accumulator or sorter writes is re-initialised by its Reset (no state of batch k in batch k+1)", Mod: core.ModRoot, Floor: 5, FloorBy: map[string]int{"C01": 15, "C02": 8, "C03": 15}, Run: c08_11})
	}
}
