package rules

import (
	"fmt"
	"go/token"
	"go/types"

	"golang.org/x/tools/go/ssa"

	"otelcheck/internal/core"
)

// C15.10 (= C12.14) — a stream's IPC writer is replaced only after the old one was released.
//
// An ipc.Writer in dictionary-delta mode keeps the dictionaries it has written; they belong to the caller's allocator
// until Close. The producer's Close (and the eviction of a stream) release the writer a stream producer holds *now*.
// A writer that is overwritten — a "retry with a fresh writer" after a failed write — is out of their reach: its
// memory is never returned, and the bytes of the new writer restart the IPC stream (schema first) under a schema id
// the reader already knows.  Rule: every assignment to a field of type *ipc.Writer in arrow_record is part of a literal
// under construction, or is made where the field was found nil, or is preceded on every path by Close on that field.
func c15_10(c *core.Ctx, p *core.Prog) {
	n := 0
	for _, fn := range arrowRecordFuncs(p) {
		fn := fn
		core.EachInstr(fn, func(i ssa.Instruction) {
			st, ok := i.(*ssa.Store)
			if !ok {
				return
			}
			fa, ok := st.Addr.(*ssa.FieldAddr)
			if !ok {
				return
			}
			fv := core.FieldVar(fa)
			pt, ok := fv.Type().(*types.Pointer)
			if !ok || core.TypeName(pt.Elem()) != "Writer" || core.TypePkgPath(pt.Elem()) != arrowIPC {
				return
			}
			if litRoot(st.Addr) || core.IsNilConst(st.Val) {
				return
			}
			n++
			key := fmt.Sprintf("writer-assign#%d@%s", n, core.FuncName(fn))
			pos := p.Pos(st.Pos())
			// (a) under `field == nil`
			for _, b := range fn.Blocks {
				iff := core.IfOf(b)
				if iff == nil {
					continue
				}
				cmp, ok := iff.Cond.(*ssa.BinOp)
				if !ok || !core.IsNilConst(cmp.Y) || !isFieldLoad(cmp.X, fv) {
					continue
				}
				if (cmp.Op == token.EQL && core.GuardedBy(iff, true, st)) || (cmp.Op == token.NEQ && core.GuardedBy(iff, false, st)) {
					c.OK(key, pos, core.FuncName(fn), "the writer is created where the stream has none")
					return
				}
			}
			// (b) Close on the field on every path to the store
			isClose := func(j ssa.Instruction) bool {
				cl, ok := j.(*ssa.Call)
				if !ok {
					return false
				}
				f := core.CalleeObj(cl)
				return core.IsMethodOf(f, arrowIPC, "Writer", "Close") && len(cl.Call.Args) > 0 && isFieldLoad(cl.Call.Args[0], fv)
			}
			closed := core.MustPassBetween(fn, nil, st, isClose)
			c.Check(closed, key, pos, core.FuncName(fn), "the old writer is closed before it is replaced",
				"the IPC writer of a stream producer is replaced while the old one may still be open (not under a nil test of the field, no Close before): the old writer keeps the dictionaries it wrote — memory of the caller's allocator that Close can no longer reach — and the new one restarts the IPC stream under a schema id the reader already follows")
		})
	}
	if n == 0 {
		c.Undecided("anchors", "?", "", "no assignment of an *ipc.Writer field found in arrow_record")
	}
}

func init() {
	register("C15", &core.Rule{ID: "C15.10", Title: "a stream's IPC writer is replaced only where the stream has none or after the old one was closed", Mod: core.ModRoot, Floor: 1, Run: c15_10})
	register("C12", &core.Rule{ID: "C12.14", Title: "a stream's IPC writer is replaced only where the stream has none or after the old one was closed", Mod: core.ModRoot, Floor: 1, Run: c15_10})
}
