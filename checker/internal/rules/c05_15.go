package rules

import (
	"fmt"
	"go/types"

	"golang.org/x/tools/go/ssa"

	"otelcheck/internal/core"
)

// C05.15 / C09.9 a splitter reports what it moved. The per-type data point
// splitters move at most `size` elements out of their source with a RemoveIf
// callback and return the number moved, which the caller adds to the running
// total that stops the walk at send_batch_max_size. The returned count must
// derive from the bound, the callback's own counter or the destination's
// length — never from what is left in the source.
func c05_15(c *core.Ctx, p *core.Prog) {
	n := 0
	for _, fn := range cbpFuncs(c, p) {
		if fn.Parent() != nil || fn.Signature.Results().Len() < 1 {
			continue
		}
		if b, ok := fn.Signature.Results().At(0).Type().Underlying().(*types.Basic); !ok || b.Kind() != types.Int {
			continue
		}
		var sizeP *ssa.Parameter
		for _, pr := range fn.Params {
			if isInt(pr.Type()) {
				sizeP = pr
			}
		}
		var rm *ssa.Call
		core.EachInstr(fn, func(i ssa.Instruction) {
			if cl, ok := i.(*ssa.Call); ok {
				if f := pdataCallee(cl); f != nil && f.Name() == "RemoveIf" {
					if resolveCallback(cl.Call.Args[1]) != nil {
						rm = cl
					}
				}
			}
		})
		if rm == nil || sizeP == nil {
			continue
		}
		// only splitters whose callback moves elements
		moves := false
		if clo := resolveCallback(rm.Call.Args[1]); clo != nil {
			core.EachInstr(clo, func(i ssa.Instruction) {
				cl, ok := i.(*ssa.Call)
				if !ok {
					return
				}
				if f := pdataCallee(cl); f != nil && f.Name() == "MoveTo" {
					moves = true
				}
				// the generic form: MoveTo called through the type parameter's method set
				if cl.Call.IsInvoke() && cl.Call.Method.Name() == "MoveTo" {
					moves = true
				}
			})
		}
		if !moves {
			continue
		}
		src := core.Canon(rm.Call.Args[0])
		n++
		var bad []string
		for _, r := range core.Returns(fn) {
			if len(r.Results) == 0 {
				continue
			}
			core.BackSlice(r.Results[0], func(v ssa.Value) bool {
				if cl, ok := v.(*ssa.Call); ok {
					if f := pdataCallee(cl); f != nil && len(cl.Call.Args) >= 1 && core.Canon(cl.Call.Args[0]) == src {
						bad = append(bad, fmt.Sprintf("%s() of the source at %s", f.Name(), p.Pos(cl.Pos())))
						return false
					}
				}
				return true
			})
		}
		c.Check(len(bad) == 0, "fn="+core.FuncName(fn), p.Pos(fn.Pos()), core.FuncName(fn),
			"the reported count does not derive from what is left in the source",
			fmt.Sprintf("%s reports a count computed from %v — what is left behind, not what was moved: the caller's running total is wrong, the walk does not stop at send_batch_max_size and the outgoing batch overshoots it (and the buffer counter over-reports afterwards)", fn.Name(), bad))
	}
	c.Stats["C05.15 counting splitters"] = n
}

func init() {
	register("C05", &core.Rule{ID: "C05.15", Title: "a splitter reports what it moved, not what is left", Mod: core.ModCBP, Floor: 4, Run: c05_15})
	register("C09", &core.Rule{ID: "C09.9", Title: "a splitter reports what it moved, not what is left (send_batch_max_size is not overshot)", Mod: core.ModCBP, Floor: 4, Run: c05_15})
}
