package rules

import (
	"fmt"
	"go/constant"
	"go/token"
	"go/types"
	"sort"
	"strings"

	"golang.org/x/tools/go/ssa"

	"otelcheck/internal/core"
)

// Round-trip family RT (DESIGN section 4): structural necessary conditions of
// C01 (traces), C02 (logs), C03 (metrics); several are also mechanisms of C04.

var rtExplain = "Static necessary conditions of the OTLP → OTAP → OTLP round trip (value-level equality depends on arrow-go and the CBOR library and is NOT decided), checked on the type-checked encoder and decoder code for all paths: " +
	"RT.5 every column wrapper method appends exactly once when the column exists, stores a null only for the zero value, and requests the column whenever it would have stored a non-null; " +
	"RT.6 where presence is encoded by nulls (a pdata Has*() branch), the present arm writes with a null-free always-updating method and the absent arm with AppendNull; " +
	"RT.7 parent-id codec mirror: every sorter's Encode/Reset agrees with the decoder's delta-group decoding (delta iff same group as the previous row, group test on the same atoms, raw otherwise, state reset to the same initial state); " +
	"RT.8 every multi-arm switch over a pdata enumeration in encoder/decoder code covers every declared non-empty constant; " +
	"RT.9 identity strings used for grouping write the value type and pass caller-controlled text only through an injective framing helper; " +
	"RT.12 the decoders' regrouping resets scope tracking on a resource change and compares accumulated ids; " +
	"RT.13 list item nodes are never optional on their own; " +
	"RT.14 every record build resets its sorter before the first Encode of that build; " +
	"RT.15 a struct column is written as null only when every value it would carry is zero/empty; RT.16 an id column is null exactly when nothing is accumulated under that id; " +
	"RT.1–RT.4 writer/reader column tables: see rule titles. "

func init() {
	for _, prop := range []string{"C01", "C02", "C03"} {
		what := map[string]string{"C01": "traces", "C02": "logs", "C03": "metrics"}[prop]
		core.Describe(prop, "Property "+prop+" ("+what+" round trip). "+rtExplain,
			"arrow-go builders/IPC and fxamacker/cbor preserve the values they are given", "pdata getters are pure")
		for _, r := range []*core.Rule{
			{ID: "RT.5", Title: "wrapper discipline: one append, null only for zero, request whenever non-null", Mod: core.ModRoot, Floor: 40, Run: rt_5},
			{ID: "RT.8", Title: "enum switches cover every non-empty constant", Mod: core.ModRoot, Floor: 15, FloorBy: map[string]int{"C01": 15, "C02": 15, "C03": 25}, Run: rt_8},
			{ID: "RT.9", Title: "identity strings: type tag and injective framing", Mod: core.ModRoot, Floor: 4, Run: rt_9},
			{ID: "RT.12", Title: "decoder regrouping: scope tracking reset on resource change, accumulated ids", Mod: core.ModRoot, Floor: 1, Run: rt_12},
			{ID: "RT.14", Title: "sorter state is reset before the first Encode of every build", Mod: core.ModRoot, Floor: 9, FloorBy: map[string]int{"C01": 4, "C02": 2, "C03": 6}, Run: rt_14},
		} {
			register(prop, r)
		}
	}
	register("C03", &core.Rule{ID: "RT.6", Title: "presence encoded by nulls: present arm and one-of variants null-free and always-updating, absent arm null", Mod: core.ModRoot, Floor: 9, Run: rt_6})
	register("C04", &core.Rule{ID: "RT.6", Title: "presence and one-of variants do not depend on whether the optional column already exists (null-free, always-updating writes)", Mod: core.ModRoot, Floor: 9, Run: rt_6})
	register("C04", &core.Rule{ID: "RT.14", Title: "sorter state is reset before the first Encode of every (re)build", Mod: core.ModRoot, Floor: 9, Run: rt_14})
	register("C04", &core.Rule{ID: "RT.5", Title: "wrapper discipline: optional columns are requested whenever a non-null would be stored", Mod: core.ModRoot, Floor: 40, Run: rt_5})
	core.Describe("C04", "Static necessary conditions of 'decoded telemetry is independent of producer options and schema evolution': "+
		"C04.3 the dictionary limit / reset threshold / allocator options reach every record builder; C04.4, C04.41, C04.42 a schema change installs fresh builders, recomputes the schema id, related schema keys are read after Build, and a new key closes the same-type stream producers; "+
		"C04.5 every schema-update request makes progress (bounded rebuild loops terminate); C04.7 index width advances on excess, reset or disable past the last width; C04.8 records are handed out only after the dictionary scan; "+
		"RT.5 optional columns are requested whenever a non-null would be stored; RT.7/C04.1 every sorter an option can select encodes parent ids the way the decoder decodes them; RT.14 sorters are reset before every (re)build. "+
		"NOT decided: that arrow-go's writer/reader agree on dictionary deltas and replacements; the numeric index-width state machine beyond the listed clauses.",
		"arrow-go IPC writer emits dictionary deltas/replacements that its reader applies")
}

// ---------------- RT.5 ----------------

func rt_5(c *core.Ctx, p *core.Prog) {
	ws := summariseWrappers(p)
	for _, w := range ws {
		key := "wrapper=" + w.typ + "." + w.method
		pos := p.Pos(w.fn.Pos())
		var msgs []string
		if w.minAppend != 1 || w.maxAppend != 1 {
			// struct/list wrappers append once and then run field appenders; sub-builders (ListBuilder.Append with a count) are the same shape
			msgs = append(msgs, fmt.Sprintf("when the column exists a call appends between %d and %d values to it (expected exactly 1): the columns of the record get different lengths (NewRecord panics) or rows shift", w.minAppend, w.maxAppend))
		}
		if w.nParams > 0 {
			if w.nullOn == "other" {
				msgs = append(msgs, "a null is stored for a value that is not the type's zero value: the value is lost")
			}
			switch w.updateOn {
			case "never":
				msgs = append(msgs, "when the column is absent no schema update is ever requested: the first non-zero value is silently dropped and the column never appears")
			case "other":
				msgs = append(msgs, "the request for the column is guarded by something other than the value being non-zero: a non-zero value can be dropped while the column is absent")
			}
		}
		c.Check(len(msgs) == 0, key, pos, core.FuncName(w.fn), w.String(), w.typ+"."+w.method+": "+strings.Join(msgs, "; "))
	}
	c.Stats["wrapper_methods"] = len(ws)
}

// ---------------- RT.6 ----------------

func rt_6(c *core.Ctx, p *core.Prog) {
	ws := map[*ssa.Function]*wrapperSummary{}
	for _, w := range summariseWrappers(p) {
		ws[w.fn] = w
	}
	n := 0
	for _, fn := range rootFuncs(c, p) {
		if !strings.HasSuffix(core.FnPkgPath(fn), "/arrow") {
			continue
		}
		for _, b := range fn.Blocks {
			iff := core.IfOf(b)
			if iff == nil {
				continue
			}
			hc, ok := iff.Cond.(*ssa.Call)
			if !ok {
				continue
			}
			hf := pdataCallee(hc)
			if hf == nil || !strings.HasPrefix(hf.Name(), "Has") || !isBool(hc.Type()) {
				continue
			}
			what := strings.TrimPrefix(hf.Name(), "Has")
			n++
			key := fmt.Sprintf("fn=%s|has=%s.%s", core.FuncName(fn), core.RecvNamed(hf).Obj().Name(), what)
			pos := p.Pos(hc.Pos())
			// wrapper calls on each arm
			var presentW, absentW []*wrapperSummary
			var presentCalls []*ssa.Call
			core.EachInstr(fn, func(i ssa.Instruction) {
				cl, ok := i.(*ssa.Call)
				if !ok {
					return
				}
				w := ws[cl.Call.StaticCallee()]
				if w == nil {
					return
				}
				if core.GuardedBy(iff, true, cl) {
					presentW = append(presentW, w)
					presentCalls = append(presentCalls, cl)
				} else if core.GuardedBy(iff, false, cl) {
					absentW = append(absentW, w)
				}
			})
			var msgs []string
			if len(presentW) == 0 {
				msgs = append(msgs, "the present arm writes nothing")
			}
			for k, w := range presentW {
				// the written value is this field's getter
				getter := false
				for _, arg := range core.CallArgs(presentCalls[k]) {
					if g, ok := core.StripConv(arg).(*ssa.Call); ok && pdataCallee(g) != nil && pdataCallee(g).Name() == what {
						getter = true
					}
				}
				if !getter {
					msgs = append(msgs, fmt.Sprintf("the present arm does not write %s()", what))
				}
				if !w.nullFreeAlwaysUpdating() {
					msgs = append(msgs, fmt.Sprintf("the present arm writes with %s.%s (%s, %s): a present zero is stored as null / never requests the column, and the decoder reads null as absent (Has%s()==false)", w.typ, w.method, "nullOn="+w.nullOn, "updateOn="+w.updateOn, what))
				}
			}
			okAbsent := false
			for _, w := range absentW {
				if w.isNull {
					okAbsent = true
				}
			}
			if !okAbsent {
				msgs = append(msgs, "the absent arm does not write a null")
			}
			c.Check(len(msgs) == 0, key, pos, core.FuncName(fn), fmt.Sprintf("Has%s: present arm null-free and always-updating, absent arm null", what), strings.Join(msgs, "; "))
		}
	}
	if n == 0 {
		c.Undecided("sites", "?", "", "no presence-encoded (Has*) write found")
	}
	// one-of arms without a type column: `case Int: ivb.Append(v); dvb.AppendNull()` — the decoder infers the
	// variant from which column is non-null, so the value append must be null-free and always-updating
	for _, fn := range rootFuncs(c, p) {
		if !strings.HasSuffix(core.FnPkgPath(fn), "/arrow") {
			continue
		}
		seen := map[string]int{}
		for _, b := range fn.Blocks {
			iff := core.IfOf(b)
			if iff == nil {
				continue
			}
			bo, ok := iff.Cond.(*ssa.BinOp)
			if !ok || bo.Op != token.EQL {
				continue
			}
			if _, isC := core.ConstInt(bo.Y); !isC {
				continue
			}
			en := core.NamedOf(bo.X.Type())
			if en == nil || len(enumAllConsts(en)) < 2 {
				continue
			}
			var vals []*ssa.Call
			var valW []*wrapperSummary
			nulls, tagged := 0, false
			core.EachInstr(fn, func(i ssa.Instruction) {
				cl, ok := i.(*ssa.Call)
				if !ok || !core.GuardedBy(iff, true, cl) {
					return
				}
				w := ws[cl.Call.StaticCallee()]
				if w == nil {
					return
				}
				if w.isNull {
					nulls++
					return
				}
				for _, a := range core.CallArgs(cl) {
					if _, isK := core.ConstInt(core.StripConv(a)); isK {
						tagged = true // an explicit type/discriminator column is written in this arm
					}
				}
				vals = append(vals, cl)
				valW = append(valW, w)
			})
			if nulls == 0 || len(vals) == 0 || tagged {
				continue
			}
			for k, cl := range vals {
				w := valW[k]
				base := fmt.Sprintf("fn=%s|oneof=%s|%s.%s", core.FuncName(fn), en.Obj().Name(), w.typ, w.method)
				seen[base]++
				key := base
				if seen[base] > 1 {
					key = fmt.Sprintf("%s#%d", base, seen[base])
				}
				c.Check(w.nullFreeAlwaysUpdating(), key, p.Pos(cl.Pos()), core.FuncName(fn),
					fmt.Sprintf("one-of arm writes its variant with %s.%s (null-free, always requesting the column)", w.typ, w.method),
					fmt.Sprintf("a one-of arm over %s writes its variant with %s.%s (nullOn=%s, updateOn=%s) while the sibling columns get nulls and no type column is written: the decoder infers the variant from which column is non-null, so a zero value (or an all-zero stream that never requests the column) decodes as \"no value\"", en.Obj().Name(), w.typ, w.method, w.nullOn, w.updateOn))
			}
		}
	}
}

// ---------------- RT.8 ----------------

func rt_8(c *core.Ctx, p *core.Prog) {
	full := map[string]map[int64]string{}
	for _, pk := range []string{"/pcommon", "/pmetric", "/ptrace", "/plog"} {
		tp := p.Pkg(core.PdataPath + pk)
		if tp == nil {
			continue
		}
		for _, name := range tp.Types.Scope().Names() {
			if cst, ok := tp.Types.Scope().Lookup(name).(*types.Const); ok {
				tn := core.TypeName(cst.Type())
				if !strings.HasSuffix(tn, "Type") {
					continue
				}
				if v, ok := constantInt(cst); ok {
					k := pk + "." + tn
					if full[k] == nil {
						full[k] = map[int64]string{}
					}
					full[k][v] = name
				}
			}
		}
	}
	seen := map[string]int{}
	for _, fn := range rootFuncs(c, p) {
		by := map[ssa.Value]map[int64]bool{}
		core.EachInstr(fn, func(i ssa.Instruction) {
			b, ok := i.(*ssa.BinOp)
			if !ok || b.Op != token.EQL {
				return
			}
			tn := core.TypeName(b.X.Type())
			if !strings.HasSuffix(tn, "Type") || !strings.HasPrefix(core.TypePkgPath(b.X.Type()), core.PdataPath) {
				return
			}
			if k, ok := core.ConstInt(b.Y); ok {
				if by[b.X] == nil {
					by[b.X] = map[int64]bool{}
				}
				by[b.X][k] = true
			}
		})
		var xs []ssa.Value
		for x := range by {
			xs = append(xs, x)
		}
		sort.Slice(xs, func(i, j int) bool { return xs[i].Pos() < xs[j].Pos() })
		for _, x := range xs {
			cov := by[x]
			if len(cov) < 2 {
				continue
			}
			tp := core.TypePkgPath(x.Type())
			k := tp[strings.LastIndex(tp, "/"):] + "." + core.TypeName(x.Type())
			var missing []string
			for v, name := range full[k] {
				if v != 0 && !cov[v] {
					missing = append(missing, name)
				}
			}
			sort.Strings(missing)
			base := fmt.Sprintf("fn=%s|enum=%s", core.FuncName(fn), core.TypeName(x.Type()))
			seen[base]++
			key := base
			if seen[base] > 1 {
				key = fmt.Sprintf("%s#%d", base, seen[base])
			}
			c.Check(len(missing) == 0, key, p.Pos(x.Pos()), core.FuncName(fn), fmt.Sprintf("%d arms cover every non-empty %s", len(cov), core.TypeName(x.Type())),
				fmt.Sprintf("the switch over %s has no arm for %v: values of that kind are dropped, mis-sorted or decoded as another kind", core.TypeName(x.Type()), missing))
		}
	}
}

// ---------------- RT.9 ----------------

var framingOK = map[string]bool{
	"strconv.Quote": true, "strconv.AppendQuote": true, "strconv.Itoa": true, "strconv.FormatInt": true, "strconv.FormatUint": true,
	"strconv.FormatFloat": true, "strconv.FormatBool": true, "encoding/hex.EncodeToString": true,
}

func rt_9(c *core.Ctx, p *core.Prog) {
	// identity-string builders: functions of common/otlp that call (*strings.Builder).WriteString
	n := 0
	for _, fn := range p.FuncsIn(func(pp string) bool { return pp == pkgCommonOtlp }) {
		var writes []*ssa.Call
		core.EachInstr(fn, func(i ssa.Instruction) {
			if cl, ok := i.(*ssa.Call); ok {
				f := core.CalleeObj(cl)
				// every way of putting text into the builder: WriteString, Write, WriteByte, WriteRune, fmt.Fprint*(b, …)
				for _, m := range []string{"WriteString", "Write", "WriteByte", "WriteRune"} {
					if core.IsMethodOf(f, "strings", "Builder", m) {
						writes = append(writes, cl)
					}
				}
			}
		})
		if len(writes) == 0 {
			continue
		}
		n++
		top := fn
		for top.Parent() != nil {
			top = top.Parent()
		}
		key := "fn=" + core.FuncName(fn)
		var bad []string
		for _, w := range writes {
			arg := w.Call.Args[1]
			switch x := arg.(type) {
			case *ssa.Const:
				continue
			case *ssa.Call:
				f := core.CalleeObj(x)
				name := ""
				if f != nil && f.Pkg() != nil {
					name = f.Pkg().Path() + "." + f.Name()
				}
				if framingOK[name] {
					// FormatFloat is injective on float64 only with the shortest round-trip precision (-1) at bit size 64
					if name == "strconv.FormatFloat" && len(x.Call.Args) == 4 {
						prec, okP := core.ConstInt(x.Call.Args[2])
						bits, okB := core.ConstInt(x.Call.Args[3])
						if !okP || !okB || prec != -1 || bits != 64 {
							bad = append(bad, fmt.Sprintf("%s: a float64 is formatted with precision %d at bit size %d: values that differ beyond that precision get the same text", p.Pos(w.Pos()), prec, bits))
						}
					}
					continue
				}
				bad = append(bad, fmt.Sprintf("%s: text produced by %s is written verbatim", p.Pos(w.Pos()), name))
			default:
				bad = append(bad, fmt.Sprintf("%s: caller-controlled text (%s) is written verbatim", p.Pos(w.Pos()), core.AccessPath(arg)))
			}
		}
		// completeness: the identity string of a resource / scope involves every identity field the container
		// has (attributes, dropped count, name, version, …) and every string it is handed (the schema URL): two
		// containers that differ in a field left out get one identity, are merged, and one of them is decoded
		// with the other's value
		if fn.Parent() == nil && fn.Signature.Params().Len() >= 1 && fn.Signature.Results().Len() == 1 && basicKind(fn.Signature.Results().At(0).Type()) == types.String {
			if T := fn.Signature.Params().At(0).Type(); isPdataType(T) && core.TypeName(T) != "Value" && core.TypeName(T) != "Map" && core.TypeName(T) != "Slice" {
				var missing []string
				for _, field := range identityFields(T) {
					used := false
					core.EachInstr(fn, func(i ssa.Instruction) {
						if cl, ok := i.(*ssa.Call); ok {
							if f := pdataCallee(cl); f != nil && f.Name() == field && len(cl.Call.Args) > 0 && core.Canon(cl.Call.Args[0]) == ssa.Value(fn.Params[0]) && len(*cl.Referrers()) > 0 {
								used = true
							}
						}
					})
					if !used {
						missing = append(missing, core.TypeName(T)+"."+field+"()")
					}
				}
				for _, prm := range fn.Params[1:] {
					if basicKind(prm.Type()) == types.String && len(*prm.Referrers()) == 0 {
						missing = append(missing, "parameter "+prm.Name())
					}
				}
				c.Check(len(missing) == 0, key+"|complete", p.Pos(fn.Pos()), core.FuncName(fn), "the identity string involves every identity field of the "+core.TypeName(T)+" and every string parameter",
					fmt.Sprintf("the identity string of a %s leaves out %s: two %ss that differ only there get the same identity, the optimizer merges them into one group, and the rows of one are decoded under the other's %s", core.TypeName(T), strings.Join(missing, ", "), core.TypeName(T), core.TypeName(T)))
			}
		}
		c.Check(len(bad) == 0, key+"|framing", p.Pos(fn.Pos()), core.FuncName(fn), fmt.Sprintf("%d writes: constants and injectively framed values only", len(writes)),
			"identity string used to group resources/scopes is not injective: "+strings.Join(bad, "; ")+" — two different resources/scopes whose texts contain the delimiters get the same identity and are merged into one")
		// value identity: the value type is written on every path before the value part
		if fn.Signature.Params().Len() >= 1 && core.TypeName(fn.Signature.Params().At(0).Type()) == "Value" && isPdataType(fn.Signature.Params().At(0).Type()) {
			isTypeWrite := func(i ssa.Instruction) bool {
				cl, ok := i.(*ssa.Call)
				if !ok || !core.IsMethodOf(core.CalleeObj(cl), "strings", "Builder", "WriteString") {
					return false
				}
				return core.DerivesFrom(cl.Call.Args[1], func(v ssa.Value) bool {
					t, ok := v.(*ssa.Call)
					return ok && pdataCallee(t) != nil && pdataCallee(t).Name() == "Type"
				})
			}
			okType := true
			for _, w := range writes {
				if isTypeWrite(w) {
					continue
				}
				if _, isC := w.Call.Args[1].(*ssa.Const); isC {
					continue
				}
				if !core.MustPassBetween(fn, nil, w, isTypeWrite) {
					okType = false
				}
			}
			any := false
			core.EachInstr(fn, func(i ssa.Instruction) {
				if isTypeWrite(i) {
					any = true
				}
			})
			c.Check(okType && any, key+"|type-tag", p.Pos(fn.Pos()), core.FuncName(fn), "the value type is written before the value",
				"the identity of a value does not include its type: values such as the string \"1\" and the integer 1 get the same identity and the resources/scopes carrying them are merged")
		}
	}
	if n < 3 {
		c.Undecided("count", "?", "", fmt.Sprintf("expected the identity-string builders of common/otlp, found %d", n))
	}
}

// ---------------- RT.12 ----------------

func rt_12(c *core.Ctx, p *core.Prog) {
	n := 0
	for _, fn := range rootFuncs(c, p) {
		if !strings.HasSuffix(core.FnPkgPath(fn), "/otlp") || fn.Parent() != nil {
			continue
		}
		var resCall, scopeCall *ssa.Call
		core.EachInstr(fn, func(i ssa.Instruction) {
			cl, ok := i.(*ssa.Call)
			if !ok || cl.Call.StaticCallee() == nil || core.FnPkgPath(cl.Call.StaticCallee()) != pkgCommonOtlp {
				return
			}
			switch cl.Call.StaticCallee().Name() {
			case "ResourceIDFromRecord":
				resCall = cl
			case "ScopeIDFromRecord":
				scopeCall = cl
			}
		})
		if resCall == nil || scopeCall == nil {
			continue
		}
		n++
		key := "fn=" + core.FuncName(fn)
		pos := p.Pos(fn.Pos())
		// the comparisons: prev != int(acc) where acc = φ + delta(call)
		helperPrev := map[*ssa.If]ssa.Value{}
		findCmp := func(call *ssa.Call) (*ssa.If, *ssa.BinOp, bool) {
			var delta ssa.Value
			for _, r := range core.Referrers(call) {
				if e, ok := r.(*ssa.Extract); ok && e.Index == 0 {
					delta = e
				}
			}
			for _, b := range fn.Blocks {
				iff := core.IfOf(b)
				if iff == nil {
					continue
				}
				// the test may be a small predicate that is handed the previous id and the accumulated one
				// (`prev.differsFrom(resID)` on a `{id, seen}` value)
				if hc, isCall := iff.Cond.(*ssa.Call); isCall && isBool(hc.Type()) {
					if h := hc.Call.StaticCallee(); h != nil && len(h.Blocks) > 0 && core.InRepo(core.FnPkgPath(h)) && len(hc.Call.Args) == 2 {
						for k, arg := range hc.Call.Args {
							add, ok := core.StripConv(arg).(*ssa.BinOp)
							isAcc := ok && add.Op == token.ADD && (add.Y == delta || add.X == delta)
							if isAcc || core.StripConv(arg) == delta {
								_, okPhi := ssa.Value(nil).(*ssa.Phi)
								if isAcc {
									_, p1 := add.X.(*ssa.Phi)
									_, p2 := add.Y.(*ssa.Phi)
									okPhi = p1 || p2
								}
								helperPrev[iff] = hc.Call.Args[1-k]
								return iff, nil, okPhi
							}
						}
					}
				}
				cmp, ok := iff.Cond.(*ssa.BinOp)
				if !ok || cmp.Op != token.NEQ {
					continue
				}
				for _, side := range []ssa.Value{cmp.X, cmp.Y} {
					add, ok := core.StripConv(side).(*ssa.BinOp)
					if ok && add.Op == token.ADD && (add.Y == delta || add.X == delta) {
						_, okPhi := add.X.(*ssa.Phi)
						_, okPhi2 := add.Y.(*ssa.Phi)
						return iff, cmp, okPhi || okPhi2
					}
					if side == delta || core.StripConv(side) == delta {
						return iff, cmp, false // compares the raw delta, not the accumulated id
					}
				}
			}
			return nil, nil, false
		}
		resIf, _, resAcc := findCmp(resCall)
		scopeIf, scopeCmp, scopeAcc := findCmp(scopeCall)
		var msgs []string
		if resIf == nil || scopeIf == nil {
			c.Undecided(key, pos, core.FuncName(fn), "resource/scope change tests not recognised")
			continue
		}
		if !resAcc {
			msgs = append(msgs, "the resource change test does not compare the accumulated (delta-decoded) resource id")
		}
		if !scopeAcc {
			msgs = append(msgs, "the scope change test does not compare the accumulated (delta-decoded) scope id")
		}
		// scope tracking reset on the resource-change arm: the `prev scope` operand of the scope comparison is a φ (or chain) that
		// receives a constant on an edge guarded by the resource test's true arm
		var prevScope ssa.Value
		if scopeCmp != nil {
			prevScope = scopeCmp.X
			if _, isAdd := core.StripConv(scopeCmp.X).(*ssa.BinOp); isAdd {
				prevScope = scopeCmp.Y
			}
		} else {
			prevScope = helperPrev[scopeIf]
		}
		reset := false
		seenV := map[ssa.Value]bool{}
		var walk func(v ssa.Value, d int)
		walk = func(v ssa.Value, d int) {
			if seenV[v] || d > 4 {
				return
			}
			seenV[v] = true
			ph, ok := v.(*ssa.Phi)
			if !ok {
				return
			}
			for k, e := range ph.Edges {
				_, isStruct := e.Type().Underlying().(*types.Struct)
				if cst, ok := e.(*ssa.Const); ok && ((cst.Value != nil && cst.Value.Kind() == constant.Int) || (cst.Value == nil && isStruct)) {
					pred := ph.Block().Preds[k]
					last := pred.Instrs[len(pred.Instrs)-1]
					if core.GuardedBy(resIf, true, last) {
						reset = true
					}
				}
				walk(e, d+1)
			}
		}
		walk(prevScope, 0)
		if !reset {
			// flag form: `if !scopeSeen || prevScope != scopeID { … }` with `scopeSeen = false` on a resource change — a
			// boolean φ that receives false on an edge under the resource test's true arm, and whose false edge leads
			// into the scope-change arm whatever the comparison says
			scopeArm := scopeIf.Block().Succs[0]
			for _, b := range fn.Blocks {
				for _, ins := range b.Instrs {
					ph, ok := ins.(*ssa.Phi)
					if !ok || !isBool(ph.Type()) {
						continue
					}
					cleared := false
					for k, e := range ph.Edges {
						if bv, isB := core.ConstBool(e); isB && !bv && k < len(b.Preds) {
							pred := b.Preds[k]
							// the resource arm may be entered from the flag test as well as from the comparison: what counts
							// is that the edge comes out of the arm's body
							resArm := resIf.Block().Succs[0]
							if core.GuardedBy(resIf, true, pred.Instrs[len(pred.Instrs)-1]) || pred == resArm || resArm.Dominates(pred) {
								cleared = true
							}
						}
					}
					if !cleared {
						continue
					}
					for _, b2 := range fn.Blocks {
						iff := core.IfOf(b2)
						if iff == nil {
							continue
						}
						cond, falseEdge := iff.Cond, 1
						if u, ok := cond.(*ssa.UnOp); ok && u.Op == token.NOT {
							cond, falseEdge = u.X, 0
						}
						// the flag itself, or a later φ it flows into unchanged
						if cond == ssa.Value(ph) || core.DerivesFrom(cond, func(v ssa.Value) bool { return v == ssa.Value(ph) }) && isBool(cond.Type()) {
							if _, isPhiOrSelf := cond.(*ssa.Phi); isPhiOrSelf || cond == ssa.Value(ph) {
								if b2.Succs[falseEdge] == scopeArm {
									reset = true
								}
							}
						}
					}
				}
			}
		}
		if !reset {
			msgs = append(msgs, "on a resource change the scope tracking variable is not reset: when two consecutive resources use the same scope id (e.g. both have a single scope, id 0) the rows of the second resource are appended under the first resource's scope")
		}
		c.Check(len(msgs) == 0, key, pos, core.FuncName(fn), "resource change resets scope tracking; both tests compare accumulated ids", strings.Join(msgs, "; "))
	}
	if n < 3 {
		c.Undecided("count", "?", "", fmt.Sprintf("expected 3 decoder main loops, found %d", n))
	}
}

// ---------------- RT.14 ----------------

// mustResetSorter: every path of fn from entry to return invokes Reset on a sorter interface (wrapper summary, depth-bounded).
func mustResetSorter(fn *ssa.Function, depth int) bool {
	if fn == nil || fn.Blocks == nil || depth > 2 {
		return false
	}
	isReset := func(i ssa.Instruction) bool { return isSorterReset(i, depth) }
	return core.MustPassBetween(fn, nil, nil, isReset)
}

func isSorterReset(i ssa.Instruction, depth int) bool {
	cl, ok := i.(*ssa.Call)
	if !ok {
		return false
	}
	if cl.Call.IsInvoke() && cl.Call.Method.Name() == "Reset" {
		// on an interface that also has Encode
		if it, ok := cl.Call.Value.Type().Underlying().(*types.Interface); ok {
			for k := 0; k < it.NumMethods(); k++ {
				if it.Method(k).Name() == "Encode" {
					return true
				}
			}
		}
		return false
	}
	if callee := cl.Call.StaticCallee(); callee != nil && core.InRepo(core.FnPkgPath(callee)) {
		return mustResetSorter(callee, depth+1)
	}
	return false
}

func rt_14(c *core.Ctx, p *core.Prog) {
	n := 0
	for _, fn := range rootFuncs(c, p) {
		var encs []*ssa.Call
		core.EachInstr(fn, func(i ssa.Instruction) {
			if cl, ok := i.(*ssa.Call); ok && cl.Call.IsInvoke() && cl.Call.Method.Name() == "Encode" && core.InRepo(core.TypePkgPath(cl.Call.Value.Type())) {
				encs = append(encs, cl)
			}
		})
		if len(encs) == 0 {
			continue
		}
		n++
		ok := true
		for _, e := range encs {
			if !core.MustPassBetween(fn, nil, e, func(i ssa.Instruction) bool { return isSorterReset(i, 0) }) {
				ok = false
			}
		}
		// the rows are sorted on every path before the first Encode: the group-delta codec relies on the
		// sorter's own order (e.g. value-less exemplars first), also when only one parent contributed rows
		isSort := func(i ssa.Instruction, depth int) bool { return false }
		var sortIn func(f *ssa.Function, depth int) bool
		isSortCall := func(i ssa.Instruction, depth int) bool {
			cl, isCl := i.(*ssa.Call)
			if !isCl {
				return false
			}
			if cl.Call.IsInvoke() && cl.Call.Method.Name() == "Sort" {
				if it, isIt := cl.Call.Value.Type().Underlying().(*types.Interface); isIt {
					for k := 0; k < it.NumMethods(); k++ {
						if it.Method(k).Name() == "Encode" {
							return true
						}
					}
				}
				return false
			}
			if callee := cl.Call.StaticCallee(); callee != nil && core.InRepo(core.FnPkgPath(callee)) && depth < 2 {
				return sortIn(callee, depth+1)
			}
			return false
		}
		sortIn = func(f *ssa.Function, depth int) bool {
			if f == nil || f.Blocks == nil {
				return false
			}
			return core.MustPassBetween(f, nil, nil, func(i ssa.Instruction) bool { return isSortCall(i, depth) })
		}
		_ = isSort
		sorted := true
		for _, e := range encs {
			if !core.MustPassBetween(fn, nil, e, func(i ssa.Instruction) bool { return isSortCall(i, 0) }) {
				sorted = false
			}
		}
		// builders whose rows are sorted elsewhere (the main records are sorted by their optimizer) have no Sort at all
		anySort := false
		core.EachInstr(fn, func(i ssa.Instruction) {
			if isSortCall(i, 0) {
				anySort = true
			}
		})
		if anySort {
			c.Check(sorted, "sort="+core.FuncName(fn), p.Pos(encs[0].Pos()), core.FuncName(fn), "the rows are sorted on every path before the first parent-id Encode",
				"a build can reach the sorter's Encode without having sorted the rows (the Sort call is conditional): the group-delta parent-id codec assumes the sorter's own order — with unsorted rows the encoder writes an absolute parent id where the decoder expects a delta (or the reverse), and related records land on the wrong parent")
		}
		c.Check(ok, "build="+core.FuncName(fn), p.Pos(encs[0].Pos()), core.FuncName(fn), "the sorter is reset on every path before the first parent-id Encode of this build",
			"a build can reach the sorter's Encode without the sorter having been reset in the same build: the group state (previous key/value/parent id) of the previous batch or of the previous attempt (schema-update retry) leaks in, the first parent id of a group is written as a delta while the decoder reads it as absolute, and attributes/events/links/exemplars/data points land on the wrong parent")
	}
	if n < 9 {
		c.Undecided("count", "?", "", fmt.Sprintf("expected 9 record builds that encode parent ids, found %d", n))
	}
}
