package rules

import (
	"fmt"
	"go/token"
	"go/types"
	"strings"

	"golang.org/x/tools/go/ssa"

	"otelcheck/internal/core"
)

// C10.7 — the request enters the queue under a context that descends from its
// own, and the batcher that keys by metadata is chosen whenever keys are
// configured.
//
// (a) A batch fed by one request is exported under that request's context
// (C18.2), which is where the next consumer finds the client metadata.  The
// context recorded with the pending entry must therefore be the caller's
// context or a context derived from it *as parent* (context.With…,
// trace.ContextWithSpan(parent, …)): a fresh context that merely borrows the
// span (`trace.ContextWithSpan(context.Background(), SpanFromContext(ctx))`)
// has lost the metadata, so the export of tenant A's batch shows no tenant.
//
// (b) The single-shard batcher ignores metadata.  In the constructor it may be
// chosen only when no metadata key is configured: the store of a single-shard
// batcher is reachable only through the `len(keys) == 0` edge.

func ctxDescendsFrom(v ssa.Value, root *ssa.Parameter, depth int) (bool, string) {
	v = core.Strip(v)
	if depth > 6 {
		return false, "derivation too deep"
	}
	switch x := v.(type) {
	case *ssa.Parameter:
		if x == root {
			return true, ""
		}
		return false, "another parameter"
	case *ssa.Phi:
		for _, e := range x.Edges {
			if ok, why := ctxDescendsFrom(e, root, depth+1); !ok {
				return false, why
			}
		}
		return true, ""
	case *ssa.Extract:
		return ctxDescendsFrom(x.Tuple, root, depth+1)
	case *ssa.Call:
		f := core.CalleeObj(x)
		if f != nil && f.Pkg() != nil && len(x.Call.Args) >= 1 && isCtx(x.Call.Args[0].Type()) {
			pp := f.Pkg().Path()
			if pp == "context" || pp == "go.opentelemetry.io/otel/trace" || pp == "go.opentelemetry.io/collector/client" {
				if ok, why := ctxDescendsFrom(x.Call.Args[0], root, depth+1); !ok {
					return false, f.Name() + "(" + why + ", …)"
				}
				return true, ""
			}
		}
		if f != nil {
			return false, "the result of " + f.Name() + "()"
		}
	case *ssa.UnOp:
		if x.Op == token.MUL {
			if c := core.Canon(x); c != ssa.Value(x) {
				return ctxDescendsFrom(c, root, depth+1)
			}
		}
	}
	return false, strings.TrimSpace(v.String())
}

func c10_7(c *core.Ctx, p *core.Prog) {
	a := newCBPAnchors(p)
	if !a.ok(c) {
		return
	}
	m := a.more()
	if !m.ok(c) {
		return
	}
	// (a) the context stored with the pending entry
	fn := m.enqueueFn
	var ctxP *ssa.Parameter
	for _, pr := range fn.Params {
		if isCtx(pr.Type()) {
			ctxP = pr
		}
	}
	n := 0
	core.EachInstr(fn, func(i ssa.Instruction) {
		st, ok := i.(*ssa.Store)
		if !ok || !isCtx(st.Val.Type()) {
			return
		}
		fa, ok := st.Addr.(*ssa.FieldAddr)
		if !ok {
			return
		}
		if nn := core.NamedOf(fa.X.Type()); nn == nil || nn.Obj().Pkg() == nil || nn.Obj().Pkg().Path() != core.CBPPath {
			return
		}
		n++
		key := fmt.Sprintf("enqueue|ctx#%d", n)
		if ctxP == nil {
			c.Undecided(key, p.Pos(st.Pos()), core.FuncName(fn), "the enqueue function has no context parameter")
			return
		}
		ok2, why := ctxDescendsFrom(st.Val, ctxP, 0)
		c.Check(ok2, key, p.Pos(st.Pos()), core.FuncName(fn),
			"the pending entry records the caller's context (or a context derived from it as parent)",
			"the context recorded with the pending entry does not descend from the caller's context ("+why+"): a batch fed by this request alone is exported under it, so the next consumer sees no client metadata for this tenant (and none of the request's other values)")
	})
	if n == 0 {
		c.Undecided("enqueue|ctx", p.Pos(fn.Pos()), core.FuncName(fn), "no context is stored with the pending entry")
	}
	// (b) choice of the batcher in the constructor
	if m.ctorFn == nil || m.procType == nil {
		c.Undecided("batcher|choice", "?", "", "constructor not resolved")
		return
	}
	x := a.multi(m)
	if x.recvT == nil || x.keysF == nil {
		c.Undecided("batcher|choice", p.Pos(m.ctorFn.Pos()), core.FuncName(m.ctorFn), "multi-shard batcher type / keys field not resolved")
		return
	}
	nSingle := 0
	core.EachInstr(m.ctorFn, func(i ssa.Instruction) {
		st, ok := i.(*ssa.Store)
		if !ok {
			return
		}
		fa, ok := st.Addr.(*ssa.FieldAddr)
		if !ok || core.NamedOf(fa.X.Type()) != m.procType {
			return
		}
		if _, isI := core.FieldVar(fa).Type().Underlying().(*types.Interface); !isI {
			return
		}
		mi, ok := st.Val.(*ssa.MakeInterface)
		if !ok {
			return
		}
		dyn := core.NamedOf(mi.X.Type())
		if dyn == nil || dyn.Obj().Pkg() == nil || dyn.Obj().Pkg().Path() != core.CBPPath || dyn == x.recvT {
			return
		}
		// a batcher other than the multi-shard one: guarded by len(keys)==0
		nSingle++
		guarded := false
		for _, b := range m.ctorFn.Blocks {
			iff := core.IfOf(b)
			if iff == nil {
				continue
			}
			cmp, ok := iff.Cond.(*ssa.BinOp)
			if !ok || (cmp.Op != token.EQL && cmp.Op != token.NEQ) {
				continue
			}
			k, isK := core.ConstInt(cmp.Y)
			base, sub, isLen := core.LenOf(cmp.X)
			if !isK || k != 0 || !isLen || sub != 0 {
				continue
			}
			// the keys field itself, or the local slice the constructor stores into it
			isKeys := isFieldLoad(base, x.keysF)
			if !isKeys {
				for _, r := range core.Referrers(base) {
					if s2, ok := r.(*ssa.Store); ok && s2.Val == base {
						if f2, ok := s2.Addr.(*ssa.FieldAddr); ok && core.FieldVar(f2) == x.keysF {
							isKeys = true
						}
					}
				}
			}
			if !isKeys {
				continue
			}
			if core.GuardedBy(iff, cmp.Op == token.EQL, st) {
				guarded = true
			}
		}
		c.Check(guarded, fmt.Sprintf("batcher|choice#%d", nSingle), p.Pos(st.Pos()), core.FuncName(m.ctorFn),
			"the batcher that ignores metadata is chosen only when no metadata key is configured",
			"a batcher of type "+dyn.Obj().Name()+", which ignores client metadata, can be chosen although metadata keys are configured (the choice does not hang on len(keys)==0 alone): every tenant then shares one shard, nothing is refused at the cardinality limit, and mixed batches go out without metadata")
	})
	if nSingle == 0 {
		c.Undecided("batcher|choice", p.Pos(m.ctorFn.Pos()), core.FuncName(m.ctorFn), "no store of a single-shard batcher found in the constructor")
	}
}

func init() {
	register("C10", &core.Rule{ID: "C10.7", Title: "the pending entry records a context descending from the caller's; the metadata-ignoring batcher is chosen only without metadata keys", Mod: core.ModCBP, Floor: 2, Run: c10_7})
}
