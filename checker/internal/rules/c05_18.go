package rules

import (
	"fmt"
	"go/types"

	"golang.org/x/tools/go/ssa"

	"otelcheck/internal/core"
)

// C05.18 — every shard gets a batch of its own.
//
// The processor keeps one shard per metadata combination and asks a factory
// (`func() batch`) for the pending batch of each new shard.  The pending
// request inside a batch is a pdata value, i.e. a pointer wrapper: copying a
// batch struct copies the pointer, not the request.  A factory that hands out
// copies of one prototype therefore makes all shards append to — and export —
// the same request: items are delivered more than once and under another
// tenant's metadata, and a shard created later appends to a request that was
// already handed to the next consumer.
//
// Rule: every value a batch factory returns is the result of a call of a
// package constructor made inside the factory itself; it does not come from a
// variable captured by the factory (a prototype) or a package-level variable.
func c05_18(c *core.Ctx, p *core.Prog) {
	a := newCBPAnchors(p)
	if !a.ok(c) {
		return
	}
	isImpl := func(t types.Type) bool {
		for d := 0; d < 3; d++ {
			if pt, ok := t.(*types.Pointer); ok {
				t = pt.Elem()
			}
		}
		n, _ := t.(*types.Named)
		if n == nil {
			return false
		}
		for _, bi := range a.batchImpls {
			if bi.Obj() == n.Obj() {
				return true
			}
		}
		return false
	}
	n := 0
	for _, fn := range cbpFuncs(c, p) {
		sig := fn.Signature
		if sig.Params().Len() != 0 || sig.Results().Len() != 1 || !types.Identical(sig.Results().At(0).Type(), a.batchIface) || fn.Blocks == nil {
			continue
		}
		n++
		key := "factory=" + core.FuncName(fn)
		var msgs []string
		for _, r := range core.Returns(fn) {
			made, shared := false, ""
			core.BackSlice(r.Results[0], func(v ssa.Value) bool {
				switch x := v.(type) {
				case *ssa.Call:
					if h := x.Call.StaticCallee(); h != nil && core.FnPkgPath(h) == core.FnPkgPath(fn) && x.Parent() == fn {
						made = true
					}
					return false
				case *ssa.FreeVar:
					if isImpl(x.Type()) {
						shared = "the captured variable " + x.Name()
					}
					return false
				case *ssa.Global:
					if isImpl(x.Type()) {
						shared = "the package variable " + x.Name()
					}
					return false
				}
				return true
			})
			if shared != "" {
				msgs = append(msgs, fmt.Sprintf("%s: the batch handed out comes from %s", p.Pos(r.Pos()), shared))
			} else if !made {
				msgs = append(msgs, fmt.Sprintf("%s: the batch handed out is not the result of a constructor call made in the factory", p.Pos(r.Pos())))
			}
		}
		c.Check(len(msgs) == 0, key, p.Pos(fn.Pos()), core.FuncName(fn), "each call of the factory constructs a new batch",
			fmt.Sprintf("%v — the pending request inside a batch is a pointer wrapper, so shards built from one prototype share one request: items are delivered more than once, under another shard's metadata, and appended to requests already handed to the next consumer", msgs))
	}
	if n == 0 {
		c.Undecided("factories", "?", "", "no func() batch factory found")
	}
}

func init() {
	register("C05", &core.Rule{ID: "C05.18", Title: "every shard gets a batch of its own: the factories construct a new batch on each call", Mod: core.ModCBP, Floor: 3, Run: c05_18})
}
