package rules

import (
	"fmt"
	"go/token"
	"sort"
	"strings"

	"golang.org/x/tools/go/ssa"

	"otelcheck/internal/core"
)

// C08.13 — switches over a pdata enumeration whose "no case matched" arm
// panics cover the whole enumeration.
//
// The encoders dispatch on pcommon.ValueType, pmetric.MetricType,
// NumberDataPointValueType, … with `switch x.Type() { case …: … default:
// panic("unsupported …") }`.  Every constant of these types is a value a valid
// OTLP input can carry, so the default arm is dead only if every constant has an
// arm; a missing arm turns a valid input into a producer crash.  The rule finds
// the == chains over an SSA value of a pdata-declared enumeration type in every
// function on the encode path, takes the block reached when no comparison
// matched, and if that block (through unconditional jumps) ends in an explicit
// panic requires the compared constants to be all constants of the type.
//
// One refinement, confirmed on the code: the zero constant ("Empty") may be
// missing when the value was filtered before it reached the function (the
// accumulators skip empty attribute values, RT.17) — such sites are listed in
// c08_13EmptyFiltered with the reason, one line each.

var c08_13EmptyFiltered = map[string]string{}

type enumChain struct {
	x       ssa.Value
	head    *ssa.BasicBlock
	last    *ssa.BasicBlock
	covered map[int64]bool
}

func enumChains(fn *ssa.Function) []enumChain {
	cmpOf := func(b *ssa.BasicBlock) (ssa.Value, int64, bool) {
		iff := core.IfOf(b)
		if iff == nil {
			return nil, 0, false
		}
		bo, ok := iff.Cond.(*ssa.BinOp)
		if !ok || bo.Op != token.EQL {
			return nil, 0, false
		}
		k, ok := core.ConstInt(bo.Y)
		if !ok {
			return nil, 0, false
		}
		if n := core.NamedOf(bo.X.Type()); n == nil || n.Obj().Pkg() == nil {
			return nil, 0, false
		}
		return bo.X, k, true
	}
	var out []enumChain
	for _, b := range fn.Blocks {
		x, _, ok := cmpOf(b)
		if !ok {
			continue
		}
		head := true
		for _, p := range b.Preds {
			if px, _, ok := cmpOf(p); ok && px == x && len(p.Succs) == 2 && p.Succs[1] == b {
				head = false
			}
		}
		if !head {
			continue
		}
		ch := enumChain{x: x, head: b, last: b, covered: map[int64]bool{}}
		for cur := b; ; {
			cx, k, ok := cmpOf(cur)
			if !ok || cx != x {
				break
			}
			ch.covered[k] = true
			ch.last = cur
			cur = cur.Succs[1]
		}
		out = append(out, ch)
	}
	return out
}

// endsInPanic: b, followed through unconditional jumps, ends in an explicit panic.
func endsInPanic(b *ssa.BasicBlock) *ssa.Panic {
	for n := 0; n < 8 && b != nil; n++ {
		if len(b.Instrs) == 0 {
			return nil
		}
		switch t := b.Instrs[len(b.Instrs)-1].(type) {
		case *ssa.Panic:
			if t.Pos() == token.NoPos {
				return nil
			}
			return t
		case *ssa.Jump:
			b = b.Succs[0]
		default:
			return nil
		}
	}
	return nil
}

func c08_13(c *core.Ctx, p *core.Prog) {
	reach := encodeReach(p)
	fns := sortedFuncs(p, reach)
	fns = append(fns, p.FuncsIn(func(pp string) bool { return core.IsCanaryPath(pp) && c.InScope(pp) })...)
	for _, fn := range fns {
		if fn.Synthetic != "" || !(prodPkg(core.FnPkgPath(fn)) || core.IsCanaryPath(core.FnPkgPath(fn))) {
			continue
		}
		k := 0
		for _, ch := range enumChains(fn) {
			nt := core.NamedOf(ch.x.Type())
			if nt == nil || nt.Obj().Pkg() == nil || !strings.HasPrefix(nt.Obj().Pkg().Path(), core.PdataPath) {
				continue
			}
			all := enumAllConsts(nt)
			if len(all) < 2 {
				continue
			}
			pn := endsInPanic(ch.last.Succs[1])
			if pn == nil {
				continue
			}
			k++
			key := fmt.Sprintf("enum|fn=%s|type=%s|#%d", core.FuncName(fn), nt.Obj().Name(), k)
			pos := p.Pos(pn.Pos())
			var missing []string
			onlyZero := true
			for v, name := range all {
				if !ch.covered[v] {
					missing = append(missing, name)
					if v != 0 {
						onlyZero = false
					}
				}
			}
			sort.Strings(missing)
			switch {
			case len(missing) == 0:
				c.OK(key, pos, core.FuncName(fn), fmt.Sprintf("the switch over %s has an arm for each of its %d constants: the panicking default is dead", nt.Obj().Name(), len(all)))
			case onlyZero && c08_13EmptyFiltered[core.FuncName(fn)] != "":
				c.OK(key, pos, core.FuncName(fn), fmt.Sprintf("only %s has no arm; %s", missing[0], c08_13EmptyFiltered[core.FuncName(fn)]))
			default:
				c.Viol(key, pos, core.FuncName(fn), fmt.Sprintf("the switch over %s has no arm for %s and its default panics: a valid OTLP value of that type crashes the producer instead of being encoded or refused with an error", nt.Obj().Name(), strings.Join(missing, ", ")))
			}
		}
	}
}

func init() {
	register("C08", &core.Rule{ID: "C08.13", Title: "a switch over a pdata enumeration whose default panics has an arm for every constant of the enumeration", Mod: core.ModRoot, Floor: 1, Run: c08_13, Canary: c08_13Canary})
}

const c08_13Canary = `package c

import (
	"strings"

	"go.opentelemetry.io/collector/pdata/pcommon"
)

// BadNoMapArm forgets the map values.
func BadNoMapArm(v pcommon.Value, b *strings.Builder) {
	switch v.Type() {
	case pcommon.ValueTypeStr:
		b.WriteString(v.Str())
	case pcommon.ValueTypeInt, pcommon.ValueTypeDouble, pcommon.ValueTypeBool:
		b.WriteString(v.AsString())
	case pcommon.ValueTypeBytes:
		b.WriteString("bytes")
	case pcommon.ValueTypeSlice:
		b.WriteString("slice")
	case pcommon.ValueTypeEmpty:
		return
	default:
		panic("unsupported value type")
	}
}

// GoodAllArms covers the enumeration.
func GoodAllArms(v pcommon.Value, b *strings.Builder) {
	switch v.Type() {
	case pcommon.ValueTypeStr:
		b.WriteString(v.Str())
	case pcommon.ValueTypeInt, pcommon.ValueTypeDouble, pcommon.ValueTypeBool:
		b.WriteString(v.AsString())
	case pcommon.ValueTypeBytes:
		b.WriteString("bytes")
	case pcommon.ValueTypeSlice, pcommon.ValueTypeMap:
		b.WriteString("container")
	case pcommon.ValueTypeEmpty:
		return
	default:
		panic("unsupported value type")
	}
}
`
