package rules

import (
	"go/token"
	"go/types"
	"sort"
	"strings"

	"golang.org/x/tools/go/callgraph"
	"golang.org/x/tools/go/ssa"

	"otelcheck/internal/core"
)

// Origin engine (DESIGN 2.5, engines S/T): a field-based, context-insensitive
// value-origin analysis. Every SSA value is mapped to the set of origin tokens
// it may derive from:
//   get:T.F   the result of the pdata getter T.F()
//   col:name  a column handle / column id created for the Arrow field `name`
//             (schema-builder constructor call or pkg/arrow FieldID lookup with
//             a constant name)
// Tokens flow through pure SSA instructions, local cells, closure bindings,
// repository struct fields (field-based: one set per field), parameters (union
// over the call sites in the call graph) and results of repository functions.
// Functions of pkg/arrow (the typed accessors) are opaque: their result derives
// from their arguments at the call site, which keeps the column id that is
// passed apart from the ids passed at other call sites.

type tokSet map[string]bool

func (s tokSet) addAll(t tokSet) bool {
	ch := false
	for k := range t {
		if !s[k] {
			s[k] = true
			ch = true
		}
	}
	return ch
}

func (s tokSet) with(prefix string) []string {
	var out []string
	for k := range s {
		if strings.HasPrefix(k, prefix) {
			out = append(out, strings.TrimPrefix(k, prefix))
		}
	}
	sort.Strings(out)
	return out
}

type originEngine struct {
	p      *core.Prog
	fns    map[*ssa.Function]bool
	field  map[*types.Var]tokSet
	param  map[*ssa.Parameter]tokSet
	ret    map[*ssa.Function][]tokSet
	rounds int
}

func constString(v ssa.Value) (string, bool) {
	c, ok := v.(*ssa.Const)
	if !ok || c.Value == nil {
		return "", false
	}
	s := c.Value.ExactString()
	if len(s) >= 2 && s[0] == '"' {
		return strings.Trim(s, `"`), true
	}
	return "", false
}

// sourceToken classifies a call as a token source.
func sourceToken(cl *ssa.Call) (tok string, ok bool) {
	f := core.CalleeObj(cl)
	if f == nil {
		return "", false
	}
	if pf := pdataCallee(cl); pf != nil {
		if len(cl.Call.Args) == 1 && !cl.Call.IsInvoke() && !isMutatorName(pf.Name()) {
			sig := pf.Type().(*types.Signature)
			if sig.Results().Len() == 1 {
				switch pf.Name() {
				case "Len", "At", "AsRaw", "AsString", "Type", "ValueType", "String", "IsEmpty", "Int", "Double", "Str", "Bool", "Bytes", "Map", "Slice", "AsTime":
					return "", false
				}
				return "get:" + core.RecvNamed(pf).Obj().Name() + "." + pf.Name(), true
			}
		}
		return "", false
	}
	if f.Pkg() == nil {
		return "", false
	}
	// column constructors of the schema builders and column-id lookups of pkg/arrow: a constant name argument
	pp := f.Pkg().Path()
	if pp == pkgBuilder || (pp == pkgArrowUtils && strings.Contains(f.Name(), "FieldID")) {
		for _, a := range core.CallArgs(cl) {
			if s, isC := constString(a); isC && basicKind(a.Type()) == types.String {
				return "col:" + s, true
			}
		}
	}
	return "", false
}

func basicKind(t types.Type) types.BasicKind {
	if b, ok := t.Underlying().(*types.Basic); ok {
		return b.Kind()
	}
	return types.Invalid
}

func repoStructField(fv *types.Var, base types.Type) bool {
	n := core.NamedOf(base)
	if n == nil || n.Obj().Pkg() == nil {
		return false
	}
	return core.InRepo(n.Obj().Pkg().Path()) || core.IsCanaryPath(n.Obj().Pkg().Path())
}

// tokens computes the origin set of v under the current summaries.
func (e *originEngine) tokens(v ssa.Value) tokSet {
	out := tokSet{}
	seen := map[ssa.Value]bool{}
	var walk func(v ssa.Value)
	walkAllocStores := func(al ssa.Value) {
		var into func(addr ssa.Value, depth int)
		into = func(addr ssa.Value, depth int) {
			for _, r := range core.Referrers(addr) {
				if st, ok := r.(*ssa.Store); ok && st.Addr == addr {
					walk(st.Val)
				}
				if sub, ok := r.(ssa.Value); ok && depth < 6 {
					switch y := sub.(type) {
					case *ssa.Slice:
						// copy(cell[:], src) fills the cell
						if y.X == addr {
							for _, r2 := range core.Referrers(y) {
								if cl, ok := r2.(*ssa.Call); ok {
									if bi, ok := cl.Call.Value.(*ssa.Builtin); ok && bi.Name() == "copy" && len(cl.Call.Args) == 2 && cl.Call.Args[0] == ssa.Value(y) {
										walk(cl.Call.Args[1])
									}
								}
							}
						}
					case *ssa.IndexAddr:
						if y.X == addr {
							into(sub, depth+1)
						}
					case *ssa.FieldAddr:
						// fields of repository structs are tracked field-based, not through the cell
						if y.X == addr && !repoStructField(core.FieldVar(y), y.X.Type()) {
							into(sub, depth+1)
						}
					}
				}
			}
		}
		into(al, 0)
	}
	walk = func(v ssa.Value) {
		if v == nil || seen[v] {
			return
		}
		seen[v] = true
		switch x := v.(type) {
		case *ssa.Parameter:
			out.addAll(e.param[x])
		case *ssa.Phi:
			for _, ed := range x.Edges {
				walk(ed)
			}
		case *ssa.UnOp:
			if fa, ok := x.X.(*ssa.FieldAddr); ok {
				if fv := core.FieldVar(fa); fv != nil && repoStructField(fv, fa.X.Type()) {
					out.addAll(e.field[fv])
					return
				}
				walk(fa.X)
				return
			}
			if ia, ok := x.X.(*ssa.IndexAddr); ok {
				walk(ia.X)
				return
			}
			walk(x.X)
		case *ssa.FieldAddr:
			if fv := core.FieldVar(x); fv != nil && repoStructField(fv, x.X.Type()) {
				out.addAll(e.field[fv])
				return
			}
			walk(x.X)
		case *ssa.Field:
			if fv := core.FieldVar(x); fv != nil && repoStructField(fv, x.X.Type()) {
				out.addAll(e.field[fv])
				return
			}
			walk(x.X)
		case *ssa.FreeVar:
			fn := x.Parent()
			if fn == nil || fn.Parent() == nil {
				return
			}
			idx := -1
			for i, f := range fn.FreeVars {
				if f == x {
					idx = i
				}
			}
			core.EachInstr(fn.Parent(), func(i ssa.Instruction) {
				if mc, ok := i.(*ssa.MakeClosure); ok && mc.Fn == fn && idx >= 0 && idx < len(mc.Bindings) {
					walk(mc.Bindings[idx])
				}
			})
		case *ssa.Alloc:
			walkAllocStores(x)
		case *ssa.BinOp:
			walk(x.X)
			walk(x.Y)
		case *ssa.ChangeType:
			walk(x.X)
		case *ssa.Convert:
			walk(x.X)
		case *ssa.MakeInterface:
			walk(x.X)
		case *ssa.ChangeInterface:
			walk(x.X)
		case *ssa.TypeAssert:
			walk(x.X)
		case *ssa.Extract:
			if cl, ok := x.Tuple.(*ssa.Call); ok {
				if callee := core.StaticCallee(cl); callee != nil && e.fns[callee] && !opaqueFn(callee) {
					if _, isSrc := sourceToken(cl); !isSrc {
						if rs := e.ret[callee]; x.Index < len(rs) && rs[x.Index] != nil {
							out.addAll(rs[x.Index])
						}
						return
					}
				}
			}
			walk(x.Tuple)
		case *ssa.Index:
			walk(x.X)
		case *ssa.IndexAddr:
			walk(x.X)
		case *ssa.Slice:
			walk(x.X)
		case *ssa.Lookup:
			walk(x.X)
		case *ssa.Call:
			if tok, ok := sourceToken(x); ok {
				out[tok] = true
				return
			}
			if callee := core.StaticCallee(x); callee != nil && e.fns[callee] && !opaqueFn(callee) {
				for _, rs := range e.ret[callee] {
					out.addAll(rs)
				}
				return
			}
			for _, a := range x.Call.Args {
				if _, isFn := a.Type().Underlying().(*types.Signature); isFn {
					continue
				}
				walk(a)
			}
			if x.Call.IsInvoke() {
				walk(x.Call.Value)
			}
		}
	}
	walk(v)
	return out
}

// opaqueFn: typed accessors of pkg/arrow and the schema-builder wrappers: result derives from the arguments at the call site.
func opaqueFn(f *ssa.Function) bool {
	pp := core.FnPkgPath(f)
	return pp == pkgArrowUtils || pp == pkgBuilder
}

func newOriginEngine(p *core.Prog, g *callgraph.Graph, fns map[*ssa.Function]bool) *originEngine {
	e := &originEngine{p: p, fns: fns, field: map[*types.Var]tokSet{}, param: map[*ssa.Parameter]tokSet{}, ret: map[*ssa.Function][]tokSet{}}
	list := sortedFuncs(p, fns)
	for round := 0; round < 8; round++ {
		changed := false
		for _, fn := range list {
			if opaqueFn(fn) {
				continue
			}
			for _, b := range fn.Blocks {
				for _, ins := range b.Instrs {
					switch x := ins.(type) {
					case *ssa.Store:
						// table-driven column ids: `for _, row := range []struct{name string; id *int}{{"a", &ids.A}, …} {
						// id, _ := FieldIDFromSchema(schema, row.name); *row.id = id }` — row by row, the constant name
						// of a row is the column of the field that row's pointer designates
						for fv, name := range tableDrivenIDs(x) {
							if e.field[fv] == nil {
								e.field[fv] = tokSet{}
							}
							if !e.field[fv]["col:"+name] {
								e.field[fv]["col:"+name] = true
								changed = true
							}
						}
						if fa, ok := x.Addr.(*ssa.FieldAddr); ok {
							fv := core.FieldVar(fa)
							if fv != nil && repoStructField(fv, fa.X.Type()) {
								ts := e.tokens(x.Val)
								if len(ts) > 0 {
									if e.field[fv] == nil {
										e.field[fv] = tokSet{}
									}
									if e.field[fv].addAll(ts) {
										changed = true
									}
								}
							}
						}
					case *ssa.Return:
						for i, r := range x.Results {
							ts := e.tokens(r)
							if len(ts) == 0 {
								continue
							}
							for len(e.ret[fn]) <= i {
								e.ret[fn] = append(e.ret[fn], nil)
							}
							if e.ret[fn][i] == nil {
								e.ret[fn][i] = tokSet{}
							}
							if e.ret[fn][i].addAll(ts) {
								changed = true
							}
						}
					}
					// arguments → parameters, along call-graph edges
					if ci, ok := ins.(ssa.CallInstruction); ok {
						var callees []*ssa.Function
						if sc := core.StaticCallee(ci); sc != nil {
							callees = []*ssa.Function{sc}
						} else if n := g.Nodes[fn]; n != nil {
							for _, ed := range n.Out {
								if ed.Site == ci {
									callees = append(callees, ed.Callee.Func)
								}
							}
						}
						var args []ssa.Value
						cc := ci.Common()
						if cc.IsInvoke() {
							args = append(args, cc.Value)
						}
						args = append(args, cc.Args...)
						var argTok []tokSet
						for _, callee := range callees {
							if callee == nil || !e.fns[callee] || opaqueFn(callee) || len(callee.Params) == 0 {
								continue
							}
							if argTok == nil {
								for _, a := range args {
									if _, isFn := a.Type().Underlying().(*types.Signature); isFn {
										argTok = append(argTok, nil)
										continue
									}
									argTok = append(argTok, e.tokens(a))
								}
							}
							for i, pr := range callee.Params {
								if i >= len(argTok) || len(argTok[i]) == 0 {
									continue
								}
								if e.param[pr] == nil {
									e.param[pr] = tokSet{}
								}
								if e.param[pr].addAll(argTok[i]) {
									changed = true
								}
							}
						}
					}
				}
			}
		}
		e.rounds = round + 1
		if !changed {
			break
		}
	}
	return e
}

// tableDrivenIDs recognises `*row.ptr = lookup(…, row.name)` where row is an element of a slice literal
// built in the same function, and returns, for every row of that literal, the struct field the row's
// pointer component designates together with the row's constant name component.
func tableDrivenIDs(st *ssa.Store) map[*types.Var]string {
	ptr, ok := st.Addr.(*ssa.Field) // row.ptr of a row loaded by value
	var rowVal ssa.Value
	ptrIdx := -1
	if ok {
		rowVal, ptrIdx = ptr.X, ptr.Field
	} else if ld, ok2 := st.Addr.(*ssa.UnOp); ok2 && ld.Op == token.MUL { // row addressed in place: *(&rows[i].ptr)
		if fa, ok3 := ld.X.(*ssa.FieldAddr); ok3 {
			rowVal, ptrIdx = fa.X, fa.Field
		}
	}
	if rowVal == nil {
		return nil
	}
	// the stored id comes from a column-id lookup whose name argument is a component of the same row
	var lookup *ssa.Call
	switch v := core.Strip(st.Val).(type) {
	case *ssa.Extract:
		lookup, _ = v.Tuple.(*ssa.Call)
	case *ssa.Call:
		lookup = v
	}
	if lookup == nil {
		return nil
	}
	f := core.CalleeObj(lookup)
	funcIdx := -1
	if f == nil {
		// the lookup function itself is a component of the row (`row.lookup(schema, row.name)`): every row must name
		// one of the accessors' column-id lookups (checked below)
		switch fv := lookup.Call.Value.(type) {
		case *ssa.Field:
			if fv.X == rowVal {
				funcIdx = fv.Field
			}
		case *ssa.UnOp:
			if fa, ok := fv.X.(*ssa.FieldAddr); ok && fv.Op == token.MUL && fa.X == rowVal {
				funcIdx = fa.Field
			}
		}
		if funcIdx < 0 {
			return nil
		}
	} else if f.Pkg() == nil || f.Pkg().Path() != pkgArrowUtils || !strings.Contains(f.Name(), "FieldID") {
		return nil
	}
	nameIdx := -1
	for _, a := range core.CallArgs(lookup) {
		switch n := a.(type) {
		case *ssa.Field:
			if n.X == rowVal {
				nameIdx = n.Field
			}
		case *ssa.UnOp:
			if fa, ok := n.X.(*ssa.FieldAddr); ok && n.Op == token.MUL && (fa.X == rowVal || core.SameValue(fa.X, rowVal)) {
				nameIdx = fa.Field
			}
		}
	}
	if nameIdx < 0 {
		return nil
	}
	// the row: an element of a slice over an array literal
	var elemAddr *ssa.IndexAddr
	switch r := rowVal.(type) {
	case *ssa.UnOp:
		elemAddr, _ = r.X.(*ssa.IndexAddr)
	case *ssa.IndexAddr:
		elemAddr = r
	case *ssa.Alloc:
		// the range variable lives in a local cell: `*cell = rows[i]`
		for _, ref := range *r.Referrers() {
			if s0, ok := ref.(*ssa.Store); ok && s0.Addr == ssa.Value(r) {
				if ld, ok := s0.Val.(*ssa.UnOp); ok && ld.Op == token.MUL {
					if ia, ok := ld.X.(*ssa.IndexAddr); ok {
						if elemAddr != nil && elemAddr != ia {
							return nil
						}
						elemAddr = ia
					}
				}
			}
		}
	}
	if elemAddr == nil {
		return nil
	}
	var arr *ssa.Alloc
	if sl, ok := core.Strip(elemAddr.X).(*ssa.Slice); ok {
		arr, _ = sl.X.(*ssa.Alloc)
	} else {
		arr, _ = core.Strip(elemAddr.X).(*ssa.Alloc) // an array literal indexed in place
	}
	if arr == nil {
		return nil
	}
	funcOK := map[int64]bool{}
	names := map[int64]string{}
	targets := map[int64]*types.Var{}
	for _, ref := range *arr.Referrers() {
		ia, ok := ref.(*ssa.IndexAddr)
		if !ok {
			continue
		}
		k, isC := core.ConstInt(ia.Index)
		if !isC {
			continue
		}
		for _, r2 := range *ia.Referrers() {
			fa, ok := r2.(*ssa.FieldAddr)
			if !ok {
				continue
			}
			for _, r3 := range *fa.Referrers() {
				s3, ok := r3.(*ssa.Store)
				if !ok || s3.Addr != ssa.Value(fa) {
					continue
				}
				switch fa.Field {
				case nameIdx:
					if n, isS := constString(s3.Val); isS {
						names[k] = n
					}
				case ptrIdx:
					if tgt, ok := s3.Val.(*ssa.FieldAddr); ok {
						targets[k] = core.FieldVar(tgt)
					}
				}
				if fa.Field == funcIdx && funcIdx >= 0 {
					v := s3.Val
					if cf, ok := v.(*ssa.ChangeType); ok {
						v = cf.X
					}
					if fn, ok := v.(*ssa.Function); ok && fn.Pkg != nil && fn.Pkg.Pkg.Path() == pkgArrowUtils && strings.Contains(fn.Name(), "FieldID") {
						funcOK[k] = true
					}
				}
			}
		}
	}
	out := map[*types.Var]string{}
	for k, n := range names {
		if funcIdx >= 0 && !funcOK[k] {
			continue
		}
		if t := targets[k]; t != nil {
			out[t] = n
		}
	}
	return out
}
