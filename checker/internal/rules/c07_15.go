package rules

import (
	"fmt"
	"regexp"
	"sort"
	"strings"

	"golang.org/x/tools/go/ssa"

	"otelcheck/internal/core"
)

// C07.15 — the width-named column accessors are width-strict.
//
// The decoders tell a main record from a related table by nothing but the
// label of the payload; what stops a relabelled main record (whose `id` column
// is 16 bits wide) from being decoded as a related table (whose `id` is 32
// bits wide), with a nil error and nothing attached to anything, is that the
// accessor named for a width refuses a column of another width
// (ErrInvalidArrayType).  pkg/arrow also has width-generic readers
// (UnsignedFromRecord) for the columns that legitimately change width; an
// accessor named U32… that delegates to one of them accepts every width.
//
// Rule (sibling cross-check over the width-named accessors of pkg/arrow): the
// Arrow array types such an accessor asserts — itself or through the pkg/arrow
// functions it calls — are its own width's array type, a dictionary, or a
// container (struct, list); never the array type of another numeric width.

var widthAccessor = regexp.MustCompile(`^(?:Bad|Good)?(Nullable)?(U8|U16|U32|U64|I8|I16|I32|I64|F32|F64)(OrNil)?From(Record|Struct)$`)

var widthArray = map[string]string{"U8": "Uint8", "U16": "Uint16", "U32": "Uint32", "U64": "Uint64", "I8": "Int8", "I16": "Int16", "I32": "Int32", "I64": "Int64", "F32": "Float32", "F64": "Float64"}

func c07_15(c *core.Ctx, p *core.Prog) {
	numeric := map[string]bool{}
	for _, v := range widthArray {
		numeric[v] = true
	}
	fns := p.FuncsIn(func(pp string) bool { return pp == pkgArrowUtils || (core.IsCanaryPath(pp) && c.InScope(pp)) })
	sort.Slice(fns, func(i, j int) bool { return core.FuncName(fns[i]) < core.FuncName(fns[j]) })
	for _, fn := range fns {
		if fn.Synthetic != "" || fn.Parent() != nil {
			continue
		}
		m := widthAccessor.FindStringSubmatch(fn.Name())
		if m == nil {
			continue
		}
		want := widthArray[m[2]]
		asserted := map[string]string{}
		seen := map[*ssa.Function]bool{}
		var walk func(f *ssa.Function, d int)
		walk = func(f *ssa.Function, d int) {
			if f == nil || seen[f] || f.Blocks == nil || d > 2 {
				return
			}
			seen[f] = true
			core.EachInstr(f, func(i ssa.Instruction) {
				switch x := i.(type) {
				case *ssa.TypeAssert:
					if core.TypePkgPath(x.AssertedType) == arrowArray || core.IsCanaryPath(core.TypePkgPath(x.AssertedType)) {
						asserted[core.TypeName(x.AssertedType)] = p.Pos(x.Pos())
					}
				case *ssa.Call:
					h := x.Call.StaticCallee()
					if h != nil && (core.FnPkgPath(h) == core.FnPkgPath(fn)) {
						walk(h, d+1)
					}
				}
			})
		}
		walk(fn, 0)
		var bad []string
		for t, pos := range asserted {
			if numeric[t] && t != want {
				bad = append(bad, fmt.Sprintf("%s (%s)", t, pos))
			}
		}
		sort.Strings(bad)
		_, hasOwn := asserted[want]
		key := "accessor=" + core.FuncName(fn)
		switch {
		case len(bad) > 0:
			c.Viol(key, p.Pos(fn.Pos()), core.FuncName(fn), fmt.Sprintf("%s also accepts columns of type %s: a payload relabelled as a table whose id has this accessor's width is then decoded as that table instead of being refused (success with the main record discarded)", fn.Name(), strings.Join(bad, ", ")))
		case !hasOwn:
			c.Undecided(key, p.Pos(fn.Pos()), core.FuncName(fn), "no assertion of array."+want+" found in the accessor")
		default:
			c.OK(key, p.Pos(fn.Pos()), core.FuncName(fn), "accepts array."+want+" (and dictionaries/containers) only")
		}
	}
}

func init() {
	register("C07", &core.Rule{ID: "C07.15", Title: "width-named column accessors refuse columns of another numeric width", Mod: core.ModRoot, Floor: 12, Run: c07_15, Canary: c07_15Canary})
}

const c07_15Canary = `package c

import "errors"

type Uint16 struct{ v []uint16 }
type Uint32 struct{ v []uint32 }

var errType = errors.New("invalid array type")

func anyUnsigned(arr any, row int) (uint32, error) {
	switch a := arr.(type) {
	case *Uint16:
		return uint32(a.v[row]), nil
	case *Uint32:
		return a.v[row], nil
	}
	return 0, errType
}

// BadU32FromRecord delegates to the width-generic reader.
func BadU32FromRecord(arr any, row int) (uint32, error) { return anyUnsigned(arr, row) }

// GoodU16FromRecord is strict.
func GoodU16FromRecord(arr any, row int) (uint16, error) {
	if a, ok := arr.(*Uint16); ok {
		return a.v[row], nil
	}
	return 0, errType
}
`
