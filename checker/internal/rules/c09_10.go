package rules

import (
	"fmt"
	"go/token"
	"go/types"

	"golang.org/x/tools/go/ssa"

	"otelcheck/internal/core"
)

// C09.10 (= C05.16) — split accounting.
//
// The splitters move elements out of the pending request inside nested
// RemoveIf callbacks and keep one running count, shared by all nesting levels
// through a captured variable, against which every capacity test is made
// ("done" when count == size, "fits" when count + n <= size).  The count is
// right only if every element that is moved out is added to it, with the same
// quantity the capacity test of that arm used:
//
//	(a) every path of a callback that ends in `return true` (the element is
//	    removed, hence — C05.1 — was moved out) stores to the running count;
//	(b) the amount added is the constant 1 (a leaf element), the very value
//	    that the guard of the arm added to the count in its comparison, or what
//	    a package splitter that was handed the remaining capacity reports.
//
// A move that is not counted lets later elements in, so the fragment exceeds
// send_batch_max_size (C09) and the item accounting of the pending entries
// drifts from the content (C05); one counted with another quantity does both
// in either direction.

func c09_10(c *core.Ctx, p *core.Prog) {
	fns := cbpFuncs(c, p)
	cbs := removeIfCallbacks(fns)
	// the running count of a splitter: an int cell of the top-level function that some callback stores to
	top := func(f *ssa.Function) *ssa.Function {
		for f.Parent() != nil {
			f = f.Parent()
		}
		return f
	}
	counters := map[*ssa.Function]map[ssa.Value]bool{}
	for _, cb := range cbs {
		if cb.clo == nil {
			continue
		}
		core.EachInstr(cb.clo, func(i ssa.Instruction) {
			st, ok := i.(*ssa.Store)
			if !ok {
				return
			}
			cell := cellOf(st.Addr)
			al, ok := cell.(*ssa.Alloc)
			if !ok || al.Parent() != top(cb.clo) {
				return
			}
			if b, ok := al.Type().(*types.Pointer).Elem().Underlying().(*types.Basic); !ok || b.Info()&types.IsInteger == 0 {
				return
			}
			if counters[top(cb.clo)] == nil {
				counters[top(cb.clo)] = map[ssa.Value]bool{}
			}
			counters[top(cb.clo)][cell] = true
		})
	}
	for _, cb := range cbs {
		clo := cb.clo
		if clo == nil {
			continue
		}
		cs := counters[top(clo)]
		key := "account|callback=" + core.FuncName(clo)
		pos := p.Pos(cb.call.Pos())
		if len(cs) == 0 {
			// a RemoveIf that is not part of a counted split (e.g. dropping empty containers)
			continue
		}
		isCount := func(i ssa.Instruction) bool {
			st, ok := i.(*ssa.Store)
			return ok && cs[cellOf(st.Addr)]
		}
		// (a) every constant-true return passes a store to the count
		bad := ""
		for _, r := range core.Returns(clo) {
			if len(r.Results) != 1 {
				continue
			}
			if b, ok := core.ConstBool(r.Results[0]); !ok || !b {
				continue
			}
			if skip, _ := (core.PathQuery{Fn: clo, To: r, Avoid: isCount}).Exists(); skip {
				bad = fmt.Sprintf("%s: the element is removed (return true) on a path that does not add it to the running count", p.Pos(r.Pos()))
			}
		}
		// (b) the amount added
		core.EachInstr(clo, func(i ssa.Instruction) {
			st, ok := i.(*ssa.Store)
			if !ok || !isCount(st) || bad != "" {
				return
			}
			add, ok := st.Val.(*ssa.BinOp)
			if !ok || add.Op != token.ADD {
				bad = fmt.Sprintf("%s: the running count is assigned something other than count + n", p.Pos(st.Pos()))
				return
			}
			isLoad := func(v ssa.Value) bool {
				u, ok := v.(*ssa.UnOp)
				return ok && u.Op == token.MUL && cs[cellOf(u.X)]
			}
			var amount ssa.Value
			switch {
			case isLoad(add.X):
				amount = add.Y
			case isLoad(add.Y):
				amount = add.X
			default:
				bad = fmt.Sprintf("%s: the running count is not advanced from its own value", p.Pos(st.Pos()))
				return
			}
			if k, ok := core.ConstInt(amount); ok {
				if k != 1 {
					bad = fmt.Sprintf("%s: the running count advances by the constant %d", p.Pos(st.Pos()), k)
				}
				return
			}
			// a delegated split: the amount is what a package splitter, given the remaining capacity, reports it moved (C09.9)
			if core.DerivesFrom(amount, func(v ssa.Value) bool {
				cl, ok := v.(*ssa.Call)
				if !ok || cl.Call.StaticCallee() == nil || cl.Call.StaticCallee().Pkg != clo.Pkg {
					return false
				}
				for _, a := range cl.Call.Args {
					if core.DerivesFrom(a, isLoadValue(cs)) {
						return true
					}
				}
				return false
			}) {
				return
			}
			// the amount must be the quantity of a capacity test that guards the store
			guarded := false
			for _, b := range clo.Blocks {
				iff := core.IfOf(b)
				if iff == nil || !(core.GuardedBy(iff, true, st) || core.GuardedBy(iff, false, st)) {
					continue
				}
				usesCount := core.DerivesFrom(iff.Cond, isLoadValue(cs))
				usesAmount := core.DerivesFrom(iff.Cond, func(v ssa.Value) bool { return sameQty(v, amount) })
				if usesCount && usesAmount {
					guarded = true
				}
			}
			if !guarded {
				bad = fmt.Sprintf("%s: the running count advances by a quantity other than the one its capacity test compared (the test and the accounting disagree)", p.Pos(st.Pos()))
			}
		})
		c.Check(bad == "", key, pos, core.FuncName(clo),
			"every removal is added to the running count, with the quantity the capacity test used",
			"split accounting: "+bad+" — later elements are admitted against a wrong count, so the fragment can exceed the requested size and the items reported as sent drift from the content")
	}
}

// sameQty: the same SSA value, or two loads of the same local cell (a variable
// that a nested closure captures lives in a cell and is re-loaded at each use).
func sameQty(a, b ssa.Value) bool {
	if a == b {
		return true
	}
	la, ok1 := a.(*ssa.UnOp)
	lb, ok2 := b.(*ssa.UnOp)
	if !ok1 || !ok2 || la.Op != token.MUL || lb.Op != token.MUL {
		return false
	}
	ca, cb := cellOf(la.X), cellOf(lb.X)
	return ca != nil && ca == cb
}

func isLoadValue(cs map[ssa.Value]bool) func(ssa.Value) bool {
	return func(v ssa.Value) bool {
		u, ok := v.(*ssa.UnOp)
		return ok && u.Op == token.MUL && cs[cellOf(u.X)]
	}
}

func init() {
	register("C09", &core.Rule{ID: "C09.10", Title: "split accounting: every element a splitter moves out is added to the running count with the quantity its capacity test used", Mod: core.ModCBP, Floor: 12, Run: c09_10})
	register("C05", &core.Rule{ID: "C05.16", Title: "split accounting: every element a splitter moves out is added to the running count with the quantity its capacity test used", Mod: core.ModCBP, Floor: 12, Run: c09_10})
}
