package rules

import (
	"golang.org/x/tools/go/ssa"

	"otelcheck/internal/core"
)

// C05.13 no loss between taking items out of the buffer and exporting them.
// splitBatch removes the items of the next request from the pending buffer; from
// that point on the only copy is the local request value. Every path from the
// splitBatch call to an exit of the sending function must therefore spawn the
// export goroutine, and every path through the goroutine body from its entry
// must reach the export call. A return in between (a failed semaphore wait, a
// cancelled context, an "empty" shortcut) drops accepted items silently.
func c05_13(c *core.Ctx, p *core.Prog) {
	a := newCBPAnchors(p)
	if !a.ok(c) {
		return
	}
	if a.sendFn == nil || a.goInstr == nil || a.exportFn == nil || a.exportCall == nil {
		c.Undecided("anchors", "?", "", "send function / go statement / export call not resolved")
		return
	}
	var split ssa.Instruction
	core.EachInstr(a.sendFn, func(i ssa.Instruction) {
		if ci, ok := i.(ssa.CallInstruction); ok && ci.Common().IsInvoke() && ci.Common().Method == a.mSplit {
			split = i
		}
	})
	if split == nil {
		c.Undecided("anchors|split", p.Pos(a.sendFn.Pos()), core.FuncName(a.sendFn), "splitBatch call not found in the sending function")
		return
	}
	// "nothing was taken out" is a legitimate early exit: the edge on which the count returned by splitBatch is zero
	cut := map[core.Edge]bool{}
	if sv, ok := split.(ssa.Value); ok {
		for _, b := range a.sendFn.Blocks {
			iff := core.IfOf(b)
			if iff == nil {
				continue
			}
			subj, zeroOnTrue, ok := zeroCond(iff.Cond)
			if !ok {
				continue
			}
			if ex, isEx := core.Canon(core.StripConv(subj)).(*ssa.Extract); isEx && ex.Tuple == sv && ex.Index == 0 {
				idx := 1
				if zeroOnTrue {
					idx = 0
				}
				cut[core.Edge{From: b, To: b.Succs[idx]}] = true
			}
		}
	}
	skip, _ := (core.PathQuery{Fn: a.sendFn, From: split, Avoid: func(i ssa.Instruction) bool { return i == ssa.Instruction(a.goInstr) }, CutEdges: cut, ExitReturnOnly: true}).Exists()
	c.Check(!skip, "send|split-to-go", p.Pos(split.Pos()), core.FuncName(a.sendFn),
		"every path from splitBatch to a return of the sending function spawns the export goroutine",
		"a return is reachable between splitBatch (which removed the items from the buffer) and the spawn of the export goroutine: the items of that request are exported nowhere and, with early return, their callers were already told success")
	skip2, _ := (core.PathQuery{Fn: a.exportFn, Avoid: func(i ssa.Instruction) bool { return i == a.exportCall.(ssa.Instruction) }, ExitReturnOnly: true}).Exists()
	c.Check(!skip2, "export|entry-to-export", p.Pos(a.exportCall.Pos()), core.FuncName(a.exportFn),
		"every path through the export goroutine reaches the export call",
		"the export goroutine can return without calling export: the request it was given is dropped")
}

func init() {
	register("C05", &core.Rule{ID: "C05.13", Title: "no loss between splitBatch and export: the goroutine is always spawned and always exports", Mod: core.ModCBP, Floor: 2, Run: c05_13})
}
