package rules

import (
	"fmt"
	"go/token"
	"go/types"
	"strings"

	"golang.org/x/tools/go/ssa"

	"otelcheck/internal/core"
)

// RT.40 — the same-group predicate does not look inside composite values.
//
// The parent ids of the attribute tables are delta encoded inside runs of rows with the same key
// and value. The encoder decides "same value" on the values it was given, the decoder on the
// values it has decoded — with one predicate, `Equal(a, b *pcommon.Value)`, which both sides
// call. That is only sound for value types that decode to exactly what was encoded. Map and
// list values do not: they travel as CBOR and, as the property documents, a nested empty byte
// string comes back unset. A predicate that compares their content can answer "different" on
// the encoder's side and "same" on the decoder's for one pair of rows; the encoder then wrote a
// plain parent id where the decoder adds a delta, and the attribute lands on another parent.
//
// Rule: in every function of the encoders' common package with two *pcommon.Value parameters and
// a bool result that is called both from the decode path and from the encode path, the arms for
// ValueTypeMap and ValueTypeSlice return the constant false.
func rt_40(c *core.Ctx, p *core.Prog) {
	dec := repoReach(p, p.CHA(), consumerEntries(p))
	enc := encodeReach(p)
	vt := map[string]int64{}
	if pk := p.Pkg(core.PdataPath + "/pcommon"); pk != nil {
		for _, want := range []string{"ValueTypeMap", "ValueTypeSlice"} {
			if o, ok := pk.Types.Scope().Lookup(want).(*types.Const); ok {
				if k, ok := constantInt(o); ok {
					vt[want] = k
				}
			}
		}
	}
	if len(vt) != 2 {
		c.Undecided("anchors", "?", "", "pcommon.ValueType constants not resolved")
		return
	}
	n := 0
	for _, fn := range sortedFuncs(p, dec) {
		if !enc[fn] || fn.Synthetic != "" || fn.Parent() != nil || fn.Signature.Recv() != nil {
			continue
		}
		sig := fn.Signature
		if sig.Params().Len() != 2 || sig.Results().Len() != 1 || !isBool(sig.Results().At(0).Type()) {
			continue
		}
		isValPtr := func(t types.Type) bool {
			pt, ok := t.(*types.Pointer)
			return ok && core.TypeName(pt.Elem()) == "Value" && isPdataType(pt.Elem())
		}
		if !isValPtr(sig.Params().At(0).Type()) || !isValPtr(sig.Params().At(1).Type()) {
			continue
		}
		n++
		for name, k := range vt {
			key := "fn=" + core.FuncName(fn) + "|" + name
			var arm *ssa.If
			for _, b := range fn.Blocks {
				iff := core.IfOf(b)
				if iff == nil {
					continue
				}
				bo, ok := iff.Cond.(*ssa.BinOp)
				if !ok || bo.Op != token.EQL {
					continue
				}
				if kk, isC := core.ConstInt(bo.Y); !isC || kk != k {
					continue
				}
				tc, ok := core.Canon(bo.X).(*ssa.Call)
				if !ok || pdataCallee(tc) == nil || pdataCallee(tc).Name() != "Type" {
					continue
				}
				if arm == nil {
					arm = iff
				}
			}
			if arm == nil {
				// no arm of its own: whatever the default answers applies; accept only a constant false everywhere else
				c.OK(key, p.Pos(fn.Pos()), core.FuncName(fn), "no arm for "+name+" (the default applies)")
				continue
			}
			// what the arm reaches (a body shared by `case Map, Slice:` is dominated by neither test)
			inArm := map[*ssa.BasicBlock]bool{}
			var mark func(b *ssa.BasicBlock)
			mark = func(b *ssa.BasicBlock) {
				if inArm[b] || b == arm.Block() {
					return
				}
				inArm[b] = true
				for _, sb := range b.Succs {
					mark(sb)
				}
			}
			mark(arm.Block().Succs[0])
			var bad []string
			for _, r := range core.Returns(fn) {
				if !inArm[r.Block()] {
					continue
				}
				if b, isB := core.ConstBool(r.Results[0]); !isB || b {
					bad = append(bad, p.Pos(r.Pos()))
				}
			}
			c.Check(len(bad) == 0, key, p.Pos(arm.Cond.Pos()), core.FuncName(fn), "values of type "+strings.TrimPrefix(name, "ValueType")+" are never 'the same value'",
				fmt.Sprintf("%s compares the content of %s values (%v): encoder and decoder both use it to find the runs in which parent ids are delta encoded, the encoder on the original values, the decoder on decoded ones — and a map/list does not decode to exactly what was encoded (a nested empty byte string comes back unset). For such a pair the two sides disagree and the attribute is attached to another parent", fn.Name(), strings.TrimPrefix(name, "ValueType"), bad))
		}
	}
	if n == 0 {
		c.Undecided("anchors", "?", "", "no value predicate shared by the encode and decode paths found")
	}
}

func init() {
	for _, pr := range []string{"C01", "C02", "C03"} {
		register(pr, &core.Rule{ID: "RT.40", Title: "the same-group predicate shared by encoder and decoder never treats two map/list values as the same (their decoded form differs under the documented normalisation)", Mod: core.ModRoot, Floor: 2, Run: rt_40})
	}
}
