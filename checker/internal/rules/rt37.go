package rules

import (
	"fmt"
	"go/token"
	"strings"

	"golang.org/x/tools/go/ssa"

	"otelcheck/internal/core"
)

// RT.37 — a nested column is declared absent only when all of its children are.
//
// The encoder writes the children of a struct column through optional
// builders (AppendNonZero, list builders that elide empty lists): a child
// column exists in the schema only once the stream carried a value that needs
// it.  The ids constructors of the decoder look the children up and, as a
// short-cut, replace the id of the struct column itself by "absent" when
// nothing can be read from it.  That is right only when every child is absent;
// overriding the id as soon as one child is missing drops the values of the
// children that are there (bucket counts of an exponential histogram whose
// offsets have all been zero so far), silently and depending on stream
// history.
//
// Rule: where an id that comes from a schema lookup is replaced by the absent
// constant on some path (a φ-node with a schema lookup on one edge and -1 on
// another), that path is under the "== absent" arm of a test of every child id
// looked up in the function.
func rt_37(c *core.Ctx, p *core.Prog) {
	reach := repoReach(p, p.CHA(), consumerEntries(p))
	fns := sortedFuncs(p, reach)
	fns = append(fns, p.FuncsIn(func(pp string) bool { return core.IsCanaryPath(pp) && c.InScope(pp) })...)
	isLookup := func(v ssa.Value) (*ssa.Call, bool) {
		ex, ok := v.(*ssa.Extract)
		if !ok || ex.Index != 0 {
			return nil, false
		}
		cl, ok := ex.Tuple.(*ssa.Call)
		if !ok {
			return nil, false
		}
		f := core.CalleeObj(cl)
		if f == nil || f.Pkg() == nil || !(f.Pkg().Path() == pkgArrowUtils || core.IsCanaryPath(f.Pkg().Path())) || !strings.Contains(f.Name(), "FieldID") {
			return nil, false
		}
		return cl, true
	}
	for _, fn := range fns {
		if fn.Synthetic != "" {
			continue
		}
		// children: ids looked up in a struct type
		var children []ssa.Value
		core.EachInstr(fn, func(i ssa.Instruction) {
			ex, ok := i.(*ssa.Extract)
			if !ok {
				return
			}
			if cl, ok := isLookup(ex); ok && strings.Contains(core.CalleeObj(cl).Name(), "FromStruct") {
				children = append(children, ex)
			}
		})
		k := 0
		core.EachInstr(fn, func(i ssa.Instruction) {
			ph, ok := i.(*ssa.Phi)
			if !ok || !isIntegerType(ph.Type()) {
				return
			}
			hasLookup := false
			for _, e := range ph.Edges {
				if _, ok := isLookup(e); ok {
					hasLookup = true
				}
			}
			if !hasLookup {
				return
			}
			for ei, e := range ph.Edges {
				v, isK := core.ConstInt(e)
				if !isK || v != -1 {
					continue
				}
				k++
				key := fmt.Sprintf("fn=%s|override#%d", core.FuncName(fn), k)
				pred := ph.Block().Preds[ei]
				at := pred.Instrs[len(pred.Instrs)-1]
				var missing []string
				for _, ch := range children {
					guarded := false
					for _, b := range fn.Blocks {
						iff := core.IfOf(b)
						if iff == nil {
							continue
						}
						cmp, ok := iff.Cond.(*ssa.BinOp)
						if !ok || (cmp.Op != token.EQL && cmp.Op != token.NEQ) {
							continue
						}
						kk, isC := core.ConstInt(cmp.Y)
						if !isC || kk != -1 || core.StripConv(cmp.X) != ch {
							continue
						}
						if core.GuardedBy(iff, cmp.Op == token.EQL, at) {
							guarded = true
						}
					}
					if !guarded {
						name := "?"
						if cl, ok := isLookup(ch); ok && len(cl.Call.Args) >= 2 {
							name = valueLabel(cl.Call.Args[1])
						}
						missing = append(missing, name)
					}
				}
				pos := p.Pos(ph.Pos())
				if !ph.Pos().IsValid() {
					pos = p.Pos(fn.Pos())
				}
				if len(children) == 0 {
					c.Viol(key, pos, core.FuncName(fn), "the id of a column found in the schema is replaced by 'absent' although no child was looked up: the column's values are dropped")
					continue
				}
				c.Check(len(missing) == 0, key, pos, core.FuncName(fn),
					fmt.Sprintf("the column is declared absent only when all %d children looked up here are absent", len(children)),
					fmt.Sprintf("the column is declared absent on a path where child %s may be present: the encoder creates each optional child only once the stream needs it, so the values of the children that are there are dropped until the others appear", strings.Join(missing, ", ")))
			}
		})
	}
}

func init() {
	register("C03", &core.Rule{ID: "RT.37", Title: "a nested column found in the schema is declared absent only when every child id looked up is absent", Mod: core.ModRoot, Floor: 1, Run: rt_37, Canary: rt37Canary})
}

const rt37Canary = `package c

func StructFieldID(name string) (int, int, error) { return len(name), 0, nil }
func FieldIDFromStruct(dt int, name string) (int, bool) { return len(name) - 3, true }

type Ids struct{ ID, A, B int }

// BadEitherChild drops the column when one child is missing.
func BadEitherChild(parent string) *Ids {
	id, dt, _ := StructFieldID(parent)
	a, _ := FieldIDFromStruct(dt, "a")
	b, _ := FieldIDFromStruct(dt, "bcd")
	if a == -1 || b == -1 {
		id = -1
	}
	return &Ids{id, a, b}
}

// GoodBothChildren drops the column only when nothing can be read.
func GoodBothChildren(parent string) *Ids {
	id, dt, _ := StructFieldID(parent)
	a, _ := FieldIDFromStruct(dt, "a")
	b, _ := FieldIDFromStruct(dt, "bcd")
	if a == -1 && b == -1 {
		id = -1
	}
	return &Ids{id, a, b}
}
`
