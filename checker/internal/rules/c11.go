package rules

import (
	"fmt"
	"go/types"
	"strings"

	"golang.org/x/tools/go/ssa"

	"otelcheck/internal/core"
)

// elemPrefix returns the access path up to and including the last element
// index: "t.pending[0].respCh" → "t.pending[0]"; paths through a local copy of
// an element ("pending.waiter") → "pending".
func elemPrefix(path string) string {
	if k := strings.LastIndex(path, "."); k >= 0 {
		return path[:k]
	}
	return path
}

// c11_4 (also C18.5): every channel send in the export goroutine is an arm of a
// select whose other arm receives from Done() of the *same* contributor's
// context.
func c11_4(c *core.Ctx, p *core.Prog) {
	a := newCBPAnchors(p)
	if !a.ok(c) {
		return
	}
	n := 0
	for _, fn := range core.WithClosures(a.exportFn) {
		core.EachInstr(fn, func(i ssa.Instruction) {
			switch x := i.(type) {
			case *ssa.Send:
				n++
				c.Viol(fmt.Sprintf("send#%d", n), p.Pos(x.Pos()), core.FuncName(fn), "bare channel send in the export goroutine: it blocks forever when the waiter has left (its context ended) and leaks the goroutine, the semaphore slot and Shutdown")
			case *ssa.Select:
				for _, st := range x.States {
					if st.Dir != types.SendOnly {
						continue
					}
					n++
					key := fmt.Sprintf("send#%d", n)
					chPath := core.AccessPath(st.Chan)
					ok, msg := false, "the select around the send has no <-ctx.Done() arm of the same contributor"
					for _, o := range x.States {
						if o.Dir != types.RecvOnly {
							continue
						}
						cl, isCall := o.Chan.(*ssa.Call)
						if !isCall || !cl.Call.IsInvoke() || cl.Call.Method.Name() != "Done" || !isCtx(cl.Call.Value.Type()) {
							continue
						}
						ctxPath := core.AccessPath(cl.Call.Value)
						if chPath == "" || ctxPath == "" {
							msg = "contributor of the send / Done arm not recognised"
							continue
						}
						if elemPrefix(chPath) == elemPrefix(ctxPath) {
							ok, msg = true, fmt.Sprintf("send on %s is raced with <-%s.Done()", chPath, ctxPath)
						} else {
							msg = fmt.Sprintf("send on %s is raced with the Done() of a different contributor (%s)", chPath, ctxPath)
						}
					}
					if !x.Blocking && !ok {
						ok, msg = true, "non-blocking select (cannot block)"
					}
					c.Check(ok, key, p.Pos(x.Pos()), core.FuncName(fn), msg, msg)
				}
			}
		})
	}
}
