package rules

import (
	"fmt"
	"go/ast"
	"go/token"
	"go/types"
	"strings"

	"golang.org/x/tools/go/ssa"

	"otelcheck/internal/core"
)

// elemPrefix returns the access path up to and including the last element
// index: "t.pending[0].respCh" → "t.pending[0]"; paths through a local copy of
// an element ("pending.waiter") → "pending".
func elemPrefix(path string) string {
	if k := strings.LastIndex(path, "."); k >= 0 {
		return path[:k]
	}
	return path
}

// c11_4 (also C18.5): every channel send in the export goroutine is an arm of a
// select whose other arm receives from Done() of the *same* contributor's
// context.
func c11_4(c *core.Ctx, p *core.Prog) {
	a := newCBPAnchors(p)
	if !a.ok(c) {
		return
	}
	n := 0
	// the export goroutine and the package helpers it calls (a reply loop moved into `respond(waiters, err)`)
	var scope []*ssa.Function
	seenF := map[*ssa.Function]bool{}
	var add func(f *ssa.Function, depth int)
	add = func(f *ssa.Function, depth int) {
		if seenF[f] || depth > 2 {
			return
		}
		seenF[f] = true
		scope = append(scope, f)
		core.EachInstr(f, func(i ssa.Instruction) {
			if cl, ok := i.(*ssa.Call); ok {
				if h := cl.Call.StaticCallee(); h != nil && core.FnPkgPath(h) == core.CBPPath && len(h.Blocks) > 0 && h != a.sendFn {
					hasSel := false
					core.EachInstr(h, func(j ssa.Instruction) {
						switch j.(type) {
						case *ssa.Select, *ssa.Send:
							hasSel = true
						}
					})
					if hasSel {
						add(h, depth+1)
					}
				}
			}
		})
	}
	for _, f := range core.WithClosures(a.exportFn) {
		add(f, 0)
	}
	for _, fn := range scope {
		core.EachInstr(fn, func(i ssa.Instruction) {
			switch x := i.(type) {
			case *ssa.Send:
				n++
				c.Viol(fmt.Sprintf("send#%d", n), p.Pos(x.Pos()), core.FuncName(fn), "bare channel send in the export goroutine: it blocks forever when the waiter has left (its context ended) and leaks the goroutine, the semaphore slot and Shutdown")
			case *ssa.Select:
				for _, st := range x.States {
					if st.Dir != types.SendOnly {
						continue
					}
					n++
					key := fmt.Sprintf("send#%d", n)
					chPath := core.AccessPath(st.Chan)
					ok, msg := false, "the select around the send has no <-ctx.Done() arm of the same contributor"
					for _, o := range x.States {
						if o.Dir != types.RecvOnly {
							continue
						}
						cl, isCall := o.Chan.(*ssa.Call)
						if !isCall || !cl.Call.IsInvoke() || cl.Call.Method.Name() != "Done" || !isCtx(cl.Call.Value.Type()) {
							continue
						}
						ctxPath := core.AccessPath(cl.Call.Value)
						if chPath != "" && ctxPath == "" {
							msg = fmt.Sprintf("the reply on %s is raced with the Done() of %s, which is not the context of the waiter being answered: when that waiter has left and its one-slot channel is full the goroutine blocks for as long as the other context lives (for the shard's own export context: forever), so the waiters behind it in the batch never get their outcome and Shutdown hangs", chPath, valueLabel(cl.Call.Value))
							continue
						}
						if chPath == "" || ctxPath == "" {
							msg = "contributor of the send / Done arm not recognised"
							continue
						}
						if elemPrefix(chPath) == elemPrefix(ctxPath) {
							ok, msg = true, fmt.Sprintf("send on %s is raced with <-%s.Done()", chPath, ctxPath)
						} else {
							msg = fmt.Sprintf("send on %s is raced with the Done() of a different contributor (%s)", chPath, ctxPath)
						}
					}
					if !x.Blocking && !ok {
						ok, msg = true, "non-blocking select (cannot block)"
					}
					c.Check(ok, key, p.Pos(x.Pos()), core.FuncName(fn), msg, msg)
				}
			}
		})
	}
}

func init() {
	core.Describe("C11",
		"Static necessary conditions of bounded concurrency, drain on shutdown and race freedom, decided on the batch processor's code: "+
			"C11.1 a semaphore exists iff max_concurrency>0 and is sized by it; every export goroutine is spawned only after Acquire(·,1) under the same nil test, with a context that cannot be cancelled by a caller (or with the error handled); the goroutine defers Release(1) under that test before anything else; "+
			"C11.2 every go statement of the package is preceded by WaitGroup.Add(1) and its target defers Done() before anything that can leave it; Shutdown closes the shutdown channel and then waits; "+
			"C11.3 every field of a package struct that is written after construction is either confined to one goroutine root or accessed only with a common mutex held (must-held lockset over the CFG; roots = exported methods, go targets, registered callbacks); "+
			"C11.4 every channel send of the export goroutine is raced with the same contributor's ctx.Done(); "+
			"C11.5 (= C05.6) the shard loop returns on shutdown after draining and flushing. "+
			"NOT decided: deadlock freedom in general, leaks of callers, races inside pdata / the otel SDK / the semaphore. A necessary-condition race check, not a proof.",
		"sync.WaitGroup, sync.Mutex, semaphore.Weighted behave as documented")
	register("C05", &core.Rule{ID: "C05.17", Title: "the export slot is acquired before the spawn and released by a defer established first (a slot leaked on some path ends with the shard loop blocked in Acquire: accepted items are never exported)", Mod: core.ModCBP, Floor: 4, Run: c11_1})
	register("C09", &core.Rule{ID: "C09.12", Title: "every request received from the queue reaches the buffer (the loop hands it to the item handler, which adds it on every path): an accepted item that never enters the buffer is exported neither at send_batch_size nor by the timer", Mod: core.ModCBP, Floor: 2, Run: c05_7})
	register("C09", &core.Rule{ID: "C09.11", Title: "the export slot is acquired and released with weight 1, before the spawn and by a defer established first (a wedged shard loop flushes nothing: no size trigger, no deadline)", Mod: core.ModCBP, Floor: 4, Run: c11_1})
	register("C11", &core.Rule{ID: "C11.1", Title: "semaphore: exists iff configured; acquire before spawn; release deferred first", Mod: core.ModCBP, Floor: 4, Run: c11_1})
	register("C11", &core.Rule{ID: "C11.2", Title: "wait group covers every goroutine; Shutdown closes then waits", Mod: core.ModCBP, Floor: 5, Run: c11_2})
	register("C11", &core.Rule{ID: "C11.3", Title: "shared fields are confined to one goroutine or lock-protected", Mod: core.ModCBP, Floor: 10, Run: c11_3})
	register("C11", &core.Rule{ID: "C11.4", Title: "sends in the export goroutine are cancellable by the same contributor", Mod: core.ModCBP, Floor: 1, Run: c11_4})
	register("C11", &core.Rule{ID: "C11.6", Title: "the waiter keeps receiving until every part of its request was answered (an early leaver strands the export goroutines of the remaining parts)", Mod: core.ModCBP, Floor: 2, Run: c06_5})
	register("C06", &core.Rule{ID: "C06.9", Title: "a reply is abandoned only when that waiter's own context is done (otherwise the waiters behind it in the batch never get their outcome)", Mod: core.ModCBP, Floor: 1, Run: c11_4})
	register("C11", &core.Rule{ID: "C11.11", Title: "what the shutdown drain receives is exported: the item handler adds every received request to the batch on every path (an item dropped there was accepted and is never exported, yet Shutdown returns)", Mod: core.ModCBP, Floor: 2, Run: c05_7})
	register("C11", &core.Rule{ID: "C11.5", Title: "shard loop drains, flushes and returns on shutdown", Mod: core.ModCBP, Floor: 3, Run: c05_6})
}

func semField(m *cbpMore) *types.Var {
	if m.procType == nil {
		return nil
	}
	st := core.FlatStruct(m.procType)
	for i := 0; i < st.NumFields(); i++ {
		if core.TypePkgPath(st.Field(i).Type()) == "golang.org/x/sync/semaphore" {
			return st.Field(i)
		}
	}
	return nil
}

func wgField(m *cbpMore) *types.Var {
	if m.procType == nil {
		return nil
	}
	st := core.FlatStruct(m.procType)
	for i := 0; i < st.NumFields(); i++ {
		if core.TypePkgPath(st.Field(i).Type()) == "sync" && core.TypeName(st.Field(i).Type()) == "WaitGroup" {
			return st.Field(i)
		}
	}
	return nil
}

// semNilEdges: CFG edges taken when the semaphore is nil.
func semNilEdges(fn *ssa.Function, sem *types.Var) map[core.Edge]bool {
	cut := map[core.Edge]bool{}
	for _, b := range fn.Blocks {
		iff := core.IfOf(b)
		if iff == nil {
			continue
		}
		cmp, ok := iff.Cond.(*ssa.BinOp)
		if !ok || !core.IsNilConst(cmp.Y) || !isFieldLoad(cmp.X, sem) {
			continue
		}
		if cmp.Op == token.NEQ {
			cut[core.Edge{From: b, To: b.Succs[1]}] = true
		} else if cmp.Op == token.EQL {
			cut[core.Edge{From: b, To: b.Succs[0]}] = true
		}
	}
	return cut
}

func c11_1(c *core.Ctx, p *core.Prog) {
	a := newCBPAnchors(p)
	if !a.ok(c) {
		return
	}
	m := a.more()
	if !m.ok(c) {
		return
	}
	sem := semField(m)
	if sem == nil {
		c.Viol("sem|field", "?", "", "the processor has no semaphore field: max_concurrency is not enforced")
		return
	}
	// (a) creation guard in the constructor
	var mk *ssa.Call
	core.EachInstr(m.ctorFn, func(i ssa.Instruction) {
		if cl, ok := i.(*ssa.Call); ok && core.IsPkgFunc(core.CalleeObj(cl), "golang.org/x/sync/semaphore", "NewWeighted") {
			mk = cl
		}
	})
	if mk == nil {
		c.Viol("sem|create", p.Pos(m.ctorFn.Pos()), core.FuncName(m.ctorFn), "no semaphore is ever created: max_concurrency is not enforced")
	} else {
		pos := p.Pos(mk.Pos())
		conds, g, cx, err := guardAtPos(p, mk.Pos())
		// the config field tagged max_concurrency
		var maxObj types.Object
		pk := p.Pkg(core.CBPPath)
		for _, name := range pk.Types.Scope().Names() {
			if tn, ok := pk.Types.Scope().Lookup(name).(*types.TypeName); ok {
				if st, ok := tn.Type().Underlying().(*types.Struct); ok {
					for i := 0; i < st.NumFields(); i++ {
						if strings.Contains(st.Tag(i), `mapstructure:"max_concurrency"`) {
							maxObj = st.Field(i)
						}
					}
				}
			}
		}
		if err != nil || cx || maxObj == nil {
			c.Undecided("sem|create", pos, core.FuncName(m.ctorFn), "path condition of semaphore creation not recognised")
		} else {
			g.Roles = func(obj types.Object, e ast.Expr) (string, bool) {
				if obj == maxObj {
					return "maxc", true
				}
				return "", false
			}
			ok, w, _, err := compareGuard(g, conds, []string{"maxc"}, []int64{0, 1, 2, 3}, func(env map[string]int64) bool { return env["maxc"] > 0 }, "equiv")
			if err != nil {
				c.Undecided("sem|create", pos, core.FuncName(m.ctorFn), err.Error())
			} else {
				sized := core.DerivesFrom(mk.Call.Args[0], func(v ssa.Value) bool {
					fa, ok := v.(*ssa.FieldAddr)
					return ok && types.Object(core.FieldVar(fa)) == maxObj
				})
				if _, isC := core.ConstInt(mk.Call.Args[0]); isC {
					sized = false
				}
				c.Check(ok && sized, "sem|create", pos, core.FuncName(m.ctorFn), "a semaphore exists iff max_concurrency>0 and is sized by it",
					"semaphore creation guard "+condString(conds)+" / size differs from 'max_concurrency>0, weight max_concurrency' ("+w+")")
			}
		}
		stored := false
		for _, r := range core.Referrers(mk) {
			if s, ok := r.(*ssa.Store); ok {
				if fa, ok := s.Addr.(*ssa.FieldAddr); ok && core.FieldVar(fa) == sem {
					stored = true
				}
			}
		}
		c.Check(stored, "sem|stored", pos, core.FuncName(m.ctorFn), "the semaphore is stored in the processor", "the created semaphore is not stored in the processor's semaphore field")
	}
	// (b) acquire precedes the go statement
	fn := a.sendFn
	isAcquire := func(i ssa.Instruction) bool {
		cl, ok := i.(*ssa.Call)
		return ok && core.IsMethodOf(core.CalleeObj(cl), "golang.org/x/sync/semaphore", "Weighted", "Acquire") && isFieldLoad(cl.Call.Args[0], sem)
	}
	ok, _ := (core.PathQuery{Fn: fn, To: a.goInstr, Avoid: isAcquire, CutEdges: semNilEdges(fn, sem)}).Exists()
	c.Check(!ok, "sem|acquire-before-go", p.Pos(a.goInstr.Pos()), core.FuncName(fn), "every path to the export go statement acquires the semaphore unless it is nil",
		"a path reaches the export go statement without acquiring the configured semaphore: more than max_concurrency exports can be in flight")
	core.EachInstr(fn, func(i ssa.Instruction) {
		if !isAcquire(i) {
			return
		}
		cl := i.(*ssa.Call)
		pos := p.Pos(cl.Pos())
		w, isC := core.ConstInt(cl.Call.Args[2])
		c.Check(isC && w == 1, "sem|acquire-weight", pos, core.FuncName(fn), "Acquire weight 1", "the export slot is not acquired with weight 1")
		org := a.ctxOriginsDeep(cl.Call.Args[1], 0)
		cancellable := len(org["caller"]) > 0 || len(org["param"]) > 0 || len(org["unknown"]) > 0
		used := false
		for _, r := range core.Referrers(cl) {
			if _, isDbg := r.(*ssa.DebugRef); !isDbg {
				used = true
			}
		}
		switch {
		case !cancellable:
			c.OK("sem|acquire-ctx", pos, core.FuncName(fn), "Acquire uses a context no caller can cancel")
		case used:
			c.Undecided("sem|acquire-ctx", pos, core.FuncName(fn), "Acquire uses a cancellable context and its error is consumed: handling not analysed")
		default:
			c.Viol("sem|acquire-ctx", pos, core.FuncName(fn), "Acquire is given a caller's (cancellable) context and its error is ignored: when that context is done the slot is not acquired but the export goroutine starts anyway (and later releases a slot it never held)")
		}
	})
	// (c) release deferred first in the goroutine
	ex := a.exportFn
	isDeferRelease := func(i ssa.Instruction) bool {
		d, ok := i.(*ssa.Defer)
		return ok && core.IsMethodOf(core.CalleeObj(d), "golang.org/x/sync/semaphore", "Weighted", "Release") && isFieldLoad(d.Call.Args[0], sem)
	}
	var firstOther ssa.Instruction
	// any call / return / send / select reachable from entry without passing the deferred release (sem non-nil)
	leak := false
	for _, b := range ex.Blocks {
		for _, i := range b.Instrs {
			switch y := i.(type) {
			case *ssa.Call, *ssa.Return, *ssa.Panic, *ssa.Select, *ssa.Send, *ssa.Go:
				if cl, ok := y.(*ssa.Call); ok {
					if _, isB := cl.Call.Value.(*ssa.Builtin); isB {
						continue
					}
				}
				if r, ok := y.(*ssa.Return); ok && r.Block().Comment == "recover" {
					continue
				}
				if ok, _ := (core.PathQuery{Fn: ex, To: i, Avoid: isDeferRelease, CutEdges: semNilEdges(ex, sem)}).Exists(); ok {
					leak = true
					if firstOther == nil {
						firstOther = i
					}
				}
			}
		}
	}
	msg := "the export goroutine defers Release under the nil test before any call or exit"
	bad := "the export goroutine can run a call or leave before Release is deferred (semaphore non-nil): a panic or early exit leaks a slot and eventually blocks all exports"
	if firstOther != nil {
		bad += " (first such instruction at " + p.Pos(firstOther.Pos()) + ")"
	}
	c.Check(!leak, "sem|release-deferred", p.Pos(ex.Pos()), core.FuncName(ex), msg, bad)
	core.EachInstr(ex, func(i ssa.Instruction) {
		if isDeferRelease(i) {
			w, isC := core.ConstInt(i.(*ssa.Defer).Call.Args[1])
			c.Check(isC && w == 1, "sem|release-weight", p.Pos(i.Pos()), core.FuncName(ex), "Release weight 1", "the export slot is released with a weight other than the 1 that was acquired")
		}
	})
}

func c11_2(c *core.Ctx, p *core.Prog) {
	a := newCBPAnchors(p)
	if !a.ok(c) {
		return
	}
	m := a.more()
	if !m.ok(c) {
		return
	}
	wg := wgField(m)
	if wg == nil {
		c.Viol("wg|field", "?", "", "the processor has no WaitGroup: Shutdown cannot wait for its goroutines")
		return
	}
	isWG := func(v ssa.Value) bool {
		fa, ok := v.(*ssa.FieldAddr)
		return ok && core.FieldVar(fa) == wg
	}
	isAdd := func(i ssa.Instruction) bool {
		cl, ok := i.(*ssa.Call)
		if !ok || !core.IsMethodOf(core.CalleeObj(cl), "sync", "WaitGroup", "Add") || !isWG(cl.Call.Args[0]) {
			return false
		}
		k, isC := core.ConstInt(cl.Call.Args[1])
		return isC && k == 1
	}
	isDeferDone := func(i ssa.Instruction) bool {
		d, ok := i.(*ssa.Defer)
		return ok && core.IsMethodOf(core.CalleeObj(d), "sync", "WaitGroup", "Done") && isWG(d.Call.Args[0])
	}
	n := 0
	for _, fn := range cbpFuncs(c, p) {
		core.EachInstr(fn, func(i ssa.Instruction) {
			g, ok := i.(*ssa.Go)
			if !ok {
				return
			}
			n++
			key := fmt.Sprintf("go#%d@%s", n, core.FuncName(fn))
			pos := p.Pos(g.Pos())
			pre := core.MustPassBetween(fn, nil, g, isAdd)
			// exactly one Add per go: no path passes two Adds before the go — approximated by counting
			adds := 0
			core.EachInstr(fn, func(j ssa.Instruction) {
				if isAdd(j) && core.Reachable(fn, j, g) {
					adds++
				}
			})
			c.Check(pre && adds == 1, key+"|add", pos, core.FuncName(fn), "go statement preceded by exactly one WaitGroup.Add(1)",
				fmt.Sprintf("the go statement is not preceded by exactly one WaitGroup.Add(1) on every path (adds reaching it: %d): Shutdown can return while the goroutine still runs, or wait forever", adds))
			// target
			var tgt *ssa.Function
			switch v := g.Call.Value.(type) {
			case *ssa.MakeClosure:
				tgt, _ = v.Fn.(*ssa.Function)
			case *ssa.Function:
				tgt = v
			}
			if tgt == nil {
				tgt = g.Call.StaticCallee()
			}
			if tgt == nil || tgt.Blocks == nil {
				c.Undecided(key+"|done", pos, core.FuncName(fn), "go target not resolved")
				return
			}
			leak := false
			var first ssa.Instruction
			for _, b := range tgt.Blocks {
				for _, j := range b.Instrs {
					switch y := j.(type) {
					case *ssa.Call, *ssa.Return, *ssa.Panic, *ssa.Select, *ssa.Send, *ssa.Go:
						if cl, ok := y.(*ssa.Call); ok {
							if _, isB := cl.Call.Value.(*ssa.Builtin); isB {
								continue
							}
						}
						if r, ok := y.(*ssa.Return); ok && r.Block().Comment == "recover" {
							continue
						}
						if ok, _ := (core.PathQuery{Fn: tgt, To: j, Avoid: isDeferDone}).Exists(); ok {
							leak = true
							if first == nil {
								first = j
							}
						}
					}
				}
			}
			bad := "the goroutine can run a call or leave before Done() is deferred: a panic or early exit makes Shutdown wait forever"
			if first != nil {
				bad += " (first such instruction at " + p.Pos(first.Pos()) + ")"
			}
			c.Check(!leak, key+"|done", p.Pos(tgt.Pos()), core.FuncName(tgt), "the goroutine defers WaitGroup.Done() before any call or exit", bad)
		})
	}
	// Shutdown: close then Wait
	fn := m.shutdownFn
	var closeI, waitI ssa.Instruction
	core.EachInstr(fn, func(i ssa.Instruction) {
		cl, ok := i.(*ssa.Call)
		if !ok {
			return
		}
		if b, ok := cl.Call.Value.(*ssa.Builtin); ok && b.Name() == "close" {
			closeI = i
		}
		if core.IsMethodOf(core.CalleeObj(cl), "sync", "WaitGroup", "Wait") && isWG(cl.Call.Args[0]) {
			waitI = i
		}
	})
	pos := p.Pos(fn.Pos())
	okS := closeI != nil && waitI != nil && core.MustPassBetween(fn, closeI, nil, func(i ssa.Instruction) bool { return i == waitI }) && core.MustPassBetween(fn, nil, nil, func(i ssa.Instruction) bool { return i == closeI })
	c.Check(okS, "shutdown|close-then-wait", pos, core.FuncName(fn), "Shutdown closes the shutdown channel and then waits for the wait group on every path",
		"Shutdown does not close the shutdown channel and then Wait() on every path: it can return while shard loops or exports still run")
	// Shutdown is the component's Shutdown(ctx) error
	isShut := fn.Name() == "Shutdown" || sigIs(fn.Object().(*types.Func), []tp{isCtx}, []tp{isErr})
	c.Check(isShut, "shutdown|entry", pos, core.FuncName(fn), "the channel is closed by the component's Shutdown", "the shutdown channel is closed somewhere other than the component's Shutdown(ctx) error")
}
