package rules

import (
	"fmt"
	"go/token"

	"golang.org/x/tools/go/ssa"

	"otelcheck/internal/core"
)

// C07.19 — a value obtained together with an error is used only where that error was found nil.
//
// Every accessor of the decode path answers (value, error); the callers test the error and go on with the value.
// A test that came out the wrong way round (`if err == nil { return wrap(err) }`) returns a nil error — "decoded" —
// at the first row that has the column, and carries on with the zero value exactly when the accessor failed: a batch
// is reported as decoded although rows were skipped, or an invalid payload is decoded from zero values instead of
// being refused. Rule: for a call whose error result is compared with nil, no use of its other results is reachable
// from the non-nil side of that comparison without the call being made again (returns that hand the value back next
// to the error, and φ-nodes, which belong to their incoming edges, are not uses).
func c07_19(c *core.Ctx, p *core.Prog) {
	reach := repoReach(p, p.CHA(), consumerEntries(p))
	n := 0
	seenOrigin := map[*ssa.Function]bool{}
	for _, fn := range sortedFuncs(p, reach) {
		if (fn.Synthetic != "" && fn.Origin() == nil) || !core.InRepo(core.FnPkgPath(fn)) {
			continue
		}
		if o := fn.Origin(); o != nil {
			if seenOrigin[o] {
				continue // one instance of a generic function is enough
			}
			seenOrigin[o] = true
		}
		fn := fn
		k := 0
		core.EachInstr(fn, func(i ssa.Instruction) {
			cl, ok := i.(*ssa.Call)
			if !ok {
				return
			}
			res := cl.Call.Signature().Results()
			if res.Len() < 2 || !isErr(res.At(res.Len()-1).Type()) {
				return
			}
			var errEx *ssa.Extract
			var vals []*ssa.Extract
			for _, r := range core.Referrers(cl) {
				if ex, ok := r.(*ssa.Extract); ok {
					if ex.Index == res.Len()-1 {
						errEx = ex
					} else {
						vals = append(vals, ex)
					}
				}
			}
			if errEx == nil || len(vals) == 0 {
				return
			}
			for _, r := range core.Referrers(errEx) {
				cmp, ok := r.(*ssa.BinOp)
				if !ok || (cmp.Op != token.NEQ && cmp.Op != token.EQL) || !(core.IsNilConst(cmp.Y) || core.IsNilConst(cmp.X)) {
					continue
				}
				for _, r2 := range core.Referrers(cmp) {
					iff, ok := r2.(*ssa.If)
					if !ok {
						continue
					}
					nonNil := iff.Block().Succs[0]
					if cmp.Op == token.EQL {
						nonNil = iff.Block().Succs[1]
					}
					k++
					n++
					key := fmt.Sprintf("fn=%s|call#%d", core.FuncName(fn), k)
					bad := ""
					for _, v := range vals {
						for _, u := range core.Referrers(v) {
							switch u.(type) {
							case *ssa.Return, *ssa.Phi, *ssa.DebugRef:
								continue
							}
							if u.Block() == nil {
								continue
							}
							hit := u.Block() == nonNil
							if !hit {
								hit, _ = (core.PathQuery{Fn: fn, From: nonNil.Instrs[0], To: u, Avoid: func(j ssa.Instruction) bool { return j == ssa.Instruction(cl) }}).Exists()
							}
							if hit {
								bad = p.Pos(u.Pos())
							}
						}
					}
					what := "?"
					if f := core.CalleeObj(cl); f != nil {
						what = f.Name()
					}
					c.Check(bad == "", key, p.Pos(cl.Pos()), core.FuncName(fn), "the value of "+what+" is used on the nil side of its error test only",
						"the value returned by "+what+" is used at "+bad+" on the side of the test at "+p.Pos(cmp.Pos())+" where its error is NOT nil (the error test is the wrong way round, or the failure arm falls through): the decoder carries on with a zero value when the accessor failed — and, if the nil side returns, reports the batch as decoded at the first row that has the column")
				}
			}
		})
	}
	c.Stats["C07.19 tested (value, error) calls on the decode path"] = n
}

func init() {
	register("C07", &core.Rule{ID: "C07.19", Title: "a value obtained together with an error is used only where that error was found nil", Mod: core.ModRoot, Floor: 190, Run: c07_19})
}
