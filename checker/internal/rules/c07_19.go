package rules

import (
	"fmt"
	"go/token"
	"strings"

	"golang.org/x/tools/go/ssa"

	"otelcheck/internal/core"
)

// C07.19 — a value obtained together with an error is used only where that error was found nil.
//
// Every accessor of the decode path answers (value, error); the callers test the error and go on with the value.
// A test that came out the wrong way round (`if err == nil { return wrap(err) }`) returns a nil error — "decoded" —
// at the first row that has the column, and carries on with the zero value exactly when the accessor failed: a batch
// is reported as decoded although rows were skipped, or an invalid payload is decoded from zero values instead of
// being refused. Rule: for a call whose error result is compared with nil, no use of its other results is reachable
// from the non-nil side of that comparison without the call being made again (returns that hand the value back next
// to the error, and φ-nodes, which belong to their incoming edges, are not uses).
func c07_19(c *core.Ctx, p *core.Prog) {
	reach := repoReach(p, p.CHA(), consumerEntries(p))
	n := 0
	seenOrigin := map[*ssa.Function]bool{}
	for _, fn := range sortedFuncs(p, reach) {
		if (fn.Synthetic != "" && fn.Origin() == nil) || !core.InRepo(core.FnPkgPath(fn)) {
			continue
		}
		if o := fn.Origin(); o != nil {
			if seenOrigin[o] {
				continue // one instance of a generic function is enough
			}
			seenOrigin[o] = true
		}
		fn := fn
		k := 0
		core.EachInstr(fn, func(i ssa.Instruction) {
			cl, ok := i.(*ssa.Call)
			if !ok {
				return
			}
			res := cl.Call.Signature().Results()
			if res.Len() < 2 || !isErr(res.At(res.Len()-1).Type()) {
				return
			}
			var errEx *ssa.Extract
			var vals []*ssa.Extract
			for _, r := range core.Referrers(cl) {
				if ex, ok := r.(*ssa.Extract); ok {
					if ex.Index == res.Len()-1 {
						errEx = ex
					} else {
						vals = append(vals, ex)
					}
				}
			}
			if errEx == nil || len(vals) == 0 {
				return
			}
			for _, r := range core.Referrers(errEx) {
				cmp, ok := r.(*ssa.BinOp)
				if !ok || (cmp.Op != token.NEQ && cmp.Op != token.EQL) || !(core.IsNilConst(cmp.Y) || core.IsNilConst(cmp.X)) {
					continue
				}
				for _, r2 := range core.Referrers(cmp) {
					iff, ok := r2.(*ssa.If)
					if !ok {
						continue
					}
					nonNil := iff.Block().Succs[0]
					if cmp.Op == token.EQL {
						nonNil = iff.Block().Succs[1]
					}
					k++
					n++
					key := fmt.Sprintf("fn=%s|call#%d", core.FuncName(fn), k)
					bad := ""
					for _, v := range vals {
						for _, u := range core.Referrers(v) {
							switch u.(type) {
							case *ssa.Return, *ssa.Phi, *ssa.DebugRef:
								continue
							}
							if u.Block() == nil {
								continue
							}
							hit := u.Block() == nonNil
							if !hit {
								hit, _ = (core.PathQuery{Fn: fn, From: nonNil.Instrs[0], To: u, Avoid: func(j ssa.Instruction) bool { return j == ssa.Instruction(cl) }}).Exists()
							}
							if hit {
								bad = p.Pos(u.Pos())
							}
						}
					}
					what := "?"
					if f := core.CalleeObj(cl); f != nil {
						what = f.Name()
					}
					c.Check(bad == "", key, p.Pos(cl.Pos()), core.FuncName(fn), "the value of "+what+" is used on the nil side of its error test only",
						"the value returned by "+what+" is used at "+bad+" on the side of the test at "+p.Pos(cmp.Pos())+" where its error is NOT nil (the error test is the wrong way round, or the failure arm falls through): the decoder carries on with a zero value when the accessor failed — and, if the nil side returns, reports the batch as decoded at the first row that has the column")
				}
			}
		})
	}
	c.Stats["C07.19 tested (value, error) calls on the decode path"] = n
	// second clause: an error variable is not handed back (as it is or wrapped) on the side of its own nil test where
	// it is nil — `if err == nil { return werror.Wrap(err) }` returns success from the middle of a decode loop
	n2 := 0
	seenOrigin = map[*ssa.Function]bool{}
	for _, fn := range sortedFuncs(p, reach) {
		if (fn.Synthetic != "" && fn.Origin() == nil) || !core.InRepo(core.FnPkgPath(fn)) {
			continue
		}
		if o := fn.Origin(); o != nil {
			if seenOrigin[o] {
				continue
			}
			seenOrigin[o] = true
		}
		fn := fn
		k := 0
		for _, b := range fn.Blocks {
			iff := core.IfOf(b)
			if iff == nil {
				continue
			}
			cmp, ok := iff.Cond.(*ssa.BinOp)
			if !ok || (cmp.Op != token.NEQ && cmp.Op != token.EQL) || !isErr(cmp.X.Type()) || !core.IsNilConst(cmp.Y) {
				continue
			}
			if _, isCall := cmp.X.(*ssa.Call); !isCall {
				if _, isEx := cmp.X.(*ssa.Extract); !isEx {
					continue // a φ or a loaded cell: which value is tested depends on the path
				}
			}
			k++
			n2++
			nilSucc, nonNilSucc := b.Succs[1], b.Succs[0]
			if cmp.Op == token.EQL {
				nilSucc, nonNilSucc = b.Succs[0], b.Succs[1]
			}
			// hands back the tested error: `return …, err` or `return …, werror.Wrap(err)` as the block's terminator
			handsBack := func(blk *ssa.BasicBlock) *ssa.Return {
				r, ok := blk.Instrs[len(blk.Instrs)-1].(*ssa.Return)
				if !ok || len(r.Results) == 0 {
					return nil
				}
				last := core.ResultValue(r, len(r.Results)-1)
				if !isErr(last.Type()) {
					return nil
				}
				v := last
				if cl, ok := v.(*ssa.Call); ok {
					if f := core.CalleeObj(cl); f != nil && f.Pkg() != nil && strings.HasSuffix(f.Pkg().Path(), "/werror") && len(cl.Call.Args) > 0 {
						v = cl.Call.Args[0]
					}
				}
				if v == cmp.X {
					return r
				}
				return nil
			}
			// the idiom `x, err := f(); if err != nil { return wrap(err) }; return x, err` hands the nil error back at the end:
			// only a nil side that returns the error while the non-nil side carries on is the wrong way round
			bad := ""
			if r := handsBack(nilSucc); r != nil && len(nilSucc.Preds) == 1 && handsBack(nonNilSucc) == nil {
				bad = p.Pos(r.Pos())
			}
			c.Check(bad == "", fmt.Sprintf("fn=%s|errtest#%d", core.FuncName(fn), k), p.Pos(cmp.Pos()), core.FuncName(fn), "the tested error is handed back on its non-nil side only",
				"the return at "+bad+" hands back the error tested at "+p.Pos(cmp.Pos())+" on the side where it is nil (the test is the wrong way round): the function reports success from the middle of its work — the rows decoded so far are returned as the whole batch — and carries on when the call failed")
		}
	}
	c.Stats["C07.19 error tests on the decode path"] = n2
}

func init() {
	register("C07", &core.Rule{ID: "C07.19", Title: "a value obtained together with an error is used only where that error was found nil", Mod: core.ModRoot, Floor: 400, Run: c07_19})
}
