package rules

import (
	"fmt"
	"strings"

	"golang.org/x/tools/go/ssa"

	"otelcheck/internal/core"
)

// C10.10 — the shard map is keyed by the metadata combination itself.
//
// One shard, one batch, one export context per distinct combination of the configured metadata keys: the key under
// which shards are stored and looked up must tell every two combinations apart. An attribute.Set (or its Distinct) is
// compared value by value. A rendering of the set — Set.Encoded with the default encoder writes slice values without
// escaping, so an absent key (empty slice) and the single value "[]" render alike — merges combinations: their items
// share a batch and an export context, and the cardinality limit counts them once.
func c10_10(c *core.Ctx, p *core.Prog) {
	n := 0
	for _, fn := range p.FuncsIn(func(pp string) bool { return pp == core.CBPPath }) {
		fn := fn
		core.EachInstr(fn, func(i ssa.Instruction) {
			cl, ok := i.(*ssa.Call)
			if !ok {
				return
			}
			fo := core.CalleeObj(cl)
			op := ""
			for _, name := range []string{"Load", "LoadOrStore", "Store", "LoadAndDelete", "Delete", "CompareAndSwap", "Swap"} {
				if core.IsMethodOf(fo, "sync", "Map", name) {
					op = name
				}
			}
			if op == "" || len(cl.Call.Args) < 2 {
				return
			}
			n++
			key := fmt.Sprintf("key|%s#%d@%s", op, n, core.FuncName(fn))
			pos := p.Pos(cl.Pos())
			k := cl.Call.Args[1]
			if mi, ok := k.(*ssa.MakeInterface); ok {
				k = mi.X
			}
			tn, tp := core.TypeName(k.Type()), core.TypePkgPath(k.Type())
			if strings.HasSuffix(tp, "go.opentelemetry.io/otel/attribute") && (tn == "Set" || tn == "Distinct") {
				c.OK(key, pos, core.FuncName(fn), "the shard map is keyed by the attribute set itself ("+tn+")")
				return
			}
			rendered := core.DerivesFrom(k, func(v ssa.Value) bool {
				c2, ok := v.(*ssa.Call)
				if !ok {
					return false
				}
				f := core.CalleeObj(c2)
				return f != nil && f.Pkg() != nil && strings.HasSuffix(f.Pkg().Path(), "go.opentelemetry.io/otel/attribute") && f.Name() == "Encoded"
			}) || func() bool {
				// the key is a parameter of a wrapper method: look at what the wrapper's key helper does
				found := false
				core.BackSlice(k, func(v ssa.Value) bool {
					if c2, ok := v.(*ssa.Call); ok {
						if h := c2.Call.StaticCallee(); h != nil && len(h.Blocks) > 0 && core.FnPkgPath(h) == core.CBPPath {
							core.EachCall(h, func(ci ssa.CallInstruction) {
								if f := core.CalleeObj(ci); f != nil && f.Pkg() != nil && strings.HasSuffix(f.Pkg().Path(), "go.opentelemetry.io/otel/attribute") && f.Name() == "Encoded" {
									found = true
								}
							})
						}
					}
					return !found
				})
				return found
			}()
			if rendered {
				c.Viol(key, pos, core.FuncName(fn), "the shard map is keyed by a rendering of the metadata combination (attribute.Set.Encoded) instead of the set itself: the default encoder writes slice values unescaped, so two combinations can render alike (a missing key and the single value \"[]\") — their requests share one shard, one batch and one export context, and the cardinality limit counts them once")
				return
			}
			c.Undecided(key, pos, core.FuncName(fn), fmt.Sprintf("the shard map is keyed by a %s.%s, neither the attribute set nor its Distinct: whether it tells every two combinations apart is not decided", tp, tn))
		})
	}
}

func init() {
	register("C10", &core.Rule{ID: "C10.10", Title: "the shard map is keyed by the metadata combination itself, not by a rendering of it", Mod: core.ModCBP, Floor: 2, Run: c10_10})
}
