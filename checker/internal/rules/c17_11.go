package rules

import (
	"fmt"
	"go/token"
	"go/types"
	"strings"

	"golang.org/x/tools/go/ssa"

	"otelcheck/internal/core"
)

// C17.11 — the keys of the rebuilt attribute map.
//
// processAttrs rebuilds a map into a copy, one insert per source attribute
// (C17.1).  Every insert names its key.  Two kinds are legitimate:
//
//	clear     the key is the very key the callback was given, and the value is
//	          the source value copied verbatim: the attribute is not targeted
//	          and goes through unchanged; this insert is in front of the switch
//	          over the value type;
//	targeted  the key is the cipher helper applied to the callback's key; the
//	          insert is inside the switch over the value type (an arm or the
//	          default), or its fresh element is handed to the package function
//	          that holds the shared switch.
//
// A targeted arm that keeps the clear key leaves a string the instance is
// configured to obfuscate readable (and, in encrypt_all mode, makes the keys of
// string-valued and other attributes disagree); an untargeted insert under an
// encrypted key alters an attribute that must go through unchanged; a key
// that is neither (another attribute's key, a constant) merges attributes:
// the later insert replaces the earlier one and an attribute is dropped.
func c17_11(c *core.Ctx, p *core.Prog) {
	a := newObfAnchors(p)
	if !a.ok(c) {
		return
	}
	for _, s := range rebuildSites(obfFuncs(c, p)) {
		if !s.isMap {
			continue
		}
		var rangeCall *ssa.Call
		core.EachInstr(s.fn, func(i ssa.Instruction) {
			if cl, ok := i.(*ssa.Call); ok {
				if f := pdataCallee(cl); f != nil && f.Name() == "Range" && len(cl.Call.Args) == 2 && cl.Call.Args[0] == s.src {
					rangeCall = cl
				}
			}
		})
		if rangeCall == nil {
			continue
		}
		host := resolveCallback(rangeCall.Call.Args[1])
		if host == nil {
			continue // C17.1 reports it
		}
		var keyPar, valPar *ssa.Parameter
		for _, pr := range host.Params {
			if b, ok := pr.Type().Underlying().(*types.Basic); ok && b.Kind() == types.String && keyPar == nil {
				keyPar = pr
			}
			if core.TypeName(pr.Type()) == "Value" && isPdataType(pr.Type()) {
				valPar = pr
			}
		}
		base := "keys@" + core.FuncName(s.fn)
		if keyPar == nil || valPar == nil {
			c.Undecided(base, p.Pos(host.Pos()), core.FuncName(host), "the callback's key and value parameters were not found")
			continue
		}
		isIns := func(cl *ssa.Call) bool {
			if isInsertInto(cl, s.newCall) {
				return true
			}
			if s.dstField == nil {
				return false
			}
			f := pdataCallee(cl)
			if f == nil || len(cl.Call.Args) == 0 || !strings.HasPrefix(f.Name(), "Put") {
				return false
			}
			return core.DerivesFrom(cl.Call.Args[0], func(v ssa.Value) bool {
				switch y := v.(type) {
				case *ssa.Field:
					st, ok := y.X.Type().Underlying().(*types.Struct)
					return ok && st.Field(y.Field) == s.dstField
				case *ssa.FieldAddr:
					return core.FieldVar(y) == s.dstField
				}
				return false
			})
		}
		// the tests of the value-type switch in the callback
		var typeTests []*ssa.If
		core.EachInstr(host, func(i ssa.Instruction) {
			iff, ok := i.(*ssa.If)
			if !ok {
				return
			}
			if cmp, ok := iff.Cond.(*ssa.BinOp); ok && cmp.Op == token.EQL && core.TypeName(cmp.X.Type()) == "ValueType" {
				typeTests = append(typeTests, iff)
			}
		})
		n := 0
		core.EachInstr(host, func(i ssa.Instruction) {
			cl, ok := i.(*ssa.Call)
			if !ok || !isIns(cl) || len(cl.Call.Args) < 2 {
				return
			}
			n++
			key := fmt.Sprintf("%s|insert#%d", base, n)
			pos := p.Pos(cl.Pos())
			k := cl.Call.Args[1]
			inSwitch := false
			for _, iff := range typeTests {
				if core.GuardedBy(iff, true, cl) || core.GuardedBy(iff, false, cl) {
					inSwitch = true
				}
			}
			// the fresh element handed to a package function together with the source value (the shared switch)
			for _, r := range core.Referrers(cl) {
				if d, ok := r.(*ssa.Call); ok && d.Call.StaticCallee() != nil && core.FnPkgPath(d.Call.StaticCallee()) == core.ObfPath {
					for _, arg := range d.Call.Args {
						if core.Canon(arg) == ssa.Value(valPar) {
							inSwitch = true
						}
					}
				}
			}
			switch {
			case core.Canon(k) == ssa.Value(keyPar):
				verbatim := false
				for _, r := range core.Referrers(cl) {
					if d, ok := r.(*ssa.Call); ok {
						if f := pdataCallee(d); f != nil && f.Name() == "CopyTo" && len(d.Call.Args) == 2 && core.Canon(d.Call.Args[0]) == ssa.Value(valPar) && d.Call.Args[1] == ssa.Value(cl) {
							verbatim = true
						}
					}
				}
				switch {
				case inSwitch:
					c.Viol(key, pos, core.FuncName(host), "an attribute selected for obfuscation is inserted under its clear key: a string the instance is configured to obfuscate stays readable, and the keys of this value type disagree with those of the other types")
				case !verbatim:
					c.Viol(key, pos, core.FuncName(host), "an attribute that is not selected keeps its key but its value is not the source value copied verbatim")
				default:
					c.OK(key, pos, core.FuncName(host), "not selected: clear key, value copied verbatim")
				}
			default:
				enc, isEnc := a.isEncCall(k)
				if !isEnc || core.Canon(a.encSrc(enc)) != ssa.Value(keyPar) {
					c.Viol(key, pos, core.FuncName(host), "the key of the inserted attribute is neither the source key nor the cipher applied to it: two attributes can be merged into one (the later insert replaces the earlier) or an attribute goes out under another's name")
					return
				}
				c.Check(inSwitch, key, pos, core.FuncName(host), "selected: key is the cipher applied to the source key",
					"an attribute that is not selected for obfuscation is inserted under an encrypted key: a non-targeted attribute is altered")
			}
		})
		if n == 0 {
			c.Undecided(base, p.Pos(host.Pos()), core.FuncName(host), "no insert into the rebuilt map found in the callback")
		}
	}
}

func init() {
	register("C17", &core.Rule{ID: "C17.11", Title: "keys of the rebuilt attribute map: clear key with verbatim value in front of the type switch, cipher(key) inside it", Mod: core.ModObf, Floor: 2, Run: c17_11})
}
