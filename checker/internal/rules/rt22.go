package rules

import (
	"fmt"
	"go/token"
	"sort"
	"strings"

	"golang.org/x/tools/go/ssa"

	"otelcheck/internal/core"
)

// RT.22 one-of value arms agree on the column. Attribute records and log bodies
// carry a value as (type tag, one typed column). In the encoder, the arm for
// ValueType K writes the value into column(s) E[K]; in a decoder, the arm for
// the type tag K reads column(s) D[K]. A decoder arm must read a column that
// some encoder arm for the same K writes (str/int/double/bool/bytes/ser are
// distinct columns; bytes and ser have the same Arrow type, so swapping them
// compiles and silently corrupts complex or binary values).
func valueTypeArm(fn *ssa.Function, at ssa.Instruction, depth int) (int64, bool) {
	for _, b := range fn.Blocks {
		iff := core.IfOf(b)
		if iff == nil {
			continue
		}
		bo, ok := iff.Cond.(*ssa.BinOp)
		if !ok || bo.Op != token.EQL {
			continue
		}
		k, isC := core.ConstInt(bo.Y)
		if !isC || core.TypeName(bo.X.Type()) != "ValueType" || !isPdataType(bo.X.Type()) {
			continue
		}
		if core.GuardedBy(iff, true, at) {
			return k, true
		}
	}
	if fn.Parent() != nil && depth < 3 {
		var res int64
		found := false
		core.EachInstr(fn.Parent(), func(i ssa.Instruction) {
			if mc, ok := i.(*ssa.MakeClosure); ok && mc.Fn == ssa.Value(fn) && !found {
				if k, ok := valueTypeArm(fn.Parent(), mc, depth+1); ok {
					res, found = k, true
				}
			}
		})
		return res, found
	}
	return 0, false
}

func rt_22(c *core.Ctx, p *core.Prog) {
	encReach := encodeReach(p)
	decReach := repoReach(p, p.CHA(), consumerEntries(p))
	all := map[*ssa.Function]bool{}
	for f := range encReach {
		all[f] = true
	}
	for f := range decReach {
		all[f] = true
	}
	e := newOriginEngine(p, p.CHA(), all)
	names := map[int64]string{}
	if pk := p.Pkg(core.PdataPath + "/pcommon"); pk != nil {
		if o := pk.Types.Scope().Lookup("ValueType"); o != nil {
			names = enumAllConsts(core.NamedOf(o.Type()))
		}
	}
	E := map[int64]tokSet{}
	Efn := map[*ssa.Function]map[int64]tokSet{}
	EfnAt := map[*ssa.Function]map[int64]token.Pos{}
	for _, fn := range sortedFuncs(p, encReach) {
		if !encPkg(core.FnPkgPath(fn)) {
			continue
		}
		fn := fn
		core.EachInstr(fn, func(i ssa.Instruction) {
			ci, ok := i.(ssa.CallInstruction)
			if !ok {
				return
			}
			f := core.CalleeObj(ci)
			if f == nil || f.Pkg() == nil || f.Pkg().Path() != pkgBuilder || !strings.HasPrefix(f.Name(), "Append") || f.Name() == "AppendNull" {
				return
			}
			args := core.CallArgs(ci)
			allConst := len(args) > 0
			for _, a := range args {
				if _, isK := core.ConstInt(core.StripConv(a)); !isK {
					allConst = false
				}
			}
			if allConst || len(args) == 0 {
				return // the type tag itself
			}
			k, ok := valueTypeArm(fn, i, 0)
			if !ok {
				return
			}
			recv := core.CallRecv(ci)
			if recv == nil {
				return
			}
			if E[k] == nil {
				E[k] = tokSet{}
			}
			top := fn
			for top.Parent() != nil {
				top = top.Parent()
			}
			if Efn[top] == nil {
				Efn[top] = map[int64]tokSet{}
				EfnAt[top] = map[int64]token.Pos{}
			}
			if Efn[top][k] == nil {
				Efn[top][k] = tokSet{}
				EfnAt[top][k] = i.Pos()
			}
			for _, cn := range e.tokens(recv).with("col:") {
				E[k][cn] = true
				Efn[top][k][cn] = true
			}
		})
	}
	n := 0
	Dall := map[int64]tokSet{}
	seenOrigin := map[*ssa.Function]bool{}
	for _, fn := range sortedFuncs(p, decReach) {
		if !strings.Contains(core.FnPkgPath(fn), "/otlp") {
			continue
		}
		// generic decoders are analysed through one of their instantiations
		label := core.FuncName(fn)
		if fn.Synthetic != "" {
			if fn.Origin() == nil {
				continue
			}
			label = core.FuncName(fn.Origin())
			if seenOrigin[fn.Origin()] {
				continue
			}
			seenOrigin[fn.Origin()] = true
		}
		fn := fn
		D := map[int64]tokSet{}
		at := map[int64]token.Pos{}
		core.EachInstr(fn, func(i ssa.Instruction) {
			cl, ok := i.(*ssa.Call)
			if !ok {
				return
			}
			f := core.CalleeObj(cl)
			if f == nil || f.Pkg() == nil || f.Pkg().Path() != pkgArrowUtils || strings.Contains(f.Name(), "FieldID") {
				return
			}
			k, ok := valueTypeArm(fn, cl, 0)
			if !ok {
				return
			}
			if D[k] == nil {
				D[k] = tokSet{}
				at[k] = cl.Pos()
			}
			for _, a := range core.CallArgs(cl) {
				for _, cn := range e.tokens(a).with("col:") {
					D[k][cn] = true
				}
			}
		})
		var ks []int64
		for k := range D {
			ks = append(ks, k)
		}
		sort.Slice(ks, func(i, j int) bool { return ks[i] < ks[j] })
		for _, k := range ks {
			if Dall[k] == nil {
				Dall[k] = tokSet{}
			}
			Dall[k].addAll(D[k])
			if len(D[k]) == 0 || len(E[k]) == 0 {
				continue
			}
			n++
			common := false
			for cn := range D[k] {
				if E[k][cn] {
					common = true
				}
			}
			c.Check(common, fmt.Sprintf("fn=%s|type=%s", label, names[k]), p.Pos(at[k]), label,
				fmt.Sprintf("the %s arm reads column(s) %v, which the encoders' %s arms write (%v)", names[k], keys(D[k]), names[k], keys(E[k])),
				fmt.Sprintf("the decoder's arm for %s reads column(s) %v but the encoders' arms for %s write the value into %v: values of that type are restored from a column that holds another variant (null for this row)", names[k], keys(D[k]), names[k], keys(E[k])))
		}
	}
	// the other direction: every encoder's arm writes a column that some decoder's arm for that type reads
	var tops []*ssa.Function
	for f := range Efn {
		tops = append(tops, f)
	}
	sort.Slice(tops, func(i, j int) bool { return core.FuncName(tops[i]) < core.FuncName(tops[j]) })
	for _, f := range tops {
		var ks []int64
		for k := range Efn[f] {
			ks = append(ks, k)
		}
		sort.Slice(ks, func(i, j int) bool { return ks[i] < ks[j] })
		for _, k := range ks {
			if len(Efn[f][k]) == 0 || len(Dall[k]) == 0 {
				continue
			}
			n++
			common := false
			for cn := range Efn[f][k] {
				if Dall[k][cn] {
					common = true
				}
			}
			c.Check(common, fmt.Sprintf("enc=%s|type=%s", core.FuncName(f), names[k]), p.Pos(EfnAt[f][k]), core.FuncName(f),
				fmt.Sprintf("the %s arm writes column(s) %v, which the decoders' %s arms read (%v)", names[k], keys(Efn[f][k]), names[k], keys(Dall[k])),
				fmt.Sprintf("the encoder's arm for %s writes the value into column(s) %v but the decoders' arms for %s read %v: the value is never read back", names[k], keys(Efn[f][k]), names[k], keys(Dall[k])))
		}
	}
	c.Stats["RT.22 decoder arms"] = n
}

func init() {
	for _, prop := range []string{"C01", "C02", "C03"} {
		register(prop, &core.Rule{ID: "RT.22", Title: "one-of value arms: the decoder's arm for a value type reads the column the encoders' arm for that type writes", Mod: core.ModRoot, Floor: 7, FloorBy: map[string]int{"C01": 15, "C02": 20, "C03": 15}, Run: rt_22})
	}
}
