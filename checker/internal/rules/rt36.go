package rules

import (
	"fmt"
	"go/types"
	"strings"

	"golang.org/x/tools/go/ssa"

	"otelcheck/internal/core"
)

// RT.36 — related rows are accumulated under the id that is written.
//
// An encoder row gets an id (the id column of its record: `b.ib.Append(ID)`,
// or the id handed to the resource / scope sub-builder: `b.scb.Append(scopeID,
// …)`), and its related rows (attributes, events, links, data points) are
// handed to an accumulator under a parent id: `attrsAccu.Append(ID, attrs)`.
// The decoder looks the related rows up under the id it reads from the id
// column, so the two must be the same number.  They are two uses of a local
// variable; a builder function usually has several integer variables of the
// same type in scope (the loop index, a dense counter, the optimizer's group
// index), so using another one type-checks and agrees with the right one on
// every small, regular input (one resource, one scope, attributes on every
// row).
//
// Rule: in every encoder function that both writes ids and accumulates, the
// parent id of each accumulation — when it is computed in the function (not a
// parameter or a field of the accumulated item) — is a value that also reaches
// an id sink of the function: the first argument of an Append of a column or
// sub-builder held in a field of the builder, through conversions and φ-nodes
// only.
func rt_36(c *core.Ctx, p *core.Prog) {
	reach := encodeReach(p)
	fns := sortedFuncs(p, reach)
	fns = append(fns, p.FuncsIn(func(pp string) bool { return core.IsCanaryPath(pp) && c.InScope(pp) })...)
	for _, fn := range fns {
		pp := core.FnPkgPath(fn)
		if !(encPkg(pp) || (core.IsCanaryPath(pp) && c.InScope(pp))) || fn.Synthetic != "" {
			continue
		}
		// id sinks: Append*(intValue, …) on a builder held in a field of the receiver
		var sinks []ssa.Value
		sinkOwner := map[string]map[ssa.Value]bool{} // pdata container type -> ids handed to the sub-builder that writes it
		core.EachInstr(fn, func(i ssa.Instruction) {
			ci, ok := i.(ssa.CallInstruction)
			if !ok || isAccumulate(ci) {
				return
			}
			f := core.CalleeObj(ci)
			if f == nil || !strings.HasPrefix(f.Name(), "Append") {
				return
			}
			recv := core.CallRecv(ci)
			if recv == nil || core.LoadedField(recv) == nil {
				return
			}
			args := core.CallArgs(ci)
			if len(args) == 0 || !isIntegerType(args[0].Type()) {
				return
			}
			sinks = append(sinks, args[0])
			// the entity the sink writes: the pdata containers among its other arguments (b.rb.Append(resID, resource, …))
			for _, a := range args[1:] {
				if n := core.NamedOf(a.Type()); n != nil && n.Obj().Pkg() != nil && strings.HasPrefix(n.Obj().Pkg().Path(), core.PdataPath) {
					if sinkOwner[n.Obj().Name()] == nil {
						sinkOwner[n.Obj().Name()] = map[ssa.Value]bool{}
					}
					sinkOwner[n.Obj().Name()][args[0]] = true
				}
			}
		})
		if len(sinks) == 0 {
			continue
		}
		// the closure of the sinks through conversions and φ-nodes
		written := map[ssa.Value]bool{}
		var expand func(v ssa.Value, d int)
		expand = func(v ssa.Value, d int) {
			v = core.StripConv(core.Canon(core.StripConv(v)))
			if written[v] || d > 6 {
				return
			}
			written[v] = true
			if ph, ok := v.(*ssa.Phi); ok {
				for _, e := range ph.Edges {
					expand(e, d+1)
				}
			}
		}
		for _, s := range sinks {
			expand(s, 0)
		}
		k := 0
		core.EachInstr(fn, func(i ssa.Instruction) {
			ci, ok := i.(ssa.CallInstruction)
			if !ok || !isAccumulate(ci) {
				return
			}
			args := core.CallArgs(ci)
			if len(args) < 2 || !isIntegerType(args[0].Type()) {
				return
			}
			id := core.StripConv(core.Canon(core.StripConv(args[0])))
			switch id.(type) {
			case *ssa.Parameter, *ssa.Const:
				return // handed in by the caller: the caller's function is judged
			}
			k++
			key := fmt.Sprintf("fn=%s|acc#%d|%s", core.FuncName(fn), k, valueLabel(args[1]))
			ok2 := written[id]
			if !ok2 {
				for w := range written {
					if core.SameValue(w, id) {
						ok2 = true
					}
				}
			}
			// the attributes of a resource / scope go under the id handed to the resource / scope sub-builder — not
			// under the id of the other one (both are in scope, of one type, and equal on every one-scope-per-resource input)
			if ok2 {
				owner := ""
				core.BackSlice(args[1], func(v ssa.Value) bool {
					if cl, ok := v.(*ssa.Call); ok && owner == "" {
						if f := pdataCallee(cl); f != nil && f.Name() == "Attributes" && core.RecvNamed(f) != nil {
							owner = core.RecvNamed(f).Obj().Name()
							return false
						}
					}
					return owner == ""
				})
				if ids := sinkOwner[owner]; owner != "" && len(ids) > 0 {
					own := map[ssa.Value]bool{}
					var exp2 func(v ssa.Value, d int)
					exp2 = func(v ssa.Value, d int) {
						v = core.StripConv(core.Canon(core.StripConv(v)))
						if own[v] || d > 6 {
							return
						}
						own[v] = true
						if ph, ok := v.(*ssa.Phi); ok {
							for _, e := range ph.Edges {
								exp2(e, d+1)
							}
						}
					}
					for sv := range ids {
						exp2(sv, 0)
					}
					match := own[id]
					for w := range own {
						if core.SameValue(w, id) {
							match = true
						}
					}
					if !match {
						c.Viol(key, p.Pos(ci.Pos()), core.FuncName(fn), fmt.Sprintf("the attributes of a %s are accumulated under %s, which this function writes as the id of another entity, not as the id of the %s: whenever the two numbers differ (a resource with two scopes) the decoder attaches them to the wrong %s or to none", owner, describeID(id), owner, owner))
						return
					}
				}
			}
			c.Check(ok2, key, p.Pos(ci.Pos()), core.FuncName(fn),
				"the parent id of the accumulated rows is an id this function writes",
				fmt.Sprintf("related rows (%s) are accumulated under %s, which is not a value this function writes to an id column or hands to a sub-builder as id: the decoder looks them up under the id it reads, so they are attached to another parent or to none", valueLabel(args[1]), describeID(id)))
		})
	}
}

func isIntegerType(t types.Type) bool {
	b, ok := t.Underlying().(*types.Basic)
	return ok && b.Info()&types.IsInteger != 0
}

func describeID(v ssa.Value) string {
	if s := core.AccessPath(v); s != "" {
		return s
	}
	if s := valueLabel(v); s != "" {
		return s
	}
	return v.Name()
}

func init() {
	for _, prop := range []string{"C01", "C02", "C03"} {
		register(prop, &core.Rule{ID: "RT.36", Title: "related rows are accumulated under the very id the row writes (not another integer in scope)", Mod: core.ModRoot, Floor: 3, FloorBy: map[string]int{"C01": 7, "C02": 3, "C03": 14}, Run: rt_36, Canary: rt36Canary})
	}
}

const rt36Canary = `package c

type col struct{ n int }

func (c *col) Append(v uint32) { c.n++ }
func (c *col) AppendNull()     { c.n++ }

type AttrsAccumulator struct{ ids []uint32 }

func (a *AttrsAccumulator) Append(id uint32, attrs []string) error {
	a.ids = append(a.ids, id)
	return nil
}

type B struct {
	ib   *col
	rows [][]string
}

// BadDenseCounterVsIndex writes a dense counter to the id column and accumulates under the loop index.
func (b *B) BadDenseCounterVsIndex(accu *AttrsAccumulator) error {
	next := uint32(0)
	for i, attrs := range b.rows {
		if len(attrs) == 0 {
			b.ib.AppendNull()
			continue
		}
		b.ib.Append(next)
		next++
		if err := accu.Append(uint32(i), attrs); err != nil {
			return err
		}
	}
	return nil
}

// GoodSameID writes and accumulates under the same counter.
func (b *B) GoodSameID(accu *AttrsAccumulator) error {
	next := uint32(0)
	for _, attrs := range b.rows {
		if len(attrs) == 0 {
			b.ib.AppendNull()
			continue
		}
		b.ib.Append(next)
		if err := accu.Append(next, attrs); err != nil {
			return err
		}
		next++
	}
	return nil
}
`
