package rules

import (
	"fmt"
	"go/token"
	"go/types"

	"golang.org/x/tools/go/ssa"

	"otelcheck/internal/core"
)

// C12.9 IsEmpty means "no rows". Related record builders are skipped when
// IsEmpty() is true (C12.4), so the predicate must be computed from the very
// slice the builder's row loop ranges over: `len(rows) == 0`, or a delegation to
// another IsEmpty. A predicate computed from something else (a group counter)
// disagrees with the rows whenever entries are filtered on the way in, and an
// empty related payload is emitted.
func c12_9(c *core.Ctx, p *core.Prog) {
	reach := encodeReach(p)
	// row sources: slice fields indexed inside a loop of a function that appends to column builders
	rowSrc := map[*types.Var]bool{}
	for _, fn := range sortedFuncs(p, reach) {
		if !encPkg(core.FnPkgPath(fn)) {
			continue
		}
		hasAppend := false
		core.EachInstr(fn, func(i ssa.Instruction) {
			if appendEvent(i) != nil {
				hasAppend = true
			}
		})
		if !hasAppend {
			continue
		}
		core.EachInstr(fn, func(i ssa.Instruction) {
			if ia, ok := i.(*ssa.IndexAddr); ok {
				if fa := core.LoadedField(ia.X); fa != nil {
					rowSrc[core.FieldVar(fa)] = true
				}
			}
		})
	}
	n := 0
	for _, fn := range sortedFuncs(p, reach) {
		if fn.Name() != "IsEmpty" || fn.Synthetic != "" || fn.Signature.Recv() == nil || fn.Signature.Params().Len() != 0 || !encPkg(core.FnPkgPath(fn)) {
			continue
		}
		n++
		var msgs []string
		for _, r := range core.Returns(fn) {
			if len(r.Results) != 1 {
				continue
			}
			v := r.Results[0]
			if cl, ok := v.(*ssa.Call); ok {
				if f := core.CalleeObj(cl); f != nil && f.Name() == "IsEmpty" {
					continue // delegation
				}
			}
			bo, ok := v.(*ssa.BinOp)
			okLen := false
			if ok && bo.Op == token.EQL {
				if k, isC := core.ConstInt(bo.Y); isC && k == 0 {
					if cl, ok := bo.X.(*ssa.Call); ok {
						if bi, ok := cl.Call.Value.(*ssa.Builtin); ok && bi.Name() == "len" {
							if fa := core.LoadedField(cl.Call.Args[0]); fa != nil {
								if rowSrc[core.FieldVar(fa)] {
									okLen = true
								} else {
									msgs = append(msgs, fmt.Sprintf("it measures %s, which no row loop ranges over", core.FieldVar(fa).Name()))
									okLen = true
								}
							}
						}
					}
				}
			}
			if !okLen {
				msgs = append(msgs, fmt.Sprintf("the value returned at %s is not `len(<row slice>) == 0` nor a delegation to another IsEmpty (%s)", p.Pos(r.Pos()), valueLabel(v)))
			}
		}
		c.Check(len(msgs) == 0, "fn="+core.FuncName(fn), p.Pos(fn.Pos()), core.FuncName(fn),
			"IsEmpty is computed from the length of the slice the row loop ranges over (or delegates)",
			"IsEmpty is not computed from the rows: "+joinMsgs(msgs)+": when entries are filtered on the way in (empty keys, unset values) the predicate says non-empty although there are no rows, the builder is not skipped and an empty related payload is emitted")
	}
	c.Stats["C12.9 IsEmpty methods"] = n
}

func init() {
	register("C12", &core.Rule{ID: "C12.9", Title: "IsEmpty of the related builders and accumulators means 'no rows'", Mod: core.ModRoot, Floor: 10, Run: c12_9})
}
