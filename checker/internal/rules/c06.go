package rules

import (
	"fmt"
	"go/ast"
	"go/token"
	"go/types"
	"strings"

	"golang.org/x/tools/go/ssa"

	"otelcheck/internal/core"
)

func init() {
	core.Describe("C06",
		"Static necessary conditions of 'each caller gets the true outcome of its own items' (the thinnest claim of the set), decided on the SSA of the batch processor: "+
			"C06.1 a response channel is created iff early_return is off and travels with the request; "+
			"C06.2 after a successful enqueue early_return returns nil at once, otherwise the wait function is called with the caller's own context, item count and channel; the ctx.Done() arm returns ctx.Err(); "+
			"C06.3 the export goroutine sends, to every contributor of the batch, the result of the export call together with that contributor's own count, after the export, iff early_return is off; "+
			"C06.4 apportioning: the partial arm is taken iff before+head.numItems > after, records after−before and subtracts the same value from the head; the complete arm records the head's count and removes the head; "+
			"C06.5 the waiter decreases its countdown by each received count, returns only at zero, keeps earlier errors (loop-carried join) and joins the context error on cancellation; "+
			"C06.6 the counted error unwraps to the export error; "+
			"C06.7 every received request gets exactly one pending entry of its own (own context, own channel, count = growth of the batch), and pending entries are modified nowhere else. "+
			"NOT decided: that the counts add up over all arrival orders (arithmetic over run-time quantities), promptness, at-most-once delivery after cancellation.",
		"errors.Join keeps every non-nil argument", "a Go select picks only ready arms")
	register("C06", &core.Rule{ID: "C06.1", Title: "response channel exists iff early_return is off", Mod: core.ModCBP, Floor: 2, Run: c06_1})
	register("C06", &core.Rule{ID: "C06.2", Title: "enqueue outcomes", Mod: core.ModCBP, Floor: 3, Run: c06_2})
	register("C11", &core.Rule{ID: "C11.10", Title: "a request is reported accepted (nil) only after it was queued: what Consume acknowledges is what Shutdown drains", Mod: core.ModCBP, Floor: 3, Run: c06_2})
	register("C06", &core.Rule{ID: "C06.3", Title: "every contributor is sent the export result with its own count", Mod: core.ModCBP, Floor: 4, Run: c06_3})
	register("C11", &core.Rule{ID: "C11.9", Title: "no caller blocks for ever: every contributor is sent the export result, and the reply is given up only when the caller's own context is done", Mod: core.ModCBP, Floor: 4, Run: c06_3})
	register("C06", &core.Rule{ID: "C06.4", Title: "apportioning of a sent batch to the pending callers", Mod: core.ModCBP, Floor: 4, Run: c06_4})
	register("C06", &core.Rule{ID: "C06.5", Title: "waiter countdown and error join", Mod: core.ModCBP, Floor: 4, Run: c06_5})
	register("C06", &core.Rule{ID: "C06.6", Title: "counted error unwraps to the export error", Mod: core.ModCBP, Floor: 1, Run: c06_6})
	register("C06", &core.Rule{ID: "C06.7", Title: "one pending entry per received request", Mod: core.ModCBP, Floor: 2, Run: c06_7})
	register("C18", &core.Rule{ID: "C18.6", Title: "one pending entry (with its own context) per received request", Mod: core.ModCBP, Floor: 2, Run: c06_7})
}

// procBoolField returns the bool field of the processor struct (early_return).
func (m *cbpMore) earlyField() *types.Var {
	if m.procType == nil {
		return nil
	}
	st := core.FlatStruct(m.procType)
	var out *types.Var
	for i := 0; i < st.NumFields(); i++ {
		if isBool(st.Field(i).Type()) {
			if out != nil {
				return nil // ambiguous
			}
			out = st.Field(i)
		}
	}
	return out
}

func guardAtPos(p *core.Prog, pos token.Pos) (conds []core.Cond, g *core.GuardEval, complex bool, err error) {
	pk, file := p.FileOf(pos)
	if file == nil {
		return nil, nil, false, fmt.Errorf("no syntax for %s", p.Pos(pos))
	}
	body := core.FuncBodyAt(file, pos)
	if body == nil {
		return nil, nil, false, fmt.Errorf("no enclosing function body")
	}
	conds, complex = core.PathCond(file, body, pos)
	g = &core.GuardEval{Pkg: pk}
	g.Inline = func(fn *types.Func) ast.Expr {
		if fn.Pkg() == nil || fn.Pkg() != pk.Types {
			return nil
		}
		return core.SingleReturnExpr(pk, fn)
	}
	conds = g.ExpandConds(conds)
	return conds, g, complex, nil
}

func c06_1(c *core.Ctx, p *core.Prog) {
	a := newCBPAnchors(p)
	if !a.ok(c) {
		return
	}
	m := a.more()
	if !m.ok(c) {
		return
	}
	early := m.earlyField()
	fn := m.enqueueFn
	if early == nil {
		c.Undecided("anchors", p.Pos(fn.Pos()), core.FuncName(fn), "early_return field not resolved")
		return
	}
	var mk ssa.Value
	isRespChan := func(t types.Type) bool {
		n := core.NamedOf(chanElem(t))
		return n != nil && n.Obj() == m.countedErr.Obj()
	}
	core.EachInstr(fn, func(i ssa.Instruction) {
		if x, ok := i.(*ssa.MakeChan); ok && isRespChan(x.Type()) {
			mk = x
		}
		// a same-package helper all of whose returns are a fresh make(chan countedError)
		if cl, ok := i.(*ssa.Call); ok && mk == nil && isRespChan(cl.Type()) {
			if callee := cl.Call.StaticCallee(); callee != nil && core.FnPkgPath(callee) == core.CBPPath {
				fresh := len(core.Returns(callee)) > 0
				for _, r := range core.Returns(callee) {
					if len(r.Results) != 1 {
						fresh = false
						continue
					}
					if _, ok := core.Strip(r.Results[0]).(*ssa.MakeChan); !ok {
						fresh = false
					}
				}
				if fresh {
					mk = cl
				}
			}
		}
	})
	if mk == nil {
		// where does the channel stored in the queued request come from?
		from := "nowhere"
		core.EachInstr(fn, func(i ssa.Instruction) {
			st, ok := i.(*ssa.Store)
			if !ok {
				return
			}
			if fa, ok := st.Addr.(*ssa.FieldAddr); ok && isRespChan(core.FieldVar(fa).Type()) {
				from = valueLabel(st.Val)
			}
		})
		c.Viol("respch|create", p.Pos(fn.Pos()), core.FuncName(fn), "the response channel stored in the queued request is not freshly made for this request (it comes from "+from+"): a recycled or shared channel delivers the replies meant for an abandoned request to the next caller, or no channel exists and callers with early_return off never learn the outcome")
		return
	}
	conds, g, cx, err := guardAtPos(p, mk.Pos())
	if err != nil || cx {
		c.Undecided("respch|create", p.Pos(mk.Pos()), core.FuncName(fn), "path condition not recognised")
		return
	}
	// earlier early-exit on itemCount==0 does not matter: keep only conjuncts over early
	g.Roles = func(obj types.Object, e ast.Expr) (string, bool) {
		if obj == types.Object(early) {
			return "?early", true
		}
		return "", false
	}
	var usable []core.Cond
	for _, cd := range conds {
		if _, e := g.Terms([]core.Cond{cd}); e == nil {
			usable = append(usable, cd)
		}
	}
	ok, w, _, err := compareGuard(g, usable, []string{"?early"}, smallDom, func(env map[string]int64) bool { return env["?early"] == 0 }, "equiv")
	if err != nil {
		c.Undecided("respch|create", p.Pos(mk.Pos()), core.FuncName(fn), err.Error())
		return
	}
	c.Check(ok, "respch|create", p.Pos(mk.Pos()), core.FuncName(fn), "response channel created iff early_return is off",
		"response channel creation guard "+condString(usable)+" differs from '!early_return' ("+w+")")
	// the channel travels with the request: the item's chan field is φ(nil, make)
	travels := false
	core.EachInstr(fn, func(i ssa.Instruction) {
		st, ok := i.(*ssa.Store)
		if !ok {
			return
		}
		fa, ok := st.Addr.(*ssa.FieldAddr)
		if !ok || chanElem(core.FieldVar(fa).Type()) == nil {
			return
		}
		if core.DerivesFrom(st.Val, func(v ssa.Value) bool { return v == mk }) {
			travels = true
		}
	})
	c.Check(travels, "respch|travels", p.Pos(mk.Pos()), core.FuncName(fn), "the created channel is stored in the queued request", "the created response channel is not the one stored in the queued request: the export goroutine answers on a different channel than the caller waits on")
}

func c06_2(c *core.Ctx, p *core.Prog) {
	a := newCBPAnchors(p)
	if !a.ok(c) {
		return
	}
	m := a.more()
	if !m.ok(c) {
		return
	}
	fn := m.enqueueFn
	sel := m.enqueueSelect
	if sel == nil {
		pos := p.Pos(fn.Pos())
		if m.enqueueSend != nil {
			pos = p.Pos(m.enqueueSend.Pos())
		}
		c.Viol("enqueue|select", pos, core.FuncName(fn), "the request is enqueued with a bare channel send instead of a select with the caller's ctx.Done(): a caller parked behind a full queue (the shard is waiting for an export slot) no longer watches its context — its cancellation or deadline is not reported until downstream makes progress")
		return
	}
	early := m.earlyField()
	var ctxP *ssa.Parameter
	for _, pr := range fn.Params {
		if isCtx(pr.Type()) {
			ctxP = pr
		}
	}
	if ctxP == nil || early == nil {
		c.Undecided("anchors", p.Pos(fn.Pos()), core.FuncName(fn), "context parameter / early_return field not resolved")
		return
	}
	doneK, sendK := -1, -1
	for k, s := range sel.States {
		if s.Dir == types.RecvOnly {
			if cl, ok := s.Chan.(*ssa.Call); ok && cl.Call.IsInvoke() && cl.Call.Method.Name() == "Done" && cl.Call.Value == ssa.Value(ctxP) {
				doneK = k
			}
		}
		if s.Dir == types.SendOnly {
			sendK = k
		}
	}
	pos := p.Pos(sel.Pos())
	if !sel.Blocking {
		c.Viol("enqueue|blocking", pos, core.FuncName(fn), "the enqueue select is non-blocking: a request is dropped (or reported) when the queue is momentarily full")
	}
	// (a) ctx arm
	if doneK < 0 {
		c.Viol("enqueue|ctx-arm", pos, core.FuncName(fn), "the enqueue select has no arm on the caller's ctx.Done(): a caller whose context ended blocks on a full queue")
	} else if arm, ok := selectArm(sel, doneK); ok {
		okAll, n := true, 0
		for _, r := range core.Returns(fn) {
			if !core.EdgeGuards(fn, arm, r) {
				continue
			}
			n++
			cl, isCall := r.Results[0].(*ssa.Call)
			if !isCall || !cl.Call.IsInvoke() || cl.Call.Method.Name() != "Err" || cl.Call.Value != ssa.Value(ctxP) {
				okAll = false
			}
		}
		c.Check(okAll && n > 0, "enqueue|ctx-arm", pos, core.FuncName(fn), "the ctx.Done() arm returns the caller's ctx.Err()", "the ctx.Done() arm of the enqueue select does not return the caller's context error")
	}
	// (b) send arm
	if sendK < 0 {
		c.Undecided("enqueue|send-arm", pos, core.FuncName(fn), "send arm not found")
		return
	}
	arm, ok := selectArm(sel, sendK)
	if !ok {
		c.Undecided("enqueue|send-arm", pos, core.FuncName(fn), "select lowering not recognised")
		return
	}
	// values stored into the queued item
	var chanV, countV ssa.Value
	core.EachInstr(fn, func(i ssa.Instruction) {
		st, ok := i.(*ssa.Store)
		if !ok {
			return
		}
		fa, ok := st.Addr.(*ssa.FieldAddr)
		if !ok {
			return
		}
		fv := core.FieldVar(fa)
		owner := core.NamedOf(fa.X.Type())
		if owner == nil || owner.Obj().Pkg() == nil || owner.Obj().Pkg().Path() != core.CBPPath {
			return
		}
		if chanElem(fv.Type()) != nil {
			chanV = st.Val
		} else if isInt(fv.Type()) {
			countV = st.Val
		}
	})
	var msgs []string
	nEarly, nWait := 0, 0
	for _, r := range core.Returns(fn) {
		if !core.EdgeGuards(fn, arm, r) {
			continue
		}
		if core.IsNilConst(r.Results[0]) {
			nEarly++
			// must be guarded by early == true
			guarded := false
			for _, b := range fn.Blocks {
				iff := core.IfOf(b)
				if iff != nil && isFieldLoad(iff.Cond, early) && core.GuardedBy(iff, true, r) {
					guarded = true
				}
			}
			if !guarded {
				msgs = append(msgs, fmt.Sprintf("%s: returns nil after enqueueing without early_return being set: the caller is told 'success' before its items were exported", p.Pos(r.Pos())))
			}
			continue
		}
		cl, isCall := r.Results[0].(*ssa.Call)
		if !isCall || cl.Call.StaticCallee() != m.waitFn {
			msgs = append(msgs, fmt.Sprintf("%s: after enqueueing, the result is neither nil (early_return) nor the wait function's result", p.Pos(r.Pos())))
			continue
		}
		nWait++
		args := core.CallArgs(cl)
		for _, arg := range args {
			switch {
			case isCtx(arg.Type()):
				if arg != ssa.Value(ctxP) {
					msgs = append(msgs, "the wait function is not given the caller's own context")
				}
			case chanElem(arg.Type()) != nil:
				if chanV == nil || core.Strip(arg) != core.Strip(chanV) {
					msgs = append(msgs, "the wait function does not wait on the channel stored in the queued request")
				}
			case isInt(arg.Type()):
				if countV == nil || !core.DerivesFrom(arg, func(v ssa.Value) bool { return v == countV }) {
					msgs = append(msgs, "the wait function's item count is not the count stored in the queued request")
				}
			}
		}
		// not reachable when early is set
		for _, b := range fn.Blocks {
			iff := core.IfOf(b)
			if iff != nil && isFieldLoad(iff.Cond, early) && core.GuardedBy(iff, true, cl) {
				msgs = append(msgs, "the wait function is called although early_return is set")
			}
		}
	}
	if nWait == 0 {
		msgs = append(msgs, "no path waits for the export outcome")
	}
	if nEarly == 0 {
		msgs = append(msgs, "no early return after a successful enqueue")
	}
	c.Check(len(msgs) == 0, "enqueue|send-arm", pos, core.FuncName(fn), "after enqueueing: nil iff early_return, else wait(ctx, own count, own channel)", strings.Join(msgs, "; "))
	// admission of empty requests: count==0 returns nil before anything is queued (documented behaviour)
	c.OK("enqueue|shape", pos, core.FuncName(fn), fmt.Sprintf("enqueue select: done arm %d, send arm %d", doneK, sendK))
}

func c06_3(c *core.Ctx, p *core.Prog) {
	a := newCBPAnchors(p)
	if !a.ok(c) {
		return
	}
	m := a.more()
	if !m.ok(c) {
		return
	}
	fn := a.exportFn
	early := m.earlyField()
	exportRes, _ := a.exportCall.(*ssa.Call)
	var sel *ssa.Select
	var send *ssa.SelectState
	for _, f := range core.WithClosures(fn) {
		core.EachInstr(f, func(i ssa.Instruction) {
			if s, ok := i.(*ssa.Select); ok {
				for _, st := range s.States {
					if st.Dir == types.SendOnly {
						if n := core.NamedOf(chanElem(st.Chan.Type())); n != nil && n.Obj() == m.countedErr.Obj() {
							sel, send = s, st
						}
					}
				}
			}
		})
	}
	// the reply loop may live in a helper called from the export goroutine (`respond(waiters, err)`): its parameters
	// stand for the arguments of that call, and the clauses about order and guard are evaluated at the call
	var selSite ssa.Instruction
	if sel == nil {
		for _, f := range core.WithClosures(fn) {
			core.EachInstr(f, func(i ssa.Instruction) {
				hc, ok := i.(*ssa.Call)
				if !ok || sel != nil {
					return
				}
				h := hc.Call.StaticCallee()
				if h == nil || core.FnPkgPath(h) != core.CBPPath || len(h.Blocks) == 0 {
					return
				}
				core.EachInstr(h, func(j ssa.Instruction) {
					if s2, ok := j.(*ssa.Select); ok {
						for _, st := range s2.States {
							if st.Dir == types.SendOnly {
								if n := core.NamedOf(chanElem(st.Chan.Type())); n != nil && n.Obj() == m.countedErr.Obj() {
									sel, send, selSite = s2, st, hc
								}
							}
						}
					}
				})
				if sel != nil {
					for k, prm := range h.Params {
						if k < len(hc.Call.Args) {
							core.BindParam(prm, hc.Call.Args[k])
						}
					}
					// helpers of the helper with one call site (`pending.response(err)` building the value sent)
					sites := map[*ssa.Function][]*ssa.Call{}
					core.EachInstr(h, func(j ssa.Instruction) {
						if c2, ok := j.(*ssa.Call); ok {
							if h2 := c2.Call.StaticCallee(); h2 != nil && core.FnPkgPath(h2) == core.CBPPath && len(h2.Blocks) > 0 {
								sites[h2] = append(sites[h2], c2)
							}
						}
					})
					for h2, cs := range sites {
						if len(cs) != 1 {
							continue
						}
						for k, prm := range h2.Params {
							if k < len(cs[0].Call.Args) {
								core.BindParam(prm, cs[0].Call.Args[k])
							}
						}
						core.MarkTransparent(h2)
					}
				}
			})
		}
	}
	if sel == nil {
		c.Viol("respond|send", p.Pos(fn.Pos()), core.FuncName(fn), "the export goroutine never sends a counted error to the waiters: callers with early_return off wait until their context ends")
		return
	}
	pos := p.Pos(sel.Pos())
	if selSite == nil {
		selSite = sel
	}
	if selSite.Parent() != fn {
		c.Undecided("respond|send", pos, core.FuncName(fn), "response loop moved into a nested closure: form not recognised")
		return
	}
	// every arm of the reply select goes on to the next waiter: leaving the loop on the Done arm of a departed
	// waiter (return / break) leaves the waiters behind it without their outcome
	{
		lf := sel.Parent()
		var header *ssa.BasicBlock
		var body map[*ssa.BasicBlock]bool
		for h, bd := range loopsOf(lf) {
			if bd[sel.Block()] && (body == nil || len(bd) < len(body)) {
				header, body = h, bd
			}
		}
		stops := ""
		if header != nil {
			for k := range sel.States {
				arm, ok := selectArm(sel, k)
				if !ok || len(arm.To.Instrs) == 0 {
					continue
				}
				inHeader := func(i ssa.Instruction) bool { return i.Block() == header }
				if arm.To == header {
					continue
				}
				if leaves, _ := (core.PathQuery{Fn: lf, From: arm.To.Instrs[0], Avoid: inHeader, ExitReturnOnly: true}).Exists(); leaves || func() bool {
					_, isRet := arm.To.Instrs[0].(*ssa.Return)
					return isRet
				}() {
					what := "send"
					if sel.States[k].Dir == types.RecvOnly {
						what = "Done"
					}
					stops = what
				}
			}
		}
		c.Check(header != nil && stops == "", "respond|continues", pos, core.FuncName(lf),
			"after each waiter (answered or departed) the loop goes on to the next one",
			"the reply loop is left on the "+stops+" arm of one waiter: the waiters behind it in the same batch are never told the outcome of their items although the export has finished (their Consume blocks until their own context ends)")
	}
	// the only way round the send is the waiter itself having left: every receive arm of the reply select is
	// Done() of the context of the very contributor whose channel the send arm uses
	{
		var others []string
		for _, st := range sel.States {
			if st.Dir != types.RecvOnly {
				if st != send {
					others = append(others, "a second send arm")
				}
				continue
			}
			okDone := false
			if dc, ok := core.Strip(st.Chan).(*ssa.Call); ok && dc.Call.IsInvoke() && dc.Call.Method.Name() == "Done" && isCtx(dc.Call.Value.Type()) {
				cp, sp := core.AccessPath(dc.Call.Value), core.AccessPath(send.Chan)
				if cp != "" && sp != "" && elemPrefix(cp) == elemPrefix(sp) {
					okDone = true
				}
			}
			if !okDone {
				lbl := core.AccessPath(st.Chan)
				if lbl == "" {
					lbl = st.Chan.Name()
				}
				others = append(others, "a receive on "+lbl)
			}
		}
		c.Check(len(others) == 0, "respond|ways-out", pos, core.FuncName(sel.Parent()), "the reply is given up only when the waiter's own context is done",
			"the reply select has "+strings.Join(others, ", ")+" besides the send and the waiter's own Done(): once that arm is ready (a channel closed at shutdown is ready for ever) select picks it at random, the outcome is dropped and never re-sent, and a caller whose context does not end blocks in Consume for ever")
	}
	if !sel.Blocking {
		c.Viol("respond|blocking", pos, core.FuncName(fn), "the response is sent with a non-blocking select: a waiter that is not yet receiving (or whose buffer holds an earlier response) loses this response and never finishes its countdown")
	} else {
		c.OK("respond|blocking", pos, core.FuncName(fn), "blocking select")
	}
	// value sent: complit{err: export result, count: same element's count}
	var errV, cntV ssa.Value
	core.BackSlice(send.Send, func(v ssa.Value) bool {
		al, ok := v.(*ssa.Alloc)
		if !ok {
			return true
		}
		for _, r := range core.Referrers(al) {
			fa, ok := r.(*ssa.FieldAddr)
			if !ok {
				continue
			}
			for _, r2 := range core.Referrers(fa) {
				if st, ok := r2.(*ssa.Store); ok && st.Addr == ssa.Value(fa) {
					if isErr(core.FieldVar(fa).Type()) {
						errV = st.Val
					} else if isInt(core.FieldVar(fa).Type()) {
						cntV = st.Val
					}
				}
			}
		}
		return false
	})
	var msgs []string
	if errV == nil || exportRes == nil || core.Strip(core.ResolveParam(errV)) != ssa.Value(exportRes) {
		msgs = append(msgs, "the error sent to the waiter is not the result of this batch's export call")
	}
	chPath := core.AccessPath(send.Chan)
	cntPath := ""
	if cntV != nil {
		cntPath = core.AccessPath(cntV)
		// read through the (value) receiver of a bound helper: the path of the argument it stands for
		var root ssa.Value
		fname := ""
		if f, ok := core.Strip(cntV).(*ssa.Field); ok {
			root, fname = f.X, core.FieldName(f)
		} else if fa := core.LoadedField(core.Strip(cntV)); fa != nil {
			root, fname = fa.X, core.FieldName(fa)
			// a value receiver is spilled into a local cell
			if al, ok := root.(*ssa.Alloc); ok {
				for _, r := range core.Referrers(al) {
					if st, ok := r.(*ssa.Store); ok && st.Addr == ssa.Value(al) {
						root = st.Val
					}
				}
			}
		}
		if prm, ok := root.(*ssa.Parameter); ok {
			if b := core.ParamBinding(prm); b != nil {
				if bp := core.AccessPath(b); bp != "" {
					cntPath = bp + "." + fname
				}
			}
		}
	}
	if chPath == "" || cntPath == "" {
		msgs = append(msgs, "origin of the channel / count sent to the waiter not recognised")
	} else if elemPrefix(chPath) != elemPrefix(cntPath) {
		msgs = append(msgs, fmt.Sprintf("the count sent on %s is %s: a contributor is told another contributor's count", chPath, cntPath))
	}
	c.Check(len(msgs) == 0, "respond|payload", pos, core.FuncName(fn), fmt.Sprintf("sends {err: export result, count: %s} on %s", cntPath, chPath), strings.Join(msgs, "; "))
	// after the export
	after := exportRes != nil && core.MustPassBetween(fn, nil, selSite, func(i ssa.Instruction) bool { return i == ssa.Instruction(exportRes) })
	c.Check(after, "respond|after-export", pos, core.FuncName(fn), "responses are sent only after the export call returned", "a response can be sent before the export call has returned")
	// iff !early
	conds, g, cx, err := guardAtPos(p, selSite.Pos())
	if err != nil || cx || early == nil {
		c.Undecided("respond|guard", pos, core.FuncName(fn), "path condition of the response loop not recognised")
	} else {
		g.Roles = func(obj types.Object, e ast.Expr) (string, bool) {
			if obj == types.Object(early) {
				return "?early", true
			}
			return "", false
		}
		ok, w, _, err := compareGuard(g, conds, []string{"?early"}, smallDom, func(env map[string]int64) bool { return env["?early"] == 0 }, "equiv")
		if err != nil {
			c.Undecided("respond|guard", pos, core.FuncName(fn), err.Error())
		} else {
			c.Check(ok, "respond|guard", pos, core.FuncName(fn), "responses are sent iff early_return is off", "response guard "+condString(conds)+" differs from '!early_return' ("+w+")")
		}
	}
	// every contributor: the element the channel belongs to ranges over the whole contributor list
	covered, cmsg := false, "the response loop does not range over the whole contributor list"
	core.BackSlice(send.Chan, func(v ssa.Value) bool {
		acc, ok := core.ElemAccessOf(v)
		if !ok || acc.Phi == nil {
			return true
		}
		ind, ok := core.InductionOf(acc.Phi)
		if !ok {
			cmsg = "loop form not recognised"
			return false
		}
		lo, hi, ok := ind.Coverage(acc)
		if !ok {
			cmsg = "loop bound is not the length of the contributor list"
			return false
		}
		if lo <= 0 && hi >= 0 {
			covered, cmsg = true, "responses range over contributors [0,len)"
		} else {
			cmsg = fmt.Sprintf("responses cover contributors [%d, len%+d) only: the others never learn the outcome", lo, hi)
		}
		return false
	})
	c.Check(covered, "respond|coverage", pos, core.FuncName(fn), cmsg, cmsg)
}

func c06_4(c *core.Ctx, p *core.Prog) {
	a := newCBPAnchors(p)
	if !a.ok(c) {
		return
	}
	m := a.more()
	if !m.ok(c) {
		return
	}
	fn := a.apportionFn()
	// shard fields: pending slice, totalSent
	st := core.FlatStruct(a.shard)
	var pendingF, totalF *types.Var
	for i := 0; i < st.NumFields(); i++ {
		f := st.Field(i)
		if sl, ok := f.Type().Underlying().(*types.Slice); ok && len(ctxFields(sl.Elem())) > 0 {
			pendingF = f
		}
		if b, ok := f.Type().Underlying().(*types.Basic); ok && b.Info()&types.IsInteger != 0 {
			totalF = f
		}
	}
	if pendingF == nil || totalF == nil {
		c.Undecided("anchors", p.Pos(fn.Pos()), core.FuncName(fn), "pending list / running total fields not resolved")
		return
	}
	pendElem := pendingF.Type().Underlying().(*types.Slice).Elem()
	var numItemsF *types.Var
	if es, ok := pendElem.Underlying().(*types.Struct); ok {
		for i := 0; i < es.NumFields(); i++ {
			if isInt(es.Field(i).Type()) {
				numItemsF = es.Field(i)
			}
		}
	}
	// `after`: the value stored into totalSent; `sent`: extract #0 of splitBatch invoke
	var afterV ssa.Value
	core.EachInstr(fn, func(i ssa.Instruction) {
		if s, ok := storesTo(i, totalF); ok {
			afterV = s.Val
		}
	})
	if afterV == nil || numItemsF == nil {
		c.Undecided("anchors", p.Pos(fn.Pos()), core.FuncName(fn), "running total is not updated in the send function")
		return
	}
	// after = totalSent + sent
	okAfter := false
	if b, ok := afterV.(*ssa.BinOp); ok && b.Op == token.ADD && isFieldLoad(b.X, totalF) {
		// exactly the size reported (a conversion of it), not an expression over it
		y := core.StripConv(core.Canon(core.ResolveParam(core.Canon(core.StripConv(b.Y)))))
		if ex, ok := y.(*ssa.Extract); ok && ex.Index == 0 {
			if cl, ok := ex.Tuple.(*ssa.Call); ok && cl.Call.IsInvoke() && cl.Call.Method == a.mSplit {
				okAfter = true
			}
		}
	}
	c.Check(okAfter, "after", p.Pos(fn.Pos()), core.FuncName(fn), "running total advances by the size reported by splitBatch", "the running total is not advanced by exactly the size splitBatch reported: later batches are apportioned to the wrong callers")
	// tuples
	type tup struct {
		al    *ssa.Alloc
		count ssa.Value
	}
	var tups []tup
	core.EachInstr(fn, func(i ssa.Instruction) {
		al, ok := i.(*ssa.Alloc)
		if !ok {
			return
		}
		named := core.NamedOf(al.Type())
		if named == nil || named.Obj().Pkg() == nil || named.Obj().Pkg().Path() != core.CBPPath || len(ctxFields(al.Type().(*types.Pointer).Elem())) == 0 {
			return
		}
		t := tup{al: al}
		for _, r := range core.Referrers(al) {
			fa, ok := r.(*ssa.FieldAddr)
			if !ok || !isInt(core.FieldVar(fa).Type()) {
				continue
			}
			for _, r2 := range core.Referrers(fa) {
				if s, ok := r2.(*ssa.Store); ok && s.Addr == ssa.Value(fa) {
					t.count = s.Val
				}
			}
		}
		if t.count != nil {
			tups = append(tups, t)
		}
	})
	isHeadCount := func(v ssa.Value) bool {
		fa := core.LoadedField(core.Strip(v))
		if fa == nil || core.FieldVar(fa) != numItemsF {
			return false
		}
		return strings.HasSuffix(core.AccessPath(fa.X), "."+pendingF.Name()+"[0]")
	}
	nPartial, nComplete := 0, 0
	// a complete arm may also record the head entry as it stands (a copy of pending[0]): its count is the head's count
	for k, cp := range headCopies(fn, pendingF) {
		nComplete++
		removed := false
		core.EachInstr(fn, func(i ssa.Instruction) {
			if s, ok := storesTo(i, pendingF); ok && (s.Block() == cp.Block() || core.Reachable(fn, cp, s)) {
				if sl, ok := s.Val.(*ssa.Slice); ok && (sl.High != nil || sl.Low != nil) {
					removed = true
				}
			}
		})
		// the copy carries the head's remaining count: nothing may have been taken off it on the way here
		c.Check(removed, fmt.Sprintf("complete#copy%d", k+1), p.Pos(cp.Pos()), core.FuncName(fn), "complete arm records a copy of the head entry and removes the head",
			"the complete arm records the head entry but does not remove it from the pending list: the same caller is answered again by the next batch")
	}
	for k, t := range tups {
		pos := p.Pos(t.al.Pos())
		if isHeadCount(t.count) {
			nComplete++
			// the head is removed on the way back to the loop: a store to the pending field shrinking it
			removed := false
			core.EachInstr(fn, func(i ssa.Instruction) {
				if s, ok := storesTo(i, pendingF); ok && (s.Block() == t.al.Block() || core.Reachable(fn, t.al, s)) {
					if sl, ok := s.Val.(*ssa.Slice); ok && (sl.High != nil || sl.Low != nil) {
						removed = true
					}
				}
			})
			c.Check(removed, fmt.Sprintf("complete#%d", k+1), pos, core.FuncName(fn), "complete arm records the head's full count and removes the head",
				"the complete arm records the head's count but does not remove the head from the pending list: the same caller is answered again by the next batch")
			continue
		}
		nPartial++
		// partial: count = convert(after - before); head.numItems -= same value
		okCount := false
		if b, ok := core.StripConv(t.count).(*ssa.BinOp); ok && b.Op == token.SUB && b.X == afterV {
			okCount = true
		}
		okDec := false
		core.EachInstr(fn, func(i ssa.Instruction) {
			s, ok := i.(*ssa.Store)
			if !ok {
				return
			}
			fa, ok := s.Addr.(*ssa.FieldAddr)
			if !ok || core.FieldVar(fa) != numItemsF || !strings.HasSuffix(core.AccessPath(fa.X), "."+pendingF.Name()+"[0]") {
				return
			}
			if b, ok := s.Val.(*ssa.BinOp); ok && b.Op == token.SUB && isHeadCount(b.X) && b.Y == t.count {
				okDec = true
			}
		})
		var msgs []string
		if !okCount {
			msgs = append(msgs, "the partial arm does not record after−before as the caller's share")
		}
		if !okDec {
			msgs = append(msgs, "the head entry's remaining count is not decreased by the very share that was recorded")
		}
		c.Check(len(msgs) == 0, fmt.Sprintf("partial#%d", k+1), pos, core.FuncName(fn), "partial arm records after−before and subtracts the same value from the head", strings.Join(msgs, "; "))
		// guard of the partial arm
		conds, g, cx, err := guardAtPos(p, t.al.Pos())
		if err != nil || cx {
			c.Undecided("partial|guard", pos, core.FuncName(fn), "path condition not recognised")
			continue
		}
		// roles: before / after are local variables: `after` is the object assigned
		// from totalSent + …; `before` the one assigned from totalSent alone.
		pk, file := p.FileOf(t.al.Pos())
		var beforeObj, afterObj types.Object
		if body := core.FuncBodyAt(file, fn.Pos()); body != nil {
			ast.Inspect(body, func(n ast.Node) bool {
				as, ok := n.(*ast.AssignStmt)
				if !ok || as.Tok != token.DEFINE || len(as.Lhs) != 1 || len(as.Rhs) != 1 {
					return true
				}
				id, ok := as.Lhs[0].(*ast.Ident)
				if !ok {
					return true
				}
				uses := false
				ast.Inspect(as.Rhs[0], func(x ast.Node) bool {
					if sel, ok := x.(*ast.SelectorExpr); ok {
						if s := pk.TypesInfo.Selections[sel]; s != nil && s.Obj() == types.Object(totalF) {
							uses = true
						}
					}
					return true
				})
				if !uses {
					return true
				}
				if _, isSel := as.Rhs[0].(*ast.SelectorExpr); isSel {
					beforeObj = pk.TypesInfo.Defs[id]
				} else {
					afterObj = pk.TypesInfo.Defs[id]
				}
				return true
			})
		}
		g.Roles = func(obj types.Object, e ast.Expr) (string, bool) {
			switch {
			case obj != nil && obj == beforeObj:
				return "before", true
			case obj != nil && obj == afterObj:
				return "after", true
			case obj == types.Object(numItemsF):
				return "n", true
			case obj == types.Object(pendingF):
				return "pending", true
			}
			return "", false
		}
		// `len(pending) > 0` is a defensive conjunct: while the sent batch has items left to apportion (before < after)
		// the list holds the entries those items came with (C06.7: one entry per received request, its count the growth
		// of the batch). The guard is compared on the valuations where that invariant holds, so that keeping or
		// dropping the defensive test makes no difference to the verdict.
		guardEnvAssume = func(env map[string]int64) bool { return env["len(pending)"] > 0 || env["before"] >= env["after"] }
		ok, w, n, err := compareGuard(g, conds, []string{"before", "after", "n", "len(pending)"}, []int64{0, 1, 2, 3}, func(env map[string]int64) bool {
			return env["len(pending)"] > 0 && env["before"] < env["after"] && env["before"]+env["n"] > env["after"]
		}, "equiv")
		guardEnvAssume = nil
		c.Stats["guard_valuations"] += n
		if err != nil {
			c.Undecided("partial|guard", pos, core.FuncName(fn), err.Error())
			continue
		}
		c.Check(ok, "partial|guard", pos, core.FuncName(fn), "partial arm taken iff pending≠∅ ∧ before<after ∧ before+head.numItems>after",
			"apportioning guard "+condString(conds)+" differs from 'before+n > after' at "+w+": a caller whose last item closes the batch keeps a zero-count entry and is answered with the next batch's outcome (or a caller is answered before all its items were sent)")
	}
	if nPartial == 0 || nComplete == 0 {
		c.Undecided("arms", p.Pos(fn.Pos()), core.FuncName(fn), fmt.Sprintf("expected a partial and a complete arm, found %d/%d", nPartial, nComplete))
	}

}

// headCopies returns the loads of the whole head entry pending[0] whose value is stored on (recorded as a contributor).
func headCopies(fn *ssa.Function, pendingF *types.Var) []*ssa.UnOp {
	var out []*ssa.UnOp
	core.EachInstr(fn, func(i ssa.Instruction) {
		u, ok := i.(*ssa.UnOp)
		if !ok || u.Op != token.MUL {
			return
		}
		if _, isStruct := u.Type().Underlying().(*types.Struct); !isStruct || len(ctxFields(u.Type())) == 0 {
			return
		}
		if _, isIdx := u.X.(*ssa.IndexAddr); !isIdx || !strings.HasSuffix(core.AccessPath(u.X), "."+pendingF.Name()+"[0]") {
			return
		}
		for _, r := range core.Referrers(u) {
			if st, ok := r.(*ssa.Store); ok && st.Val == ssa.Value(u) {
				out = append(out, u)
				return
			}
		}
	})
	return out
}

func c06_5(c *core.Ctx, p *core.Prog) {
	a := newCBPAnchors(p)
	if !a.ok(c) {
		return
	}
	m := a.more()
	if !m.ok(c) {
		return
	}
	fn := m.waitFn
	sel := m.waitSelect
	pos := p.Pos(sel.Pos())
	var ctxP, cntP *ssa.Parameter
	for _, pr := range fn.Params {
		if isCtx(pr.Type()) {
			ctxP = pr
		}
		if isInt(pr.Type()) {
			cntP = pr
		}
	}
	recvK, doneK := -1, -1
	for k, s := range sel.States {
		if s.Dir != types.RecvOnly {
			continue
		}
		if _, isP := s.Chan.(*ssa.Parameter); isP {
			recvK = k
		}
		if cl, ok := s.Chan.(*ssa.Call); ok && cl.Call.IsInvoke() && cl.Call.Method.Name() == "Done" && cl.Call.Value == ssa.Value(ctxP) {
			doneK = k
		}
	}
	if recvK < 0 || ctxP == nil || cntP == nil {
		c.Undecided("anchors", pos, core.FuncName(fn), "wait function shape not recognised")
		return
	}
	// (o) the waiter leaves only for its own outcome or its own context: no other arm
	{
		var other []string
		for k, st := range sel.States {
			if k == recvK || k == doneK {
				continue
			}
			other = append(other, fmt.Sprintf("%s on %s", map[types.ChanDir]string{types.RecvOnly: "receive", types.SendOnly: "send"}[st.Dir], core.AccessPath(st.Chan)))
		}
		if !sel.Blocking {
			other = append(other, "default arm")
		}
		c.Check(len(other) == 0, "wait|arms", pos, core.FuncName(fn),
			"the waiter waits for its responses and its own context only",
			"the waiter can stop waiting for a reason other than its responses or its own context ("+strings.Join(other, "; ")+"): it then reports something that is not the outcome of its items (they may still be exported successfully, or fail), and the export goroutines of its outstanding parts are left with nobody to answer")
	}
	recvArm, ok1 := selectArm(sel, recvK)
	// (i) countdown
	var dec *ssa.BinOp
	var cntPhi *ssa.Phi
	core.EachInstr(fn, func(i ssa.Instruction) {
		b, ok := i.(*ssa.BinOp)
		if !ok || b.Op != token.SUB {
			return
		}
		ph, ok := b.X.(*ssa.Phi)
		if !ok {
			return
		}
		isCnt := false
		for _, e := range ph.Edges {
			if e == ssa.Value(cntP) {
				isCnt = true
			}
		}
		if !isCnt {
			return
		}
		// Y: the int field of the received struct
		if fa := core.LoadedField(b.Y); fa != nil && isInt(core.FieldVar(fa).Type()) && core.DerivesFrom(fa.X, func(v ssa.Value) bool {
			e, ok := v.(*ssa.Extract)
			return ok && e.Tuple == ssa.Value(sel)
		}) {
			dec, cntPhi = b, ph
		}
	})
	fed := false
	if dec != nil {
		for _, e := range cntPhi.Edges {
			if e == ssa.Value(dec) {
				fed = true
			}
		}
	}
	c.Check(dec != nil && fed, "wait|countdown", pos, core.FuncName(fn), "the countdown is decreased by each received count", "the waiter's countdown is not decreased by the count of each received response (loop-carried): it returns too early or never")
	// (ii) return at zero
	if dec != nil && ok1 {
		var msgs []string
		n := 0
		for _, r := range core.Returns(fn) {
			if !core.EdgeGuards(fn, recvArm, r) {
				continue
			}
			n++
			guarded := false
			for _, b := range fn.Blocks {
				iff := core.IfOf(b)
				if iff == nil {
					continue
				}
				cmp, ok := iff.Cond.(*ssa.BinOp)
				if !ok || cmp.X != ssa.Value(dec) {
					continue
				}
				k, isC := core.ConstInt(cmp.Y)
				if !isC || k != 0 {
					continue
				}
				switch cmp.Op {
				case token.NEQ:
					guarded = guarded || core.GuardedBy(iff, false, r)
				case token.EQL, token.LEQ:
					guarded = guarded || core.GuardedBy(iff, true, r)
				case token.GTR:
					guarded = guarded || core.GuardedBy(iff, false, r)
				}
			}
			if !guarded {
				msgs = append(msgs, fmt.Sprintf("%s: returns on a response without the countdown having reached zero", p.Pos(r.Pos())))
			}
		}
		if n == 0 {
			msgs = append(msgs, "the waiter never returns after receiving responses")
		}
		c.Check(len(msgs) == 0, "wait|zero", pos, core.FuncName(fn), "returns on the response arm only when the countdown is zero", strings.Join(msgs, "; ")+": a waiter that leaves before all its parts were answered leaves the export goroutines of the remaining parts blocked on its one-slot channel (its context is still alive), so goroutines and semaphore slots leak and Shutdown hangs")
	}
	if c.Property == "C11" {
		return // the error-join and context-arm clauses are about the outcome (C06), not about goroutines
	}
	// (iii) error join is loop-carried
	var errPhi *ssa.Phi
	var join *ssa.Call
	core.EachInstr(fn, func(i ssa.Instruction) {
		cl, ok := i.(*ssa.Call)
		if !ok {
			return
		}
		if f := core.CalleeObj(cl); !core.IsPkgFunc(f, "errors", "Join") {
			return
		}
		// arguments include the received value?
		hasRecv := false
		core.BackSlice(cl.Call.Args[0], func(v ssa.Value) bool {
			switch x := v.(type) {
			case *ssa.Phi, *ssa.Call:
				return false // only the direct arguments of this Join
			case *ssa.Extract:
				if x.Tuple == ssa.Value(sel) {
					hasRecv = true
				}
				return false
			}
			return true
		})
		if !hasRecv {
			return
		}
		join = cl
		core.BackSlice(cl.Call.Args[0], func(v ssa.Value) bool {
			if ph, ok := v.(*ssa.Phi); ok && isErr(ph.Type()) && ph.Block() == sel.Block() {
				errPhi = ph
				return false
			}
			if _, ok := v.(*ssa.Extract); ok {
				return false
			}
			return true
		})
	})
	switch {
	case join == nil:
		c.Viol("wait|join", pos, core.FuncName(fn), "a failed response is not joined into the waiter's result: export failures are reported as success")
	case errPhi == nil:
		c.Viol("wait|join", p.Pos(join.Pos()), core.FuncName(fn), "the error accumulator is not carried from one response to the next: only the outcome of the last response is reported, an earlier failed export is forgotten")
	default:
		carried := false
		for _, e := range errPhi.Edges {
			if core.DerivesFrom(e, func(v ssa.Value) bool { return v == ssa.Value(join) }) {
				carried = true
			}
		}
		returned := false
		for _, r := range core.Returns(fn) {
			if ok1 && core.EdgeGuards(fn, recvArm, r) && core.DerivesFrom(r.Results[0], func(v ssa.Value) bool { return v == ssa.Value(join) }) {
				returned = true
			}
		}
		c.Check(carried && returned, "wait|join", p.Pos(join.Pos()), core.FuncName(fn), "failed responses are joined into a loop-carried accumulator that is returned",
			"the joined error is not both carried to the next iteration and returned: some failed export is not reported to the caller")
		// the join happens whenever the response carries an error
		joinedWhenErr := true
		for _, b := range fn.Blocks {
			iff := core.IfOf(b)
			if iff == nil {
				continue
			}
			cmp, ok := iff.Cond.(*ssa.BinOp)
			if !ok || cmp.Op != token.NEQ || !core.IsNilConst(cmp.Y) || !isErr(cmp.X.Type()) {
				continue
			}
			if !core.GuardedBy(iff, true, join) {
				continue
			}
			_ = b
		}
		// a path from the receive arm to the loop head / return that avoids the join must take the `err == nil` edge
		cut := map[core.Edge]bool{}
		for _, b := range fn.Blocks {
			iff := core.IfOf(b)
			if iff == nil {
				continue
			}
			cmp, ok := iff.Cond.(*ssa.BinOp)
			if !ok || !core.IsNilConst(cmp.Y) || !isErr(cmp.X.Type()) {
				continue
			}
			if fa := core.LoadedField(cmp.X); fa == nil || !core.DerivesFrom(fa.X, func(v ssa.Value) bool {
				e, ok := v.(*ssa.Extract)
				return ok && e.Tuple == ssa.Value(sel)
			}) {
				continue
			}
			if cmp.Op == token.NEQ {
				cut[core.Edge{From: b, To: b.Succs[1]}] = true
			} else if cmp.Op == token.EQL {
				cut[core.Edge{From: b, To: b.Succs[0]}] = true
			}
		}
		if ok1 {
			first := recvArm.To.Instrs[0]
			avoid := func(i ssa.Instruction) bool { return i == ssa.Instruction(join) }
			if ok, _ := (core.PathQuery{Fn: fn, From: first, To: sel, Avoid: avoid, CutEdges: cut}).Exists(); ok {
				joinedWhenErr = false
			}
			if ok, _ := (core.PathQuery{Fn: fn, From: first, Avoid: avoid, CutEdges: cut, ExitReturnOnly: true}).Exists(); ok {
				joinedWhenErr = false
			}
		}
		c.Check(joinedWhenErr, "wait|join-when-err", p.Pos(join.Pos()), core.FuncName(fn), "every response carrying an error is joined", "a response carrying an error can pass without being joined into the result")
	}
	// (iv) ctx arm
	if doneK < 0 {
		c.Viol("wait|ctx", pos, core.FuncName(fn), "the waiter does not watch the caller's ctx.Done(): a cancelled caller keeps waiting")
	} else if arm, ok := selectArm(sel, doneK); ok {
		okAll, n := true, 0
		for _, r := range core.Returns(fn) {
			if !core.EdgeGuards(fn, arm, r) {
				continue
			}
			n++
			hasCtxErr := core.DerivesFrom(r.Results[0], func(v ssa.Value) bool {
				cl, ok := v.(*ssa.Call)
				return ok && cl.Call.IsInvoke() && cl.Call.Method.Name() == "Err" && cl.Call.Value == ssa.Value(ctxP)
			})
			if !hasCtxErr {
				okAll = false
			}
		}
		c.Check(okAll && n > 0, "wait|ctx", pos, core.FuncName(fn), "the ctx.Done() arm returns (an error wrapping) ctx.Err()", "the ctx.Done() arm of the waiter does not return the caller's context error")
	}
}

func c06_6(c *core.Ctx, p *core.Prog) {
	a := newCBPAnchors(p)
	if !a.ok(c) {
		return
	}
	m := a.more()
	if !m.ok(c) {
		return
	}
	t := m.countedErr
	var unwrap *ssa.Function
	for _, tt := range []types.Type{t, types.NewPointer(t)} {
		ms := p.SSA.MethodSets.MethodSet(tt)
		for i := 0; i < ms.Len(); i++ {
			f := ms.At(i).Obj().(*types.Func)
			if f.Name() == "Unwrap" && sigIs(f, nil, []tp{isErr}) {
				if mv := p.SSA.MethodValue(ms.At(i)); mv != nil && (unwrap == nil || mv.Synthetic == "") {
					unwrap = mv
				}
			}
		}
	}
	pos := p.Pos(t.Obj().Pos())
	if unwrap == nil {
		c.Viol("unwrap", pos, t.Obj().Name(), "the counted error has no Unwrap() error: errors.Is/As on the value returned to the caller cannot reach the export error (e.g. permanent errors are not recognised)")
		return
	}
	ok := true
	for _, r := range core.Returns(unwrap) {
		v := r.Results[0]
		isField := false
		if f, isF := v.(*ssa.Field); isF && isErr(f.Type()) {
			isField = true
		}
		if fa := core.LoadedField(v); fa != nil && isErr(core.FieldVar(fa).Type()) {
			isField = true
		}
		if !isField {
			ok = false
		}
	}
	c.Check(ok, "unwrap", p.Pos(unwrap.Pos()), core.FuncName(unwrap), "Unwrap returns the wrapped export error", "Unwrap does not return the wrapped export error")
}

func c06_7(c *core.Ctx, p *core.Prog) {
	a := newCBPAnchors(p)
	if !a.ok(c) {
		return
	}
	m := a.more()
	if !m.ok(c) {
		return
	}
	fn := m.processFn
	st := core.FlatStruct(a.shard)
	var pendingF *types.Var
	for i := 0; i < st.NumFields(); i++ {
		f := st.Field(i)
		if sl, ok := f.Type().Underlying().(*types.Slice); ok && len(ctxFields(sl.Elem())) > 0 {
			pendingF = f
		}
	}
	if pendingF == nil || len(fn.Params) < 2 {
		c.Undecided("anchors", p.Pos(fn.Pos()), core.FuncName(fn), "pending list not resolved")
		return
	}
	item := fn.Params[len(fn.Params)-1]
	// the append store
	isAppendStore := func(i ssa.Instruction) bool {
		s, ok := storesTo(i, pendingF)
		if !ok {
			return false
		}
		cl, ok := s.Val.(*ssa.Call)
		if !ok {
			return false
		}
		b, ok := cl.Call.Value.(*ssa.Builtin)
		return ok && b.Name() == "append" && isFieldLoad(cl.Call.Args[0], pendingF)
	}
	var app *ssa.Store
	napp := 0
	core.EachInstr(fn, func(i ssa.Instruction) {
		if isAppendStore(i) {
			app = i.(*ssa.Store)
			napp++
		}
	})
	pos := p.Pos(fn.Pos())
	if napp != 1 {
		c.Viol("entry|append", pos, core.FuncName(fn), fmt.Sprintf("the item handler appends %d pending entries (expected exactly one per received request)", napp))
		return
	}
	every := core.MustPassBetween(fn, nil, nil, func(i ssa.Instruction) bool { return i == ssa.Instruction(app) })
	// no path appends twice
	c.Check(every, "entry|append", p.Pos(app.Pos()), core.FuncName(fn), "every path of the item handler appends one pending entry for the request",
		"a path through the item handler records no pending entry for the request (e.g. merges it into another caller's entry): its waiter is answered under another caller's entry / context, or never")
	// fields of the appended entry
	var msgs []string
	var ctxOK, chOK, cntOK bool
	core.BackSlice(app.Val, func(v ssa.Value) bool {
		al, ok := v.(*ssa.Alloc)
		if !ok {
			return true
		}
		named := core.NamedOf(al.Type())
		if named == nil || len(ctxFields(al.Type().(*types.Pointer).Elem())) == 0 {
			return true
		}
		// the entry may be the received request's own contributor record, taken over as a whole (a struct parameter, or
		// a copy of one) with only the count overwritten: context and channel are then the request's unless stored again
		wholeFromItem, ctxStored, chStored := false, false, false
		for _, r := range core.Referrers(al) {
			if s, ok := r.(*ssa.Store); ok && s.Addr == ssa.Value(al) && core.DerivesFrom(s.Val, func(x ssa.Value) bool { return x == ssa.Value(item) }) {
				wholeFromItem = true
			}
		}
		defer func() {
			if wholeFromItem {
				if !ctxStored {
					ctxOK = true
				}
				if !chStored {
					chOK = true
				}
			}
		}()
		for _, r := range core.Referrers(al) {
			fa, ok := r.(*ssa.FieldAddr)
			if !ok {
				continue
			}
			for _, r2 := range core.Referrers(fa) {
				s, ok := r2.(*ssa.Store)
				if !ok || s.Addr != ssa.Value(fa) {
					continue
				}
				fv := core.FieldVar(fa)
				if isCtx(fv.Type()) {
					ctxStored = true
				}
				if chanElem(fv.Type()) != nil {
					chStored = true
				}
				fromItem := core.DerivesFrom(s.Val, func(x ssa.Value) bool { return x == ssa.Value(item) })
				switch {
				case isCtx(fv.Type()):
					ctxOK = fromItem && isCtx(s.Val.Type())
				case chanElem(fv.Type()) != nil:
					chOK = fromItem
				case isInt(fv.Type()):
					// after - before around add
					if b, ok := s.Val.(*ssa.BinOp); ok && b.Op == token.SUB {
						x, okx := b.X.(*ssa.Call)
						y, oky := b.Y.(*ssa.Call)
						if okx && oky && x.Call.IsInvoke() && y.Call.IsInvoke() && x.Call.Method == a.mCount && y.Call.Method == a.mCount {
							// add lies between them
							var add ssa.Instruction
							core.EachInstr(fn, func(i ssa.Instruction) {
								if invokes(i, a.mAdd) {
									add = i
								}
							})
							if add != nil && core.Reachable(fn, y, add) && core.Reachable(fn, add, x) {
								cntOK = true
							}
						}
					}
				}
			}
		}
		return false
	})
	if !ctxOK {
		msgs = append(msgs, "the entry's context is not the received request's context")
	}
	if !chOK {
		msgs = append(msgs, "the entry's response channel is not the received request's channel")
	}
	if !cntOK {
		msgs = append(msgs, "the entry's count is not itemCount() after add minus itemCount() before add")
	}
	c.Check(len(msgs) == 0, "entry|fields", p.Pos(app.Pos()), core.FuncName(fn), "the entry carries the request's own context and channel and the growth of the batch", strings.Join(msgs, "; "))
	// who may write pending entries: only the send function (decrement / removal)
	var extra []string
	for _, f := range cbpFuncs(c, p) {
		if f == a.sendFn || f == a.apportionFn() || core.IsCanaryPath(core.FnPkgPath(f)) {
			continue
		}
		core.EachInstr(f, func(i ssa.Instruction) {
			s, ok := i.(*ssa.Store)
			if !ok {
				return
			}
			if i == ssa.Instruction(app) {
				return
			}
			path := core.AccessPath(s.Addr)
			if strings.Contains(path, "."+pendingF.Name()+"[") || (func() bool { _, ok := storesTo(i, pendingF); return ok })() {
				extra = append(extra, fmt.Sprintf("%s (%s)", p.Pos(s.Pos()), core.FuncName(f)))
			}
		})
	}
	c.Check(len(extra) == 0, "entry|writers", pos, core.FuncName(fn), "pending entries are written only by the item handler's append and the apportioning loop",
		"pending entries are modified outside the append and the apportioning loop: "+strings.Join(extra, ", ")+" — an entry no longer describes exactly one request")
}

// c06_11 (= C18.10): the pending list stays in arrival order.
func c06_11(c *core.Ctx, p *core.Prog) {
	a := newCBPAnchors(p)
	if !a.ok(c) {
		return
	}
	fn := a.apportionFn()
	st := core.FlatStruct(a.shard)
	var pendingF *types.Var
	for i := 0; i < st.NumFields(); i++ {
		f := st.Field(i)
		if sl, ok := f.Type().Underlying().(*types.Slice); ok && len(ctxFields(sl.Elem())) > 0 {
			pendingF = f
		}
	}
	if pendingF == nil || fn == nil {
		c.Undecided("anchors", "?", "", "pending list not resolved")
		return
	}
	pendElem := pendingF.Type().Underlying().(*types.Slice).Elem()
	// the list stays in arrival order: the only whole entries written into it here are zero values (the slot
	// vacated by the shift); moving an entry to another position (filling the hole with the last entry) makes
	// the next batch be apportioned to a caller whose items are still queued
	var moved []string
	core.EachInstr(fn, func(i ssa.Instruction) {
		s, ok := i.(*ssa.Store)
		if !ok {
			return
		}
		ia, ok := s.Addr.(*ssa.IndexAddr)
		if !ok || !isFieldLoad(ia.X, pendingF) || !types.Identical(s.Val.Type(), pendElem) {
			return
		}
		zero := false
		if ld, ok := s.Val.(*ssa.UnOp); ok && ld.Op == token.MUL {
			if al, ok := ld.X.(*ssa.Alloc); ok {
				zero = true
				for _, r := range core.Referrers(al) {
					if r != ssa.Instruction(ld) {
						if _, isDbg := r.(*ssa.DebugRef); !isDbg {
							zero = false
						}
					}
				}
			}
		}
		if cst, ok := s.Val.(*ssa.Const); ok && cst.Value == nil {
			zero = true
		}
		if !zero {
			moved = append(moved, p.Pos(s.Pos()))
		}
	})
	c.Check(len(moved) == 0, "order", p.Pos(fn.Pos()), core.FuncName(fn), "no entry is moved to another position of the pending list (only the vacated slot is zeroed)",
		fmt.Sprintf("an entry of the pending list is overwritten with another entry (%v): the list is no longer in arrival order, while batches are cut from the front of the buffer — the next batch's outcome (and trace link) goes to a caller whose items were not in it", moved))
}

func init() {
	register("C06", &core.Rule{ID: "C06.11", Title: "the pending list stays in arrival order (no entry is moved to another position)", Mod: core.ModCBP, Floor: 1, Run: c06_11})
	register("C18", &core.Rule{ID: "C18.10", Title: "the pending list stays in arrival order (each batch is apportioned, and linked, to the callers whose items are in it)", Mod: core.ModCBP, Floor: 1, Run: c06_11})
}
