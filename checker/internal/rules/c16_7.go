package rules

import (
	"fmt"
	"go/types"
	"strings"

	"golang.org/x/tools/go/ssa"

	"otelcheck/internal/core"
)

// C16.7 a function value handed out carries no live object of its maker. A closure that a
// function returns (a functional option, a factory) is applied once per instance it configures
// or builds; whatever it captured is the same for every application. Captured *values*
// (numbers, strings, the caller's own configuration) are fine; a mutable repository object or a
// stateful library object that the maker itself created and the closure captured is one object
// behind every instance built with that function value: instances that look independent share
// it (a per-consumer memory limit becomes an aggregate one, and concurrent use is a data race).

const c16_7Canary = `package c

type meter struct{ inuse int }

func (m *meter) add(n int) { m.inuse += n }

type conf struct {
	limit int
	m     *meter
}

type option func(*conf)

// BadWithLimit: the meter is created once, when the option is made, and captured.
func BadWithLimit(n int) option {
	m := &meter{}
	return func(c *conf) { c.limit = n; c.m = m }
}

// GoodWithLimit: the option carries the number; each application builds its own meter.
func GoodWithLimit(n int) option {
	return func(c *conf) { c.limit = n; c.m = &meter{} }
}

func use(c *conf) { c.m.add(1) }

var _ = use
`

func c16_7(c *core.Ctx, p *core.Prog) {
	fns := rootFuncs(c, p)
	mut := mutableStructs(fns)
	statefulT := func(t types.Type) string {
		pt, ok := types.Unalias(t).(*types.Pointer)
		if !ok {
			return ""
		}
		n := core.NamedOf(pt.Elem())
		if n == nil || n.Obj().Pkg() == nil {
			return ""
		}
		pp := n.Obj().Pkg().Path()
		if core.InRepo(pp) || core.IsCanaryPath(pp) {
			if f, isMut := mut[n.Obj()]; isMut {
				return fmt.Sprintf("%s (its field %s is written after construction)", n.Obj().Name(), f)
			}
			return ""
		}
		switch {
		case pp == "sync" || pp == "sync/atomic":
			return pp + "." + n.Obj().Name()
		case strings.HasPrefix(pp, core.ArrowPath) && !strings.Contains(pp, "/memory"), strings.HasPrefix(pp, "go.opentelemetry.io/"), pp == "errors", pp == "fmt", pp == "regexp", pp == "time", pp == "reflect":
			return ""
		}
		if _, isStruct := n.Underlying().(*types.Struct); isStruct && types.NewMethodSet(types.NewPointer(n)).Len() > types.NewMethodSet(n).Len() {
			return pp + "." + n.Obj().Name()
		}
		return ""
	}
	for _, fn := range fns {
		if isInitFn(fn) {
			continue
		}
		k := 0
		for _, r := range core.Returns(fn) {
			for _, res := range r.Results {
				mc, ok := core.Strip(res).(*ssa.MakeClosure)
				if !ok {
					continue
				}
				k++
				key := fmt.Sprintf("closure#%d@%s", k, core.FuncName(fn))
				var bad []string
				for bi, b := range mc.Bindings {
					// the captured variable's cell: every value stored into it by the maker
					vals := []ssa.Value{b}
					if al, ok := b.(*ssa.Alloc); ok {
						vals = nil
						for _, ref := range *al.Referrers() {
							if st, ok := ref.(*ssa.Store); ok && st.Addr == ssa.Value(al) {
								vals = append(vals, st.Val)
							}
						}
					}
					for _, v := range vals {
						what := statefulT(v.Type())
						if what == "" || !freshValue(core.Strip(v), 0) {
							continue
						}
						name := ""
						if f, ok := mc.Fn.(*ssa.Function); ok && bi < len(f.FreeVars) {
							name = f.FreeVars[bi].Name()
						}
						bad = append(bad, fmt.Sprintf("%s, a %s created by %s itself", name, what, fn.Name()))
					}
				}
				c.Check(len(bad) == 0, key, p.Pos(mc.Pos()), core.FuncName(fn), "the returned function value captures no live object made by "+fn.Name(),
					fmt.Sprintf("the function value %s returns captures %s: every instance configured or built with that one value shares the object — two consumers/producers that look independent account, limit and mutate through the same state, and using them from two goroutines is a data race", fn.Name(), strings.Join(bad, "; ")))
			}
		}
	}
}

func init() {
	register("C16", &core.Rule{ID: "C16.7", Title: "a returned function value (functional option, factory) captures no live mutable object created by its maker", Mod: core.ModRoot, Floor: 5, Run: c16_7, Canary: c16_7Canary})
	register("C16", &core.Rule{ID: "C16.8", Title: "payload bytes handed out are a fresh copy: the producer's reusable output buffer is not shared with whoever holds an earlier batch", Mod: core.ModRoot, Floor: 4, Run: c12_6})
	register("C14", &core.Rule{ID: "C14.15", Title: "the limited allocator is not shared through a returned function value: the limit is per consumer", Mod: core.ModRoot, Floor: 5, Run: c16_7, Canary: c16_7Canary})
}
